"""C18 — network canonical form is a complete invariant; automorphism data are exact.

What is compared on every run (both views, stoichiometry on/off, node keys kind / kind+label):

0. *view*: the graph the back-end builds (`_CRNGraphBackend.G`) == the model's `viewOf` (all node
   and arc attributes; sets and per-id maps compared as sets / dicts);
1. *canonical graph*: `summary()["canon_graph"]` == `canonBy view canonical_perm` and
   `canonical_perm` lists every node once (ids 1..N); the specification `isoDecideD view canon`
   (Lean, on the configured keys) is evaluated on what the implementation returned; same
   faithfulness gate for the WL canonicaliser's graph;
2. *kernel agreement*: inside a family of networks (renamings, reaction orders, regenerated ids,
   near misses) two members receive identical canonical graphs (on the configured keys) exactly
   when the Lean engine says their views are isomorphic;
3. *automorphism data*: count, set of automorphism mappings and orbit partition of
   `CRNCanonicalizer` and of `CRNAutomorphism` (`summary()`, `orbits()`,
   `has_nontrivial_automorphism()`) == `autCountD` / `allIsoD view view` / `orbitsD`; reported
   orbit lists must be partitions (no empty, repeated or overlapping class).

4. *determinism / cache transparency*: the same object asked again and a fresh object give the
   same canonical graph and count; the search run with `id()` (as seen by canon.py, which keys its
   refinement cache by `id()` of a dead temporary) replaced by a never-repeating counter and by a
   constant gives the same canonical graph — both are legal allocator behaviours.

5. *history independence* (stream `history`): one `CRNHyperGraph` object is analysed, edited in place
   through its public API (a reaction removed and added again under the same id with other content,
   `remove_species(prune_orphans=False)`, coefficients / rule of a stored reaction changed directly,
   reactions added / removed, copies forked off and edited), analysed again by NEW helper objects —
   possibly several times, under interleaved option sets (stoichiometry / view type / attribute keys flipped
   relative to the final query, with or without an edit in between), through the classes and through the
   functional wrappers, in varying order — and the last analysis is gated exactly like a fresh
   network: against the Lean model of the CURRENT content (the model is pure, it never sees the
   history) and, through kernel agreement, against a freshly built identical network and against the
   starting network.  Helper objects created before an edit and asked again afterwards must describe
   either the network they were created on (their view is documented as cached) or the current one.
   Analyses must leave the network's content untouched.

6. *IR correspondence* (stream `ir`, last): the executable model `SynKitModel/CrnIR.lean` of `CRNCanonicalizer`'s
   individualisation-refinement search (theorems `crn_refine_equivariant` ... `C18.ir_full`) is tied to canon.py stage by stage, on
   the graph the back-end built, node ids interned in `sorted(G.nodes())` order: (a) `_init_part`; (b) `_refine` of it and of two probe
   partitions, `_sig` on random (node, partition); (c) every leaf of the real search (observed through a subclass whose `_search` /
   `_label` only record and delegate): same (prefix, permutation) pairs in the same visiting order, and the equality pattern of the
   label STRINGS equals that of the model's structured labels; (d) `canonical_perm` is the first leaf with the least string label,
   `sample_permutations` are exactly the least-label leaves, count and orbits equal the model's.  Python orders rendered strings, the
   model structured labels (the theorems hold for every strict total label order): item-by-item equality of the final order / perms with
   the model is gated only where the two orders coincide (one Python type per key, no rendering a proper prefix of another, order of
   renderings = order of values: e.g. coefficients <= 9).  A stage mismatch is re-examined on the network and 8 renamed copies by the
   gates 0-3 above: if the property itself is violated that input is reported, otherwise the break is reported without input.

7. *option variation* (configurations CONFIGS_I / CONFIGS_K, `<name>@api`): every gate above also under integer node ids
   (`integer_ids=True`; the node each integer stands for is read off the graph's own attributes, not assumed from the
   documented numbering; the Lean side interns node ids anyway) and under non-default key selections (more keys, keys nobody
   carries, node keys among the arc keys and vice versa, a set-valued arc attribute, no keys at all); `ids-flipped` analyses
   inside histories.  Configurations `<name>@api` add the rest of the public surface on the same network: limits that are not
   reached (`max_depth=N+1`, `timeout_sec=1e6`, `max_count=count+1`), default limits (gated only when the call returned within
   CLOCK_SLACK seconds and the count is below the default `max_count`), tight limits (`max_depth=0..3`: every such answer — RuntimeError, early_stop, and where the label order allows canonical_perm /
   sample_permutations / count — is the depth-capped model's, driver command `crn.irCapped`; `max_count=count-1`),
   the wrappers `canonical` / `detect_automorphisms` / `wl_canonical`, `orbits()` / `graph()` / `has_nontrivial_automorphism()` /
   `iter()`, key selections given as lists, seven WL option sets.  Gates: an answer that reports no early stop is the exact one
   (count, orbit partition, mapping set == Lean specification; canonical graph == the one of the unlimited query); where no limit
   can have been reached an early stop must not be reported; every WL graph is isomorphic to the view (Lean `isoDecideD`).

8. *rare but legal names* (stream `odd-names`): species / rules / reaction ids that are numeric strings, contain the separators of
   the label rendering, are names of attribute keys or kinds, are blank, long or non-ASCII.

9. *limits that are reached, one-shot key iterables, dict-valued keys* (coverage-driven; configurations `<name>@api` and stream
   `dict-keys`): (a) the module-level name `time` of canon.py / automorphism.py is bound to a clock that advances one second per reading
   (a slow machine), `timeout_sec` = 0.5 / 2.5 / 5.5: `CRNCanonicalizer.summary` / `canonical` may raise RuntimeError or report `early_stop`,
   `CRNAutomorphism.summary` may report `stopped_early`; an answer WITHOUT that flag must be the exact one.  `CRNAutomorphism.iter(max_count=k)`
   for k = 1, count-1, count, count+1 yields min(k, count) pairwise different structure-preserving self-maps; `iter` / `orbits` /
   `has_nontrivial_automorphism` under a reached time or count limit carry no completeness flag and are gated for soundness only (yielded maps
   are self-maps of the specification, orbit classes lie inside the specification's orbits and partition the nodes, `True` only if a
   non-identity self-map exists).  (b) `node_attr_keys` / `edge_attr_keys` given as one-shot iterators (documented type Iterable[str]) to the
   three classes: same gates as with tuples.  (c) configurations CONFIGS_D select the dict-valued arc attributes `stoich_r_map` / `stoich_p_map`
   and the id set `via` of the species view (values travel as sorted pair lists; the Lean engine compares them as values): every gate above.
   NEW FINDING, class `dict_valued_arc_key_orders_by_node_name`: `_freeze` turns a dict into a frozenset, frozensets are partially ordered,
   `sorted()` of refinement signatures that contain them keeps the insertion (node name) order -> networks that differ by a species renaming
   get different canonical graphs (A>>B, B>>A vs B>>A, A>>B under edge_attr_keys=("stoich_r_map",)).  Only the kernel gate "isomorphic views
   receive different canonical graphs" under a configuration with a dict-valued key carries the class; every other gate stays unclassified.

10. *sizes beyond CPython's small-int cache* (streams `big`, `beyond-small-int-cache`; ints -5..256 are shared objects, `is` and `==` on ints
   differ only above): (a) views of 258..266 nodes (one family of twice that size in the thorough tier), string and integer node ids, with a
   PLANTED symmetry group: a linear pathway ending in k interchangeable products (S_k), a pathway with twin side products at several steps
   (Z2^t), two identical chains on one hub (Z2, moves every node but the hub), a hub with chains of pairwise different lengths and one or two
   repeated lengths (refinement depth ~ 20 instead of ~ 260), a hub with spokes of pairwise different coefficients 200, 201, ... and k spokes of
   one coefficient; each with renamed / reordered / re-identified copies and a one-coefficient near miss.  The enumerating Lean engine does not
   answer on such views (crn.analyse / crn.iso: 30 s at 42 nodes; crn.ir: > 300 s at 264), so Lean only CHECKS certificates there:
   `crn.view` (the back-end's graph is the model's view), `crn.checkMaps` (every planted generator is a structure-preserving self-map; a sample of
   the reported mappings; the planted bijection between two family members), `crn.canonBy` (canonical_perm is an order of the nodes and the
   canonical graph is the view relabelled along it).  Lower bounds from the planted group (count >= its order, planted classes inside orbits), upper
   bounds from colour refinement of the model's view along a stabiliser chain (harness side: count <= U, orbits inside root cells); they meet on
   every generated family, so count, mapping set and orbit partition are determined; reported orbits must partition the nodes in any case.
   (b) small views, full model: networks with 720 automorphisms (positions in the list of least-label leaves / VF2 mappings beyond 256) and random
   networks with coefficients 257 / 300 / 1000 / 65536 / 10**12, equal coefficients being different int objects.

A network in which a species label equals a reaction id is classified `species_label_is_edge_id`
(finding F19: the un-prefixed string ids of the bipartite view collide; not with integer ids, where every gate applies).
The network without species under an EMPTY node key list (F39: `_search` raised StopIteration, repaired in /repo 69924ec) is gated like any other.
"""
import itertools
import json

from ..core import ROOT, build_and_audit

THEOREMS = [
    "SynKit.CrnCanon.mem_allIsoD",
    "SynKit.CrnCanon.allIsoD_nodup",
    "SynKit.CrnCanon.isoDecideD_iff",
    "SynKit.CrnCanon.canon_faithful",
    "SynKit.CrnCanon.canon_kernel",
    "SynKit.CrnCanon.canonBruteD_invariant",
    "SynKit.CrnCanon.canonBruteD_complete",
    "SynKit.CrnCanon.autcount_spec",
    "SynKit.CrnCanon.orbits_partition_exact",
    "SynKit.CrnCanon.orbitsUF_spec",
    "SynKit.CrnCanon.orbitsUF_auts",
    "SynKit.CrnCanon.canon_equivariant",
    "SynKit.CrnCanon.views_wfd",
    "SynKit.CrnCanon.viewBip_iso_of_sameUpToNames",
    "SynKit.CrnCanon.viewSpecies_iso_of_sameUpToNames",
    "SynKit.CrnCanon.canonBruteD_sameUpToNames_bip",
    "SynKit.CrnCanon.canonBruteD_sameUpToNames_species",
    "SynKit.CrnCanon.orbitsFast_eq",
    "SynKit.CrnCanon.C18.full",
    "SynKit.CrnCanon.crn_refine_equivariant",
    "SynKit.CrnCanon.crn_ir_leaves_equivariant",
    "SynKit.CrnCanon.crn_ir_result_spec",
    "SynKit.CrnCanon.crn_ir_fuel_adequate",
    "SynKit.CrnCanon.crn_ir_tie",
    "SynKit.CrnCanon.crn_ir_invariant_anyOrder",
    "SynKit.CrnCanon.crn_ir_invariant",
    "SynKit.CrnCanon.crn_ir_faithful",
    "SynKit.CrnCanon.crn_ir_complete",
    "SynKit.CrnCanon.views_attrOK",
    "SynKit.CrnCanon.crn_ir_sameUpToNames_bip",
    "SynKit.CrnCanon.crn_ir_sameUpToNames_species",
    "SynKit.CrnCanon.crn_ir_orbits_anyOrder",
    "SynKit.CrnCanon.crn_ir_orbits",
    "SynKit.CrnCanon.C18.ir_full",
    "SynKit.CrnCanon.crn_ir_empty_no_keys",
    "SynKit.CrnCanon.crnDepth_spec",
    "SynKit.CrnCanon.crn_irCapped_exact",
    "SynKit.CrnCanon.crn_irCapped_full",
    "SynKit.CrnCanon.crn_irCapped_flag_sound",
    "SynKit.CrnCanon.crn_irCapped_partial_is_leaf",
]

F19 = "species_label_is_edge_id"
DICTKEY = "dict_valued_arc_key_orders_by_node_name"
KERNEL_ISO_DIFFERENT = "networks whose views are isomorphic (renaming / reaction order / ids) receive different canonical graphs"

CONFIGS = [
    {"name": "bip+stoich", "bip": True, "stoich": True, "nk": ["kind"], "ek": ["role", "stoich"]},
    {"name": "bip-stoich", "bip": True, "stoich": False, "nk": ["kind"], "ek": ["role", "stoich"]},
    {"name": "species+stoich", "bip": False, "stoich": True, "nk": ["kind"], "ek": ["stoich_r", "stoich_p"]},
    {"name": "species-stoich", "bip": False, "stoich": False, "nk": ["kind"], "ek": ["role", "stoich"]},
    {"name": "bip+stoich+label", "bip": True, "stoich": True, "nk": ["kind", "label"], "ek": ["role", "stoich"]},
]
# option-variation configurations (permuted key lists, more node keys); used by the history stream and on the symmetric families
CONFIGS_X = [
    {"name": "bip+stoich/keys-permuted", "bip": True, "stoich": True, "nk": ["kind"], "ek": ["stoich", "role"]},
    {"name": "species+stoich+label/keys-permuted", "bip": False, "stoich": True, "nk": ["label", "kind"], "ek": ["stoich_p", "stoich_r"]},
]
# integer node ids (`integer_ids=True`: species 1..N, reactions N+1..N+M in the bipartite view; no effect on the species view).
# The specification side is the same Lean model: node ids are interned before they reach it, whatever their Python type.
CONFIGS_I = [
    {"name": "bip+stoich/int-ids", "bip": True, "stoich": True, "nk": ["kind"], "ek": ["role", "stoich"], "int": True},
    {"name": "bip-stoich/int-ids", "bip": True, "stoich": False, "nk": ["kind"], "ek": ["role", "stoich"], "int": True},
    {"name": "bip+stoich+label/int-ids/keys-permuted", "bip": True, "stoich": True, "nk": ["label", "kind"], "ek": ["stoich", "role"], "int": True},
    {"name": "species+stoich/int-ids", "bip": False, "stoich": True, "nk": ["kind"], "ek": ["stoich_r", "stoich_p"], "int": True},
]
# non-default key selections: more keys than the defaults, keys no node / arc carries, keys that exist on the other kind of
# element only (a node key among the arc keys and vice versa), set-valued arc attributes, no keys at all (bare structure)
CONFIGS_K = [
    {"name": "bip+stoich/more-keys", "bip": True, "stoich": True, "nk": ["kind", "label", "bipartite"], "ek": ["role", "stoich", "absent"]},
    {"name": "bip+stoich/crossed-keys", "bip": True, "stoich": True, "nk": ["stoich", "kind", "role"], "ek": ["kind", "role", "label", "stoich"]},
    {"name": "bip+stoich/no-keys", "bip": True, "stoich": True, "nk": [], "ek": []},
    {"name": "bip-stoich/role-only/int-ids", "bip": True, "stoich": False, "nk": ["kind"], "ek": ["role"], "int": True},
    {"name": "species+stoich/rules", "bip": False, "stoich": True, "nk": ["kind"], "ek": ["rules", "stoich_r", "stoich_p"]},
    {"name": "species/node-keys-only", "bip": False, "stoich": True, "nk": ["kind", "label"], "ek": []},
]


# dict-valued arc attributes of the species view among the keys (`stoich_r_map` / `stoich_p_map`: {reaction id -> coefficient}; `_freeze`
# of canon.py / wl_canon.py turns a dict into a frozenset / tuple of items) and the id-set `via`.  New finding (class DICTKEY below): frozensets
# are only partially ordered, `sorted()` of signatures that contain them keeps the insertion (= node name) order.
CONFIGS_D = [
    {"name": "species+stoich/dict-keys", "bip": False, "stoich": True, "nk": ["kind"], "ek": ["stoich_r_map", "stoich_p_map"]},
    {"name": "species+stoich/via+dict-key", "bip": False, "stoich": True, "nk": ["kind"], "ek": ["via", "stoich_r_map"]},
    {"name": "species+stoich/via", "bip": False, "stoich": True, "nk": ["kind"], "ek": ["via"]},
]
DICT_KEYS = ("stoich_r_map", "stoich_p_map")


class _Configs(dict):
    """Configurations by name.  `<name>@api` is the configuration <name> with the flag `api`: besides the analysis every case
    gets, the rest of the public surface is exercised on the same network (limits, functional wrappers, methods, WL options)."""

    def __missing__(self, key):
        if isinstance(key, str) and key.endswith("@api") and key[:-4] in self:
            return dict(self[key[:-4]], name=key, api=True)
        raise KeyError(key)


CFG = _Configs({c["name"]: c for c in CONFIGS + CONFIGS_X + CONFIGS_I + CONFIGS_K + CONFIGS_D})
SETLIKE = ("via", "rules", "stoich_r_map", "stoich_p_map")


# ---------------------------------------------------------------- encoding helpers
def enc(x):
    """Python attribute value -> driver Val JSON (sets sorted, dicts as sorted pair lists)."""
    if x is None:
        return None
    if isinstance(x, bool):
        return {"b": x}
    if isinstance(x, str):
        return {"s": x}
    if isinstance(x, int):
        return {"n": 2 * x}
    if isinstance(x, float):
        if x * 2 != int(x * 2):
            raise ValueError(f"non half-integral number {x!r}")
        return {"n": int(x * 2)}
    if isinstance(x, (set, frozenset)):
        return {"t": sorted((enc(y) for y in x), key=lambda z: json.dumps(z, sort_keys=True))}  # the order `canon_sets` uses
    if isinstance(x, dict):
        return {"t": [{"t": [enc(k), enc(v)]} for k, v in sorted(x.items(), key=lambda kv: repr(kv[0]))]}
    if isinstance(x, (list, tuple)):
        return {"t": [enc(y) for y in x]}
    raise ValueError(f"unsupported attribute value {x!r}")


def norm_attrs(a):
    """Attrs JSON -> canonical comparable form (set-like attributes sorted)."""
    out = {}
    for k, v in a.items():
        if k in SETLIKE and isinstance(v, dict) and "t" in v:
            v = {"t": sorted(v["t"], key=lambda z: json.dumps(z, sort_keys=True))}
        out[k] = v
    return json.dumps(out, sort_keys=True)


def norm_graph(g):
    return (sorted((n, norm_attrs(a)) for n, a in g["nodes"]), sorted((u, v, norm_attrs(a)) for u, v, a in g["edges"]))


def canon_sets(g):
    """The same graph with every set-like attribute value (sets travel as lists) listed in one canonical order, so that
    the driver's attribute equality is set equality whichever side produced the list."""
    def fix(a):
        return {k: ({"t": sorted(v["t"], key=lambda z: json.dumps(z, sort_keys=True))} if k in SETLIKE and isinstance(v, dict) and "t" in v else v) for k, v in a.items()}
    return {"nodes": [[n, fix(a)] for n, a in g["nodes"]], "edges": [[u, v, fix(a)] for u, v, a in g["edges"]]}


def enc_graph(G, name):
    return {"nodes": [[name(n), {str(k): enc(v) for k, v in d.items()}] for n, d in G.nodes(data=True)],
            "edges": [[name(u), name(v), {str(k): enc(x) for k, x in d.items()}] for u, v, d in G.edges(data=True)]}


def key_graph(g, cfg):
    """What 'identical canonical graphs' compares: ids, selected node attributes, arcs with selected attributes."""
    nk, ek = cfg["nk"], cfg["ek"]

    def val(a, k):
        x = a.get(k)
        if k in SETLIKE and isinstance(x, dict) and "t" in x:  # a set: compared as a set
            return {"t": sorted(x["t"], key=lambda z: json.dumps(z, sort_keys=True))}
        return x

    return (sorted((n, json.dumps([val(a, k) for k in nk], sort_keys=True)) for n, a in g["nodes"]),
            sorted((u, v, json.dumps([val(a, k) for k in ek], sort_keys=True)) for u, v, a in g["edges"]))


def partition(classes, name):
    return sorted(sorted(name(x) for x in c) for c in classes)


def is_partition(classes, ids):
    flat = [x for c in classes for x in c]
    return all(len(c) > 0 for c in classes) and len(flat) == len(set(flat)) and set(flat) == set(ids)


def mapping_list(m, name):
    return sorted([name(p), name(h)] for p, h in m.items())


# ---------------------------------------------------------------- implementation adapter
def build(net, cfg=None, helpers=None):
    """The network as a store.  A net may carry a `history` (in-place edits and analyses, run in order
    on the one object) and the flag `rebuild` (the final content is read out and added reaction by
    reaction, under the same ids, to a brand-new object; analyses of the history are skipped)."""
    from synkit.CRN.Hypergraph.hypergraph import CRNHyperGraph

    H = CRNHyperGraph()
    for rx in net["rxns"]:
        H.add_rxn(dict((s, c) for s, c in rx["r"]), dict((s, c) for s, c in rx["p"]), rule=rx.get("rule"), edge_id=rx.get("eid"))
    for k, s in enumerate(net.get("isolated", [])):
        if s not in H.species:
            H.add_rxn({s: 1}, {}, rule="iso", edge_id=f"__iso{k}")
            H.remove_species(s, prune_orphans=False)
    if net.get("history"):
        H = apply_history(H, net["history"], cfg, helpers, analyse=not net.get("rebuild"))
    if net.get("rebuild"):
        F = CRNHyperGraph()
        for eid, e in H.edges.items():
            F.add_rxn(dict(e.reactants.items()), dict(e.products.items()), rule=e.rule, edge_id=eid)
        for k, s in enumerate(sorted(H.species - F.species)):
            F.add_rxn({s: 1}, {}, rule="iso", edge_id=f"__iso{k}")
            F.remove_species(s, prune_orphans=False)
        H = F
    return H


class HistoryError(Exception):
    pass


def lbl_orbits(orbs):
    return sorted(sorted(str(x) for x in o) for o in orbs)


def raw_canon(s, cfg):
    """What a canonicaliser summary says, free of the harness' node numbering (labels as strings)."""
    return {"graph": json.dumps(key_graph(enc_graph(s["canon_graph"], int), cfg)), "count": int(s["automorphism_count"]), "orbits": lbl_orbits(s["orbits"])}


def raw_vf2(r):
    return {"count": int(r["automorphism_count"]), "orbits": lbl_orbits(r["orbits"])}


def raw_wl(w, cfg):
    return {"graph": json.dumps(key_graph(enc_graph(w["canon_graph"], int), cfg))}


def ctor_kw(cfg):
    """Constructor options shared by the three analysers and their functional wrappers."""
    kw = dict(include_rule=cfg["bip"], include_stoich=cfg["stoich"], node_attr_keys=tuple(cfg["nk"]))
    if cfg.get("int"):
        kw["integer_ids"] = True
    return kw


def int_id_names(G, mnet, cfg):
    """Integer-id bipartite view: the model node (species i -> i, reaction j -> nS + j, both in sorted order) each integer
    stands for, read off the graph itself: a species node by its `label`; a reaction node by its rule and its incident arcs
    (reactions that agree in all of that are exchangeable, so any assignment inside such a group names the same graph).
    If the graph cannot be read that way, the documented numbering (species 1..N, reactions N+1..N+M) is used, and the
    view gate reports what differs."""
    labels, rx = mnet["labels"], mnet["rxns"]
    nS = len(labels)
    try:
        sp = {}
        for v, d in G.nodes(data=True):
            if d.get("kind") == "species":
                sp[v] = labels.index(d["label"])
        if len(set(sp.values())) != len(sp) or len(sp) != nS:
            raise ValueError("species labels")
        co = (lambda c: int(c)) if cfg["stoich"] else (lambda c: None)
        want = {}
        for j, q in enumerate(rx):
            want.setdefault(json.dumps([q["rule"], sorted([i, co(c)] for i, c in q["r"]), sorted([i, co(c)] for i, c in q["p"])]), []).append(j)
        have = {}
        for v in sorted(x for x in G.nodes() if x not in sp):
            sig = json.dumps([G.nodes[v].get("label"), sorted([sp[u], G[u][v].get("stoich")] for u in G.predecessors(v)),
                              sorted([sp[w], G[v][w].get("stoich")] for w in G.successors(v))])
            have.setdefault(sig, []).append(v)
        if {k: len(x) for k, x in want.items()} != {k: len(x) for k, x in have.items()}:
            raise ValueError("reaction nodes")
        names = dict(sp)
        for k, vs in have.items():
            for v, j in zip(vs, want[k]):
                names[v] = nS + j
        return names
    except Exception:  # noqa: BLE001 - fall back to the documented numbering
        return {v: v - 1 for v in G.nodes() if isinstance(v, int)}


def make_vf2(H, cfg, kw):
    from synkit.CRN.Topo.automorphism import CRNAutomorphism

    try:
        return CRNAutomorphism(H, edge_attr_keys=tuple(cfg["ek"]), **kw), True
    except TypeError:
        return CRNAutomorphism(H, **kw), False  # tree without the edge_attr_keys parameter


def analyse_once(H, cfg, who, helpers, cfg_is_final):
    """One analysis step of a history: fresh helper objects (or the functional wrappers) in the given order.
    Helpers created under the configuration of the final query are kept, with what they said, for the re-use gate."""
    from synkit.CRN.Topo.canon import CRNCanonicalizer, canonical
    from synkit.CRN.Topo.automorphism import detect_automorphisms
    from synkit.CRN.Topo.wl_canon import WLCanonicalizer, wl_canonical

    kw = ctor_kw(cfg)
    ek = tuple(cfg["ek"])
    for w in who:
        kind, obj, said = w.split("_")[0], None, None
        if w == "canon":
            obj = CRNCanonicalizer(H, edge_attr_keys=ek, **kw)
            said = raw_canon(obj.summary(), cfg)
        elif w == "canon_fn":
            obj = canonical(H, edge_attr_keys=ek, **kw)
            said = raw_canon(obj.summary(), cfg)
        elif w == "vf2":
            obj, _ = make_vf2(H, cfg, kw)
            said = raw_vf2(obj.summary(max_count=10 ** 7, timeout_sec=None))
        elif w == "vf2_fn":
            detect_automorphisms(H, max_count=None, timeout_sec=None, **kw)
        elif w == "wl":
            obj = WLCanonicalizer(H, edge_attr_keys=ek, **kw)
            said = raw_wl(obj.summary(), cfg)
        elif w == "wl_fn":
            obj = wl_canonical(H, edge_attr_keys=ek, **kw)
            said = raw_wl(obj.summary(), cfg)
        else:
            raise HistoryError(f"unknown analyser {w!r}")
        if helpers is not None and obj is not None and cfg_is_final:
            helpers.append({"kind": kind, "obj": obj, "said": said, "hg": H})


def resolve_cfg(cfg, spec):
    """Options of an analysis step of a history, possibly relative to the options of the final query."""
    if spec == "same":
        return cfg
    if spec == "stoich-flipped":  # same view type, stoichiometry on <-> off
        return dict(cfg, stoich=not cfg["stoich"], name=cfg["name"] + "~stoich")
    if spec == "view-flipped":  # bipartite <-> species view
        return dict(cfg, bip=not cfg["bip"], ek=(["stoich_r", "stoich_p"] if cfg["bip"] else ["role", "stoich"]), name=cfg["name"] + "~view")
    if spec == "ids-flipped":  # same view and keys, integer node ids <-> string node ids
        return dict(cfg, int=not cfg.get("int"), name=cfg["name"] + "~ids")
    if spec == "keys-flipped":  # same view, other attribute selection
        return dict(cfg, nk=(["kind", "label"] if cfg["nk"] == ["kind"] else ["kind"]), ek=list(reversed(cfg["ek"])), name=cfg["name"] + "~keys")
    return CFG[spec]


def _pick_edge(H, op):
    if not H.edges:
        return None
    if op.get("eid") in H.edges:
        return op["eid"]
    return sorted(H.edges)[op.get("k", 0) % len(H.edges)]


def apply_history(H, hist, cfg, helpers, analyse=True, keep=None):
    """Run a history on the object H (and on copies forked off it); returns the object the final query is about.
    Positions (`k`, `j`) are taken modulo the current sizes and an edit that does not apply to the current content
    is skipped, so that every history is applicable to every network (needed for shrinking)."""
    keep = [] if keep is None else keep  # every object of the history stays alive until the final query
    keep.append(H)
    for op in hist:
        o = op["op"]
        if o == "analyse":
            if analyse and cfg is not None:
                c = resolve_cfg(cfg, op.get("config", "same"))
                before = json.dumps(model_net(H), sort_keys=True)
                analyse_once(H, c, op.get("who", ["canon"]), helpers, c["name"] == cfg["name"])
                if json.dumps(model_net(H), sort_keys=True) != before:
                    raise HistoryError("an analysis changed the content of the network it was given")
        elif o == "analyse_other":
            if analyse and cfg is not None:
                c = resolve_cfg(cfg, op.get("config", "same"))
                O = build(op["net"])
                keep.append(O)
                analyse_once(O, c, op.get("who", ["canon"]), None, False)
        elif o == "replace":
            eid = _pick_edge(H, op)
            r, p = dict(map(tuple, op["r"])), dict(map(tuple, op["p"]))
            if eid is not None and (any(c > 0 for c in r.values()) or any(c > 0 for c in p.values())):
                H.remove_rxn(eid)
                H.add_rxn(r, p, rule=op.get("rule"), edge_id=eid)
        elif o == "add":
            r, p = dict(map(tuple, op["r"])), dict(map(tuple, op["p"]))
            if op.get("eid") not in H.edges and (any(c > 0 for c in r.values()) or any(c > 0 for c in p.values())):
                H.add_rxn(r, p, rule=op.get("rule"), edge_id=op.get("eid"))
        elif o == "remove":
            eid = _pick_edge(H, op)
            if eid is not None:
                H.remove_rxn(eid)
        elif o == "drop_species":
            if H.species:
                H.remove_species(sorted(H.species)[op.get("k", 0) % len(H.species)], prune_orphans=bool(op.get("prune")))
        elif o == "coef":
            eid = _pick_edge(H, op)
            if eid is not None:
                side = H.edges[eid].reactants if op.get("side") == "r" else H.edges[eid].products
                if len(side) and int(op["c"]) >= 1:
                    side[sorted(side.keys())[op.get("j", 0) % len(side)]] = int(op["c"])
        elif o == "rule":
            eid = _pick_edge(H, op)
            if eid is not None and op.get("rule"):
                H.edges[eid].rule = op["rule"]
        elif o == "fork":
            C = H.copy()
            if op.get("on") == "copy":  # the side history runs on the original, the main line continues on the copy
                apply_history(H, op.get("other", []), cfg, helpers, analyse, keep)
                H = C
                keep.append(H)
            else:
                apply_history(C, op.get("other", []), cfg, helpers, analyse, keep)
        else:
            raise HistoryError(f"unknown history step {o!r}")
    return H


def model_net(H):
    """The store's content as the model's `Net` (species and reactions in sorted order)."""
    labels = sorted(H.species)
    idx = {s: i for i, s in enumerate(labels)}
    rxns = []
    for eid, e in sorted(H.edges.items()):
        rxns.append({"id": eid, "rule": e.rule, "r": [[idx[s], int(c)] for s, c in e.reactants.items()],
                     "p": [[idx[s], int(c)] for s, c in e.products.items()]})
    return {"labels": labels, "rxns": rxns}


_ID_SITES = None


def id_call_sites():
    """Names of the functions of canon.py that call `id(...)` (AST scan, once per process)."""
    global _ID_SITES
    if _ID_SITES is None:
        import ast
        import inspect
        import synkit.CRN.Topo.canon as cm

        sites = []
        tree = ast.parse(inspect.getsource(cm))
        for fn in ast.walk(tree):
            if isinstance(fn, (ast.FunctionDef, ast.AsyncFunctionDef)):
                for n in ast.walk(fn):
                    if isinstance(n, ast.Call) and isinstance(n.func, ast.Name) and n.func.id == "id":
                        sites.append(fn.name)
        _ID_SITES = sorted(set(sites))
    return _ID_SITES


def epoch_schedules(make):
    """Canonical graph and count with `id` (as seen by synkit.CRN.Topo.canon) replaced by a counter
    (no two epochs alias) and by a constant (all epochs alias).  `id()` values of dead temporaries may
    repeat arbitrarily in CPython, so both are legal allocator behaviours."""
    import synkit.CRN.Topo.canon as cm

    out = {}
    had = "id" in cm.__dict__
    saved = cm.__dict__.get("id")
    box = [0]

    def fresh(_o):
        box[0] += 1
        return box[0]

    try:
        for nm, fn in (("fresh", fresh), ("aliased", lambda _o: 0)):
            cm.id = fn
            x = make().summary()
            out[nm] = {"graph": enc_graph(x["canon_graph"], int), "count": int(x["automorphism_count"])}
    finally:
        if had:
            cm.id = saved
        else:
            cm.__dict__.pop("id", None)
    return out


def impl_eval(net, cfg):
    """Run both analysers (and the WL canonicaliser) on one network under one configuration."""
    from synkit.CRN.Topo.canon import CRNCanonicalizer
    from synkit.CRN.Topo.wl_canon import WLCanonicalizer

    helpers, hist_error = [], None
    try:
        H = build(net, cfg, helpers)
    except Exception as e:  # noqa: BLE001 - a history that cannot be run is an observable of the check
        if not net.get("history"):
            raise
        hist_error = f"{type(e).__name__}: {e}"
        helpers = []
        H = build({k: v for k, v in net.items() if k != "history"})
    mnet = model_net(H)
    labels, eids = mnet["labels"], [r["id"] for r in mnet["rxns"]]
    int_ids = bool(cfg.get("int") and cfg["bip"])  # integer node ids: a species label equal to a reaction id merges nothing
    collision = [] if int_ids else sorted(set(labels) & set(eids))
    res = {"mnet": mnet, "collision": collision, "errors": {}}
    if hist_error:
        res["errors"]["history (edits / earlier analyses of the same object)"] = hist_error
    names = {s: i for i, s in enumerate(labels)}
    if cfg["bip"]:
        for j, e in enumerate(eids):
            names[e] = len(labels) + j
    res["n_expected"] = len(names) if not (cfg["bip"] and collision) else len(labels) + len(eids)
    ambiguous = bool(cfg["bip"] and collision)

    def name(x):
        return names[x]

    kw = ctor_kw(cfg)
    # -- canonicaliser
    try:
        cz = CRNCanonicalizer(H, edge_attr_keys=tuple(cfg["ek"]), **kw)
        G = cz.G
        res["n_nodes"] = G.number_of_nodes()
        if ambiguous:
            return res
        if int_ids:
            names = int_id_names(G, mnet, cfg)
            res["id_types"] = sorted({type(v).__name__ for v in G.nodes()})
        res["G"] = enc_graph(G, name)
        s = cz.summary()
        cg = s["canon_graph"]
        res["canon"] = {
            "graph": enc_graph(cg, int),
            "perm": [name(v) for v in s["canonical_perm"]],
            "count": int(s["automorphism_count"]),
            "orbits_raw": [sorted(name(x) for x in o) for o in s["orbits"]],
            "maps": sorted(mapping_list(m, name) for m in s["mappings"]),
            "early": bool(s["early_stop"]),
            "said": raw_canon(s, cfg),
        }
        # determinism: the same object asked again, and a fresh object
        s2 = cz.summary()
        s3 = CRNCanonicalizer(H, edge_attr_keys=tuple(cfg["ek"]), **kw).summary()
        res["canon"]["repeat"] = [{"graph": enc_graph(x["canon_graph"], int), "count": int(x["automorphism_count"])} for x in (s2, s3)]
        # the refinement's signature cache is keyed by id() of a temporary: run the search under the two
        # extreme schedules of that id (never repeated / always repeated); a transparent cache gives equal results
        # (only when `id` is used by `_refine` alone: shadowing it elsewhere could break a legitimate use)
        res["canon"]["id_sites"] = id_call_sites()
        if res["canon"]["id_sites"] == ["_refine"]:
            res["canon"]["epochs"] = epoch_schedules(lambda: CRNCanonicalizer(H, edge_attr_keys=tuple(cfg["ek"]), **kw))
        if G.number_of_nodes() <= 9:
            res["canon"]["nontrivial"] = bool(cz.has_nontrivial_automorphism())
            res["canon"]["orbits_method"] = [sorted(name(x) for x in o) for o in cz.orbits()]
            res["canon"]["graph_method"] = enc_graph(cz.graph(), int)
    except Exception as e:  # noqa: BLE001 - any exception is an observable of the check
        res["errors"]["canon"] = f"{type(e).__name__}: {e}"
    if ambiguous:
        return res
    # -- VF2 analyser
    try:
        a, res["vf2_edge_keys"] = make_vf2(H, cfg, kw)
        r = a.summary(max_count=10 ** 7, timeout_sec=None)
        res["vf2"] = {
            "said": raw_vf2(r),
            "count": int(r["automorphism_count"]),
            "orbits_raw": [sorted(name(x) for x in o) for o in r["orbits"]],
            "maps": sorted(mapping_list(m, name) for m in r["sample_mappings"]),
            "stopped": bool(r["stopped_early"]),
            "used": int(r["mapping_count_used"]),
            "nontrivial": bool(a.has_nontrivial_automorphism(timeout_sec=None)),
            "iter_count": sum(1 for _ in a.iter()),
        }
        try:
            ob = a.orbits(max_count=10 ** 7, timeout_sec=10 ** 6)
            res["vf2"]["orbits_method"] = [sorted(name(x) for x in o) for o in ob]
        except Exception as e:  # noqa: BLE001
            res["errors"]["vf2.orbits()"] = f"{type(e).__name__}: {e}"
    except Exception as e:  # noqa: BLE001
        res["errors"]["vf2"] = f"{type(e).__name__}: {e}"
    # -- WL canonicaliser (documented as approximate: only faithfulness of its graph is gated)
    try:
        w = WLCanonicalizer(H, edge_attr_keys=tuple(cfg["ek"]), **kw).summary()
        res["wl"] = {"graph": enc_graph(w["canon_graph"], int), "cells": [sorted(name(x) for x in o) for o in w["orbits"]], "said": raw_wl(w, cfg)}
    except Exception as e:  # noqa: BLE001
        res["errors"]["wl"] = f"{type(e).__name__}: {e}"
    # -- the rest of the public surface on the same network (configurations <name>@api)
    if cfg.get("api") and "canon" in res and "vf2" in res:
        try:
            res["api"] = api_variants(H, cfg, kw, name, res)
        except Exception as e:  # noqa: BLE001
            res["errors"]["api variants (harness)"] = f"{type(e).__name__}: {e}"
    # -- helper objects created earlier in the history (same configuration), asked again now
    res["reuse"] = []
    for h in helpers[-6:]:
        try:
            if h["kind"] == "canon":
                again = raw_canon(h["obj"].summary(), cfg)
            elif h["kind"] == "vf2":
                again = raw_vf2(h["obj"].summary(max_count=10 ** 7, timeout_sec=None))
            else:
                again = raw_wl(h["obj"].summary(), cfg)
            res["reuse"].append({"kind": h["kind"], "then": h["said"], "again": again, "same_object": h["hg"] is H})
        except Exception as e:  # noqa: BLE001
            res["errors"]["helper created before an edit, asked again"] = f"{type(e).__name__}: {e}"
    return res


WL_OPTION_SETS = [
    {"n_iter": 0}, {"n_iter": 1}, {"n_iter": 3, "digest_size": 4}, {"digest_size": 32, "estimate_automorphisms": False},
    {"include_in_neighbors": False}, {"include_out_neighbors": False}, {"include_in_neighbors": False, "include_out_neighbors": False, "automorphism_cap": 7},
]
class _ForeignNode(Exception):
    """An answer names a node that is not a node of the view (or a canonical id that is not an integer)."""


class _TickClock:
    """Stand-in for the module `time` as seen by ONE synkit module: every reading of the clock (`time`, `monotonic`, `perf_counter`)
    is one second later than the one before; everything else is the real module.  A slow machine is a legal environment, so every
    answer given under this clock must still be sound; it makes time limits reachable at a fixed point of the search."""

    def __init__(self, real):
        self._real, self._now = real, 1.0e9

    def _tick(self):
        self._now += 1.0
        return self._now

    def time(self):
        return self._tick()

    def monotonic(self):
        return self._tick()

    def perf_counter(self):
        return self._tick()

    def __getattr__(self, k):
        return getattr(self._real, k)


def under_tick_clock(mod, fn):
    """fn() with the name `time` of the module `mod` bound to a fresh _TickClock (restored afterwards).  If the module does not
    read its clock through that name the limits are simply not reached and the call is an ordinary one."""
    had = "time" in mod.__dict__
    saved = mod.__dict__.get("time")
    import time as real
    try:
        mod.time = _TickClock(saved if had and hasattr(saved, "time") else real)
        return fn()
    finally:
        if had:
            mod.time = saved
        else:
            mod.__dict__.pop("time", None)


CAPPED_DEPTHS = (0, 1, 2, 3)  # `summary(max_depth=d)`: below the first leaf / between / above the deepest leaf of the small views generated here

TICK_LIMITS = (0.5, 2.5, 5.5)  # seconds = clock readings: the search / enumeration is cut at its 1st, 3rd, 6th reading


CLOCK_SLACK = 2.0  # a call that took less than this (outer wall clock) cannot have hit a default time limit of >= 5 s


def api_variants(H, cfg, kw, name, res):
    """Further ways to ask the same questions about the same network under the same configuration: explicit limits that are
    not reached, default limits, tight limits, the functional wrappers, the single-purpose methods, key selections given as
    lists, WL option sets.  Every answer is recorded with `complete` (the analyser does not report an early stop) and
    `must` (this harness knows that no limit can have been reached); the gates are in `check_api`."""
    import time
    from synkit.CRN.Topo.canon import CRNCanonicalizer, canonical
    from synkit.CRN.Topo.automorphism import CRNAutomorphism, detect_automorphisms
    from synkit.CRN.Topo.wl_canon import WLCanonicalizer, wl_canonical

    ek = tuple(cfg["ek"])
    n = res["n_nodes"]
    out = {"canon": [], "vf2": [], "wl": []}
    name_of_view = name

    def name(x):
        try:
            return name_of_view(x)
        except (KeyError, TypeError):
            raise _ForeignNode(f"{x!r} is not a node of the view") from None

    def cid(x):
        if isinstance(x, bool) or not isinstance(x, int):
            raise _ForeignNode(f"canonical id {x!r} is not an integer")
        return x

    def parts(orbs):
        return [sorted(name(x) for x in o) for o in orbs]

    def attempt(bucket, how, fn, may_give_up=False):
        t0 = time.time()
        try:
            rec = fn()
        except _ForeignNode as e:
            rec = {"foreign": str(e)[:200]}
        except Exception as e:  # noqa: BLE001
            if may_give_up and isinstance(e, RuntimeError):  # documented: no canonical form found under the given (tight) limits
                rec = {"gave_up": str(e)[:120]}
            else:
                rec = {"error": f"{type(e).__name__}: {e}"[:300]}
        rec["how"], rec["wall"] = how, time.time() - t0
        out[bucket].append(rec)
        return rec

    def canon_rec(s, must):
        return {"graph": enc_graph(s["canon_graph"], cid), "count": int(s["automorphism_count"]), "orbits_raw": parts(s["orbits"]),
                "maps": sorted(mapping_list(m, name) for m in s["mappings"]), "perm": [name(v) for v in s["canonical_perm"]],
                "complete": not s["early_stop"], "must": must}

    big = dict(max_depth=n + 1, timeout_sec=10 ** 6)
    cz = CRNCanonicalizer(H, edge_attr_keys=list(cfg["ek"]), **dict(kw, node_attr_keys=list(cfg["nk"])))
    attempt("canon", "summary(max_depth=N+1, timeout_sec=1e6), key selections given as lists", lambda: canon_rec(cz.summary(**big), True))
    attempt("canon", "canonical(..., max_depth=N+1, timeout_sec=1e6).summary()", lambda: canon_rec(canonical(H, edge_attr_keys=ek, **kw, **big).summary(), True))
    attempt("canon", "canonical(...).summary(timeout_sec=1e6)", lambda: canon_rec(canonical(H, edge_attr_keys=ek, **kw).summary(timeout_sec=10 ** 6), True))
    # max_depth that IS reached: besides the gates on what the answer claims, every such answer is compared with the depth-capped
    # model (`crn.irCapped`, SynKitModel/CrnIR.lean `crnSearchCapped`), which visits cells and members in id order: the view is
    # handed over with its nodes interned order-preservingly (`sorted(G.nodes())` -> 0, 1, ...), as in the IR correspondence stream
    sidx = None
    try:
        comparable, order_safe = ir_label_scope(cz.G, cfg)
        if comparable:
            sidx = {v: i for i, v in enumerate(sorted(cz.G.nodes()))}
            out["capped_view"] = {"graph": enc_graph(cz.G, lambda v: sidx[v]), "order_safe": bool(order_safe)}
    except (TypeError, ValueError):  # node ids that do not sort / a value the protocol does not carry: no exact gate
        sidx = None
        out.pop("capped_view", None)
    for d in CAPPED_DEPTHS:
        box = {}

        def capped_call(d=d, box=box):
            box["s"] = CRNCanonicalizer(H, edge_attr_keys=ek, **kw).summary(max_depth=d)
            return canon_rec(box["s"], False)
        rec = attempt("canon", f"summary(max_depth={d})", capped_call, may_give_up=True)
        if sidx is not None and "error" not in rec:
            try:
                if "gave_up" in rec:
                    rec["capped"] = {"d": d, "error": "RuntimeError"}
                elif "s" in box:
                    s_ = box["s"]
                    rec["capped"] = {"d": d, "error": None, "early_stop": bool(s_["early_stop"]), "order": [sidx[v] for v in s_["canonical_perm"]],
                                     "perms": [[sidx[v] for v in p] for p in s_["sample_permutations"]], "count": int(s_["automorphism_count"])}
            except (KeyError, TypeError):
                pass  # an answer naming foreign nodes is reported by the `foreign` gate
    attempt("canon", "orbits(max_depth=N+1, timeout_sec=1e6)", lambda: {"orbits_raw": parts(cz.orbits(**big)), "complete": True, "must": True})
    attempt("canon", "graph(max_depth=N+1, timeout_sec=1e6)", lambda: {"graph": enc_graph(cz.graph(**big), cid), "complete": True, "must": True})
    attempt("canon", "has_nontrivial_automorphism(max_depth=N+1, timeout_sec=1e6)", lambda: {"nontrivial": bool(cz.has_nontrivial_automorphism(**big)), "complete": True, "must": True})

    # key selections given as one-shot iterators (documented type: Iterable[str])
    attempt("canon", "summary(max_depth=N+1, timeout_sec=1e6), key selections given as one-shot iterators",
            lambda: canon_rec(CRNCanonicalizer(H, edge_attr_keys=iter(list(cfg["ek"])), **dict(kw, node_attr_keys=iter(list(cfg["nk"])))).summary(**big), True))
    # time limits that ARE reached, at a fixed point of the search (the module's clock advances one second per reading)
    import synkit.CRN.Topo.canon as canon_mod
    import synkit.CRN.Topo.automorphism as aut_mod
    for t in TICK_LIMITS:
        attempt("canon", f"summary[ticking clock](timeout_sec={t})",
                lambda t=t: under_tick_clock(canon_mod, lambda: canon_rec(CRNCanonicalizer(H, edge_attr_keys=ek, **kw).summary(timeout_sec=t), False)), may_give_up=True)
    attempt("canon", "canonical[ticking clock](..., timeout_sec=2.5)",
            lambda: under_tick_clock(canon_mod, lambda: canon_rec(canonical(H, edge_attr_keys=ek, timeout_sec=2.5, **kw).summary(), False)), may_give_up=True)

    c0 = res["vf2"]["count"]

    def vf2_rec(r, must):
        return {"count": int(r["automorphism_count"]), "orbits_raw": parts(r["orbits"]), "maps": sorted(mapping_list(m, name) for m in r["sample_mappings"]),
                "used": int(r["mapping_count_used"]), "complete": not r["stopped_early"], "must": must}

    def timed(fn, limit_ok):
        """`must` only if the count limit is above the true count and the call was fast enough not to have met a default time limit."""
        t0 = time.time()
        r = fn()
        r["must"] = bool(limit_ok and time.time() - t0 < CLOCK_SLACK)
        if r.get("complete") is None:  # a method that does not say whether it stopped early: exact only if it cannot have
            r["complete"] = r["must"]
        return r

    if res.get("vf2_edge_keys"):
        a = CRNAutomorphism(H, edge_attr_keys=list(cfg["ek"]), **dict(kw, node_attr_keys=list(cfg["nk"])))
        attempt("vf2", "summary(max_count=count+1, timeout_sec=1e6), key selections given as lists", lambda: vf2_rec(a.summary(max_count=c0 + 1, timeout_sec=10 ** 6), True))
        attempt("vf2", "summary() with its default limits", lambda: timed(lambda: vf2_rec(a.summary(), False), c0 < 100))
        if c0 > 1:
            attempt("vf2", "summary(max_count=count-1, timeout_sec=None)", lambda: vf2_rec(a.summary(max_count=c0 - 1, timeout_sec=None), False))
        attempt("vf2", "orbits() with its default limits", lambda: timed(lambda: {"orbits_raw": parts(a.orbits()), "complete": None}, c0 < 1000))
        attempt("vf2", "has_nontrivial_automorphism() with its default limit", lambda: timed(lambda: {"nontrivial": bool(a.has_nontrivial_automorphism()), "complete": None}, True))
        attempt("vf2", "iter(max_count=None, timeout_sec=None)", lambda: {"maps": sorted(mapping_list(m, name) for m in a.iter(max_count=None, timeout_sec=None)), "complete": True, "must": True})
        # limits that ARE reached.  No completeness claim is attached to these answers: gated for soundness only (`partial`)
        for k in sorted({1, max(1, c0 - 1), c0, c0 + 1}):
            rel = {c0 - 1: "count-1", c0: "count", c0 + 1: "count+1"}.get(k, str(k))
            attempt("vf2", f"iter[limited](max_count={rel}, timeout_sec=None)",
                    lambda k=k: {"maps_listed": [mapping_list(m, name) for m in a.iter(max_count=k, timeout_sec=None)], "partial": {"max_count": k}})
        attempt("vf2", "orbits[limited](max_count=max(1, count-1), timeout_sec=1e6)",
                lambda: {"orbits_sub": parts(a.orbits(max_count=max(1, c0 - 1), timeout_sec=10 ** 6)), "partial": {}})
        ait = CRNAutomorphism(H, edge_attr_keys=iter(list(cfg["ek"])), **dict(kw, node_attr_keys=iter(list(cfg["nk"]))))
        attempt("vf2", "summary(max_count=count+1, timeout_sec=1e6), key selections given as one-shot iterators", lambda: vf2_rec(ait.summary(max_count=c0 + 1, timeout_sec=10 ** 6), True))
        for t in TICK_LIMITS[:2]:
            attempt("vf2", f"summary[ticking clock](max_count=10**7, timeout_sec={t})",
                    lambda t=t: under_tick_clock(aut_mod, lambda: vf2_rec(a.summary(max_count=10 ** 7, timeout_sec=t), False)))
            attempt("vf2", f"iter[ticking clock](max_count=None, timeout_sec={t})",
                    lambda t=t: under_tick_clock(aut_mod, lambda: {"maps_listed": [mapping_list(m, name) for m in a.iter(max_count=None, timeout_sec=t)], "partial": {}}))
            attempt("vf2", f"has_nontrivial_automorphism[ticking clock](timeout_sec={t})",
                    lambda t=t: under_tick_clock(aut_mod, lambda: {"nontrivial_sound": bool(a.has_nontrivial_automorphism(timeout_sec=t)), "partial": {}}))
        attempt("vf2", "orbits[ticking clock](max_count=1000, timeout_sec=1.5)",
                lambda: under_tick_clock(aut_mod, lambda: {"orbits_sub": parts(a.orbits(max_count=1000, timeout_sec=1.5)), "partial": {}}))
    if sorted(cfg["ek"]) == ["role", "stoich"]:  # the wrapper has no edge_attr_keys parameter: it matches arcs on (role, stoich)
        attempt("vf2", "detect_automorphisms(..., max_count=None, timeout_sec=None)", lambda: vf2_rec(detect_automorphisms(H, max_count=None, timeout_sec=None, **kw), True))
        attempt("vf2", "detect_automorphisms(...) with its default limits", lambda: timed(lambda: vf2_rec(detect_automorphisms(H, **kw), False), c0 < 5000))

    def wl_rec(w, obj):
        return {"graph": enc_graph(w["canon_graph"], cid), "cells": parts(w["orbits"]), "graph_method": enc_graph(obj.graph(), cid), "cells_method": parts(obj.orbits()),
                "again": enc_graph(obj.summary()["canon_graph"], cid)}

    def wl_iter_keys():
        obj = WLCanonicalizer(H, edge_attr_keys=iter(list(cfg["ek"])), **dict(kw, node_attr_keys=iter(list(cfg["nk"]))))
        return wl_rec(obj.summary(), obj)
    attempt("wl", "WLCanonicalizer(key selections given as one-shot iterators)", wl_iter_keys)
    for i, o in enumerate(WL_OPTION_SETS):
        def one(o=o, i=i):
            obj = (wl_canonical if i % 2 else WLCanonicalizer)(H, edge_attr_keys=ek, **kw, **o)
            return wl_rec(obj.summary(), obj)
        attempt("wl", ("wl_canonical" if i % 2 else "WLCanonicalizer") + "(" + ", ".join(f"{k}={v}" for k, v in o.items()) + ")", one)
    return out


# ---------------------------------------------------------------- evaluation of families
_POOL = None


def _job(a):
    return impl_eval(a[0], CFG[a[1]])


def pmap(args):
    """impl_eval over many (net, config) pairs; a process pool is used for large batches only
    (results are a pure function of the arguments, order is kept)."""
    global _POOL
    if len(args) < 64:
        return [_job(a) for a in args]
    if _POOL is None:
        import multiprocessing as mp
        _POOL = mp.get_context("fork").Pool(8)
    return _POOL.map(_job, args, chunksize=8)


def sel(cfg):
    return {"node_keys": cfg["nk"], "edge_keys": cfg["ek"]}


def out_of_scope(ctx, net, cn):
    """(network, configuration) pairs the generators do not produce gates for.  None any more: the network without any
    species under an EMPTY node key list used to raise StopIteration in `CRNCanonicalizer._search` (F39, repaired in /repo
    69924ec) and is now gated like any other; the pair is only counted."""
    if not CFG[cn]["nk"] and not net["rxns"] and not net.get("isolated") and not net.get("history"):
        ctx.count("empty-network-with-empty-node-key-list")
    return False


def evaluate(ctx, families, tag, all_pairs=True, shrink=True):
    """families: list of (nets, cfg_names).  Every member is analysed under every configuration;
    members are compared pairwise (all pairs, or each with member 0) for kernel agreement."""
    import time
    t0 = time.time()
    try:
        return _evaluate(ctx, families, tag, all_pairs, shrink)
    finally:
        if hasattr(ctx, "extra"):
            w = ctx.extra.setdefault("stream_wall_s", {})
            w[tag] = round(w.get(tag, 0) + time.time() - t0, 1)


def _evaluate(ctx, families, tag, all_pairs=True, shrink=True):
    L = ctx.lean()
    jobs = [(fi, ni, cn) for fi, (nets, cfgs) in enumerate(families) for ni in range(len(nets)) for cn in cfgs if not out_of_scope(ctx, families[fi][0][ni], cn)]
    results = pmap([(families[fi][0][ni], cn) for fi, ni, cn in jobs])
    items = [(fi, ni, cn, r) for (fi, ni, cn), r in zip(jobs, results)]  # (fi, ni, cfg, impl result)
    # round 1: the model's views
    views = L.ok([{"cmd": "crn.view", "net": it[3]["mnet"], "bip": CFG[it[2]]["bip"], "stoich": CFG[it[2]]["stoich"]} for it in items], shards=8)
    # round 2: analysis of every view + spec verdicts on what the implementation returned
    reqs, slots = [], []
    for k, (fi, ni, cn, r) in enumerate(items):
        cfg = CFG[cn]
        if any(key in SETLIKE for key in cfg["nk"] + cfg["ek"]):  # a set-valued attribute is selected: one order of its elements on both sides
            views[k]["graph"] = canon_sets(views[k]["graph"])
            for part in ("canon", "wl"):
                if part in r:
                    r[part]["graph"] = canon_sets(r[part]["graph"])
        vg = views[k]["graph"]
        for j, w in enumerate(r.get("api", {}).get("wl", [])):
            if "graph" in w:
                reqs.append({"cmd": "crn.iso", "host": vg, "pattern": canon_sets(w["graph"]), **sel(cfg)}); slots.append((k, f"api_wl_iso:{j}"))
        cv = r.get("api", {}).get("capped_view")
        if cv is not None:  # the depth-capped model for every `summary(max_depth=d)` that was asked (ranks: leaf depths, once)
            for rec in r["api"]["canon"]:
                if "capped" in rec:
                    d = rec["capped"]["d"]
                    reqs.append({"cmd": "crn.irCapped", "graph": cv["graph"], "max_depth": d, "ranks": d == CAPPED_DEPTHS[0], **sel(cfg)}); slots.append((k, f"capped:{d}"))
        reqs.append({"cmd": "crn.analyse", "graph": vg, **sel(cfg)}); slots.append((k, "analyse"))
        if len(vg["nodes"]) <= 9:
            reqs.append({"cmd": "crn.isos", "host": vg, "pattern": vg, **sel(cfg)}); slots.append((k, "auts"))
        if "canon" in r:
            reqs.append({"cmd": "crn.canonBy", "graph": vg, "perm": r["canon"]["perm"]}); slots.append((k, "canonBy"))
            reqs.append({"cmd": "crn.iso", "host": vg, "pattern": r["canon"]["graph"], **sel(cfg)}); slots.append((k, "canon_iso"))
            reqs.append({"cmd": "crn.checkMaps", "host": vg, "pattern": vg, "maps": r["canon"]["maps"][:50], **sel(cfg)}); slots.append((k, "canon_maps_ok"))
        if "vf2" in r:
            reqs.append({"cmd": "crn.checkMaps", "host": vg, "pattern": vg, "maps": r["vf2"]["maps"][:50], **sel(cfg)}); slots.append((k, "vf2_maps_ok"))
        if "wl" in r:
            reqs.append({"cmd": "crn.iso", "host": vg, "pattern": r["wl"]["graph"], **sel(cfg)}); slots.append((k, "wl_iso"))
    # kernel pairs
    index = {(fi, ni, cn): k for k, (fi, ni, cn, _) in enumerate(items)}
    pairs = []
    for fi, (nets, cfgs) in enumerate(families):
        pr = list(itertools.combinations(range(len(nets)), 2)) if all_pairs else [(0, j) for j in range(1, len(nets))]
        for cn in cfgs:
            for i, j in pr:
                if (fi, i, cn) not in index or (fi, j, cn) not in index:
                    continue
                ki, kj = index[(fi, i, cn)], index[(fi, j, cn)]
                if "canon" in items[ki][3] and "canon" in items[kj][3]:
                    pairs.append((fi, cn, i, j, ki, kj))
                    reqs.append({"cmd": "crn.iso", "host": views[ki]["graph"], "pattern": views[kj]["graph"], **sel(CFG[cn])})
                    slots.append((len(pairs) - 1, "pair"))
    answers = L.ok(reqs, shards=8)
    lean = [dict() for _ in items]
    pair_iso = {}
    for (k, what), ans in zip(slots, answers):
        if what == "pair":
            pair_iso[k] = ans
        else:
            lean[k][what] = ans

    def classes_of(r):
        return [F19] if r["collision"] else []

    seen = getattr(ctx, "_c18_seen", None)
    if seen is None:
        seen = ctx._c18_seen = {}

    def report(what, fi, members, cn, detail, r_list, single=None):
        nets = [families[fi][0][m] for m in members]
        cls = sorted({c for r in r_list for c in classes_of(r)})
        if what == KERNEL_ISO_DIFFERENT and any(k in DICT_KEYS for k in CFG[cn]["nk"] + CFG[cn]["ek"]):
            cls = sorted(set(cls) | {DICTKEY})  # only this gate, only under a dict-valued key: every other gate stays unclassified there
        case = {"nets": nets, "config": cn}
        key = (what, tuple(cls))
        seen[key] = seen.get(key, 0) + 1
        if seen[key] > 3:  # keep the report readable: at most three inputs per kind of failure
            ctx.count("further_violations_not_listed:" + what)
            return
        if single is not None and shrink and not cls and seen[key] == 1:
            small = shrink_net(ctx, nets[0], cn, what)
            if small is not None:
                case = {"nets": [small], "config": cn}
        ctx.violation(what, case, {"stream": tag, **detail}, classes=cls)

    for k, (fi, ni, cn, r) in enumerate(items):
        cfg, view, lk = CFG[cn], views[k], lean[k]
        vg = view["graph"]
        n_nodes, n_arcs = len(vg["nodes"]), len(vg["edges"])
        ctx.count(f"config:{cn}")
        ctx.count(f"view_nodes:{min(n_nodes, 12)}")
        ctx.count("aut_count:" + ("1" if lk["analyse"]["count"] == 1 else "2" if lk["analyse"]["count"] == 2 else ">2"))
        if r["collision"]:
            ctx.count("class:" + F19)
        if "id_types" in r:
            ctx.count("node_id_types:" + ",".join(r["id_types"]))
        this = families[fi][0][ni]
        hist = this.get("history")
        ctx.case([r["mnet"], cn] + ([this["rxns"], hist, bool(this.get("rebuild"))] if hist else []), nontrivial=(n_nodes >= 3 and n_arcs >= 2),
                 sample={"stream": tag, "net": this, "config": cn} if n_nodes <= 5 else None)
        if hist:
            count_history(ctx, this)
        for where, msg in r["errors"].items():
            report(f"{where} raised an exception", fi, [ni], cn, {"error": msg}, [r], single=True)
        if not view["wf"] or not view["wfd"]:
            ctx.violation("model precondition: generated network / view not well formed", {"nets": [families[fi][0][ni]], "config": cn}, no_input=True)
            continue
        # 0. view construction
        if "G" not in r:
            if cfg["bip"] and r["collision"]:
                report("bipartite view merges a species node with a reaction node (species label equals a reaction id)", fi, [ni], cn,
                       {"collision": r["collision"], "impl_nodes": r.get("n_nodes"), "expected_nodes": n_nodes}, [r])
            continue
        if norm_graph(r["G"]) != norm_graph(vg):
            report("view built by the back-end differs from the network's view (nodes / arcs / attributes)", fi, [ni], cn,
                   {"impl": r["G"], "model": vg}, [r], single=True)
            continue
        ids = [n for n, _ in vg["nodes"]]
        want = lk["analyse"]
        # 1. canonical graph
        c = r.get("canon")
        if c is not None:
            if c["early"]:
                report("canonicaliser reports early_stop without limits", fi, [ni], cn, {}, [r], single=True)
            cb = lk["canonBy"]
            spec_ok = bool(lk["canon_iso"])
            ids_ok = sorted(n for n, _ in c["graph"]["nodes"]) == list(range(1, n_nodes + 1))
            if not spec_ok:
                report("canonical graph is not isomorphic to the view it was computed from", fi, [ni], cn,
                       {"canon_graph": c["graph"], "view": vg}, [r], single=True)
            elif not cb["is_order"] or not ids_ok:
                report("canonical permutation does not list every node exactly once (canonical ids are not 1..N)", fi, [ni], cn,
                       {"canonical_perm": c["perm"], "canon_ids": sorted(n for n, _ in c["graph"]["nodes"]), "nodes": ids}, [r], single=True)
            elif norm_graph(cb["graph"]) != norm_graph(c["graph"]):
                report("canonical graph is not the view relabelled along canonical_perm", fi, [ni], cn,
                       {"canon_graph": c["graph"], "model": cb["graph"]}, [r], single=True)
            kg = key_graph(c["graph"], cfg)
            for x in c.get("repeat", []):
                if key_graph(x["graph"], cfg) != kg or x["count"] != c["count"]:
                    report("the same network canonicalised twice in one process receives different canonical graphs / counts", fi, [ni], cn,
                           {"first": c["graph"], "again": x["graph"]}, [r])
                    break
            ctx.count("id()_call_sites_in_canon.py:" + (",".join(c.get("id_sites", [])) or "none"))
            ep = c.get("epochs", {})
            if ep and (key_graph(ep["fresh"]["graph"], cfg) != key_graph(ep["aliased"]["graph"], cfg) or ep["fresh"]["count"] != ep["aliased"]["count"]):
                report("canonical graph depends on whether id() of the refinement's temporary repeats (signature cache keyed by id() is not transparent)", fi, [ni], cn,
                       {"never_repeats": ep["fresh"], "always_repeats": ep["aliased"]}, [r], single=True)
            if "graph_method" in c and norm_graph(c["graph_method"]) != norm_graph(c["graph"]):
                report("graph() and summary()['canon_graph'] differ", fi, [ni], cn, {}, [r], single=True)
            check_aut(report, "CRNCanonicalizer", c, lk, want, ids, fi, ni, cn, r, lk.get("canon_maps_ok"))
        # 3. VF2 analyser
        v = r.get("vf2")
        if v is not None:
            if v["stopped"] or v["used"] != v["count"] or v["iter_count"] != v["count"]:
                report("CRNAutomorphism: enumeration stopped early / counts inconsistent without limits", fi, [ni], cn,
                       {k2: v[k2] for k2 in ("stopped", "used", "count", "iter_count")}, [r], single=True)
            check_aut(report, "CRNAutomorphism", v, lk, want, ids, fi, ni, cn, r, lk.get("vf2_maps_ok"))
        # WL: faithfulness gated; coarsening recorded
        w = r.get("wl")
        if w is not None:
            if not lk["wl_iso"] or sorted(n for n, _ in w["graph"]["nodes"]) != list(range(1, n_nodes + 1)):
                report("WL canonical graph is not isomorphic to the view it was computed from", fi, [ni], cn, {"wl_graph": w["graph"]}, [r], single=True)
            cell = {x: i for i, cl in enumerate(w["cells"]) for x in cl}
            coarse = all(len({cell.get(x) for x in o}) == 1 for o in want["orbits"])
            ctx.count("wl_cells_coarsen_orbits:" + str(coarse))
            ctx.count("wl_cells_equal_orbits:" + str(sorted(w["cells"]) == want["orbits"]))
        # 4b. the rest of the public surface (configurations <name>@api)
        if "api" in r and c is not None and v is not None:
            check_api(ctx, report, r["api"], c, v, lk, want, ids, cfg, fi, ni, cn, r)
        # 5. helper objects created before an edit and asked again: the network they were built on, or the current one
        now = {"canon": (c or {}).get("said"), "vf2": (v or {}).get("said"), "wl": (w or {}).get("said")}
        for u in r.get("reuse", []):
            if now[u["kind"]] is None:
                continue
            verdict = "current" if u["again"] == now[u["kind"]] else "as-created" if u["again"] == u["then"] else "neither"
            ctx.count(f"reused_helper:{u['kind']}:{'unchanged-network' if u['then'] == now[u['kind']] else verdict}")
            if verdict == "neither":
                report("a helper object asked again after the network was edited describes neither the network it was created on nor the current one",
                       fi, [ni], cn, {"helper": u["kind"], "said_when_created": u["then"], "says_now": u["again"], "new_helper_says": now[u["kind"]]}, [r], single=True)
    # 2. kernel agreement
    for pk, (fi, cn, i, j, ki, kj) in enumerate(pairs):
        ri, rj = items[ki][3], items[kj][3]
        if "G" not in ri or "G" not in rj:
            continue
        same = key_graph(ri["canon"]["graph"], CFG[cn]) == key_graph(rj["canon"]["graph"], CFG[cn])
        iso = bool(pair_iso[pk])
        ctx.count(f"kernel_pair:{'iso' if iso else 'non-iso'}")
        if same != iso:
            what = (KERNEL_ISO_DIFFERENT if iso
                    else "networks whose views are not isomorphic receive identical canonical graphs")
            report(what, fi, [i, j], cn, {"canon_i": ri["canon"]["graph"], "canon_j": rj["canon"]["graph"]}, [ri, rj])


def check_aut(report, who, a, lk, want, ids, fi, ni, cn, r, maps_ok):
    """Automorphism count, mapping set and orbits of one analyser against the Lean specification."""
    if a["count"] != want["count"]:
        report(f"{who}: automorphism count differs from the number of structure-preserving self-maps of the view", fi, [ni], cn,
               {"impl": a["count"], "spec": want["count"]}, [r], single=True)
    if maps_ok is not None and not all(maps_ok):
        report(f"{who}: a reported mapping is not a structure-preserving self-map of the view", fi, [ni], cn,
               {"mappings": a["maps"][:50], "verdicts": maps_ok}, [r], single=True)
    if "auts" in lk and a["count"] == want["count"] and a["maps"] != lk["auts"]:
        report(f"{who}: reported mappings are not exactly the structure-preserving self-maps", fi, [ni], cn,
               {"impl": a["maps"][:20], "spec": lk["auts"][:20]}, [r], single=True)
    for field in ("orbits_raw", "orbits_method"):
        if field not in a:
            continue
        if not is_partition(a[field], ids):
            report(f"{who}: reported orbits are not a partition of the nodes (repeated / overlapping / missing class)", fi, [ni], cn,
                   {"impl": a[field], "nodes": ids, "source": field}, [r], single=True)
        elif sorted(a[field]) != want["orbits"]:
            report(f"{who}: reported orbits differ from the classes of nodes exchangeable by automorphisms", fi, [ni], cn,
                   {"impl": sorted(a[field]), "spec": want["orbits"], "source": field}, [r], single=True)
    if want["orbits"] != want["orbits_uf"]:
        report("model: union-find orbits differ from the orbit specification", fi, [ni], cn, {}, [r])
    if "nontrivial" in a and a["nontrivial"] != (want["count"] > 1):
        report(f"{who}: has_nontrivial_automorphism() disagrees with the automorphism count", fi, [ni], cn,
               {"impl": a["nontrivial"], "spec_count": want["count"]}, [r], single=True)


def check_capped(ctx, report, rec, lk, cv, fi, ni, cn, r):
    """`summary(max_depth=d)` against the depth-capped model (`crn.irCapped`; theorems crn_irCapped_exact / _full / _flag_sound /
    _partial_is_leaf): the search is cut at the first call deeper than d.  RuntimeError and early_stop do not depend on the label
    order and are gated for every d; canonical_perm, sample_permutations and automorphism_count are those of the model whenever
    the string order of the labels is the structural order on this view (`ir_label_scope`: order_safe, one node segment)."""
    cap = rec["capped"]
    d = cap["d"]
    m = lk[f"capped:{d}"]
    meta = lk.get(f"capped:{CAPPED_DEPTHS[0]}", {})
    ds = meta.get("leaf_depths") or []
    zone = "?" if not ds else ("below_first_leaf" if d < ds[0] else "complete" if d >= max(ds) else "between")
    want = "error" if m["error"] else ("early" if m["early_stop"] else "full")
    got = "error" if cap["error"] else ("early" if cap["early_stop"] else "full")
    bad = None
    if want != got:
        bad = ("RuntimeError / early_stop differ from the search cut at the first call deeper than max_depth", {"impl": got, "model": want})
    elif want != "error" and cv["order_safe"] and meta.get("same_nodes"):
        for key in ("order", "perms", "count"):
            if cap[key] != m[key]:
                bad = (f"{'canonical_perm' if key == 'order' else 'sample_permutations' if key == 'perms' else 'automorphism_count'} differs from the search cut at the first call deeper than max_depth",
                       {"impl": cap[key], "model": m[key]})
                break
        ctx.count("api:capped:answer_gated")
    elif want != "error":
        ctx.count("api:capped:answer_not_gated(string order of labels differs from structural order)")
    ctx.count(f"api:capped:{zone}:{want}:" + ("agree" if bad is None else "DIFFER"))
    if bad:
        report(f"CRNCanonicalizer: summary(max_depth=d): {bad[0]} (depth-capped model)", fi, [ni], cn,
               dict(bad[1], max_depth=d, leaf_depths=ds[:40], zone=zone, call=rec["how"]), [r], single=True)


def check_api(ctx, report, api, c, v, lk, want, ids, cfg, fi, ni, cn, r):
    """Gates on the other ways of asking (see `api_variants`).  An answer that claims to be complete (no early stop reported)
    must be the exact one, whatever limits were given; where no limit can have been reached the answer must be complete.
    The canonical graph must be the one the unlimited query returned (same network, same options)."""
    auts = lk.get("auts")
    n = len(ids)
    for who, base, recs in (("CRNCanonicalizer", c, api["canon"]), ("CRNAutomorphism", v, api["vf2"])):
        for rec in recs:
            how = rec["how"]
            ctx.count(f"api:{who}:{how.split('(')[0]}:" + ("error" if "error" in rec or "foreign" in rec else "gave-up" if "gave_up" in rec else "limited" if "partial" in rec
                                                           else "complete" if rec.get("complete") else "stopped-early"))
            if "error" in rec:
                report(f"{who}: {how} raised an exception", fi, [ni], cn, {"error": rec["error"]}, [r], single=True)
                continue
            if "foreign" in rec:
                report(f"{who}: an answer names nodes that are not nodes of the view it was computed from (asked another way)", fi, [ni], cn, {"call": how, "node": rec["foreign"]}, [r], single=True)
                continue
            if "capped" in rec and f"capped:{rec['capped']['d']}" in lk:
                check_capped(ctx, report, rec, lk, r["api"]["capped_view"], fi, ni, cn, r)
            if "gave_up" in rec:
                continue
            if "partial" in rec:  # an answer under a limit that was (or may have been) reached, with no completeness claim attached: soundness only
                full = auts if auts is not None else base["maps"]
                bad = None
                if "maps_listed" in rec:
                    ms, k = rec["maps_listed"], rec["partial"].get("max_count")
                    ctx.count(f"api:limited_iter:yielded_{'all' if len(ms) == want['count'] else 'some'}")
                    if any(m not in full for m in ms):
                        bad = ("a yielded mapping is not a structure-preserving self-map of the view", {"impl": [m for m in ms if m not in full][:5]})
                    elif len({json.dumps(m) for m in ms}) != len(ms):
                        bad = ("the same mapping is yielded twice", {"impl": ms[:20]})
                    elif k is not None and len(ms) != min(k, want["count"]):
                        bad = ("iter(max_count=k) must yield min(k, number of structure-preserving self-maps) mappings", {"k": k, "yielded": len(ms), "spec_count": want["count"]})
                if "orbits_sub" in rec:
                    home = {x: i for i, o in enumerate(want["orbits"]) for x in o}
                    if not is_partition(rec["orbits_sub"], ids) or any(len({home[x] for x in o}) != 1 for o in rec["orbits_sub"]):
                        bad = ("orbits computed from a sample of the self-maps must be a partition of the nodes whose classes lie inside the classes of exchangeable nodes",
                               {"impl": sorted(rec["orbits_sub"]), "spec": want["orbits"]})
                if rec.get("nontrivial_sound") and want["count"] == 1:
                    bad = ("has_nontrivial_automorphism() is True although the identity is the only structure-preserving self-map", {"spec_count": 1})
                if bad:
                    report(f"{who}: {bad[0]} (limit reached)", fi, [ni], cn, dict(bad[1], call=how), [r], single=True)
                continue
            if not rec.get("complete"):
                if rec.get("must"):
                    report(f"{who}: an early stop is reported although no limit was reached", fi, [ni], cn, {"call": how, "answer": short(rec)}, [r], single=True)
                continue
            bad = None
            if "count" in rec and rec["count"] != want["count"]:
                bad = ("automorphism count differs from the number of structure-preserving self-maps of the view", {"impl": rec["count"], "spec": want["count"]})
            elif "orbits_raw" in rec and (not is_partition(rec["orbits_raw"], ids) or sorted(rec["orbits_raw"]) != want["orbits"]):
                bad = ("reported orbits differ from the classes of nodes exchangeable by automorphisms", {"impl": sorted(rec["orbits_raw"]), "spec": want["orbits"]})
            elif "maps" in rec and rec["maps"] != (auts if auts is not None else base["maps"]):
                bad = ("reported mappings are not exactly the structure-preserving self-maps", {"impl": rec["maps"][:20], "spec": (auts if auts is not None else base["maps"])[:20]})
            elif "nontrivial" in rec and rec["nontrivial"] != (want["count"] > 1):
                bad = ("has_nontrivial_automorphism() disagrees with the automorphism count", {"impl": rec["nontrivial"], "spec_count": want["count"]})
            elif "used" in rec and rec["used"] != rec["count"]:
                bad = ("enumeration counts inconsistent without an early stop", {"used": rec["used"], "count": rec["count"]})
            elif "graph" in rec and key_graph(canon_sets(rec["graph"]), cfg) != key_graph(c["graph"], cfg):
                bad = ("the same network under the same options receives a different canonical graph", {"this": rec["graph"], "summary()": c["graph"]})
            if bad:
                report(f"{who}: {bad[0]} (asked another way)", fi, [ni], cn, dict(bad[1], call=how), [r], single=True)
    for j, w in enumerate(api["wl"]):
        ctx.count("api:WL:" + ("error" if "error" in w or "foreign" in w else "ok"))
        if "foreign" in w:
            report("WL canonical graph is not isomorphic to the view it was computed from (non-default options)", fi, [ni], cn, {"call": w["how"], "node": w["foreign"]}, [r], single=True)
        elif "error" in w:
            report(f"WL canonicaliser: {w['how'].split('(')[0]} with non-default options raised an exception", fi, [ni], cn, {"error": w["error"], "call": w["how"]}, [r], single=True)
        elif not lk.get(f"api_wl_iso:{j}") or sorted(x for x, _ in w["graph"]["nodes"]) != list(range(1, n + 1)):
            report("WL canonical graph is not isomorphic to the view it was computed from (non-default options)", fi, [ni], cn, {"wl_graph": w["graph"], "call": w["how"]}, [r], single=True)
        elif norm_graph(w["graph_method"]) != norm_graph(w["graph"]) or norm_graph(w["again"]) != norm_graph(w["graph"]) or sorted(w["cells_method"]) != sorted(w["cells"]):
            report("WL canonicaliser: graph() / orbits() / a second summary() differ from the first summary() of the same object", fi, [ni], cn, {"call": w["how"]}, [r], single=True)


# ---------------------------------------------------------------- shrinking
class _Probe:
    """Minimal Ctx stand-in collecting violations of a re-evaluation."""

    def __init__(self, ctx):
        self.violations, self._ctx, self._c18_seen = [], ctx, {}

    def lean(self):
        return self._ctx.lean()

    def count(self, *a, **k):
        pass

    def case(self, *a, **k):
        pass

    def violation(self, what, case, detail=None, classes=(), no_input=False):
        self.violations.append(what)


def still_fails(ctx, net, cn, what):
    try:
        p = _Probe(ctx)
        evaluate(p, [([net], [cn])], "shrink", shrink=False)
        return what in p.violations
    except Exception:  # noqa: BLE001 - a candidate that cannot be built is not a smaller failing input
        return False


def shrink_net(ctx, net, cn, what, budget=60):
    cur = json.loads(json.dumps(net))
    n = 0
    changed = True
    while changed and n < budget:
        changed = False
        cands = []
        for i in range(len(cur["rxns"])):
            c = json.loads(json.dumps(cur)); del c["rxns"][i]; cands.append(c)
        for i, rx in enumerate(cur["rxns"]):
            for side in ("r", "p"):
                for k, (s, co) in enumerate(rx[side]):
                    c = json.loads(json.dumps(cur)); del c["rxns"][i][side][k]
                    if c["rxns"][i]["r"] or c["rxns"][i]["p"]:
                        cands.append(c)
                    if co > 1:
                        c = json.loads(json.dumps(cur)); c["rxns"][i][side][k][1] = co - 1; cands.append(c)
        if cur.get("isolated"):
            c = json.loads(json.dumps(cur)); c["isolated"] = []; cands.append(c)
        for i, op in enumerate(cur.get("history", [])):
            c = json.loads(json.dumps(cur)); del c["history"][i]; cands.insert(i, c)
            if op["op"] == "fork":
                for j in range(len(op.get("other", []))):
                    c = json.loads(json.dumps(cur)); del c["history"][i]["other"][j]; cands.append(c)
            if op["op"] in ("analyse", "analyse_other") and len(op.get("who", [])) > 1:
                for j in range(len(op["who"])):
                    c = json.loads(json.dumps(cur)); del c["history"][i]["who"][j]; cands.append(c)
        for c in cands:
            n += 1
            if n > budget:
                break
            if still_fails(ctx, c, cn, what):
                cur, changed = c, True
                break
    return cur


# ---------------------------------------------------------------- generators
def rx(r, p, rule=None, eid=None):
    return {"r": [[s, c] for s, c in r], "p": [[s, c] for s, c in p], "rule": rule, "eid": eid}


def rename_net(net, rnd, pool=None, keep_labels=False, ids="regen"):
    """Same network up to species names, reaction order and reaction ids."""
    sp = sorted({s for r in net["rxns"] for s, _ in r["r"] + r["p"]} | set(net.get("isolated", [])))
    if keep_labels:
        new = sp[:]
        rnd.shuffle(new)
    else:
        pool = pool or ["S%d" % i for i in range(12)] + ["X", "Y", "Z", "W", "aa", "b2", "Q_1", "m", "n", "10"]
        new = rnd.sample(pool, len(sp))
    m = dict(zip(sp, new))
    rxns = []
    for k, r in enumerate(net["rxns"]):
        r_side = [[m[s], c] for s, c in r["r"]]
        p_side = [[m[s], c] for s, c in r["p"]]
        rnd.shuffle(r_side); rnd.shuffle(p_side)
        eid = None
        if ids == "explicit":
            eid = "e%d_%d" % (rnd.randrange(100), k)
        rxns.append({"r": r_side, "p": p_side, "rule": r["rule"], "eid": eid})
    rnd.shuffle(rxns)
    return {"rxns": rxns, "isolated": [m[s] for s in net.get("isolated", [])]}


def permute_net(net, perm, reverse):
    """Exhaustive stream: apply a permutation of the species labels; optionally reverse reaction order."""
    rxns = [{"r": [[perm[s], c] for s, c in r["r"]], "p": [[perm[s], c] for s, c in r["p"]], "rule": r["rule"], "eid": None} for r in net["rxns"]]
    if reverse:
        rxns.reverse()
    return {"rxns": rxns, "isolated": [perm[s] for s in net.get("isolated", [])]}


def near_miss(net, rnd):
    """One edit: a coefficient, the direction of one arc, or one rule label. -> (net, kind) or None"""
    c = json.loads(json.dumps(net))
    if not c["rxns"]:
        return None
    kind = rnd.choice(["coef", "coef", "arc", "arc", "rule", "swap"])
    r = rnd.choice(c["rxns"])
    if kind == "coef":
        side = rnd.choice([s for s in ("r", "p") if r[s]])
        e = rnd.choice(r[side])
        e[1] = e[1] + 1 if e[1] == 1 or rnd.random() < 0.5 else e[1] - 1
    elif kind == "arc":
        side = rnd.choice([s for s in ("r", "p") if r[s]])
        other = "p" if side == "r" else "r"
        e = rnd.choice(r[side])
        if any(s == e[0] for s, _ in r[other]):
            return None
        r[side].remove(e); r[other].append(e)
    elif kind == "swap":
        r["r"], r["p"] = r["p"], r["r"]
    else:
        r["rule"] = rnd.choice([x for x in ["r", "R1", "R2", "k"] if x != (r["rule"] or "r")])
    for q in c["rxns"]:
        q["eid"] = None
    return c, kind


def random_net(rnd, max_species=6, max_rxns=5):
    ns = rnd.randint(2, max_species)
    sp = [chr(65 + i) for i in range(ns)]
    nr = rnd.randint(1, max_rxns)
    rules = rnd.choice([[None], [None], ["R1", None], ["R1", "R2", None]])
    rxns = []
    for _ in range(nr):
        if rxns and rnd.random() < 0.15:
            q = json.loads(json.dumps(rnd.choice(rxns)))  # repeated reaction
            rxns.append(q)
            continue
        kr = rnd.choice([0, 1, 1, 1, 2, 2, 3])
        kp = rnd.choice([0, 1, 1, 1, 2, 2, 3])
        if kr + kp == 0:
            kr = 1
        R = rnd.sample(sp, min(kr, ns))
        P = rnd.sample(sp, min(kp, ns))  # may overlap R: catalysts
        if rnd.random() < 0.7:
            P = [s for s in P if s not in R] or P
        co = lambda: rnd.choice([1, 1, 1, 2, 2, 3])
        rxns.append(rx([(s, co()) for s in R], [(s, co()) for s in P], rule=rnd.choice(rules)))
    return {"rxns": rxns, "isolated": (["I"] if rnd.random() < 0.08 else [])}


def uneven_depth_nets():
    """Two networks whose SPECIES view is one refinement cell holding several orbits (a cubic graph on 8 species, every edge a reversible
    pair of reactions): the leaves of the search lie at depths 1 and 2, so `max_depth=1` lies between the first and the deepest leaf.
    In the first the first leaf is a deep one (max_depth=1: RuntimeError although shallower leaves exist), in the second — the species
    names A and B exchanged — a shallow one (max_depth=1: an answer from one leaf, early_stop True).  Species configurations only: the
    bipartite view of these networks has thousands of leaves."""
    E = [(0, 3), (0, 4), (0, 7), (1, 2), (1, 3), (1, 6), (2, 4), (2, 5), (3, 6), (4, 7), (5, 6), (5, 7)]
    out = []
    for names in ("ABCDEFGH", "BACDEFGH"):
        out.append({"rxns": [q for u, v in E for q in (rx([(names[u], 1)], [(names[v], 1)]), rx([(names[v], 1)], [(names[u], 1)]))]})
    return out


def symmetric_families():
    fams = []
    L = [chr(65 + i) for i in range(8)]
    for n in (2, 3, 4, 5, 6):
        fams.append(("ring%d" % n, {"rxns": [rx([(L[i], 1)], [(L[(i + 1) % n], 1)]) for i in range(n)]}))
    fams.append(("A+B<=>C", {"rxns": [rx([("A", 1), ("B", 1)], [("C", 1)]), rx([("C", 1)], [("A", 1), ("B", 1)])]}))
    fams.append(("2A+B>>C", {"rxns": [rx([("A", 2), ("B", 1)], [("C", 1)])]}))
    fams.append(("A+B>>C", {"rxns": [rx([("A", 1), ("B", 1)], [("C", 1)])]}))
    fams.append(("A+B>>2C+D", {"rxns": [rx([("A", 1), ("B", 1)], [("C", 2), ("D", 1)])]}))
    fams.append(("2A+2B>>C", {"rxns": [rx([("A", 2), ("B", 2)], [("C", 1)])]}))
    fams.append(("star-out", {"rxns": [rx([("A", 1)], [(L[i], 1)]) for i in range(1, 5)]}))
    fams.append(("star-in", {"rxns": [rx([(L[i], 1)], [("A", 1)]) for i in range(1, 5)]}))
    fams.append(("dup3", {"rxns": [rx([("A", 1)], [("B", 1)]) for _ in range(3)]}))
    fams.append(("dup2-rules", {"rxns": [rx([("A", 1)], [("B", 1)], "R1"), rx([("A", 1)], [("B", 1)], "R2"), rx([("A", 1)], [("B", 1)], "R1")]}))
    fams.append(("two-components", {"rxns": [rx([("A", 1)], [("B", 1)]), rx([("C", 1)], [("D", 1)])]}))
    fams.append(("two-components-stoich", {"rxns": [rx([("A", 2)], [("B", 1)]), rx([("C", 1)], [("D", 2)])]}))
    fams.append(("ring3-2x", {"rxns": [rx([(L[i], 2)], [(L[(i + 1) % 3], 1)]) for i in range(3)]}))
    fams.append(("ring4-alt", {"rxns": [rx([(L[i], 1 + i % 2)], [(L[(i + 1) % 4], 1)]) for i in range(4)]}))
    fams.append(("catalyst", {"rxns": [rx([("A", 1), ("B", 1)], [("A", 1), ("C", 1)])]}))
    fams.append(("autocatalysis", {"rxns": [rx([("A", 1), ("B", 1)], [("A", 2)]), rx([("A", 1), ("C", 1)], [("A", 2)])]}))
    fams.append(("loop-vs-2cycle", {"rxns": [rx([("A", 1)], [("A", 1)]), rx([("B", 1)], [("C", 1)]), rx([("C", 1)], [("B", 1)])]}))
    fams.append(("source-sink", {"rxns": [rx([], [("A", 1)]), rx([("A", 1)], []), rx([], [("B", 1)]), rx([("B", 1)], [])]}))
    fams.append(("K33", {"rxns": [rx([("A", 1), ("B", 1), ("C", 1)], [("D", 1), ("E", 1), ("F", 1)])]}))
    fams.append(("isolated", {"rxns": [rx([("A", 1)], [("B", 1)])], "isolated": ["C", "D"]}))
    fams.append(("zero-and-negative-coefficients-dropped", {"rxns": [rx([("A", 0), ("B", 1)], [("C", 1), ("D", -1)]), rx([("C", 1)], [("B", 1)])]}))
    fams.append(("empty", {"rxns": []}))
    fams.append(("only-isolated", {"rxns": [], "isolated": ["A", "B"]}))
    return fams


# rare but legal names.  None has the shape <rule>_<n> of a generated reaction id (that is finding F19).
ODD_LABELS = ["1", "2", "3", "0", "10", "01", "-1", " ", "", "a:b", "a|b", "||", ":", "species", "reaction", "kind", "label", "None", "True",
              "\u00e9", "\u03b1\u03b2", "A" * 40, "A" * 39 + "B", "a b", "A+B", ">>", "'q'", "(1, 2)"]
ODD_RULES = ["1", "R:1", "a|b", "", " ", "species", "None", "\u00e9", "R" * 30]


def odd_names(net, rnd):
    """The network with its species renamed into ODD_LABELS, some rules into ODD_RULES, and (sometimes) explicit odd reaction ids."""
    out = rename_net({"rxns": net["rxns"], "isolated": net.get("isolated", [])}, rnd, pool=ODD_LABELS, ids="regen")
    rules = {}
    for q in out["rxns"]:
        if q["rule"] is not None and rnd.random() < 0.7:
            q["rule"] = rules.setdefault(q["rule"], rnd.choice(ODD_RULES))
    if rnd.random() < 0.3:
        taken = set(net_species(out))
        ids = [x for x in ["0", "1", "7", "x:y", "e|1", "\u00e9", " ", "9" * 12] if x not in taken]
        rnd.shuffle(ids)
        for q, i in zip(out["rxns"], ids):
            q["eid"] = i
    return out


def f19_nets():
    return [
        {"rxns": [rx([("r_1", 1)], [("B", 1)])]},
        {"rxns": [rx([("A", 1)], [("r_1", 1)]), rx([("r_1", 2)], [("C", 1)])]},
        {"rxns": [rx([("A", 1)], [("B", 1)], "R1"), rx([("R1_1", 1), ("A", 1)], [("C", 1)])]},
        {"rxns": [rx([("A", 1)], [("B", 1)], eid="B"), rx([("B", 1)], [("C", 1)])]},
        {"rxns": [rx([("A", 1), ("B", 1)], [("C", 1)], eid="x"), rx([("x", 1)], [("A", 1)], eid="y")]},
    ]


SIDES10 = [[]] + [[(s, 1)] for s in "ABC"] + [[(s, 2)] for s in "ABC"] + [[("A", 1), ("B", 1)], [("A", 1), ("C", 1)], [("B", 1), ("C", 1)]]
SIDES19 = SIDES10 + [[(a, ca), (b, cb)] for a, b in (("A", "B"), ("A", "C"), ("B", "C")) for ca, cb in ((1, 2), (2, 1), (2, 2))]
S3 = [dict(zip("ABC", p)) for p in itertools.permutations("ABC")]


def canon_under_s3(rxns):
    """Representative test: is this reaction list the least among its images under S3 (as sorted JSON)?"""
    def key(rs):
        return sorted(json.dumps([sorted(r), sorted(p)]) for r, p in rs)
    k0 = key(rxns)
    for perm in S3[1:]:
        img = [([(perm[s], c) for s, c in r], [(perm[s], c) for s, c in p]) for r, p in rxns]
        if key(img) < k0:
            return False
    return True


def exhaustive_nets(two_reactions):
    """All networks over the species A, B, C up to species permutation: one reaction over 19 sides
    (<= 2 species, coefficients <= 2), or two reactions over 10 sides (side size <= 2)."""
    out = []
    R19 = [(r, p) for r in SIDES19 for p in SIDES19 if r or p]
    for r, p in R19:
        if canon_under_s3([(r, p)]):
            out.append({"rxns": [rx(r, p)]})
    if two_reactions:
        R10 = [(r, p) for r in SIDES10 for p in SIDES10 if r or p]
        for a, b in itertools.combinations_with_replacement(range(len(R10)), 2):
            pair = [R10[a], R10[b]]
            if canon_under_s3(pair):
                out.append({"rxns": [rx(*pair[0]), rx(*pair[1])]})
    return out


def load_regress():
    d = ROOT / "regress" / "C18"
    return [json.loads(f.read_text()) for f in sorted(d.glob("*.json"))] if d.exists() else []


def batches(xs, n):
    for i in range(0, len(xs), n):
        yield xs[i:i + n]


# ---------------------------------------------------------------- histories on one object
def sim_ids(net):
    """Ids the store hands out for the reactions of `net`, in order (explicit ids kept; generated ids rule_n)."""
    taken, counters, out = set(), {}, []
    for q in net["rxns"]:
        rule = q.get("rule") or "r"
        eid = q.get("eid")
        if eid is None:
            cnt = counters.get(rule, 0) + 1
            while f"{rule}_{cnt}" in taken:
                cnt += 1
            counters[rule] = cnt
            eid = f"{rule}_{cnt}"
        taken.add(eid)
        out.append(eid)
    return out


def net_species(net):
    return sorted({s for r in net["rxns"] for s, _ in r["r"] + r["p"]} | set(net.get("isolated", [])))


ANALYSERS = ["canon", "vf2", "wl"]


def analyse_op(rnd, same=0.8, kind="analyse"):
    who = rnd.sample(ANALYSERS, rnd.choice([1, 1, 2, 3]))
    who = [w + ("_fn" if rnd.random() < 0.25 else "") for w in who]
    other = ["stoich-flipped", "stoich-flipped", "view-flipped", "keys-flipped", "ids-flipped", "ids-flipped", rnd.choice(sorted(CFG))]
    return {"op": kind, "config": "same" if rnd.random() < same else rnd.choice(other), "who": who}


def variant_of(q, rnd):
    """Other content for a stored reaction over (mostly) the same species: one coefficient, one species moved across
    the arrow, sides swapped."""
    for _ in range(4):
        nm = near_miss({"rxns": [json.loads(json.dumps(q))]}, rnd)
        if nm and nm[1] != "rule":
            return nm[0]["rxns"][0]
    return {"r": q["p"], "p": q["r"], "rule": q.get("rule")}


def random_rxn(rnd, sp):
    kr, kp = rnd.choice([0, 1, 1, 2, 2]), rnd.choice([0, 1, 1, 2, 2])
    if kr + kp == 0:
        kp = 1
    co = lambda: rnd.choice([1, 1, 2, 3])
    return rx([(s, co()) for s in rnd.sample(sp, min(kr, len(sp)))], [(s, co()) for s in rnd.sample(sp, min(kp, len(sp)))])


def edit_ops(rnd, net, ids, sp):
    """One in-place edit (a list of history steps; `revert` is an edit followed by its inverse)."""
    nr = len(net["rxns"])
    kinds = ["replace-variant"] * 5 + ["replace-random"] * 2 + ["coef"] * 3 + ["drop-keep"] * 3 + ["drop-prune", "add", "remove", "rule", "replace-same", "revert"]
    if nr == 0:
        kinds = ["add"]
    kind = rnd.choice(kinds)
    k = rnd.randrange(nr) if nr else 0
    q = net["rxns"][k] if nr else None
    at = {"eid": ids[k], "k": k} if nr else {}
    if kind in ("replace-variant", "revert"):
        v = variant_of(q, rnd)
        ops = [{"op": "replace", **at, "r": v["r"], "p": v["p"], "rule": q.get("rule")}]
        if kind == "revert":
            ops.append({"op": "replace", **at, "r": q["r"], "p": q["p"], "rule": q.get("rule")})
    elif kind == "replace-random":
        v = random_rxn(rnd, sp)
        ops = [{"op": "replace", **at, "r": v["r"], "p": v["p"], "rule": q.get("rule")}]
    elif kind == "replace-same":
        ops = [{"op": "replace", **at, "r": q["r"], "p": q["p"], "rule": q.get("rule")}]
    elif kind == "coef":
        ops = [{"op": "coef", **at, "side": rnd.choice(["r", "p"]) if q["r"] and q["p"] else ("r" if q["r"] else "p"), "j": rnd.randrange(3), "c": rnd.choice([1, 2, 2, 3])}]
    elif kind in ("drop-keep", "drop-prune"):
        ops = [{"op": "drop_species", "k": rnd.randrange(max(1, len(sp))), "prune": kind == "drop-prune"}]
    elif kind == "add":
        v = random_rxn(rnd, sp + ["N"] if rnd.random() < 0.3 else (sp or ["A", "B"]))
        ops = [{"op": "add", "r": v["r"], "p": v["p"], "rule": rnd.choice([None, None, "R1"]), "eid": rnd.choice([None, None, "x%d" % rnd.randrange(3)])}]
    elif kind == "remove":
        ops = [{"op": "remove", **at}]
    else:
        ops = [{"op": "rule", **at, "rule": rnd.choice([x for x in ["r", "R1", "R2", "k"] if x != (q.get("rule") or "r")])}]
    return kind, ops


def random_history(rnd, net):
    """analyse -> edit in place -> (analyse / edit / fork ...)*: the final query follows at least one edit that came
    after at least one analysis (with high probability under the options of the final query)."""
    ids, sp = sim_ids(net), net_species(net)
    hist = [analyse_op(rnd, same=0.9)]
    if rnd.random() < 0.25:
        hist.insert(0, analyse_op(rnd, same=0.3))
    kinds = []
    n_more = rnd.choice([1, 1, 1, 2, 2, 3])
    for i in range(n_more):
        kind, ops = edit_ops(rnd, net, ids, sp)
        kinds.append(kind)
        u = rnd.random()
        if u < 0.12:  # a copy is forked off: one of the two objects gets the edit (and is analysed), the query goes to the other or to the same
            side = ops + ([analyse_op(rnd)] if rnd.random() < 0.6 else [])
            hist.append({"op": "fork", "on": rnd.choice(["copy", "orig"]), "other": side})
            kinds[-1] = "fork:" + kind
            kind2, ops2 = edit_ops(rnd, net, ids, sp)
            hist.extend(ops2); kinds.append(kind2)
        else:
            hist.extend(ops)
        if i < n_more - 1 and rnd.random() < 0.6:
            hist.append(analyse_op(rnd))
    u = rnd.random()
    if u < 0.3:  # the query is then the second one after the last edit, possibly with other options in between
        hist.append(analyse_op(rnd, same=0.4))
    elif u < 0.45 and net["rxns"]:  # another network with the same species labels and reaction ids is analysed in between
        other = json.loads(json.dumps(net))
        k = rnd.randrange(len(other["rxns"]))
        v = variant_of(other["rxns"][k], rnd)
        other["rxns"][k] = {"r": v["r"], "p": v["p"], "rule": other["rxns"][k].get("rule"), "eid": other["rxns"][k].get("eid")}
        hist.append({**analyse_op(rnd, same=1.0, kind="analyse_other"), "net": {"rxns": other["rxns"], "isolated": other.get("isolated", [])}})
    return hist, kinds


def history_family(net, hist):
    """[edited-in-place object, brand-new object with the same final content and ids, starting network]"""
    base = {"rxns": net["rxns"], "isolated": net.get("isolated", [])}
    return [{**base, "history": hist}, {**base, "history": hist, "rebuild": True}, base]


def structured_histories(rnd):
    """Every symmetric family: analysed (all three helpers), one reaction replaced under its id by a variant (or one
    species dropped but kept as orphan / one coefficient changed directly), queried again."""
    out = []
    for name, net in symmetric_families():
        if not net["rxns"] or "zero" in name:
            continue
        ids, sp = sim_ids(net), net_species(net)
        for flavour in ("replace", rnd.choice(["drop", "coef"])):
            k = rnd.randrange(len(net["rxns"]))
            q = net["rxns"][k]
            if flavour == "replace":
                v = variant_of(q, rnd)
                ed = {"op": "replace", "eid": ids[k], "k": k, "r": v["r"], "p": v["p"], "rule": q.get("rule")}
            elif flavour == "drop":
                ed = {"op": "drop_species", "k": rnd.randrange(len(sp)), "prune": False}
            else:
                ed = {"op": "coef", "eid": ids[k], "k": k, "side": "r" if q["r"] else "p", "j": rnd.randrange(2), "c": rnd.choice([2, 3])}
            who = ANALYSERS[:]
            rnd.shuffle(who)
            out.append((history_family(net, [{"op": "analyse", "config": "same", "who": who}, ed]), name + ":" + flavour))
        # no edit at all: the same object analysed under other options immediately before the query
        who = rnd.sample(ANALYSERS, 2)
        hist = [{"op": "analyse", "config": rnd.choice(["stoich-flipped", "view-flipped", "keys-flipped", "ids-flipped"]), "who": who}]
        out.append(([{"rxns": net["rxns"], "isolated": net.get("isolated", []), "history": hist}, net], name + ":options"))
    return out


def count_history(ctx, net):
    if net.get("rebuild"):
        ctx.count("history:rebuilt-twin")
        return
    def walk(hist):
        for op in hist:
            ctx.count("history_step:" + op["op"] + (":" + (op.get("config") if op.get("config") in ("same", "stoich-flipped", "view-flipped", "keys-flipped", "ids-flipped") else "named-options") if op["op"].startswith("analyse") else "")
                      + (":keep-orphan" if op["op"] == "drop_species" and not op.get("prune") else ""))
            for w in op.get("who", []):
                ctx.count("history_analyser:" + w)
            walk(op.get("other", []))
    walk(net["history"])
    ctx.count("history_len:%d" % min(len(net["history"]), 8))


# ---------------------------------------------------------------- IR correspondence (SynKitModel/CrnIR.lean <-> canon.py)
IR_MAX_REPORTS = 3
_probe_cls = None


class _TooManyLeaves(Exception):
    pass


def probe_class():
    """`CRNCanonicalizer` with two of its own methods wrapped so that the leaves of ITS search can be observed
    (prefix, permutation, label string, in visiting order).  Nothing of the algorithm is re-implemented: both
    wrappers call the inherited method with the arguments they were given and return what it returned."""
    global _probe_cls
    if _probe_cls is None:
        from synkit.CRN.Topo.canon import CRNCanonicalizer

        class Probe(CRNCanonicalizer):
            cap = 10 ** 9

            def _search(self, G, part, prefix, *a, **k):
                self._at = list(prefix)  # the frame entered last is the one that calls _label (a leaf has no children)
                return super()._search(G, part, prefix, *a, **k)

            def _label(self, G, perm):
                lab = super()._label(G, perm)
                self.leaves.append((list(getattr(self, "_at", [])), list(perm), lab))
                if len(self.leaves) > self.cap:
                    raise _TooManyLeaves()
                return lab

        _probe_cls = Probe
    return _probe_cls


def eq_pattern(xs):
    """The partition of positions induced by equality, as the list of first occurrences."""
    first = {}
    return [first.setdefault(x, i) for i, x in enumerate(xs)]


def short(x, n=600):
    s = json.dumps(x, default=str)
    return s if len(s) <= n else s[:n] + "..."


def ir_label_scope(G, cfg):
    """(comparable, order_safe).  Python renders a label as ONE string (`str` of every value, fields joined by ':', items
    by '|') and compares strings; the model keeps the label structured.
    comparable: no selected value contains a separator and each key is written with one Python type (then two label
    strings are equal exactly when the structured labels are);
    order_safe: moreover, per arc key, no rendering is a proper prefix of another one and the order of the renderings
    is the order of the values (numbers: e.g. all coefficients <= 9; "10" < "2" as strings) — then, the node segment
    being the same for all leaves, the string order of two leaf labels is the structural order."""
    comparable = order_safe = True
    items = [(cfg["nk"], [d for _, d in G.nodes(data=True)]), (cfg["ek"], [d for _, _, d in G.edges(data=True)])]
    for which, (keys, dicts) in enumerate(items):
        for k in keys:
            vals = {}
            for d in dicts:
                x = d.get(k, "")
                if isinstance(x, bool) or not isinstance(x, (int, str)):
                    return False, False
                vals[(type(x).__name__, x)] = str(x)
            if len({t for t, _ in vals}) > 1 or len(set(vals.values())) != len(vals):
                return False, False
            rs = list(vals.values())
            if any(":" in r or "|" in r for r in rs):
                return False, False
            if which == 1:
                xs = [x for _, x in vals]
                if any(a != b and b.startswith(a) for a in rs for b in rs):
                    order_safe = False
                if any((x < y) != (str(x) < str(y)) for x in xs for y in xs):
                    order_safe = False
    return comparable, order_safe


def ir_random_partition(rnd, nodes, refined):
    """A partition to probe `_sig` / `_refine` on: the unit partition, the refined initial partition with one cell
    individualised at a random node, or random cells (every cell sorted by id, as the code keeps them)."""
    kind = rnd.choice(["unit", "indiv", "indiv", "random"])
    big = [i for i, c in enumerate(refined) if len(c) > 1]
    if kind == "indiv" and big:
        i = rnd.choice(big)
        v = rnd.choice(refined[i])
        return kind, [list(c) for c in refined[:i]] + [[v], sorted(w for w in refined[i] if w != v)] + [list(c) for c in refined[i + 1:]]
    if kind != "random" or len(nodes) < 2:
        return "unit", [list(nodes)]
    sh = list(nodes)
    rnd.shuffle(sh)
    cuts = sorted(rnd.sample(range(1, len(sh)), rnd.randint(1, min(3, len(sh) - 1))))
    return kind, [sorted(sh[a:b]) for a, b in zip([0] + cuts, cuts + [len(sh)])]


def ir_reports(ctx):
    return sum(1 for v in ctx.violations if isinstance(v.get("detail"), dict) and str(v["detail"].get("stream", "")).startswith("ir"))


class _Collect(_Probe):
    """Ctx stand-in that keeps the violations of a re-evaluation with their inputs."""

    def __init__(self, ctx):
        super().__init__(ctx)
        self.found = []

    def violation(self, what, case, detail=None, classes=(), no_input=False):
        self.found.append({"what": what, "case": case, "detail": detail, "classes": list(classes), "no_input": no_input})


def ir_break(ctx, net, cn, tag, stage, detail):
    """A stage of the real search differs from the model.  If the difference shows up as a violation of the property
    itself on this network or on renamed copies of it (canonical graph not faithful, SameUpToNames networks with different
    canonical graphs, automorphism count / mappings / orbits other than the Lean specification says), that input is
    reported; otherwise the correspondence broke without a failing input."""
    ctx.count(f"ir:break:{stage}")
    if ir_reports(ctx) >= IR_MAX_REPORTS:
        return
    detail = dict(detail, stream=f"ir:{tag}", stage=stage)
    base = {k: v for k, v in net.items() if k in ("rxns", "isolated")}
    try:
        rnd = ctx.rnd
        fam = [base, rename_net(base, rnd, keep_labels=True), rename_net(base, rnd, keep_labels=True, ids="explicit")] + [rename_net(base, rnd, ids=rnd.choice(["regen", "explicit"])) for _ in range(6)]
        probe = _Collect(ctx)
        evaluate(probe, [(fam, [cn])], "ir-exhibit", shrink=False)
        for v in probe.found:
            if not v["no_input"] and F19 not in v["classes"]:
                ctx.violation(v["what"], v["case"], dict(v["detail"] or {}, stream=f"ir:{tag}", found_by="a stage of the search differs from the model SynKitModel/CrnIR.lean",
                                                         ir_stage=stage, ir_detail=short(detail, 1500)), classes=v["classes"])
                return
    except Exception as e:  # noqa: BLE001 - the exhibit step is best effort
        detail["exhibit_raises"] = f"{type(e).__name__}: {e}"[:300]
    ctx.violation(f"correspondence (individualisation-refinement search, stage {stage}): canon.py differs from the model SynKitModel/CrnIR.lean the crn_ir_* theorems are about",
                  {"kind": "ir", "nets": [base], "config": cn}, detail, no_input=True)


def enc_part(p, idx):
    return [[idx[v] for v in c] for c in p]


def enc_sig(sig):
    attrs, (din, dout), counts, edges = sig
    return {"attrs": [enc(x) for x in attrs], "in": int(din), "out": int(dout), "counts": [int(c) for c in counts], "edges": [[enc(x) for x in e] for e in edges]}


def check_ir(ctx, batch, net, cn, tag):
    """Stage-by-stage comparison of the real `CRNCanonicalizer` with SynKitModel/CrnIR.lean on one (network, options).
    The model is run on the graph the implementation built (`cz.G`), node ids interned in `sorted(G.nodes())` order."""
    from synkit.CRN.Topo.canon import CRNCanonicalizer

    rnd, cfg = ctx.rnd, CFG[cn]
    cap = 300 if ctx.quick else 1500
    kw = dict(ctor_kw(cfg), edge_attr_keys=tuple(cfg["ek"]))
    base = {k: v for k, v in net.items() if k in ("rxns", "isolated")}
    case = {"kind": "ir", "nets": [base], "config": cn}
    public = True  # an exception of the public API is reported with its input, one of the probed internal methods as a correspondence break
    try:
        H = build(base)
        cz = CRNCanonicalizer(H, **kw)
        G = cz.G
        s = cz.summary()
        public = False
        try:
            nodes = sorted(G.nodes())
        except TypeError:
            ctx.count("ir:skipped:node_ids_not_sortable")
            return None
        idx = {v: i for i, v in enumerate(nodes)}
        n = len(nodes)
        comparable, order_safe = ir_label_scope(G, cfg)
        if not comparable:
            ctx.count("ir:skipped:label_strings_not_comparable_with_structured_labels")
            return None
        genc = enc_graph(G, lambda v: idx[v])
        initial = cz._init_part(G)
        refined = cz._refine(G, [list(c) for c in initial])
        probe = probe_class()(H, **kw)
        probe.cap, probe.leaves = cap, []
        try:
            ps = probe.summary()
        except _TooManyLeaves:
            ctx.count("ir:skipped:too_many_leaves")
            return None
        leaves = probe.leaves
        parts = [ir_random_partition(rnd, nodes, refined) for _ in range(2)] if n else []
        for kind, _ in parts:
            ctx.count("ir:probe_partition:" + kind)
        pool = [p for _, p in parts] + [[list(c) for c in initial]]
        sig_q = []
        for _ in range(2 if n else 0):
            p, v = rnd.choice(pool), rnd.choice(nodes)
            sig_q.append((p, v, cz._sig(G, v, p)))
        ref_q = [(p, cz._refine(G, [list(c) for c in p])) for _, p in parts]
        impl = {"perm": [idx[v] for v in s["canonical_perm"]], "perms": [[idx[v] for v in p] for p in s["sample_permutations"]], "count": int(s["automorphism_count"]),
                "orbits_raw": [sorted(idx[v] for v in o) for o in s["orbits"]], "early": bool(s["early_stop"])}
        probe_said = {"perm": [idx[v] for v in ps["canonical_perm"]], "perms": [[idx[v] for v in p] for p in ps["sample_permutations"]], "count": int(ps["automorphism_count"])}
        tree = [[[idx[v] for v in pre], [idx[v] for v in perm]] for pre, perm, _ in leaves]
        labels = [lab for _, _, lab in leaves]
        i_init, i_ref = enc_part(initial, idx), enc_part(refined, idx)
        sig_q = [(enc_part(p, idx), idx[v], enc_sig(sg)) for p, v, sg in sig_q]
        ref_q = [(enc_part(p, idx), enc_part(out, idx)) for p, out in ref_q]
    except Exception as e:  # noqa: BLE001 - any exception is an observable of the check
        ctx.count(f"ir:impl_raises:{type(e).__name__}")
        err = f"{type(e).__name__}: {e}"[:300]
        if not public:
            ir_break(ctx, net, cn, tag, "an internal method (_init_part / _refine / _sig / instrumented _search) raises where summary() does not", {"error": err})
        elif ir_reports(ctx) < IR_MAX_REPORTS:
            ctx.violation("canon raised an exception", {"nets": [base], "config": cn}, {"stream": f"ir:{tag}", "error": err},
                          classes=[F19] if set(net_species(base)) & set(sim_ids(base)) and not cfg.get("int") else [])
        return None
    n_arcs = G.number_of_edges()
    ctx.count("ir:graphs")
    ctx.count(f"ir:graphs:{tag}")
    ctx.count(f"ir:config:{cn}")
    ctx.count("ir:leaves", len(leaves))
    ctx.count("ir:leaves:" + ("1" if len(leaves) <= 1 else "2-6" if len(leaves) <= 6 else ">6"))
    ctx.count("ir:search_depth:%d" % min(max((len(t[0]) for t in tree), default=0), 4))
    ctx.count("ir:final_order_gated" if order_safe else "ir:final_order_not_gated(string order of labels differs from structural order)")
    state = {"broken": False}

    def brk(stage, detail):
        if not state["broken"]:
            state["broken"] = True
            ir_break(ctx, net, cn, tag, stage, detail)

    # (d), implementation side: result of the search against the leaves of the same search
    if impl["early"]:
        brk("early_stop without limits", {})
    if probe_said != {k: impl[k] for k in probe_said}:
        brk("observer: the instrumented subclass and the plain class return different results", {"plain": short(impl), "instrumented": short(probe_said)})
    if labels:
        m = min(labels)
        first = labels.index(m)
        least = [t[1] for t, lab in zip(tree, labels) if lab == m]
        if impl["perm"] != tree[first][1]:
            brk("canonical_perm is the first leaf with the minimal label", {"canonical_perm": impl["perm"], "first_minimal_leaf": tree[first][1], "n_leaves": len(labels)})
        elif impl["perms"] != least or impl["count"] != len(least):
            brk("sample_permutations are exactly the leaves with the minimal label (visiting order)", {"impl": short(impl["perms"]), "least_label_leaves": short(least), "count": impl["count"]})
    else:
        brk("the search visits no leaf", {"canonical_perm": impl["perm"]})

    def on_ir(rep):
        if not rep["wfd"] or not rep["defined"]:
            ctx.count("ir:model_precondition_fails:" + ("wfd" if not rep["wfd"] else "defined"))
            return brk("model precondition (view well formed, search defined) fails on a graph the implementation analysed", {"wfd": rep["wfd"], "defined": rep["defined"]})
        if not rep["attr_ok"]:
            ctx.count("ir:attr_ok_false")
        if rep["initial"] != i_init:
            return brk("_init_part", {"impl": i_init, "model": rep["initial"]})
        if rep["refined"] != i_ref:
            return brk("_refine(initial partition)", {"impl": i_ref, "model": rep["refined"]})
        model_tree = [[l["prefix"], l["order"]] for l in rep["leaves"]]
        if tree != model_tree:
            k = next((i for i, (a, b) in enumerate(zip(tree, model_tree)) if a != b), min(len(tree), len(model_tree)))
            return brk("_search: leaves (prefix, order) in visiting order",
                       {"n_impl": len(tree), "n_model": len(model_tree), "first_difference_at": k, "impl": short(tree[k:k + 2]), "model": short(model_tree[k:k + 2])})
        pi = eq_pattern(labels)
        pm = eq_pattern([json.dumps(l["label"], sort_keys=True) for l in rep["leaves"]])
        ctx.count("ir:label_classes", len(set(pm)))
        ctx.count("ir:label_classes:" + ("1" if len(set(pm)) <= 1 else ">1"))
        if pi != pm:
            k = next(i for i, (a, b) in enumerate(zip(pi, pm)) if a != b)
            return brk("_label: which leaves have equal labels",
                       {"leaf": k, "impl_equal_to_leaf": pi[k], "model_equal_to_leaf": pm[k], "leaves": short([tree[k], tree[pi[k]], tree[pm[k]]]),
                        "impl_labels": [labels[k][:300], labels[min(pi[k], pm[k])][:300]]})
        if not rep["attr_ok"]:
            return None  # outside the hypothesis of the invariance theorems: the stages above are still mirrored
        # (d), model side: automorphism data (independent of the label order: crn_ir_orbits_anyOrder)
        if impl["count"] != rep["count"]:
            return brk("automorphism_count", {"impl": impl["count"], "model": rep["count"]})
        orb = sorted(impl["orbits_raw"])
        if not is_partition(impl["orbits_raw"], list(range(n))) or orb != rep["orbits"]:
            return brk("orbits", {"impl": orb, "model": rep["orbits"]})
        ctx.count("ir:orbits_raw_same_order:" + str(impl["orbits_raw"] == [sorted(c) for c in rep["orbits_raw"]]))
        same_nodes = len({json.dumps(l["label"]["nodes"], sort_keys=True) for l in rep["leaves"]}) <= 1
        if order_safe and same_nodes:
            if impl["perm"] != rep["order"]:
                return brk("canonical_perm (string order of the labels = structural order on this graph)", {"impl": impl["perm"], "model": rep["order"]})
            if impl["perms"] != rep["perms"]:
                return brk("sample_permutations", {"impl": short(impl["perms"]), "model": short(rep["perms"])})
            ctx.count("ir:final_order_same_as_model")
        else:
            ctx.count("ir:final_order_same_as_model_ungated:" + str(impl["perm"] == rep["order"]))

    sel_ = sel(cfg)
    batch.add({"cmd": "crn.ir", "graph": genc, "leaves": True, **sel_}, on_ir)
    for p, v, sg in sig_q:
        def on_sig(rep, p=p, v=v, sg=sg):
            ctx.count("ir:node_signatures")
            if rep != sg:
                brk("_sig", {"partition": p, "node": v, "impl": short(sg), "model": short(rep)})
        batch.add({"cmd": "crn.ir_sig", "graph": genc, "partition": p, "node": v, **sel_}, on_sig)
    for p, out in ref_q:
        def on_ref(rep, p=p, out=out):
            ctx.count("ir:refine_of_probe_partition")
            if rep != out:
                brk("_refine", {"partition": p, "impl": out, "model": rep})
        batch.add({"cmd": "crn.ir_refine", "graph": genc, "partition": p, **sel_}, on_ref)
    return {"graph": genc, "n_nodes": n, "n_arcs": n_arcs}


class Batch:
    """Requests to the Lean driver with the callback that consumes each answer."""

    def __init__(self, ctx):
        self.ctx, self.reqs, self.cbs = ctx, [], []

    def add(self, req, cb):
        self.reqs.append(req)
        self.cbs.append(cb)

    def run(self):
        reqs, cbs, self.reqs, self.cbs = self.reqs, self.cbs, [], []
        if reqs:
            for cb, ans in zip(cbs, self.ctx.lean().ok(reqs, shards=8)):
                cb(ans)


def disjoint_copies(net, k):
    """k copies of a network over disjoint species names (component permutations: search trees of depth >= 2)."""
    rxns = []
    for i in range(k):
        for q in net["rxns"]:
            rxns.append({"r": [[f"{s}{i}", c] for s, c in q["r"]], "p": [[f"{s}{i}", c] for s, c in q["p"]], "rule": q.get("rule"), "eid": None})
    return {"rxns": rxns, "isolated": []}


def ir_inputs(ctx):
    """(tag, network, configurations) of the IR correspondence stream: the populations of the other streams re-used,
    plus networks with deep search trees and networks whose label strings order differently from the structured labels."""
    rnd, q = ctx.rnd, ctx.quick
    XCFG = [c["name"] for c in CONFIGS_X]
    EVERY = ALL + XCFG + [c["name"] for c in CONFIGS_I if c["bip"]] + ["bip+stoich/no-keys", "bip-stoich/role-only/int-ids"]
    for case in load_regress():
        if case.get("kind") == "big":  # large views: the model of the search does not answer in time there (certificates only, `evaluate_big`)
            continue
        for net in case["nets"]:
            yield "regress", net, case.get("configs", ALL)
    for name, net in symmetric_families():
        yield "symmetric", net, EVERY
        yield "symmetric-renamed", rename_net(net, rnd, keep_labels=rnd.random() < 0.3, ids=rnd.choice(["regen", "explicit"])), rnd.sample(EVERY, 3 if q else 7)
        nm = near_miss(net, rnd)
        if nm and not q:
            yield "symmetric-near-miss", nm[0], rnd.sample(EVERY, 3)
    for net in f19_nets():
        yield "f19", net, ["bip+stoich", "species+stoich"]
    # deep trees: several identical components (a cell stays non-trivial after the first individualisation)
    comps = [{"rxns": [rx([("A", 1)], [("B", 1)])]}, {"rxns": [rx([("A", 1), ("B", 1)], [("C", 1)])]}, {"rxns": [rx([("A", 2)], [("B", 1)]), rx([("B", 1)], [("A", 1)])]},
             {"rxns": [rx([("A", 1)], [("B", 1), ("C", 1)])]}]
    for c in comps:
        for k in (2, 3):
            yield "components", rename_net(disjoint_copies(c, k), rnd), rnd.sample(EVERY, 3 if q else 7)
    for _ in range(8 if q else 80):
        c = random_net(rnd, max_species=3, max_rxns=2)
        c["isolated"] = []
        yield "components", rename_net(disjoint_copies(c, rnd.choice([2, 2, 3])), rnd), rnd.sample(EVERY, 2)
    # multi-digit coefficients: "10" < "2" as strings, 2 < 10 in the model (both minima are canonical forms; final order not gated)
    L = "ABCDEFGH"
    for k in ((4, 6) if q else (4, 6, 8)):
        net = {"rxns": [rx([(L[i], 10 if i % 2 == 0 else 2)], [(L[(i + 1) % k], 1)]) for i in range(k)]}
        yield "string-vs-number-order", net, ["bip+stoich", "species+stoich", "bip+stoich/keys-permuted"]
    yield "string-vs-number-order", {"rxns": [rx([("A", 1), ("B", 1)], [("C", 12), ("D", 12)]), rx([("A", 1), ("B", 1)], [("C", 3), ("D", 3)])]}, ["bip+stoich", "species+stoich"]
    # the refinement never looks at the attributes of in-arcs: C and D stay in one cell, the two leaves carry different labels,
    # "1:product:10" < "1:product:2" as strings and 2 < 10 in the model (the two searches return different, equally valid, orders)
    for net in ({"rxns": [rx([("A", 1)], [("C", 10), ("D", 2)])]}, {"rxns": [rx([("A", 1), ("B", 1)], [("C", 10), ("D", 2), ("E", 2)])]},
                {"rxns": [rx([("A", 1)], [("C", 10), ("D", 2)]), rx([("B", 1)], [("E", 10), ("F", 2)])]}):
        yield "string-vs-number-order", rename_net(net, rnd) if rnd.random() < 0.5 else net, ["bip+stoich", "species+stoich", "bip+stoich/keys-permuted", "bip-stoich"]
    # refinement-blind cells: rings of unit reactions of different lengths side by side (every species / reaction node has the same
    # signature, the refinement cannot separate the components: leaves with several different labels, the least class has |Aut| members)
    def ring(k, pre):
        return [rx([(f"{pre}{i}", 1)], [(f"{pre}{(i + 1) % k}", 1)]) for i in range(k)]
    blind = [{"rxns": ring(4, "a") + ring(3, "b")}, {"rxns": ring(3, "a") + ring(2, "b") + ring(1, "c")}] + ([] if q else [{"rxns": ring(5, "a") + ring(3, "b")}, {"rxns": ring(4, "a") + ring(2, "b") + ring(2, "c")}])
    for net in blind:
        yield "refinement-blind", rename_net(net, rnd) if rnd.random() < 0.5 else net, ["species+stoich", "bip+stoich", "species-stoich"]
    # exhaustive small networks (sampled in the quick tier)
    ex1 = exhaustive_nets(False)
    ex2 = exhaustive_nets(True)[len(ex1):]
    for net in (rnd.sample(ex1, 25) + rnd.sample(ex2, 35)) if q else (ex1 + ex2):
        yield "exhaustive3", (permute_net(net, rnd.choice(S3), reverse=rnd.random() < 0.5) if rnd.random() < 0.5 else net), rnd.sample(ALL, 2)
    # random networks
    for _ in range(120 if q else 1200):
        net = random_net(rnd)
        if rnd.random() < 0.5:
            net = rename_net(net, rnd, ids=rnd.choice(["regen", "explicit"]))
        yield "random", net, rnd.sample(EVERY, 2)


def stream_ir(ctx):
    """IR correspondence: ties SynKitModel/CrnIR.lean (theorems crn_refine_equivariant ... C18.ir_full) to
    synkit/CRN/Topo/canon.py, stage by stage."""
    batch = Batch(ctx)
    sampled = False
    for tag, net, cfgs in ir_inputs(ctx):
        ctx.count("ir:networks")
        for cn in cfgs:
            if out_of_scope(ctx, net, cn):
                continue
            done = check_ir(ctx, batch, net, cn, tag)
            if done is None:
                continue
            ctx.case(["ir", done["graph"], cn], nontrivial=(done["n_nodes"] >= 3 and done["n_arcs"] >= 2),
                     sample={"stream": "ir", "family": tag, "net": net, "config": cn} if tag == "components" and not sampled else None)
            sampled = sampled or tag == "components"
        if len(batch.reqs) >= 1200:
            batch.run()
        if ir_reports(ctx) >= IR_MAX_REPORTS:
            break
    batch.run()



# ---------------------------------------------------------------- large views with a planted symmetry group (certificates only)
BIG_MIN_NODES = 258  # one more position than CPython's small-int cache holds (ints -5..256 are shared objects; `is` on ints differs from `==` only above)
BIG_GROUP_CAP = 5040
# no label among the node keys (labels are pairwise different: the planted group would be trivial) and only scalar-valued keys
BIG_SPECIES_CFGS = ["species+stoich", "species-stoich", "species+stoich/int-ids"]
BIG_BIP_CFGS = ["bip+stoich", "bip-stoich", "bip+stoich/keys-permuted", "bip+stoich/int-ids", "bip-stoich/int-ids", "bip-stoich/role-only/int-ids"]


def _big_len(n_nodes, bip, extra_species, extra_rxns=0):
    """Length L of a chain S0 >> S1 >> ... >> S(L-1) (L species, L-1 reactions) such that the view has >= n_nodes nodes."""
    if not bip:
        return max(2, n_nodes - extra_species)
    return max(2, -(-(n_nodes - extra_species - extra_rxns + 1) // 2))


def big_pathway(n_nodes, bip, k, pre="S"):
    """S0 >> S1 >> ... >> S(L-1) >> P0 + ... + P(k-1): the automorphisms are the k! permutations of the end products."""
    L = _big_len(n_nodes, bip, k, 1)
    rxns = [rx([(f"{pre}{i:03d}", 1)], [(f"{pre}{i + 1:03d}", 1)]) for i in range(L - 1)]
    rxns.append(rx([(f"{pre}{L - 1:03d}", 1)], [(f"P{j}", 1) for j in range(k)]))
    return {"rxns": rxns}, [{f"P{j}": f"P{j + 1}", f"P{j + 1}": f"P{j}"} for j in range(k - 1)]


def big_twins(n_nodes, bip, at_fracs, pre="S"):
    """A linear pathway with a pair of interchangeable side products at a few steps (the group is Z2^t: several non-identity
    automorphisms, each fixing almost every node)."""
    t = len(at_fracs)
    L = _big_len(n_nodes, bip, 2 * t, 0)
    at = sorted({min(L - 3, max(0, int(f * (L - 1)))) for f in at_fracs})  # not at the last step: S(L-1) would be a third interchangeable end product
    rxns, gens = [], []
    for i in range(L - 1):
        p = [(f"{pre}{i + 1:03d}", 1)]
        if i in at:
            p += [(f"T{i:03d}a", 1), (f"T{i:03d}b", 1)]
            gens.append({f"T{i:03d}a": f"T{i:03d}b", f"T{i:03d}b": f"T{i:03d}a"})
        rxns.append(rx([(f"{pre}{i:03d}", 1)], p))
    return {"rxns": rxns}, gens


def big_two_chains(n_nodes, bip):
    """Two identical long chains hanging off one hub: one non-identity automorphism, which moves every node but the hub(s)."""
    m = -(-(n_nodes - 1) // 2) if not bip else -(-n_nodes // 4)
    rxns = [rx([("H", 1)], [("a000", 1), ("b000", 1)])]
    for pre in "ab":
        rxns += [rx([(f"{pre}{i:03d}", 1)], [(f"{pre}{i + 1:03d}", 1)]) for i in range(m - 1)]
    return {"rxns": rxns}, [{**{f"a{i:03d}": f"b{i:03d}" for i in range(m)}, **{f"b{i:03d}": f"a{i:03d}" for i in range(m)}}]


def big_broom(n_nodes, bip, dups):
    """A hub with chains of pairwise different lengths 1..q, plus one further chain of length d for every d in `dups`: the refinement
    separates everything within q rounds; the automorphisms exchange the two chains of equal length (group Z2^len(dups))."""
    lens, q = [], 0
    while 1 + sum(lens) * (2 if bip else 1) < n_nodes:
        q += 1
        lens = list(range(1, q + 1)) + [d for d in dups if d <= q]
    rxns, gens, first = [], [], {}
    for j, ln in enumerate(lens):
        rxns.append(rx([("H", 1)], [(f"c{j:02d}x000", 1)]))
        rxns += [rx([(f"c{j:02d}x{i:03d}", 1)], [(f"c{j:02d}x{i + 1:03d}", 1)]) for i in range(ln - 1)]
        if ln in first:
            a, b = first[ln], j
            g = {}
            for i in range(ln):
                g[f"c{a:02d}x{i:03d}"], g[f"c{b:02d}x{i:03d}"] = f"c{b:02d}x{i:03d}", f"c{a:02d}x{i:03d}"
            gens.append(g)
        else:
            first[ln] = j
    return {"rxns": rxns}, gens


def big_spokes(n_nodes, k, c0=200):
    """Bipartite view, stoichiometry on: H >> c X_c for pairwise different coefficients c = c0, c0+1, ... (beyond 256) and k spokes
    with one and the same coefficient (fresh int objects): the k! permutations of those.  Not for the species view (its refinement
    does not read in-arc attributes: one cell of hundreds of nodes) and not without stoichiometry (all spokes exchangeable)."""
    q = max(1, -(-(n_nodes - 1) // 2) - k)
    rxns = [rx([("H", 1)], [(f"X{c:03d}", int(str(c)))]) for c in range(c0, c0 + q)]
    rxns += [rx([("H", 1)], [(f"P{j}", int(str(c0 + q + 57)))]) for j in range(k)]
    return {"rxns": rxns}, [{f"P{j}": f"P{j + 1}", f"P{j + 1}": f"P{j}"} for j in range(k - 1)]


def rename_big(net, rnd):
    """Same network up to species names (fresh names whose sorted order is unrelated to the old one), reaction order, order inside the
    sides and reaction ids -> (network, {old label: new label})."""
    sp = net_species(net)
    nums = rnd.sample(range(10000), len(sp))
    pre = rnd.choice(["q", "m", "Zz", "n"])
    m = {s: f"{pre}{k:04d}" for s, k in zip(sp, nums)}
    explicit = rnd.random() < 0.5
    rxns = []
    for k, r in enumerate(net["rxns"]):
        r_side, p_side = [[m[s], c] for s, c in r["r"]], [[m[s], c] for s, c in r["p"]]
        rnd.shuffle(r_side); rnd.shuffle(p_side)
        rxns.append({"r": r_side, "p": p_side, "rule": r["rule"], "eid": ("e%dx%d" % (rnd.randrange(100), k)) if explicit else None})
    rnd.shuffle(rxns)
    return {"rxns": rxns, "isolated": []}, m


def near_miss_big(net, rnd):
    """One coefficient raised by one (visible with stoichiometry on only; the species map to the original is the identity)."""
    c = json.loads(json.dumps(net))
    r = rnd.choice(c["rxns"])
    e = rnd.choice(r["r"] + r["p"])
    e[1] += 1
    return c


def big_families(rnd, quick):
    """Families for `evaluate_big`: {family, nets, maps, gens, configs, vf2, again}.  `gens`: species-level generators of the planted
    group of nets[0] (label -> label, identity elsewhere); `maps[j]`: species map nets[0] -> nets[j].  The VF2 analyser is asked only
    where it answers within seconds (on the broom it does not return within minutes; a time limit would make the run irreproducible)."""
    def size():
        return rnd.randint(BIG_MIN_NODES, BIG_MIN_NODES + 8)

    def fam(name, made, cfgs, vf2, again=False, renamed=1, near=False):
        net, gens = made
        nets, maps = [net], [None]
        for _ in range(renamed):
            c, m = rename_big(net, rnd)
            nets.append(c); maps.append(m)
        if near:
            nets.append(near_miss_big(net, rnd)); maps.append({})
        return {"family": name, "nets": nets, "maps": maps, "gens": gens, "configs": cfgs, "vf2": vf2, "again": again}

    S, B = BIG_SPECIES_CFGS, BIG_BIP_CFGS
    BS = [c for c in B if CFG[c]["stoich"]]
    out = []
    if quick:
        out.append(fam("pathway-2-end-products", big_pathway(size(), False, 2), [rnd.choice(S)], vf2=False, again=True))
        out.append(fam("pathway-3-end-products", big_pathway(size(), True, 3), [rnd.choice(B)], vf2=True, near=True))
        out.append(fam("twin-side-products", big_twins(size(), False, [rnd.random() for _ in range(3)]), [rnd.choice(S)], vf2=True))
        out.append(fam("two-chains", big_two_chains(size(), True), [rnd.choice(B)], vf2=True))
        out.append(fam("broom", big_broom(size(), True, [rnd.randint(2, 9)]), [rnd.choice([c for c in B if CFG[c].get("int")])], vf2=False, near=True))
        out.append(fam("spokes-distinct-coefficients", big_spokes(size(), 2), [rnd.choice(BS)], vf2=False))
        return out
    for bip, cfgs in ((False, S), (True, B)):
        for cn in cfgs:
            out.append(fam("pathway-2-end-products", big_pathway(size(), bip, 2), [cn], vf2=True, again=True, renamed=2, near=True))
            out.append(fam("pathway-3-end-products", big_pathway(size(), bip, 3, pre="u"), [cn], vf2=bip, renamed=1))
            out.append(fam("twin-side-products", big_twins(size(), bip, [rnd.random() for _ in range(rnd.choice([2, 3, 4]))]), [cn], vf2=True, renamed=2, near=True))
            out.append(fam("two-chains", big_two_chains(size(), bip), [cn], vf2=True, renamed=1, again=True))
            out.append(fam("broom", big_broom(size(), bip, rnd.sample(range(2, 10), rnd.choice([1, 2]))), [cn], vf2=False, renamed=2, near=True))
    for cn in BS:
        out.append(fam("spokes-distinct-coefficients", big_spokes(size(), rnd.choice([2, 3])), [cn], vf2=True, renamed=2, near=True))
    out.append(fam("pathway-2-end-products/twice-the-size", big_pathway(2 * BIG_MIN_NODES + 2, False, 2), ["species+stoich"], vf2=False))
    return out


def _kval(a, k):
    x = a.get(k)
    if k in SETLIKE and isinstance(x, dict) and "t" in x:
        return {"t": sorted(x["t"], key=lambda z: json.dumps(z, sort_keys=True))}
    return x


def node_map(ma, mb, smap, bip, with_coef=True):
    """The node bijection view(ma) -> view(mb) (model numbering: species i -> i, reaction j -> nS + j, both in sorted order) induced by the
    species map `smap` (label -> label, identity where absent): reactions are paired by rule and mapped sides (any pairing inside a group
    of reactions that agree in all of that names an isomorphism if one does).  None if the species map is no bijection of the label sets
    or the reaction multisets do not correspond.  Only a CANDIDATE: Lean (`crn.checkMaps`) decides whether it preserves the structure."""
    la, lb = ma["labels"], mb["labels"]
    ib = {s: i for i, s in enumerate(lb)}
    f = lambda s: smap.get(s, s)  # noqa: E731
    if len(la) != len(lb) or any(f(s) not in ib for s in la) or len({f(s) for s in la}) != len(la):
        return None
    pairs = [[i, ib[f(s)]] for i, s in enumerate(la)]
    if True:  # the reactions must correspond in either view (the species view is a function of them); their nodes are listed for the bipartite view only
        def sig(m, q, g):
            lab = m["labels"]
            return json.dumps([q["rule"], sorted([g(lab[i]), c if with_coef else 0] for i, c in q["r"]), sorted([g(lab[i]), c if with_coef else 0] for i, c in q["p"])])
        if len(ma["rxns"]) != len(mb["rxns"]):
            return None
        want = {}
        for j, q in enumerate(mb["rxns"]):
            want.setdefault(sig(mb, q, lambda s: s), []).append(j)
        for j, q in enumerate(ma["rxns"]):
            lst = want.get(sig(ma, q, f))
            if not lst:
                return None
            k = lst.pop(0)
            if bip:
                pairs.append([len(la) + j, len(lb) + k])
    return pairs


def group_closure(gens, n, cap=BIG_GROUP_CAP):
    """All elements of the group generated by `gens` (permutations of range(n) as tuples); None above `cap` elements."""
    ident = tuple(range(n))
    seen, todo = {ident}, [ident]
    while todo:
        h = todo.pop()
        for g in gens:
            x = tuple(g[h[v]] for v in range(n))
            if x not in seen:
                seen.add(x); todo.append(x)
                if len(seen) > cap:
                    return None
    return seen


def stable_cells(vg, cfg, fixed=()):
    """Cells of the coarsest stable colouring of the view (colour refinement on the selected node keys, over in- and out-arcs with the
    selected arc keys), the nodes of `fixed` individualised.  Every self-map of the view that preserves the selected keys and fixes
    `fixed` pointwise maps each cell onto itself."""
    ids = [n for n, _ in vg["nodes"]]
    first = {n: (json.dumps([_kval(a, k) for k in cfg["nk"]], sort_keys=True), fixed.index(n) if n in fixed else -1) for n, a in vg["nodes"]}
    pal = {s: i for i, s in enumerate(sorted(set(first.values())))}
    col = {n: pal[first[n]] for n in ids}
    ins, outs = {n: [] for n in ids}, {n: [] for n in ids}
    for u, v, a in vg["edges"]:
        ak = json.dumps([_kval(a, k) for k in cfg["ek"]], sort_keys=True)
        outs[u].append((v, ak)); ins[v].append((u, ak))
    while True:
        sig = {n: (col[n], tuple(sorted((col[u], ak) for u, ak in ins[n])), tuple(sorted((col[w], ak) for w, ak in outs[n]))) for n in ids}
        pal2 = {s: i for i, s in enumerate(sorted(set(sig.values())))}
        done = len(pal2) == len(pal)
        pal, col = pal2, {n: pal2[sig[n]] for n in ids}
        if done:
            break
    cells = {}
    for n in ids:
        cells.setdefault(col[n], []).append(n)
    return sorted(sorted(c) for c in cells.values())


def aut_upper_bound(vg, cfg, rounds=12):
    """(U, root cells): |Aut| <= U along a stabiliser chain (|Aut| = prod of the orbit sizes of the base points under the successive
    point stabilisers, each orbit lies inside the base point's cell of the stable colouring with the earlier base points individualised;
    the chain ends when the colouring is discrete: the remaining stabiliser is trivial).  Every orbit lies inside a root cell."""
    fixed, U, root = [], 1, None
    for _ in range(rounds):
        cells = stable_cells(vg, cfg, tuple(fixed))
        root = cells if root is None else root
        multi = [c for c in cells if len(c) > 1]
        if not multi:
            return U, root
        c = min(multi, key=lambda c: (len(c), c[0]))
        U *= len(c)
        fixed.append(c[0])
    return None, root


def iso_invariant(g, cfg):
    """An isomorphism invariant of a graph on the selected keys (one round of colour refinement, as a sorted multiset): two graphs
    with different invariants are not isomorphic."""
    ins, outs = {n: [] for n, _ in g["nodes"]}, {n: [] for n, _ in g["nodes"]}
    for u, v, a in g["edges"]:
        ak = json.dumps([_kval(a, k) for k in cfg["ek"]], sort_keys=True)
        if u not in outs or v not in ins:
            return "arc between unknown nodes"
        outs[u].append(ak); ins[v].append(ak)
    return json.dumps(sorted([json.dumps([_kval(a, k) for k in cfg["nk"]], sort_keys=True), sorted(ins[n]), sorted(outs[n])] for n, a in g["nodes"]))


BIG_VF2_PATIENCE = 600.0  # seconds; the VF2 analyser answers within ~10 s on the families it is asked about


class _BigGaveUp(Exception):
    pass


def impl_big(net, cfg, opts):
    """One large network under one configuration: one `summary()` per analyser (plus `orbits()` / a second `summary()` of the same
    canonicaliser object when `again`), the VF2 analyser only when `vf2`."""
    from synkit.CRN.Topo.canon import CRNCanonicalizer
    from synkit.CRN.Topo.wl_canon import WLCanonicalizer

    H = build(net)
    mnet = model_net(H)
    labels, eids = mnet["labels"], [r["id"] for r in mnet["rxns"]]
    names = {s: i for i, s in enumerate(labels)}
    if cfg["bip"]:
        for j, e in enumerate(eids):
            names[e] = len(labels) + j
    res = {"mnet": mnet, "errors": {}, "collision": sorted(set(labels) & set(eids))}
    kw = ctor_kw(cfg)
    ek = tuple(cfg["ek"])

    def name(x):
        return names[x]

    def some(ms):
        """first two, last: enough for the Lean spot check (every map is also tested for membership in the planted group)"""
        return [ms[i] for i in sorted({0, 1, len(ms) - 1} & set(range(len(ms))))]

    try:
        cz = CRNCanonicalizer(H, edge_attr_keys=ek, **kw)
        G = cz.G
        res["n_nodes"] = G.number_of_nodes()
        if cfg.get("int") and cfg["bip"]:
            names = int_id_names(G, mnet, cfg)
            res["id_types"] = sorted({type(v).__name__ for v in G.nodes()})
        res["G"] = enc_graph(G, name)
        s = cz.summary()
        maps = [mapping_list(m, name) for m in s["mappings"][:BIG_GROUP_CAP]]
        res["canon"] = {"graph": enc_graph(s["canon_graph"], int), "perm": [name(v) for v in s["canonical_perm"]], "count": int(s["automorphism_count"]),
                        "orbits_raw": [sorted(name(x) for x in o) for o in s["orbits"]], "maps": maps, "maps_some": some(maps), "early": bool(s["early_stop"])}
        if opts.get("again"):
            res["canon"]["orbits_method"] = [sorted(name(x) for x in o) for o in cz.orbits()]
            s2 = cz.summary()
            res["canon"]["repeat"] = {"graph": enc_graph(s2["canon_graph"], int), "count": int(s2["automorphism_count"]), "orbits_raw": [sorted(name(x) for x in o) for o in s2["orbits"]]}
    except Exception as e:  # noqa: BLE001 - any exception is an observable of the check
        res["errors"]["canon"] = f"{type(e).__name__}: {e}"[:300]
    if "G" not in res:
        return res
    if opts.get("vf2"):
        try:
            a, res["vf2_edge_keys"] = make_vf2(H, cfg, kw)
            r = a.summary(max_count=10 ** 7, timeout_sec=BIG_VF2_PATIENCE)
            if r["stopped_early"]:  # a legal answer under a time limit; nothing is gated on it (and the run does not hang on a node order VF2 cannot cope with)
                raise _BigGaveUp()
            maps = [mapping_list(m, name) for m in r["sample_mappings"][:BIG_GROUP_CAP]]
            res["vf2"] = {"count": int(r["automorphism_count"]), "orbits_raw": [sorted(name(x) for x in o) for o in r["orbits"]], "maps": maps, "maps_some": some(maps),
                          "stopped": bool(r["stopped_early"]), "used": int(r["mapping_count_used"])}
            if opts.get("again"):
                res["vf2"]["orbits_method"] = [sorted(name(x) for x in o) for o in a.orbits(max_count=10 ** 7, timeout_sec=10 ** 6)]
        except _BigGaveUp:
            res["vf2_gave_up"] = True
        except Exception as e:  # noqa: BLE001
            res["errors"]["vf2"] = f"{type(e).__name__}: {e}"[:300]
    try:
        w = WLCanonicalizer(H, edge_attr_keys=ek, **kw).summary()
        res["wl"] = {"graph": enc_graph(w["canon_graph"], int)}
        try:  # a candidate certificate (the order the documented relabelling uses); Lean decides whether it certifies anything
            col = w["colors"]
            res["wl"]["order"] = [name(v) for v in sorted(G.nodes(), key=lambda v: (col[v], str(v)))]
        except Exception:  # noqa: BLE001
            pass
    except Exception as e:  # noqa: BLE001
        res["errors"]["wl"] = f"{type(e).__name__}: {e}"[:300]
    return res


def _job_big(a):
    return impl_big(a[0], CFG[a[1]], a[2])


def pmap_big(args):
    global _POOL
    if len(args) < 3:
        return [_job_big(a) for a in args]
    if _POOL is None:
        import multiprocessing as mp
        _POOL = mp.get_context("fork").Pool(8)
    return _POOL.map(_job_big, args, chunksize=1)


def evaluate_big(ctx, fams, tag):
    """Views of >= 258 nodes (positions, integer node ids, ... beyond CPython's small-int cache).  The enumerating Lean engine is
    exponential on long chains (crn.analyse / crn.iso need 30 s at 42 nodes), so the networks carry a PLANTED symmetry group and Lean only
    checks certificates, each in time linear or quadratic in the view:
      crn.view       the model's view of the store content (gate 0: the back-end's graph equals it);
      crn.checkMaps  every planted generator is a structure-preserving self-map of that view (so is every element of the generated
                     group: automorphism count >= its order, every planted class lies inside an orbit); a sample of the reported
                     mappings; the planted bijection between the views of two family members (so they are isomorphic);
      crn.canonBy    canonical_perm lists every node once and the reported canonical graph is the view relabelled along it (hence
                     isomorphic to it: canon_faithful).
    The upper bounds come from colour refinement of the model's view (harness side, `aut_upper_bound`): count <= U, every orbit inside
    a root cell.  Where the two bounds meet (they do on every family generated here; counter big:certified) count and orbit partition
    are determined; the gates are the two-sided bounds, so they are sound wherever they fire.  Non-isomorphic members are decided by an
    invariant (`iso_invariant`), pairs decided neither way are counted and not gated."""
    import time
    t0 = time.time()
    L = ctx.lean()
    jobs = [(fi, ni, cn) for fi, f in enumerate(fams) for ni in range(len(f["nets"])) for cn in f["configs"]]
    results = pmap_big([(fams[fi]["nets"][ni], cn, {"vf2": bool(fams[fi].get("vf2")), "again": bool(fams[fi].get("again")) and ni == 0}) for fi, ni, cn in jobs])
    items = [(fi, ni, cn, r) for (fi, ni, cn), r in zip(jobs, results)]
    views = L.ok([{"cmd": "crn.view", "net": r["mnet"], "bip": CFG[cn]["bip"], "stoich": CFG[cn]["stoich"]} for _, _, cn, r in items], shards=8)
    index = {(fi, ni, cn): k for k, (fi, ni, cn, _) in enumerate(items)}

    def member_gens(fi, ni):
        f = fams[fi]
        m = f["maps"][ni]
        if m is None:
            return f["gens"]
        return [{m.get(a, a): m.get(b, b) for a, b in g.items()} for g in f["gens"]]

    reqs, slots, planted = [], [], {}
    for k, (fi, ni, cn, r) in enumerate(items):
        cfg, vg = CFG[cn], views[k]["graph"]
        gens = [node_map(r["mnet"], r["mnet"], g, cfg["bip"], with_coef=cfg["stoich"]) for g in member_gens(fi, ni)]
        ctx.count("big:planted_generators_not_applicable_to_this_member", sum(1 for g in gens if g is None))
        gens = [g for g in gens if g is not None]
        planted[k] = gens
        if gens:
            reqs.append({"cmd": "crn.checkMaps", "host": vg, "pattern": vg, "maps": gens, **sel(cfg)}); slots.append((k, "gens"))
        if "canon" in r:
            reqs.append({"cmd": "crn.canonBy", "graph": vg, "perm": r["canon"]["perm"]}); slots.append((k, "canonBy"))
            reqs.append({"cmd": "crn.checkMaps", "host": vg, "pattern": vg, "maps": r["canon"]["maps_some"], **sel(cfg)}); slots.append((k, "canon_maps_ok"))
        if "vf2" in r:
            reqs.append({"cmd": "crn.checkMaps", "host": vg, "pattern": vg, "maps": r["vf2"]["maps_some"], **sel(cfg)}); slots.append((k, "vf2_maps_ok"))
        if "wl" in r and "order" in r["wl"]:
            reqs.append({"cmd": "crn.canonBy", "graph": vg, "perm": r["wl"]["order"]}); slots.append((k, "wl_by"))
    pairs = []
    for fi, f in enumerate(fams):
        for cn in f["configs"]:
            for j in range(1, len(f["nets"])):
                k0, kj = index[(fi, 0, cn)], index[(fi, j, cn)]
                pm = node_map(items[k0][3]["mnet"], items[kj][3]["mnet"], f["maps"][j] or {}, CFG[cn]["bip"], with_coef=CFG[cn]["stoich"])
                pairs.append((fi, cn, j, k0, kj, pm))
                if pm is not None:
                    reqs.append({"cmd": "crn.checkMaps", "host": views[kj]["graph"], "pattern": views[k0]["graph"], "maps": [pm], **sel(CFG[cn])})
                    slots.append((len(pairs) - 1, "pair"))
    answers = L.ok(reqs, shards=8)
    lean, pair_cert = [dict() for _ in items], {}
    for (k, what), ans in zip(slots, answers):
        if what == "pair":
            pair_cert[k] = bool(ans and all(ans))
        else:
            lean[k][what] = ans

    seen = getattr(ctx, "_c18_seen", None)
    if seen is None:
        seen = ctx._c18_seen = {}
    uncertified = []

    def report(what, fi, members, cn, detail):
        f = fams[fi]
        key = (what, ("big",))
        seen[key] = seen.get(key, 0) + 1
        if seen[key] > 3:
            ctx.count("further_violations_not_listed:" + what)
            return
        case = {"kind": "big", "family": f["family"], "config": cn, "nets": [f["nets"][m] for m in members], "gens": member_gens(fi, members[0]),
                "maps": [None] + [f["maps"][m] for m in members[1:]], "vf2": bool(f.get("vf2")), "again": bool(f.get("again"))}
        ctx.violation(what, case, {"stream": tag, "family": f["family"], **detail})

    for k, (fi, ni, cn, r) in enumerate(items):
        cfg, view, lk = CFG[cn], views[k], lean[k]
        vg = view["graph"]
        ids = [n for n, _ in vg["nodes"]]
        n_nodes = len(ids)
        ctx.count(f"big:config:{cn}")
        ctx.count(f"big:family:{fams[fi]['family']}")
        ctx.count("big:view_nodes:" + ("<258" if n_nodes < BIG_MIN_NODES else "258-300" if n_nodes <= 300 else ">300"))
        if "id_types" in r:
            ctx.count("big:node_id_types:" + ",".join(r["id_types"]))
        if r.get("vf2_gave_up"):
            ctx.count("big:vf2_no_answer_within_patience(not gated)")
        ctx.case(["big", r["mnet"], cn], nontrivial=(n_nodes >= 3 and len(vg["edges"]) >= 2))
        for where, msg in r["errors"].items():
            report(f"{where} raised an exception", fi, [ni], cn, {"error": msg, "view_nodes": n_nodes})
        if not view["wf"] or not view["wfd"] or r["collision"]:
            ctx.violation("model precondition: generated network / view not well formed", {"kind": "big", "family": fams[fi]["family"], "config": cn}, no_input=True)
            continue
        if "G" not in r:
            continue
        if norm_graph(r["G"]) != norm_graph(vg):
            a, b = norm_graph(r["G"]), norm_graph(vg)
            report("view built by the back-end differs from the network's view (nodes / arcs / attributes)", fi, [ni], cn,
                   {"view_nodes": n_nodes, "nodes_only_impl": short([x for x in a[0] if x not in set(b[0])][:5]), "nodes_only_model": short([x for x in b[0] if x not in set(a[0])][:5]),
                    "arcs_only_impl": short([x for x in a[1] if x not in set(b[1])][:5]), "arcs_only_model": short([x for x in b[1] if x not in set(a[1])][:5])})
            continue
        # the planted group and the two bounds
        verdicts = lk.get("gens", [])
        ctx.count("big:planted_generators_rejected_by_lean", sum(1 for ok in verdicts if not ok))
        gens = [g for g, ok in zip(planted[k], verdicts) if ok]  # candidates: only those Lean found to be self-maps of the model's view are used
        pos = {n: i for i, n in enumerate(ids)}
        perms = []
        for g in gens:
            d = {p: h for p, h in g}
            perms.append(tuple(pos[d[n]] for n in ids))
        group = group_closure(perms, n_nodes)
        U, root = aut_upper_bound(vg, cfg)
        lower = len(group) if group is not None else None
        parent = list(range(n_nodes))  # planted classes: orbits of the generated group = components of v ~ g(v)

        def top(i):
            while parent[i] != i:
                parent[i] = parent[parent[i]]
                i = parent[i]
            return i
        for p in perms:
            for i, j in enumerate(p):
                a, b = top(i), top(j)
                if a != b:
                    parent[max(a, b)] = min(a, b)
        pl = {}
        for i, n in enumerate(ids):
            pl.setdefault(top(i), []).append(n)
        planted_classes = sorted(sorted(c) for c in pl.values())
        cell_of = {n: i for i, c in enumerate(root) for n in c}
        certified = lower is not None and U == lower and sorted(root) == planted_classes
        ctx.count("big:certified(planted group order = refinement bound, planted classes = root cells):" + str(certified))
        edited = fams[fi]["maps"][ni] == {}  # a near miss: the planted group of the original need not be the whole group any more
        if not certified:
            ctx.count(f"big:uncertified:{fams[fi]['family']}:{'near-miss' if edited else 'original-or-renamed'}:{cn}")
            if not edited:
                uncertified.append({"family": fams[fi]["family"], "config": cn, "member": ni, "planted_group_order": lower, "refinement_bound": U})
        ctx.count("big:aut_count:" + ("?" if lower is None else "1" if lower == 1 else "2" if lower == 2 else "3-24" if lower <= 24 else ">24"))
        group_maps = None if group is None else {json.dumps(sorted([ids[i], ids[p[i]]] for i in range(n_nodes))) for p in group}
        bounds = {"at_least (order of the planted group, generators checked by Lean)": lower, "at_most (stabiliser chain of the colour refinement)": U, "view_nodes": n_nodes}

        def label_of(n, m=r["mnet"]):
            """store name of a model node id (species label / reaction id)"""
            return m["labels"][n] if n < len(m["labels"]) else m["rxns"][n - len(m["labels"])]["id"]

        def check(who, a, maps_ok):
            if lower is not None and (a["count"] < lower or (U is not None and a["count"] > U)):
                report(f"{who}: automorphism count differs from the number of structure-preserving self-maps of the view", fi, [ni], cn, {"impl": a["count"], **bounds})
            if maps_ok is not None and not all(maps_ok):
                report(f"{who}: a reported mapping is not a structure-preserving self-map of the view", fi, [ni], cn, {"verdicts": maps_ok, "mappings": short(a["maps_some"], 1500)})
            if len({json.dumps(m) for m in a["maps"]}) != len(a["maps"]) or (certified and group_maps is not None and (
                    any(json.dumps(m) not in group_maps for m in a["maps"]) or len(a["maps"]) != min(a["count"], BIG_GROUP_CAP))):
                report(f"{who}: reported mappings are not exactly the structure-preserving self-maps", fi, [ni], cn,
                       {"reported": len(a["maps"]), "distinct": len({json.dumps(m) for m in a["maps"]}), "count": a["count"], **bounds})
            for field in ("orbits_raw", "orbits_method"):
                if field not in a:
                    continue
                orbs = a[field]
                if not is_partition(orbs, ids):
                    flat = [x for c in orbs for x in c]
                    missing = sorted(set(ids) - set(flat))
                    report(f"{who}: reported orbits are not a partition of the nodes (repeated / overlapping / missing class)", fi, [ni], cn,
                           {"source": field, "view_nodes": n_nodes, "nodes_in_no_class": [label_of(x) for x in missing[:20]], "n_missing": len(missing), "n_classes": len(orbs), "empty_classes": sum(1 for c in orbs if not c),
                            "listed_twice": [label_of(x) for x in sorted({x for x in flat if flat.count(x) > 1})[:20] if x in pos], "canonical_positions_of_missing": sorted(a["perm"].index(x) for x in missing if x in a.get("perm", []))[:20]})
                    continue
                where = {x: i for i, c in enumerate(orbs) for x in c}
                split = [c for c in planted_classes if len({where[x] for x in c}) != 1]
                wide = [c for c in orbs if len({cell_of[x] for x in c}) != 1]
                if split or wide:
                    report(f"{who}: reported orbits differ from the classes of nodes exchangeable by automorphisms", fi, [ni], cn,
                           {"source": field, "exchangeable_nodes_reported_in_different_classes": short(split[:5]), "reported_classes_holding_nodes_no_self_map_exchanges": short(wide[:5]), "certified": certified})

        c = r.get("canon")
        if c is not None:
            if c["early"]:
                report("canonicaliser reports early_stop without limits", fi, [ni], cn, {})
            cb = lk["canonBy"]
            ids_ok = sorted(n for n, _ in c["graph"]["nodes"]) == list(range(1, n_nodes + 1))
            if not cb["is_order"] or not ids_ok:
                dup = sorted({x for x in c["perm"] if c["perm"].count(x) > 1})
                report("canonical permutation does not list every node exactly once (canonical ids are not 1..N)", fi, [ni], cn,
                       {"view_nodes": n_nodes, "perm_length": len(c["perm"]), "listed_twice": dup[:10], "not_listed": sorted(set(ids) - set(c["perm"]))[:10], "canon_ids_ok": ids_ok})
            elif norm_graph(cb["graph"]) != norm_graph(c["graph"]):
                a, b = norm_graph(c["graph"]), norm_graph(cb["graph"])
                if iso_invariant(c["graph"], cfg) != iso_invariant(vg, cfg):
                    report("canonical graph is not isomorphic to the view it was computed from", fi, [ni], cn, {"view_nodes": n_nodes, "decided_by": "degree / attribute invariant differs"})
                else:
                    report("canonical graph is not the view relabelled along canonical_perm", fi, [ni], cn,
                           {"view_nodes": n_nodes, "arcs_only_impl": short([x for x in a[1] if x not in set(b[1])][:5]), "arcs_only_model": short([x for x in b[1] if x not in set(a[1])][:5]),
                            "nodes_only_impl": short([x for x in a[0] if x not in set(b[0])][:5])})
            check("CRNCanonicalizer", c, lk.get("canon_maps_ok"))
            rep = c.get("repeat")
            if rep is not None and (key_graph(rep["graph"], cfg) != key_graph(c["graph"], cfg) or rep["count"] != c["count"] or sorted(rep["orbits_raw"]) != sorted(c["orbits_raw"])):
                report("the same network canonicalised twice in one process receives different canonical graphs / counts", fi, [ni], cn,
                       {"count": [c["count"], rep["count"]], "n_orbits": [len(c["orbits_raw"]), len(rep["orbits_raw"])], "same_graph": key_graph(rep["graph"], cfg) == key_graph(c["graph"], cfg)})
        v = r.get("vf2")
        if v is not None:
            if v["stopped"] or v["used"] != v["count"]:
                report("CRNAutomorphism: enumeration stopped early / counts inconsistent without limits", fi, [ni], cn, {k2: v[k2] for k2 in ("stopped", "used", "count")})
            check("CRNAutomorphism", v, lk.get("vf2_maps_ok"))
        w = r.get("wl")
        if w is not None:
            wb = lk.get("wl_by")
            if wb is not None and wb["is_order"] and norm_graph(wb["graph"]) == norm_graph(w["graph"]):
                ctx.count("big:wl_graph:certified_isomorphic")
            elif sorted(n for n, _ in w["graph"]["nodes"]) != list(range(1, n_nodes + 1)) or iso_invariant(w["graph"], cfg) != iso_invariant(vg, cfg):
                report("WL canonical graph is not isomorphic to the view it was computed from", fi, [ni], cn, {"view_nodes": n_nodes, "decided_by": "canonical ids / degree and attribute invariant differ"})
            else:
                ctx.count("big:wl_graph:undecided(no certificate, invariants agree)")
    # kernel agreement inside a family
    for pk, (fi, cn, j, k0, kj, pm) in enumerate(pairs):
        r0, rj = items[k0][3], items[kj][3]
        if "canon" not in r0 or "canon" not in rj or "G" not in r0 or "G" not in rj:
            continue
        cfg = CFG[cn]
        if iso_invariant(views[k0]["graph"], cfg) != iso_invariant(views[kj]["graph"], cfg):
            verdict = "non-iso"
        elif pair_cert.get(pk):
            verdict = "iso"
        else:
            verdict = "undecided"
        ctx.count(f"big:kernel_pair:{verdict}")
        same = key_graph(r0["canon"]["graph"], cfg) == key_graph(rj["canon"]["graph"], cfg)
        if verdict == "iso" and not same:
            report(KERNEL_ISO_DIFFERENT, fi, [0, j], cn, {"decided_by": "planted bijection checked by Lean (crn.checkMaps)", "view_nodes": len(views[k0]["graph"]["nodes"])})
        elif verdict == "non-iso" and same:
            report("networks whose views are not isomorphic receive identical canonical graphs", fi, [0, j], cn, {"decided_by": "degree / attribute invariant differs"})
    if uncertified and tag != "replay":  # the generators of this harness are meant to produce determined answers: a family whose bounds do not meet is a harness defect
        ctx.violation("harness (stream big): planted group order and refinement bound do not meet on an original / renamed member: count and orbits only bounded there",
                      {"kind": "big-uncertified", "cases": uncertified[:5]}, {"stream": tag}, no_input=True)
    if hasattr(ctx, "extra"):
        w = ctx.extra.setdefault("stream_wall_s", {})
        w[tag] = round(w.get(tag, 0) + time.time() - t0, 1)


def big_case_family(c):
    """A stored big case (regress file / violation) as a family for `evaluate_big`."""
    nets = c["nets"]
    maps = c.get("maps") or [None] * len(nets)
    return {"family": c.get("family", "stored"), "nets": nets, "maps": [None] + [m or {} for m in maps[1:]], "gens": c.get("gens", []),
            "configs": [c["config"]] if "config" in c else c["configs"], "vf2": bool(c.get("vf2")), "again": bool(c.get("again"))}


# small views with numbers beyond the small-int cache elsewhere: more than 256 automorphisms (positions in the list of least-label
# leaves / of VF2 mappings), coefficients > 256 given as pairwise different int objects of equal value.  Small enough for the full model.
BIG_COEFS = [257, 300, 1000, 65536, 10 ** 12]


def many_automorphism_nets():
    L = "ABCDEFGH"
    return [("one-reaction-6-products(720)", {"rxns": [rx([("A", 1)], [(L[i], 1) for i in range(1, 7)])]}, ["bip+stoich", "bip-stoich/int-ids"]),
            ("star-out-6(720)", {"rxns": [rx([("A", 1)], [(L[i], 1)]) for i in range(1, 7)]}, ["species+stoich", "species-stoich"]),
            ("3x3-with-coefficient-300(36)", {"rxns": [rx([("A", 300), ("B", 300), ("C", 300)], [("D", 1), ("E", 1), ("F", 1)]), rx([("A", 300)], [("G", 1)]), rx([("B", 300)], [("G", 1)]), rx([("C", 300)], [("G", 1)])]},
             ["bip+stoich", "species+stoich"])]


def big_coefficient_net(rnd):
    """A random network whose coefficients >= 2 are replaced by numbers beyond the small-int cache; equal coefficients are
    DIFFERENT int objects (as they are when a network is parsed from text)."""
    net = random_net(rnd, max_species=5, max_rxns=4)
    m = {c: rnd.choice(BIG_COEFS) for c in (2, 3)}
    if rnd.random() < 0.4:
        m[1] = rnd.choice(BIG_COEFS)
    for q in net["rxns"]:
        for side in ("r", "p"):
            q[side] = [[s, int(str(m.get(c, c)))] for s, c in q[side]]
    return net



# ---------------------------------------------------------------- entry points
ALL = [c["name"] for c in CONFIGS]


def run(ctx):
    ctx.trusted = [
        "Lean 4.33 kernel; axioms of the property theorems as listed in obligation_list",
        "hand-written model SynKitModel/CrnCanon.lean (views, directed isomorphism specification + enumerator, orbits, canonBy, canonBruteD) "
        "tied to /repo by this correspondence run (not by translation)",
        "Driver/CrnCanon.lean JSON codec, harness/props/c18.py adapter (node ids interned: species i -> i, reaction j -> nS+j, both in sorted order; integer ids via int_id_names; "
        "sets / per-id maps of the species view compared as sets / dicts)",
        "the two id() schedules used for the cache-transparency gate shadow the name `id` inside synkit.CRN.Topo.canon only (its single use is the epoch key of _refine)",
        "hand-written model SynKitModel/CrnIR.lean of CRNCanonicalizer's individualisation-refinement search (_init_part, _sig, _refine, _label, _search, _orbits_from_perms; "
        "max_depth = timeout_sec = None) tied to /repo/synkit/CRN/Topo/canon.py by the IR correspondence stream of this run (stage by stage, not by translation): the model is run on the "
        "graph the back-end built, node ids interned in sorted(G.nodes()) order; the leaves of the real search are observed through a subclass whose _search / _label wrappers only record "
        "and delegate; Python compares rendered label STRINGS, the model structured labels (theorems hold for every strict total label order): equality of labels is compared as a pattern, "
        "equality of the final order only where the two orders provably coincide (single-type values, no rendering a proper prefix of another, e.g. coefficients <= 9)",
        "the ticking clock used for the reached-time-limit calls shadows the name `time` inside synkit.CRN.Topo.canon / synkit.CRN.Topo.automorphism only (their clock readings: "
        "_search's timeout test, _should_stop, elapsed_seconds); if a tree reads its clock another way the limits are not reached and the calls are ordinary ones",
        "large views (stream `big`): the upper bounds on the automorphism count and on the orbits come from a colour refinement of the MODEL's view computed by this harness "
        "(stable_cells / aut_upper_bound: |Aut| <= product of cell sizes along a stabiliser chain, orbits inside root cells), the lower bounds from planted generators that Lean checks "
        "(crn.checkMaps); non-isomorphism of two large views is decided by a harness-side invariant (multiset of node keys with sorted in-/out-arc keys); isomorphism only by a Lean-checked bijection",
        "NetworkX DiGraphMatcher (CRNAutomorphism) and the WL helper are not modelled: their outputs are gated against the proven specification "
        "(count, mapping set, orbit partition, faithfulness, kernel agreement) on every generated case, as are the outputs of the IR search",
    ]
    ctx.assumptions = [
        "networks are built through CRNHyperGraph.add_rxn with mapping sides (store consistency is C15); species labels / rules / ids are plain strings",
        "'structure-preserving' is read with the node and arc attribute keys the analyser is configured with (DESIGN 5a); 'identical canonical graphs' = equal node ids 1..N, "
        "equal selected node attributes, equal arc sets with equal selected arc attributes",
        "WLCanonicalizer is documented as approximate: only faithfulness of its relabelled graph is gated; its cells are recorded against the exact orbits",
        "integer node ids: which species / reaction an integer stands for is read off the node's `label` (species) and off rule + incident arcs (reactions; reactions agreeing in all of "
        "that are exchangeable), falling back to the documented numbering species 1..N, reactions N+1..N+M; the property fixes no numbering",
        "limits: an analyser that reports no early stop (early_stop / stopped_early False) claims the exact answer whatever limits it was given; a limit above the size of the search "
        "(max_depth >= number of nodes, max_count > automorphism count, a time limit of 1e6 s, or a default time limit >= 5 s on a call that returned within 2 s) is not reached; "
        "under tight limits a RuntimeError ('canonical form not found') or a reported early stop is accepted; for summary(max_depth=d) WHICH of the two (or neither) happens, "
        "and the answer that is returned, are the depth-capped model's (crnSearchCapped, driver command crn.irCapped, view interned in sorted(G.nodes()) order; answer gated when "
        "the string order of the labels is the structural order on the view)",
        "answers under a limit that was reached: only what they claim is gated - a summary without early_stop / stopped_early claims exactness; CRNAutomorphism.iter(max_count=k) that ends "
        "before k mappings claims to have listed all of them (so it yields min(k, count) different self-maps); iter / orbits / has_nontrivial_automorphism cut by a time limit or a "
        "sample limit carry no flag and are gated for soundness only (sub-orbits, genuine self-maps, True only with a witness); a clock that advances one second per reading is a legal environment",
        "dict-valued (stoich_r_map, stoich_p_map) and id-set-valued (via) arc attributes are legal members of edge_attr_keys (the species view documents them, _freeze handles dicts): "
        "'structure-preserving' compares them as values; expected answers come from the same Lean engine (crn.iso / crn.analyse / crn.isos on the selected keys), no Python-side specification was needed",
        "detect_automorphisms has no edge_attr_keys parameter (arcs matched on role + stoich): gated only under configurations whose arc keys are these two",
        "in-place edits of the history stream go through add_rxn / remove_rxn / remove_species, or change a coefficient (>= 1) of a species already on a side / the rule field of a stored "
        "reaction (the store stays consistent); a helper object keeps the view it built on first use (documented as cached), so a helper created before an edit may describe the network "
        "as it was then or as it is now, nothing else; new helper objects must describe the current content",
    ]
    ctx.gen_rule = (
        "regression corpus first; symmetric families (rings of 2..6 identical reactions, A+B<=>C, 2A+B>>C, stars, repeated reactions, components, catalysts, "
        "self-loop vs 2-cycle, sources/sinks, K33, isolated species, empty) each with renamed / reordered / re-identified copies and one-edit near misses; "
        "exhaustive networks over species A,B,C up to species permutation (1 reaction over 19 sides; 2 reactions over 10 sides: all in thorough, a seeded sample in quick), "
        "each under all 6 species permutations; random networks (2..6 species, 1..5 reactions, coefficients 1..3, catalysts, repeated reactions, rules from a 3-letter alphabet, "
        "isolated species) with 2 renamings (fresh labels, shuffled sides and reaction order, generated or explicit ids) and 2 near misses (one coefficient, one arc moved "
        "across the arrow, sides swapped, one rule label); a few networks with a species named like a reaction id (finding F19). Every member is analysed under 5 configurations "
        "(bipartite/species view x stoichiometry on/off, plus kind+label node keys); the symmetric families also under 2 option variations (permuted edge / node key lists, "
        "label among the node keys of the species view). History stream: a network (every symmetric family; random networks of <=5 species / <=4 reactions, generated or explicit ids) "
        "is analysed (1..3 of canonicaliser / VF2 analyser / WL helper in random order, class or functional wrapper, mostly under the options of the final query, sometimes under others), "
        "edited in place (a reaction removed and re-added under its id with a one-edit variant / random / identical content, edit followed by its inverse, a coefficient or the rule of a "
        "stored reaction set directly, remove_species keeping or pruning the orphan, reactions added / removed, a copy forked off with the edit going to the copy or to the original), "
        "possibly analysed and edited again, possibly with a different network of the same labels and ids analysed in between, and then queried; each history comes with a brand-new "
        "object of the same final content and ids and with its starting network, under 4 of the 7 configurations (structured ones under all 7). "
        "Option variation: 4 integer-id configurations (bipartite +/- stoichiometry, kind+label with permuted key lists; species view with the flag set) and 6 key selections "
        "(more keys / absent keys, node keys among arc keys and vice versa, no keys, role only + integer ids, set-valued `rules` on the species view, node keys only): all integer-id ones + "
        "3 of the 6 (all in thorough) on every symmetric family with renamed copies and a near miss; integer-id configurations on the F19 networks; one of them on every third exhaustive "
        "family and on every random family (thorough: every exhaustive family, two per random family); integer-id / two key-selection configurations among those of the history stream, "
        "`ids-flipped` among the option flips inside histories. Public-surface stream `api`: every symmetric family (5 of the 17 configurations in quick, all in thorough) and 30 / 400 "
        "random networks (2 configurations each) under `<name>@api`: 9 further canonicaliser calls (limits not reached / tight, wrapper, methods, keys as lists), up to 8 VF2 calls "
        "(limits above / at default / below the count, methods, iter, wrapper where the arc keys are role+stoich), 7 WL option sets through class and wrapper. "
        "Stream `odd-names`: 24 / 300 random networks and the symmetric families (30% / all) with species, rules and ids from a pool of 28 rare names (numeric strings, ':' '|', "
        "'species', 'kind', blank, empty, long, non-ASCII), with renamed copies and a near miss, under 2 standard + 2 option configurations. "
        "Coverage-driven additions: every `<name>@api` case also gets 4 canonicaliser calls under a ticking clock (timeout_sec 0.5 / 2.5 / 5.5, wrapper with 2.5), one-shot key iterators for "
        "the three classes, CRNAutomorphism.iter(max_count in {1, count-1, count, count+1}), orbits(max_count=max(1, count-1)), and summary / iter / has_nontrivial_automorphism / orbits under a ticking clock "
        "(timeout_sec 0.5, 2.5; orbits 1.5) - counters api:*[ticking clock]:*, api:*[limited]:*, api:limited_iter:*. Stream `dict-keys`: every non-empty symmetric family with 2 renamed copies under the "
        "3 configurations CONFIGS_D (arc keys stoich_r_map+stoich_p_map / via+stoich_r_map / via on the species view), 30 / 400 random networks (<=5 species, <=4 reactions) with 2 renamed copies and a near miss under 2 of "
        "the 3, every third symmetric family under one of them with the public-surface calls (`@api`). "
        "Stream `big` (views of 258..266 nodes, planted symmetry; Lean checks certificates only): quick 6 families (pathway with 2 / 3 end products, twin side products at 3 steps, two chains on "
        "a hub, broom with one repeated chain length, spokes with distinct coefficients >= 200 and 2 equal ones), each [network, renamed copy] (+ a one-coefficient near miss for two of them) under one "
        "configuration drawn from 3 species / 6 bipartite configurations (string and integer node ids, stoichiometry on / off, permuted keys, role only); thorough: the first five families under all 9 configurations "
        "with 1..2 renamed copies and near misses, spokes under the 3 bipartite configurations with stoichiometry, one pathway of 518 nodes; the VF2 analyser where it answers within seconds. "
        "Stream `beyond-small-int-cache` (full model): 3 networks with 720 / 36 automorphisms and 40 / 400 random networks (<= 5 species, <= 4 reactions) whose coefficients >= 2 are replaced by "
        "257 / 300 / 1000 / 65536 / 10**12 (fresh int objects), with 2 renamed copies and a near miss, under 3 of 11 configurations. "
        "IR correspondence stream (last): regression corpus, every symmetric family (all 7 configurations) with a renamed copy, F19 networks, 2..3 disjoint identical components of small "
        "fixed / random networks (search trees of depth >= 2), rings with coefficients 10 / 2 and a 12-vs-3 network (label strings order differently from structured labels), exhaustive "
        "3-species networks (sampled in quick), random networks (half of them renamed), each under 2..7 configurations; per graph 2 probe partitions (unit / one cell of the refined "
        "partition individualised / random cells) for _refine and 2 random (node, partition) for _sig.")
    ctx.nontrivial_rule = ("(store content, configuration) distinct as a JSON value; the view has >= 3 nodes and >= 2 arcs (stream big: the same, tagged) "
                           "(IR stream: (graph as built by the back-end with interned ids, configuration) distinct; same size rule)")
    build_and_audit(ctx, ["SynKitProofs.Props.C18"], "SynKitProofs/Audit/C18.lean", THEOREMS)
    rnd = ctx.rnd

    reg = load_regress()
    for case in reg:
        if case.get("kind") == "big":
            continue  # large views: evaluated first in the stream `big` below (one pool call for all large cases)
        else:
            evaluate(ctx, [(case["nets"], case.get("configs", ALL))], "regress", shrink=False)
    ctx.count("regress_cases", len(reg))

    # symmetric families
    fams = []
    for name, net in symmetric_families():
        members = [net, rename_net(net, rnd), rename_net(net, rnd, ids="explicit"), rename_net(net, rnd, keep_labels=True)]
        for _ in range(2):
            nm = near_miss(net, rnd)
            if nm:
                members.append(nm[0]); ctx.count("near_miss:" + nm[1])
        fams.append((members, ALL))
    evaluate(ctx, fams, "symmetric")
    ctx.count("families:symmetric", len(fams))

    # F19 class
    evaluate(ctx, [([n, rename_net(n, rnd)], ALL) for n in f19_nets()], "f19")

    # option variation on the symmetric families: permuted key lists, label among the node keys of the species view,
    # integer node ids, more / crossed / no attribute keys
    XCFG = [c["name"] for c in CONFIGS_X]
    ICFG = [c["name"] for c in CONFIGS_I]
    KCFG = [c["name"] for c in CONFIGS_K]
    fams = []
    for name, net in symmetric_families():
        members = [net, rename_net(net, rnd), rename_net(net, rnd, ids="explicit", keep_labels=True)]
        nm = near_miss(net, rnd)
        if nm:
            members.append(nm[0])
        fams.append((members, XCFG + ICFG + (rnd.sample(KCFG, 3) if ctx.quick else KCFG)))
    evaluate(ctx, fams, "symmetric-options")

    # integer node ids on the F19 networks: no id collision is possible there, every gate applies
    evaluate(ctx, [([n, rename_net(n, rnd)], [c for c in ICFG if CFG[c]["bip"]]) for n in f19_nets()], "f19-integer-ids")

    # sizes beyond CPython's small-int cache (`is` vs `==` on ints differs only above 256).  (a) views of >= 258 nodes with a planted
    # symmetry group: Lean checks certificates only (see `evaluate_big`); (b) small views with more than 256 automorphisms and with
    # coefficients > 256 (equal coefficients as different int objects): the full model
    bigs = [dict(big_case_family(c), family="regress/" + c.get("family", "stored")) for c in reg if c.get("kind") == "big"] + big_families(rnd, ctx.quick)
    ctx.count("families:big", len(bigs))
    for b in batches(bigs, 12):
        if len(ctx.violations) < 20:
            evaluate_big(ctx, b, "big")
    fams = []
    for name, net, cfgs in many_automorphism_nets():
        fams.append(([net, rename_net(net, rnd, ids=rnd.choice(["regen", "explicit"]))], [rnd.choice(cfgs)] if ctx.quick else cfgs))
    for _ in range(40 if ctx.quick else 400):
        net = big_coefficient_net(rnd)
        members = [net, rename_net(net, rnd), rename_net(net, rnd, keep_labels=True, ids=rnd.choice(["regen", "explicit"]))]
        nm = near_miss(net, rnd)
        if nm:
            members.append(nm[0])
        fams.append((members, rnd.sample(ALL + XCFG + ICFG, 3)))
    ctx.count("families:beyond-small-int-cache", len(fams))
    for b in batches(fams, 100):
        if len(ctx.violations) < 20:
            evaluate(ctx, b, "beyond-small-int-cache")

    # the rest of the public surface (limits that are not reached, default and tight limits, functional wrappers, single-purpose
    # methods, key selections as lists, WL option sets) under every configuration: symmetric families, then random networks
    EVERY = ALL + XCFG + ICFG + KCFG
    fams = []
    for name, net in symmetric_families():
        member = net if rnd.random() < 0.5 else rename_net(net, rnd, keep_labels=rnd.random() < 0.3, ids=rnd.choice(["regen", "explicit"]))
        fams.append(([member], [c + "@api" for c in (rnd.sample(EVERY, 5) if ctx.quick else EVERY)]))
    for _ in range(30 if ctx.quick else 400):
        net = random_net(rnd, max_species=5, max_rxns=4)
        fams.append(([net], [c + "@api" for c in rnd.sample(EVERY, 2)]))
    for net in uneven_depth_nets():  # leaves at different depths: a max_depth between the first and the deepest leaf
        fams.append(([net], ["species+stoich@api", "species-stoich@api"]))
    ctx.count("families:api", len(fams))
    for b in batches(fams, 100):
        if len(ctx.violations) < 20:
            evaluate(ctx, b, "api")

    # rare but legal species labels / rule names / reaction ids (numeric strings next to integer node ids, the separators of the
    # label rendering, names of attribute keys and kinds, blanks, long and non-ASCII names), renamed and re-ordered
    fams = []
    for _ in range(24 if ctx.quick else 300):
        net = odd_names(random_net(rnd, max_species=5, max_rxns=4), rnd)
        members = [net, rename_net(net, rnd, keep_labels=True, ids="regen"), rename_net(net, rnd, pool=ODD_LABELS, ids=rnd.choice(["regen", "explicit"]))]
        nm = near_miss(net, rnd)
        if nm:
            members.append(nm[0])
        fams.append((members, rnd.sample(ALL, 2) + rnd.sample(XCFG + ICFG + KCFG, 2)))
    for name, net in symmetric_families():
        if net["rxns"] and rnd.random() < (0.3 if ctx.quick else 1.0):
            fams.append(([rename_net(net, rnd, pool=ODD_LABELS, ids="regen"), rename_net(net, rnd, pool=ODD_LABELS, ids="regen"), net], rnd.sample(EVERY, 4)))
    ctx.count("families:odd-names", len(fams))
    for b in batches(fams, 100):
        if len(ctx.violations) < 20:
            evaluate(ctx, b, "odd-names")

    # histories on one object: analyse -> edit in place -> analyse again (new and old helper objects)
    HCFG = ALL + XCFG + ICFG + ["bip+stoich/more-keys", "species+stoich/rules"]
    fams = [(members, HCFG) for members, _ in structured_histories(rnd)]
    ctx.count("families:history-structured", len(fams))
    nh = 70 if ctx.quick else 700
    for _ in range(nh):
        net = random_net(rnd, max_species=5, max_rxns=4)
        net["isolated"] = []
        if rnd.random() < 0.4:
            for k, q in enumerate(net["rxns"]):
                q["eid"] = "e%d" % k
        hist, kinds = random_history(rnd, net)
        for kd in kinds:
            ctx.count("history_edit:" + kd)
        fams.append((history_family(net, hist), rnd.sample(HCFG, 4)))
    ctx.count("families:history-random", nh)
    for b in batches(fams, 60):
        if len(ctx.violations) < 20:
            evaluate(ctx, b, "history")


    # exhaustive small networks under all species permutations
    ex1 = exhaustive_nets(False)
    ex2 = exhaustive_nets(True)[len(ex1):]
    if ctx.quick:
        ex2 = rnd.sample(ex2, 90)
    fams = []
    for net in ex1 + ex2:
        members = [net] + [permute_net(net, perm, reverse=(k % 2 == 1)) for k, perm in enumerate(S3[1:])]
        fams.append((members, ALL + ([rnd.choice(ICFG + KCFG)] if not ctx.quick or len(fams) % 3 == 0 else [])))
    for b in batches(fams, 150):
        if len(ctx.violations) < 20:
            evaluate(ctx, b, "exhaustive3", all_pairs=False)
    ctx.count("families:exhaustive-1rxn", len(ex1))
    ctx.count("families:exhaustive-2rxn", len(ex2))
    ctx.extra["exhaustive"] = not ctx.quick
    ctx.extra["exhaustive_part"] = ("all networks over 3 species up to species permutation with 1 reaction (sides of <=2 species, coefficients <=2)"
                                    + (" and with 2 reactions (side size <=2)" if not ctx.quick else " (2-reaction networks sampled in the quick tier)")
                                    + ", each under all 6 species permutations")

    # random networks
    nrand = 140 if ctx.quick else 1500
    fams = []
    for _ in range(nrand):
        net = random_net(rnd)
        members = [net, rename_net(net, rnd), rename_net(net, rnd, ids=rnd.choice(["regen", "explicit"]), keep_labels=rnd.random() < 0.3)]
        for _ in range(2):
            nm = near_miss(net, rnd)
            if nm:
                members.append(nm[0]); ctx.count("near_miss:" + nm[1])
        fams.append((members, ALL + ([rnd.choice(ICFG), rnd.choice(KCFG)] if not ctx.quick else [rnd.choice(ICFG + ICFG + KCFG)])))
    for b in batches(fams, 100):
        if len(ctx.violations) < 20:
            evaluate(ctx, b, "random")
    ctx.count("families:random", len(fams))
    # dict-valued arc attributes of the species view (`stoich_r_map`, `stoich_p_map`) and the id set `via` among the arc keys
    DCFG = [c["name"] for c in CONFIGS_D]
    fams = []
    for name, net in symmetric_families():
        if not net["rxns"]:
            continue
        fams.append(([net, rename_net(net, rnd, keep_labels=True, ids=rnd.choice(["regen", "explicit"])), rename_net(net, rnd)], DCFG))
    for _ in range(30 if ctx.quick else 400):
        net = random_net(rnd, max_species=5, max_rxns=4)
        members = [net, rename_net(net, rnd, keep_labels=True), rename_net(net, rnd, ids=rnd.choice(["regen", "explicit"]))]
        nm = near_miss(net, rnd)
        if nm:
            members.append(nm[0])
        fams.append((members, rnd.sample(DCFG, 2)))
    for k, (name, net) in enumerate(symmetric_families()):  # the rest of the public surface under these key selections
        if net["rxns"] and k % 3 == 0:
            fams.append(([net], [DCFG[(k // 3) % len(DCFG)] + "@api"]))
    ctx.count("families:dict-keys", len(fams))
    for b in batches(fams, 100):
        if len(ctx.violations) < 20:
            evaluate(ctx, b, "dict-keys")

    def is_ir(v):
        return isinstance(v.get("detail"), dict) and str(v["detail"].get("stream", "")).startswith("ir")

    real = [v for v in ctx.violations if F19 not in v["classes"] and DICTKEY not in v["classes"]]
    ctx.obligation("correspondence: views, canonical graphs (faithful, kernel agreement), automorphism counts / mappings / orbits impl == proven specification", not real)

    # IR correspondence: the search of CRNCanonicalizer against the model the crn_ir_* theorems are about
    import time
    t_ir = time.time()
    stream_ir(ctx)
    ctx.extra["ir_stream_wall_s"] = round(time.time() - t_ir, 1)
    broken = [v for v in ctx.violations if is_ir(v) and F19 not in v["classes"]]
    ctx.obligation("correspondence (IR search): _init_part, _refine, _sig, leaves of _search (prefix, permutation, equality pattern of the labels), canonical_perm = first least-label leaf, "
                   "sample_permutations = least-label leaves, automorphism count / orbits of canon.py == SynKitModel/CrnIR.lean (crn.ir, crn.ir_refine, crn.ir_sig)", not broken,
                   "; ".join(sorted({str(v["detail"].get("stage", v["what"])) for v in broken}))[:600])


def replay(ctx, case):
    c = case["case"]
    if c.get("kind") == "big":
        evaluate_big(ctx, [big_case_family(c)], "replay")
        return
    cfgs = [c["config"]] if "config" in c else c.get("configs", ALL)
    evaluate(ctx, [(c["nets"], cfgs)], "replay", shrink=False)
    if c.get("kind") == "ir" or str((case.get("detail") or {}).get("stream", "")).startswith("ir"):
        batch = Batch(ctx)
        for net in c["nets"]:
            for cn in cfgs:
                check_ir(ctx, batch, net, cn, "replay")
        batch.run()

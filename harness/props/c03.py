"""C03 — every reaction proposed by rule application is a genuine instance of the rule.

What is proved (lean/SynKitProofs/Props/C03.lean, over the model lean/SynKitModel/Reactor.lean):
for a well-formed substrate, a well-formed template and a match `m` of the template's reactant
side (implicit path), the glued ITS has the substrate unchanged as its reactant side
(`glue_left_unchanged`, `glue_specA`), is exactly as (un)balanced in hydrogens and charge as the
template and keeps every element (`glue_balance`, `glue_balanced`), and its changed bonds are the
`m`-image of the template's with equal order changes, elements and hydrogen-count changes, every
other bond keeping `(o, o)` (`glue_rc_image`), i.e. the two labelled changed-bond graphs are
isomorphic (`glue_rc_iso`; `glue_meets_spec_full` = the three verdicts of `reactor.spec` hold for the
model's output; `fullStatement_implicit_partial` = C03.FullStatement for the implicit path along any matches of the
exhaustive enumeration, balanced template, exact rounding); `_invert_template` swaps the sides
(`invert_swaps_sides`, `invert_involutive`); `_explicit_h` moves hydrogens and never creates or
destroys them when the hydrogen pairs are consistent (`explicitH_balance`; without that hypothesis
it does not: `explicitH_spectator_witness`).

What this check does on every run (correspondence + specification on the implementation's own
outputs), for every generated (template, substrate, direction, strategy, hydrogen mode):
  stage-wise  impl == model :  SynRule fragments == its_decompose(rule.rc);  _invert_template;
              pattern preparation (has_XH / h_to_implicit);  every mapping is a monomorphism
              (hypothesis of the theorems, `isMonoB_iff`);  _glue_graph per mapping (implicit path:
              model `glue`; explicit path: model `explicitHost` then `glue` per re-match);
              _explicit_h (modulo the ids of the new hydrogen atoms; also at unit level on random
              ITS graphs incl. the StopIteration branch)
  spec-gated  on every graph of `its_list` (Lean `reactor.spec`):
              (a) reactant side == substrate after hydrogen normalisation,
              (b) hydrogen / charge / element balance — and, sharper, imbalance == the template's,
              (c) labelled changed-bond graph isomorphic to the (oriented) template's,
              and on every string of `smarts_list` through RDKit (trusted): substrate side ==
              substrate, atom and charge balance consistent with the graph verdict.
A (b) failure is classified `rc_template_unbalanced` exactly when the template's own hydrogen or
charge deltas do not sum to zero (known finding F10).  A (c) failure is classified
`additive_round_clash` exactly when, for the match that produced the output, the template creates a
bond (reactant order 0) between two atoms the substrate already bonds and the two orders do not add
up to a whole number — the one case `glue_rc_image` excludes by its hypothesis `RoundExact`
(finding F22: Python `round(1.5 + 1.0) = 2`).  Anything else is a VIOLATION.  Result order
is never gated.  Hand-made inputs outside the quantifier on which the pinned code fails the
specification (PROBES) are only counted.

Streams: regress, probes, corpus, synthetic, `_explicit_h` unit level, and (anchor-coverage driven)
  entry  the documented alternative entry points and options on corpus reactions: template as ITS graph / reaction SMILES
         string (`_wrap_template` parses it) / caller-built `SynRule` (also canon=False, `from_smart`, `from_gml`);
         substrate as SMILES / networkx graph / the same graph renumbered with shuffled insertion order / `SynGraph`
         (with and without canonical form); constructor `from_smiles`; options explicit_h=False on an explicit-H
         template (clause (c) then against the hydrogen-normal form of the template, computed by the harness from the
         template alone), automorphism, embed_threshold, embed_pre_filter, an own canonicaliser.  Same stage-wise
         comparison and the same Lean specification as every other stream; nothing is taken from the code under test.
  hand   seven small explicit-H templates with a bare proton / hydride / H2 (hydrogens SynRule must keep explicit:
         `_removable_on` "no neighbours", `h_to_implicit` leaving a lone hydrogen in the pattern), centre and full ITS,
         forward and backward.
  prebond  the template FORMS a bond (0 -> k, k = 1, 2) between two atoms the substrate ALREADY joins by a bond of order j
         (none / single / double / triple / aromatic): the additive branch of `_glue_graph`, product-side orders j + k up to 5,
         results the rendering has to drop or to write faithfully.  Four populations: `prebond-hand` (seven hand-written
         templates -- C(sp)-H + C-Br coupling explicit and implicit, amine alkylation, imine formation 0 -> 2, ether formation,
         C-H + H-C -> C-C + H-H -- each on substrates with the joined atoms at every existing order, all strategies, the
         hydrogen modes that are legal for the template, explicit_h=False, backward through the mirror image; plus call
         sequences: a control substrate first through the same template object, diagnostic members in between);
         `prebond-corpus` (a corpus reaction's own side with a bond of order 1 / 2 / 3 put between the two heavy atoms of a
         bond the reaction forms, centre and full template); `prebond-centre` (the corpus reaction centre itself as a small
         molecule with those two atoms joined); `prebond-valent` (generated valence-correct graph substrates with a planted
         balanced template, implicit mode, numbers partly re-typed int / float / numpy).
Every returned reaction STRING (all streams, graph substrates included) is read back by RDKit alone (`read_rsmi`: one node per
map number, bond types as RDKit reads them, hydrogen counts, charges) and given to the same Lean `reactor.spec` as the graph:
clause (c) has to hold for the string where it holds for the graph.  A string that differs from its graph only by what RDKit
itself does to that graph when the harness renders it with its own bond table (aromaticity re-perception, charge-separated
forms; `indep_render`) is counted, not gated.  The known class additive_round_clash is recognised on the explicit re-match path
too (hypothesis RoundExact evaluated on the expanded host for the re-match behind the output).
"""
import json

from ..core import ROOT, build_and_audit
from .. import reactor_common as rc

THEOREMS = [
    "SynKit.Reactor.glue_left_unchanged",
    "SynKit.Reactor.glue_specA",
    "SynKit.Reactor.glue_balance",
    "SynKit.Reactor.glue_balanced",
    "SynKit.Reactor.glue_rc_image",
    "SynKit.Reactor.glue_rc_iso",
    "SynKit.Reactor.glue_meets_spec",
    "SynKit.Reactor.glue_meets_spec_full",
    "SynKit.Reactor.fullStatement_implicit_partial",
    "SynKit.Reactor.glue_specA_verdict",
    "SynKit.Reactor.invert_swaps_sides",
    "SynKit.Reactor.invert_involutive",
    "SynKit.Reactor.explicitH_balance",
    "SynKit.Reactor.explicitH_spectator_witness",
    "SynKit.Reactor.isMonoB_iff",
    "SynKit.Reactor.exMono",
    "SynKit.Reactor.explicit_host_prepared",
    "SynKit.Reactor.explicit_rematch_sound",
    "SynKit.Reactor.explicit_left_unchanged",
    "SynKit.Reactor.explicit_specA_verdict",
    "SynKit.Reactor.explicit_balance",
    "SynKit.Reactor.explicit_balanced",
    "SynKit.Reactor.explicit_rc_image",
    "SynKit.Reactor.explicit_rc_iso",
    "SynKit.Reactor.explicit_specC",
    "SynKit.Reactor.explicit_folded_count_not_rematched",
    "SynKit.Reactor.explicit_guard_from_substrate",
    "SynKit.Reactor.explicit_balance_explicitH",
    "SynKit.Reactor.fullStatement_explicit_partial",
    "SynKit.Reactor.exMonoX",
    "SynKit.Reactor.explicit_guard_needed_witness_sites",
    "SynKit.Reactor.explicit_guard_needed_witness",
]

MAX_MAPS = 8        # mappings per case compared stage-wise
MAX_REMAPS = 4      # explicit re-matches per mapping compared stage-wise
MAX_ITS = 40        # outputs per case evaluated by the specification
MAX_STORED = 40     # violations kept per kind (the rest is counted)

CASE_KEYS = ("rsmi", "core", "tpl_graph", "sub", "host_graph", "invert", "strategy", "mode", "outside",
             "tform", "sform", "skey", "ctor", "kw", "canon_arg", "warm", "poke", "numkey")

# Entry-point / option variation (stream `entry`, adapter `reactor_case_x`).  A case without any of these keys
# goes through the shared adapter `reactor_common.reactor_case` unchanged.
FORM_KEYS = ("tform", "sform", "skey", "ctor", "kw", "canon_arg", "warm", "poke", "numkey")
TFORMS = ("graph", "str", "synrule", "synrule_nocanon", "from_smart", "from_gml")
SFORMS = ("smiles", "graph", "graph_shuffled", "syngraph", "syngraph_nocanon")

# Hand-made inputs OUTSIDE the property's quantifier (not corpus-derived) on which the pinned code does
# not meet the specification.  They are run on every tier: the stage-wise comparison with the model
# must hold (the model reproduces the behaviour), the specification failures are only counted
# (`outside_quantifier:*` in the evidence) and described in the hand-over report.
PROBES = [
    {"rsmi": "[CH3:1][N:2]([H:3])[H:4].[Cl:5][CH3:6]>>[CH3:1][N:2]([H:3])[CH3:6].[H:4][Cl:5]", "core": False,
     "sub": "CCN.CCl", "invert": False, "strategy": "all", "mode": "explicit", "outside": "explicit_h_spectator_hydrogen"},
    {"rsmi": "[CH3:1][N:2]([CH3:7])[H:3].[H:4][O:5][CH3:6].[CH3:8][O-:9]>>[CH3:1][N:2]([CH3:7])[H:4].[H:3][O:9][CH3:8].[O-:5][CH3:6]",
     "core": True, "sub": "CNC.CO.C[O-]", "invert": False, "strategy": "all", "mode": "explicit",
     "outside": "explicit_h_atom_gives_and_receives"},
    # F20 family (explicit re-match): all hydrogens of the matched atoms are expanded, the `hcount >=` test then steers
    # the re-match to the *other* water, and the expanded, now unmatched, water keeps typesGH (0 | 2) plus two explicit H
    {"rsmi": "[CH3:1][CH:2]=[O:3].[CH3:4][N:5]([H:9])[H:10].[H:6][H:7]>>[CH3:1][CH:2]([H:6])[N:5]([H:7])[CH3:4].[O:3]([H:9])[H:10]",
     "core": True, "sub": "CCNC.O.O", "invert": True, "strategy": "all", "mode": "explicit",
     "outside": "explicit_rematch_leaves_expanded_atom_unmatched"},
]


def canonical(case):
    if "explicit_h_unit" in case:
        return case
    return {k: case[k] for k in CASE_KEYS if k in case}


# ------------------------------------------------------------------ comparisons
def _strip(g, node_drop=(), edge_drop=()):
    return {"nodes": [[n, {k: v for k, v in a.items() if k not in node_drop}] for n, a in g["nodes"]],
            "edges": [[u, v, {k: w for k, w in a.items() if k not in edge_drop}] for u, v, a in g["edges"]]}


def same_graph(a, b):
    return rc.norm_graph(a) == rc.norm_graph(b)


def first_diff(a, b):
    a, b = rc.norm_graph(a), rc.norm_graph(b)
    for kind in ("nodes", "edges"):
        if len(a[kind]) != len(b[kind]):
            return f"{kind}: {len(a[kind])} vs {len(b[kind])}"
        for x, y in zip(a[kind], b[kind]):
            if x != y:
                return f"{kind[:-1]} impl={json.dumps(x)[:260]} model={json.dumps(y)[:260]}"
    return None


def canon_explicit(g, n0):
    """`_explicit_h` output modulo the ids of the hydrogens it adds (ids >= n0): the old part of the
    graph, plus per heavy atom how many new hydrogens leave it / arrive at it, plus the attribute
    dicts used for new nodes and edges."""
    g = rc.norm_graph(g)
    base = {"nodes": [x for x in g["nodes"] if x[0] < n0], "edges": [e for e in g["edges"] if e[0] < n0 and e[1] < n0]}
    out_c, in_c, attrs = {}, {}, set()
    newn = [x for x in g["nodes"] if x[0] >= n0]
    for n, a in newn:
        attrs.add(json.dumps(a, sort_keys=True))
    for u, v, a in g["edges"]:
        if u < n0 and v < n0:
            continue
        attrs.add(json.dumps(a, sort_keys=True))
        other = u if v >= n0 else v
        try:
            o = a["order"]["t"]
            if o[0]["n"] > 0:
                out_c[other] = out_c.get(other, 0) + 1
            if o[1]["n"] > 0:
                in_c[other] = in_c.get(other, 0) + 1
        except Exception:
            attrs.add("bad-order")
    return [base, sorted(out_c.items()), sorted(in_c.items()), sorted(attrs), len(newn)]


# ------------------------------------------------------------------ returned reaction strings, read back
def read_rsmi(sm):
    """Independent (RDKit only) reading of a returned mapped reaction string as an ITS-like graph: one node per atom-map
    number (hydrogens written as atoms stay atoms: removeHs=False) with typesGH = ((element, aromatic, total H count,
    charge, []) on the left, the same on the right), one edge per bond of either side with order = (left, right) as RDKit
    reads the bond type (0 where the side has no bond).  None when the string cannot be read that way (an unmapped or
    doubly used map number, different atom sets on the two sides, an RDKit parse failure): counted, never gated."""
    from rdkit import Chem
    import networkx as nx

    try:
        l, r = sm.split(">>")
    except ValueError:
        return None
    ps = Chem.SmilesParserParams()
    ps.removeHs = False
    sides = []
    for part in (l, r):
        m = Chem.MolFromSmiles(part, ps)
        if m is None:
            return None
        atoms, bonds = {}, {}
        for a in m.GetAtoms():
            k = a.GetAtomMapNum()
            if k == 0 or k in atoms:
                return None
            atoms[k] = (a.GetSymbol(), bool(a.GetIsAromatic()), int(a.GetTotalNumHs()), int(a.GetFormalCharge()), ())
        for b in m.GetBonds():
            u, v = b.GetBeginAtom().GetAtomMapNum(), b.GetEndAtom().GetAtomMapNum()
            o = b.GetBondTypeAsDouble()
            if o * 2 != int(o * 2):
                return None
            bonds[(min(u, v), max(u, v))] = o
        sides.append((atoms, bonds))
    if set(sides[0][0]) != set(sides[1][0]):
        return None
    G = nx.Graph()
    for k in sorted(sides[0][0]):
        tl, tr = sides[0][0][k], sides[1][0][k]
        G.add_node(k, element=tl[0], aromatic=tl[1], hcount=tl[2], charge=tl[3], atom_map=k, typesGH=(tl, tr))
    for e in sorted(set(sides[0][1]) | set(sides[1][1])):
        o = (sides[0][1].get(e, 0.0), sides[1][1].get(e, 0.0))
        G.add_edge(e[0], e[1], order=o, standard_order=o[0] - o[1])
    return rc.enc_graph(G)


_BOND_TABLE = {2: "SINGLE", 3: "AROMATIC", 4: "DOUBLE", 6: "TRIPLE"}     # half-units -> RDKit bond type; nothing else is a bond order RDKit can write


def indep_render(its):
    """What RDKit (trusted) writes for the two sides of an encoded ITS graph when the harness builds the molecules itself:
    atoms in node order with element / charge / hydrogen count of `typesGH` and the node id as map number, bonds of positive
    order through the harness's own table (1, 1.5, 2, 3; any other order cannot be written: None), sanitised, MolToSmiles.
    Used only to tell RDKit's own normalisation (aromaticity re-perception, charge-separated forms) from a string that is
    not the graph it is said to render."""
    from rdkit import Chem

    out = []
    for s in (0, 1):
        try:
            mol = Chem.RWMol()
            idx = {}
            for n, a in its["nodes"]:
                if "typesGH" not in a:
                    continue
                t = a["typesGH"]["t"][s]["t"]
                el = t[0]["s"]
                if el == "*":
                    continue
                at = Chem.Atom(el)
                at.SetFormalCharge(t[3]["n"] // 2)
                at.SetAtomMapNum(n)
                at.SetNoImplicit(True)
                at.SetNumExplicitHs(t[2]["n"] // 2)
                idx[n] = mol.AddAtom(at)
            for u, v, a in its["edges"]:
                o = a["order"]["t"][s]["n"]
                if o <= 0 or u not in idx or v not in idx:
                    continue
                if o not in _BOND_TABLE:
                    return None
                mol.AddBond(idx[u], idx[v], getattr(Chem.BondType, _BOND_TABLE[o]))
            Chem.SanitizeMol(mol)
            out.append(Chem.MolToSmiles(mol))
        except Exception:
            return None
    return ">>".join(out)


def _orders_outside_table(its):
    """product-side / reactant-side bond orders (half-units) of an encoded ITS graph that RDKit cannot write"""
    bad = set()
    for _, _, a in its["edges"]:
        try:
            for x in a["order"]["t"]:
                if x["n"] > 0 and x["n"] not in _BOND_TABLE:
                    bad.add(x["n"])
        except Exception:
            pass
    return sorted(bad)


# ------------------------------------------------------------------ generators
def prepared_corpus(ctx):
    R = rc.load_reactions()
    prep = rc.run_pool([r["rsmi"] for r in R], rc.prepare_reaction, timeout=30)
    out = []
    for r, p in zip(R, prep):
        if not p or "mode" not in p:
            ctx.count("corpus:unusable(parse/standardise)")
            continue
        ctx.count("corpus:mode:" + p["mode"])
        if p["mode"] in ("mixed", "wildcard"):
            continue
        out.append({**r, **p})
    return out


def corpus_cases(ctx, pool, reactions, strategies_own, n_foreign):
    cases = []
    for r in reactions:
        for core in (True, False):
            for inv in (False, True):
                own = r["products"] if inv else r["reactants"]
                for st in strategies_own:
                    cases.append({"rsmi": r["rsmi"], "core": core, "sub": own, "invert": inv, "strategy": st,
                                  "mode": r["mode"], "tag": f"{r['src']}#{r['idx']}", "kind": "own"})
                for _ in range(n_foreign):
                    o = ctx.rnd.choice(pool)
                    side = ctx.rnd.choice(["reactants", "products"])
                    cases.append({"rsmi": r["rsmi"], "core": core, "sub": o[side], "invert": inv,
                                  "strategy": ctx.rnd.choice(["all", "comp", "bt"]), "mode": r["mode"],
                                  "tag": f"{r['src']}#{r['idx']}", "kind": "foreign"})
    return cases


def entry_cases(ctx, reactions, per_form=1):
    """Stream `entry`: the documented alternative entry points and non-default options of SynReactor / SynRule on corpus
    reactions (substrate: the side the template is applied to, or -- 40% -- reactants and products together, on which the
    template matches in either orientation, so that a forgotten inversion produces outputs).  Every applicable template form is used `per_form` times for every chosen reaction; the
    substrate forms are dealt round-robin from a random start, so that every form occurs on every run whatever the seed."""
    rnd = ctx.rnd
    cases = []
    si = rnd.randrange(len(SFORMS))
    for r in reactions:
        for tform in TFORMS:
            if tform == "from_gml" and r["mode"] != "explicit":
                continue        # GML carries no hydrogen counts: an implicit-H template does not survive it
            for _ in range(per_form):
                inv = rnd.random() < 0.5
                core = False if tform in ("str", "from_smart") else rnd.random() < 0.5
                sform = SFORMS[si % len(SFORMS)]
                si += 1
                own = r["products"] if inv else r["reactants"]
                both = rnd.random() < 0.4      # both sides together: the template matches in either orientation
                ctx.count("entry:substrate=" + ("reactants+products" if both else "own side"))
                c = {"rsmi": r["rsmi"], "core": core, "sub": (r["reactants"] + "." + r["products"]) if both else own, "invert": inv,
                     "strategy": rnd.choice(["all", "comp", "bt"]), "mode": r["mode"], "tag": f"{r['src']}#{r['idx']}",
                     "kind": "entry", "tform": tform, "sform": sform}
                if sform == "graph_shuffled":
                    c["skey"] = rnd.randrange(1 << 30)
                if sform == "smiles" and rnd.random() < 0.5:
                    c["ctor"] = "from_smiles"
                kw = {}
                if r["mode"] == "explicit" and rnd.random() < 0.35:
                    kw["explicit_h"] = False
                if rnd.random() < 0.2:
                    kw["automorphism"] = True
                if c.get("ctor") != "from_smiles":
                    if rnd.random() < 0.2:
                        kw["embed_pre_filter"] = True
                    if rnd.random() < 0.2:
                        kw["embed_threshold"] = rnd.choice([50, 5000])
                if kw:
                    c["kw"] = kw
                if rnd.random() < 0.25:
                    c["canon_arg"] = True
                ctx.count("entry:tform=" + tform)
                ctx.count("entry:sform=" + sform)
                ctx.count("entry:ctor=" + c.get("ctor", "init"))
                for k, v in sorted(kw.items()):
                    ctx.count(f"entry:option:{k}={v}")
                if c.get("canon_arg"):
                    ctx.count("entry:option:canonicaliser=own")
                cases.append(c)
    return cases


# Small hand-written explicit-H templates whose rule keeps explicit hydrogens that cannot be folded into a count: a bare
# proton / hydride (no neighbour on one side: `_removable_on` -> False for "no neighbours") and H2, also next to an X-H bond
# of the pattern (`h_to_implicit` has to leave the lone hydrogen in place).  No corpus reaction small enough for the quick
# tier has them.  (template reaction, reactants, products)
HAND = [
    ("[CH3:1][OH:2].[H+:3]>>[CH3:1][OH+:2][H:3]", "CO.[H+]", "C[OH2+]"),
    ("[H:1][C:2](=[O:3])[O-:4].[H+:5]>>[O:3]=[C:2]=[O:4].[H:1][H:5]", "O=C[O-].[H+]", "O=C=O.[H][H]"),
    ("[H:1][B-:2]([F:3])([F:4])[F:5].[H+:6]>>[H:1][H:6].[B:2]([F:3])([F:4])[F:5]", "F[BH-](F)F.[H+]", "FB(F)F.[H][H]"),
    ("[CH3:1][C:2](=[O:3])[O:4][H:5]>>[CH3:1][C:2](=[O:3])[O-:4].[H+:5]", "CC(=O)O", "CC(=O)[O-].[H+]"),
    ("[CH3:1][O-:2].[H:3][H:4]>>[CH3:1][O:2][H:3].[H-:4]", "C[O-].[H][H]", "CO.[H-]"),
    ("[CH2:1]=[CH2:2].[H:3][H:4]>>[CH2:1]([H:3])[CH2:2][H:4]", "C=C.[H][H]", "CC"),
    ("[CH3:1][N:2]([CH3:3])[CH3:4].[H+:5]>>[CH3:1][N+:2]([CH3:3])([CH3:4])[H:5]", "CN(C)C.[H+]", "C[NH+](C)C"),
]


def hand_cases(ctx, all_strategies):
    cases = []
    for i, (rsmi, r, p) in enumerate(HAND):
        for core in (True, False):
            for inv in (False, True):
                for st in (["all", "comp", "bt"] if all_strategies else [ctx.rnd.choice(["all", "comp", "bt"])]):
                    cases.append({"rsmi": rsmi, "core": core, "sub": p if inv else r, "invert": inv, "strategy": st,
                                  "mode": "explicit", "tag": f"hand#{i}", "kind": "hand"})
    return cases


# ------------------------------------------------------------------ stream `prebond`: the template joins what is already joined
# Hand-written templates that FORM a bond (order 0 -> k) between two atoms, each with substrates in which those two atoms are
# not bonded (control) / already bonded by a single / double / triple / aromatic bond, so that the product-side order of the
# result is j + k = 1 ... 5 (or non-integral).  Whatever the code does with such a match -- return it or drop it -- every
# reaction it DOES return has to meet (a), (b), (c), as a graph and as a string.
# (template reaction, hydrogen modes it is run in [DESIGN 5a mode first], substrates)
PREBOND_HAND = [
    # C(sp)-H + C-Br -> C-C + H-Br, hydrogen explicit
    ("[CH3:1][C:2]#[C:3][H:4].[Br:5][CH2:6][CH3:7]>>[CH3:1][C:2]#[C:3][CH2:6][CH3:7].[H:4][Br:5]", ("explicit",),
     ["C#C.CBr", "CCBr", "C=CBr", "C#CBr", "C#CBr.C#CBr", "BrC1=CCCC1", "Brc1ccccc1", "CC#CBr.C#CC"]),
    # the same with the hydrogen as a count (implicit mode: host count >= pattern count, so the pattern atoms carry few H)
    ("[Cl:1][C:2]#[CH:3].[Br:5][C:6]([Cl:7])([Cl:8])[Cl:9]>>[Cl:1][C:2]#[C:3][C:6]([Cl:7])([Cl:8])[Cl:9].[BrH:5]", ("implicit",),
     ["C#C.BrC(Cl)(Cl)Cl", "CCBr", "C=CBr", "C#CBr", "C#CBr.C#CBr", "BrC1=CCCC1"]),
    # amine + alkyl bromide -> ammonium bromide (no hydrogen changes: both modes are legal)
    ("[CH3:1][N:2]([CH3:3])[CH3:4].[CH3:5][Br:6]>>[CH3:1][N+:2]([CH3:3])([CH3:4])[CH3:5].[Br-:6]", ("explicit",),
     ["CN(C)C.CBr", "CN(C)CBr", "CN=C(C)Br", "N#CBr", "N#CBr.CN(C)C", "Brc1ccccn1"]),
    ("[CH3:1][N:2]([CH3:3])[CH3:4].[Cl:7][C:5]([Cl:8])([Cl:9])[Br:6]>>[CH3:1][N+:2]([CH3:3])([CH3:4])[C:5]([Cl:7])([Cl:8])[Cl:9].[Br-:6]",
     ("implicit", "explicit"), ["CN(C)C.ClC(Cl)(Cl)Br", "CN(C)CBr", "CN=C(C)Br", "N#CBr", "N#CBr.CN(C)C", "Brc1ccccn1"]),
    # ketone + primary amine -> imine + water: forms a DOUBLE bond (0 -> 2); on an amide that is 1 + 2 = 3 (a nitrile)
    ("[CH3:1][C:2]([CH3:6])=[O:3].[CH3:4][NH2:5]>>[CH3:1][C:2]([CH3:6])=[N:5][CH3:4].[OH2:3]", ("implicit",),
     ["CC(C)=O.CN", "CC(N)=O", "NC=O", "NC(N)=O", "NC(=O)c1ccccc1", "NC(=O)C#N"]),
    # alcohol + alkyl chloride -> ether + HCl, hydrogen explicit; on chloromethanol 1 + 1 = 2 (formaldehyde)
    ("[CH3:1][O:2][H:3].[CH3:4][Cl:5]>>[CH3:1][O:2][CH3:4].[H:3][Cl:5]", ("explicit",),
     ["CO.CCl", "OCCl", "OC(=O)Cl", "OC(Cl)=C", "Oc1ccccc1Cl"]),
    # C-H + H-C -> C-C + H-H, both hydrogens explicit
    ("[CH3:1][H:2].[CH3:3][H:4]>>[CH3:1][CH3:3].[H:2][H:4]", ("explicit",),
     ["C.C", "CC", "C=C", "C#C", "C#CC", "c1ccccc1"]),
]


def prebond_hand_cases(ctx, thorough):
    """Every template x substrate x mode of PREBOND_HAND, centre template with all three strategies (one-molecule substrates
    reach `all` through the fall-back of comp / bt), full ITS with one (thorough: all); explicit-mode templates also with
    explicit_h=False; forward.  Backward (thorough, and one per template in quick): the mirror image of the template is
    handed over with invert=True, so that the reactor's own inversion restores it and the same matches exist."""
    rnd = ctx.rnd
    cases = []
    for ti, (rsmi, modes, subs) in enumerate(PREBOND_HAND):
        mirror = ">>".join(rsmi.split(">>")[::-1])
        back = rnd.randrange(len(subs))
        for si, sub in enumerate(subs):
            for mode in modes:
                kws = [{}] + ([{"explicit_h": False}] if mode == "explicit" else [])
                for kw in kws:
                    for core in (True, False):
                        sts = ["all", "comp", "bt"] if (core or thorough) else [rnd.choice(["all", "comp", "bt"])]
                        for st in sts:
                            dirs = [False] + ([True] if (thorough or (si == back and core)) else [])
                            for inv in dirs:
                                c = {"rsmi": mirror if inv else rsmi, "core": core, "sub": sub, "invert": inv, "strategy": st,
                                     "mode": mode, "tag": f"prebond-hand#{ti}", "kind": "prebond-hand"}
                                if kw:
                                    c["kw"] = dict(kw)
                                cases.append(c)
        # hidden state between calls: the control substrate (ordinary match) goes first through a reactor built from the very
        # same template object, then a substrate with the joined atoms already bonded; diagnostic members in between
        for mode in modes:
            for tform in ("graph", "synrule"):
                c = {"rsmi": rsmi, "core": True, "sub": rnd.choice(subs[1:]), "invert": False, "strategy": rnd.choice(["all", "comp", "bt"]),
                     "mode": mode, "tag": f"prebond-hand#{ti}", "kind": "prebond-hand", "tform": tform, "warm": subs[0]}
                if rnd.random() < 0.5:
                    c["poke"] = True
                ctx.count(f"prebond-hand:warm-up first, template as {tform}")
                cases.append(c)
    return cases


def _mapped_sides(rsmi):
    """RDKit-only reading of a mapped corpus reaction: per side {map: (symbol, total H without mapped H atoms, charge,
    aromatic)} and {(map, map): order}; None if unreadable."""
    from rdkit import Chem, rdBase

    _block = rdBase.BlockLogs()     # noqa: F841  (RDKit's valence messages are not results)

    ps = Chem.SmilesParserParams()
    ps.removeHs = False
    out = []
    try:
        for part in rsmi.split(">>"):
            m = Chem.MolFromSmiles(part, ps)
            if m is None:
                return None
            atoms = {a.GetAtomMapNum(): (a.GetSymbol(), a.GetTotalNumHs(), a.GetFormalCharge(), a.GetIsAromatic()) for a in m.GetAtoms() if a.GetAtomMapNum()}
            bonds = {}
            for b in m.GetBonds():
                u, v = b.GetBeginAtom().GetAtomMapNum(), b.GetEndAtom().GetAtomMapNum()
                if u and v:
                    bonds[(min(u, v), max(u, v))] = b.GetBondTypeAsDouble()
            out.append((atoms, bonds))
    except Exception:
        return None
    return out if len(out) == 2 else None


def _join_in_smiles(side_smiles, a, b, j):
    """The mapped molecule set `side_smiles` with a bond of order j put between the atoms mapped a and b, each giving up j of
    its (non-atom) hydrogens -> unmapped SMILES, or None when an atom has fewer than j such hydrogens or RDKit rejects the
    result.  RDKit only."""
    from rdkit import Chem, rdBase

    _block = rdBase.BlockLogs()     # noqa: F841  (RDKit's valence messages are not results)

    ps = Chem.SmilesParserParams()
    ps.removeHs = False
    try:
        m = Chem.MolFromSmiles(side_smiles, ps)
        if m is None:
            return None
        rw = Chem.RWMol(m)
        ia = [x.GetIdx() for x in rw.GetAtoms() if x.GetAtomMapNum() == a]
        ib = [x.GetIdx() for x in rw.GetAtoms() if x.GetAtomMapNum() == b]
        if len(ia) != 1 or len(ib) != 1 or rw.GetBondBetweenAtoms(ia[0], ib[0]) is not None:
            return None
        for i in (ia[0], ib[0]):
            at = rw.GetAtomWithIdx(i)
            h = at.GetTotalNumHs()
            if h < j or at.GetIsAromatic():
                return None
            at.SetNoImplicit(True)
            at.SetNumExplicitHs(h - j)
        rw.AddBond(ia[0], ib[0], {1: Chem.BondType.SINGLE, 2: Chem.BondType.DOUBLE, 3: Chem.BondType.TRIPLE}[j])
        Chem.SanitizeMol(rw)
        for x in rw.GetAtoms():
            x.SetAtomMapNum(0)
        Chem.RemoveStereochemistry(rw)          # as the corpus substrates (Standardize): the reactor's graphs carry no stereo
        out = Chem.RemoveHs(rw.GetMol())
        smi = Chem.MolToSmiles(out)
        return smi if Chem.MolFromSmiles(smi) is not None else None
    except Exception:
        return None


def prebond_corpus_cases(ctx, reactions, per_reaction):
    """Generated analogues on corpus templates: for a corpus reaction that forms (forward) / breaks (backward: the reactor
    forms it) a bond between two heavy atoms a, b, the substrate is the reaction's own side with a bond of order j in {1, 2, 3}
    put between a and b (each gives up j hydrogens; built with RDKit alone).  Centre and full template, strategy uniform."""
    rnd = ctx.rnd
    cases = []
    for r in reactions:
        sides = _mapped_sides(r["rsmi"])
        if sides is None:
            ctx.count("prebond-corpus:reaction_not_readable")
            continue
        made = 0
        options = []
        for inv in (False, True):
            own, other = (sides[1], sides[0]) if inv else (sides[0], sides[1])
            for e, o in sorted(other[1].items()):
                if e in own[1] or e[0] not in own[0] or e[1] not in own[0]:
                    continue
                if own[0][e[0]][0] == "H" or own[0][e[1]][0] == "H":
                    continue
                for j in (1, 2, 3):
                    if own[0][e[0]][1] >= j and own[0][e[1]][1] >= j:
                        options.append((inv, e, j))
        rnd.shuffle(options)
        for j in [3] + rnd.sample([1, 2], 2):        # the rare triple bond first, then single / double in random order
            if made >= per_reaction:
                break
            for inv, e, jj in options:
                if jj != j:
                    continue
                sub = _join_in_smiles(r["rsmi"].split(">>")[1 if inv else 0], e[0], e[1], j)
                if sub is None:
                    ctx.count("prebond-corpus:join_rejected_by_rdkit")
                    continue
                made += 1
                ctx.count(f"prebond-corpus:existing_order={j}")
                for core in (True, False):
                    cases.append({"rsmi": r["rsmi"], "core": core, "sub": sub, "invert": inv, "strategy": rnd.choice(["all", "comp", "bt"]),
                                  "mode": r["mode"], "tag": f"{r['src']}#{r['idx']}+bond{e[0]}-{e[1]}x{j}", "kind": "prebond-corpus"})
                break
        if not made:
            ctx.count("prebond-corpus:reaction_without_joinable_formed_bond")
    return cases


def _centre_molecule(own, centre, a, b, j):
    """The reaction centre as a molecule of its own, with a and b joined: the atoms `centre` of one side of a mapped reaction
    (element, charge), the bonds that side has among them, a bond of order j between a and b, every remaining valence filled
    with hydrogen by RDKit -> unmapped SMILES, or None (aromatic centre atom, an order RDKit cannot take, valence exceeded)."""
    from rdkit import Chem, rdBase

    _block = rdBase.BlockLogs()     # noqa: F841  (RDKit's valence messages are not results)

    try:
        rw = Chem.RWMol()
        idx = {}
        for k in sorted(centre):
            sym, _, q, arom = own[0][k]
            if arom:
                return None
            at = Chem.Atom(sym)
            at.SetFormalCharge(q)
            idx[k] = rw.AddAtom(at)
        table = {1.0: Chem.BondType.SINGLE, 2.0: Chem.BondType.DOUBLE, 3.0: Chem.BondType.TRIPLE}
        for (u, v), o in sorted(own[1].items()):
            if u in idx and v in idx:
                if o not in table or {u, v} == {a, b}:
                    return None
                rw.AddBond(idx[u], idx[v], table[o])
        rw.AddBond(idx[a], idx[b], table[float(j)])
        Chem.SanitizeMol(rw)
        smi = Chem.MolToSmiles(Chem.RemoveHs(rw.GetMol()))
        return smi if smi and Chem.MolFromSmiles(smi) is not None else None
    except Exception:
        return None


def prebond_centre_cases(ctx, reactions, per_reaction):
    """Generated analogues on corpus CENTRE templates: the substrate is the reaction centre itself as a small molecule (atoms
    of the changed bonds on the side the template is applied to, their bonds there, valences filled with hydrogen) in which
    the two heavy atoms of a bond the template FORMS are already joined by a bond of order j in {1, 2, 3} (RDKit alone builds
    it).  Forward on the reactant-side centre, backward on the product-side centre; strategy uniform."""
    rnd = ctx.rnd
    cases = []
    for r in reactions:
        sides = _mapped_sides(r["rsmi"])
        if sides is None:
            ctx.count("prebond-centre:reaction_not_readable")
            continue
        common = set(sides[0][0]) & set(sides[1][0])
        changed = [e for e in set(sides[0][1]) | set(sides[1][1])
                   if sides[0][1].get(e, 0.0) != sides[1][1].get(e, 0.0) and e[0] in common and e[1] in common]
        centre = {x for e in changed for x in e}
        options = []
        for inv in (False, True):
            own, other = (sides[1], sides[0]) if inv else (sides[0], sides[1])
            for e in sorted(changed):
                if e in own[1] or e not in other[1] or own[0][e[0]][0] == "H" or own[0][e[1]][0] == "H":
                    continue
                for j in (1, 2, 3):
                    options.append((inv, e, j))
        rnd.shuffle(options)
        made = 0
        for j in [3] + rnd.sample([1, 2], 2):
            if made >= per_reaction:
                break
            for inv, e, jj in options:
                if jj != j:
                    continue
                sub = _centre_molecule(sides[1] if inv else sides[0], centre, e[0], e[1], j)
                if sub is None:
                    ctx.count("prebond-centre:not_a_molecule")
                    continue
                made += 1
                ctx.count(f"prebond-centre:existing_order={j}")
                c = {"rsmi": r["rsmi"], "core": True, "sub": sub, "invert": inv, "strategy": rnd.choice(["all", "comp", "bt"]),
                     "mode": r["mode"], "tag": f"{r['src']}#{r['idx']}:centre+bond{e[0]}-{e[1]}x{j}", "kind": "prebond-centre"}
                if rnd.random() < 0.3:       # the reaction's own side first, through the same template object
                    c["warm"] = r["products"] if inv else r["reactants"]
                    c["tform"] = rnd.choice(["graph", "synrule"])
                    ctx.count("prebond-centre:warm-up first, template as " + c["tform"])
                if rnd.random() < 0.2:
                    c["poke"] = True
                    ctx.count("prebond-centre:diagnostic members called before its_list")
                cases.append(c)
                break
        if not made:
            ctx.count("prebond-centre:reaction_without_usable_formed_bond")
    return cases


VALENCE = {"C": 4, "N": 3, "O": 2, "S": 2, "Cl": 1, "Br": 1}


def valent_case(rnd):
    """A small valence-correct molecule graph (C/N/O/S skeleton, bond orders 1/2/3, hydrogen counts filling the valences,
    halogen leaving groups) and a planted template that FORMS a bond of order k in {1, 2} between two atoms a, b which the
    substrate joins by a bond of order j in {0, 1, 2, 3} (the pattern does not contain that bond: the additive branch of
    `_glue_graph`): b loses k halogens, a loses k hydrogens (taken up by the halogens) or k halogens of its own (which pair
    up with b's).  The template is balanced and keeps every valence, so the result can be rendered exactly when j + k <= 3.
    Implicit-hydrogen mode; forward, or mirrored template with invert=True."""
    import networkx as nx

    for _ in range(200):
        n = rnd.randint(2, 6)
        ids = rnd.sample(range(1, 40), n + 4)
        halo_ids, ids = ids[n:], ids[:n]
        el = {i: rnd.choice(["C", "C", "C", "C", "N", "O", "S"]) for i in ids}
        k = rnd.choice([1, 1, 1, 2])
        want_j = rnd.choice([0, 1, 2, 3, 3])
        a, b = ids[0], ids[1]
        el[a] = rnd.choice(["C", "C", "N"]) if want_j + k <= 3 else "C"
        el[b] = "C"
        free = {i: VALENCE[el[i]] for i in ids}
        G = nx.Graph()
        for i in ids:
            G.add_node(i)
        if want_j:
            if min(free[a], free[b]) < want_j + k:
                continue
            G.add_edge(a, b, order=float(want_j))
            free[a] -= want_j
            free[b] -= want_j
        shape = rnd.choice(["H", "H", "X"])
        need_a, need_b = k, k
        if free[a] < need_a or free[b] < need_b:
            continue
        # leaving groups first, then the rest of the skeleton on what is left
        free[b] -= k
        ys = [halo_ids.pop() for _ in range(k)]
        xs = []
        if shape == "X":
            free[a] -= k
            xs = [halo_ids.pop() for _ in range(k)]
        for h, owner in [(y, b) for y in ys] + [(x, a) for x in xs]:
            el[h] = rnd.choice(["Cl", "Br"])
            G.add_node(h)
            G.add_edge(owner, h, order=1.0)
            free[h] = 0
        keep_h = k if shape == "H" else 0            # hydrogens a must keep for the template
        ok = True
        for idx in range(2, n):
            i = ids[idx]
            cand = [p for p in ids[:idx] if free[p] - (keep_h if p == a else 0) >= 1]
            if not cand:
                ok = False
                break
            p_ = rnd.choice(cand)
            omax = min(free[i], free[p_] - (keep_h if p_ == a else 0), 3)
            o = rnd.choice([x for x in (1, 1, 1, 2, 3) if x <= omax])
            G.add_edge(i, p_, order=float(o))
            free[i] -= o
            free[p_] -= o
        if not ok:
            continue
        for i in G.nodes:
            G.nodes[i].update(element=el[i], aromatic=False, hcount=free[i], charge=0, atom_map=0)
        for i in G.nodes:
            G.nodes[i]["neighbors"] = sorted(G.nodes[x]["element"] for x in G.neighbors(i))
        # insertion order of the host is shuffled (ids carry no meaning)
        H = nx.Graph()
        order = list(G.nodes)
        rnd.shuffle(order)
        for i in order:
            H.add_node(i, **G.nodes[i])
        es = list(G.edges(data=True))
        rnd.shuffle(es)
        for u, v, d in es:
            H.add_edge(*((u, v) if rnd.random() < 0.5 else (v, u)), **d)
        # template on a, b, the leaving groups
        tid = {h: 100 + x for x, h in enumerate([a, b] + ys + xs)}
        dh = {h: 0 for h in tid}
        if shape == "H":
            dh[a] = -k
            for y in ys:
                dh[y] = 1
        T = nx.Graph()
        for h, t in tid.items():
            d = H.nodes[h]
            hl = d["hcount"] if rnd.random() < 0.6 else max(-dh[h], rnd.randint(0, d["hcount"]))
            T.add_node(t, element=d["element"], aromatic=False, hcount=hl, charge=0, atom_map=t,
                       typesGH=((d["element"], False, hl, 0, []), (d["element"], False, hl + dh[h], 0, [])))
        T.add_edge(tid[a], tid[b], order=(0.0, float(k)), standard_order=-float(k))
        for y in ys:
            T.add_edge(tid[b], tid[y], order=(1.0, 0.0), standard_order=1.0)
        for x, y in zip(xs, ys):
            T.add_edge(tid[a], tid[x], order=(1.0, 0.0), standard_order=1.0)
            T.add_edge(tid[x], tid[y], order=(0.0, 1.0), standard_order=-1.0)
        invert = rnd.random() < 0.3
        if invert:
            M = nx.Graph()
            for v, d in T.nodes(data=True):
                l, r = d["typesGH"]
                M.add_node(v, element=d["element"], aromatic=False, hcount=r[2], charge=r[3], atom_map=v, typesGH=(r, l))
            for u, v, d in T.edges(data=True):
                o = d["order"]
                M.add_edge(u, v, order=(o[1], o[0]), standard_order=o[1] - o[0])
            T = M
        c = {"tpl_graph": rc.enc_graph(T), "host_graph": rc.enc_graph(H), "invert": invert,
             "strategy": rnd.choice(["all", "comp", "bt"]), "mode": "implicit", "tag": f"valent:j={want_j},k={k},{shape}",
             "kind": "prebond-valent"}
        if rnd.random() < 0.4:      # 1 / 1.0 / numpy.int64(1) / numpy.float64(1.0) mixed within one input
            c["numkey"] = rnd.randrange(1 << 30)
        if rnd.random() < 0.15:
            c["poke"] = True
        return c
    raise RuntimeError("valent_case: no molecule in 200 attempts")


ELEMS = ["C", "C", "C", "N", "O", "S"]
ORDERS = [1.0, 1.0, 1.0, 2.0, 1.5, 3.0]


def synth_case(rnd):
    """A molecule-like random substrate graph and a template planted on a random connected part of
    it: some pattern bonds change order or break, bonds form between pattern atoms (also where the
    substrate — but not the pattern — already has a bond: the additive/`round` branch), hydrogen
    counts and charges change (balanced or not).  Implicit-hydrogen mode; forward, or backward with
    the sides of the template swapped so that the match still exists."""
    from .. import graphio
    import networkx as nx

    n = rnd.randint(4, 9)
    ids = rnd.sample(range(1, 40), n)
    G = nx.Graph()
    for i in ids:
        G.add_node(i, element=rnd.choice(ELEMS), aromatic=rnd.random() < 0.3, hcount=rnd.choice([0, 0, 1, 2, 3]),
                   charge=rnd.choice([0, 0, 0, 0, 1, -1]), atom_map=0)
    for k in range(1, n):
        G.add_edge(ids[k], rnd.choice(ids[:k]), order=rnd.choice(ORDERS))
    for _ in range(rnd.randint(0, 2)):
        a, b = rnd.sample(ids, 2)
        if not G.has_edge(a, b):
            G.add_edge(a, b, order=rnd.choice(ORDERS))
    for i in ids:
        G.nodes[i]["neighbors"] = sorted(G.nodes[j]["element"] for j in G.neighbors(i))
    # a few substrates lack optional attributes (the `.get` defaults of `_default_tg` / `order`)
    if rnd.random() < 0.15:
        i = rnd.choice(ids)
        G.nodes[i].pop(rnd.choice(["aromatic", "neighbors", "hcount"]), None)
    # pattern: random connected subset
    k = rnd.randint(2, min(4, n))
    S = [rnd.choice(ids)]
    while len(S) < k:
        nb = [w for v in S for w in G.neighbors(v) if w not in S]
        if not nb:
            break
        S.append(rnd.choice(nb))
    tid = {h: 100 + j for j, h in enumerate(S)}
    pairs = [(a, b) for x, a in enumerate(S) for b in S[x + 1:]]
    T = nx.Graph()
    dh_left = len(S)
    deltas_h, deltas_q = [], []
    balanced = rnd.random() < 0.75
    for h in S:
        deltas_h.append(rnd.choice([0, 0, 1, -1]))
        deltas_q.append(rnd.choice([0, 0, 0, 1, -1]))
    if balanced:
        deltas_h[-1] -= sum(deltas_h)
        deltas_q[-1] -= sum(deltas_q)
    for h, dh, dq in zip(S, deltas_h, deltas_q):
        d = G.nodes[h]
        hl = rnd.randint(0, d.get("hcount", 0))
        hl = max(hl, -dh)          # product count stays >= 0
        if hl > d.get("hcount", 0):
            hl, dh = d.get("hcount", 0), 0
        el, ar, ch = d["element"], d.get("aromatic", False), d["charge"]
        T.add_node(tid[h], element=el, aromatic=ar, hcount=hl, charge=ch, atom_map=tid[h],
                   typesGH=((el, ar, hl, ch, []), (el, ar, hl + dh, ch + dq, [])))
    any_change = False
    for a, b in pairs:
        if G.has_edge(a, b) and rnd.random() < 0.8:
            o = G[a][b]["order"]
            o2 = rnd.choice([o, o, 0.0, 1.0, 2.0])
            any_change |= o2 != o
            T.add_edge(tid[a], tid[b], order=(o, o2), standard_order=o - o2)
        elif rnd.random() < 0.45:
            o2 = rnd.choice([1.0, 1.0, 2.0, 1.5])
            any_change = True
            T.add_edge(tid[a], tid[b], order=(0.0, o2), standard_order=-o2)
    if not any_change:
        a, b = pairs[0]
        o = G[a][b]["order"] if G.has_edge(a, b) else 0.0
        T.add_edge(tid[a], tid[b], order=(o, o + 1.0), standard_order=-1.0)
    invert = rnd.random() < 0.35
    if invert:  # hand the reactor the mirror image; its inversion is T
        M = nx.Graph()
        for v, d in T.nodes(data=True):
            l, r = d["typesGH"]
            M.add_node(v, element=d["element"], aromatic=d["aromatic"], hcount=r[2], charge=r[3], atom_map=v, typesGH=(r, l))
        for u, v, d in T.edges(data=True):
            o = d["order"]
            M.add_edge(u, v, order=(o[1], o[0]), standard_order=o[1] - o[0])
        T = M
    return {"tpl_graph": rc.enc_graph(T), "host_graph": rc.enc_graph(G), "invert": invert,
            "strategy": rnd.choice(["all", "comp", "bt"]), "mode": "implicit", "tag": "synthetic", "kind": "synthetic"}



def synth_explicit_h_case(rnd):
    """A small ITS-like graph with hydrogen pairs for the unit-level comparison of `_explicit_h`:
    built consistently (every pair id has one donor and one receiver), then sometimes perturbed
    (a spectator pair on one atom, an extra pair id, an unbalanced count) so that every branch of
    the bookkeeping — including `StopIteration` — is reached."""
    import networkx as nx

    n = rnd.randint(2, 6)
    ids = rnd.sample(range(1, 30), n)
    hl = {i: rnd.choice([0, 0, 1]) for i in ids}
    hr = dict(hl)
    pairs = {i: [] for i in ids}
    for pid in range(1, rnd.randint(1, 4) + 1):
        d, r = rnd.sample(ids, 2)
        hl[d] += 1
        hr[r] += 1
        pairs[d].append(pid)
        pairs[r].append(pid)
    kind = rnd.random()
    if kind < 0.12:      # spectator hydrogen: same atom on both sides
        i = rnd.choice(ids); hl[i] += 1; hr[i] += 1; pairs[i].append(9)
    elif kind < 0.2:     # a pair id without hydrogen change
        pairs[rnd.choice(ids)].append(8)
    elif kind < 0.3:     # unbalanced counts
        i = rnd.choice(ids)
        if rnd.random() < 0.5:
            hl[i] += 1
        else:
            hr[i] += 1
    G = nx.Graph()
    for i in ids:
        el = rnd.choice(["C", "N", "O"])
        att = dict(element=el, charge=0, atom_map=i, typesGH=((el, False, hl[i], 0, []), (el, False, hr[i], 0, [])))
        if pairs[i] or rnd.random() < 0.6:
            att["h_pairs"] = list(pairs[i])
        G.add_node(i, **att)
    for k in range(1, n):
        o = rnd.choice([(1.0, 1.0), (1.0, 0.0), (0.0, 1.0), (2.0, 1.0)])
        G.add_edge(ids[k], rnd.choice(ids[:k]), order=o, standard_order=o[0] - o[1])
    return {"its": rc.enc_graph(G)}


def run_explicit_h_unit(ctx, n):
    cases = [synth_explicit_h_case(ctx.rnd) for _ in range(n)]
    impl = rc.run_pool(cases, rc.explicit_h_case, timeout=20)
    mod = ctx.lean().ok([{"cmd": "reactor.explicit_h_unit", "its": c["its"]} for c in cases], shards=8)
    ev = getattr(ctx, "_c03_eval", None) or Eval(ctx)
    for c, a, b in zip(cases, impl, mod):
        st = a.get("status")
        if st == "timeout":
            ctx.count("skipped_cases(timeout)")
            continue
        n0 = max(x for x, _ in c["its"]["nodes"]) + 1
        ctx.count("explicit_h_unit:" + ("StopIteration" if st == "StopIteration" else "ok" if st == "ok" else st))
        diff = None
        if st == "StopIteration" or b["g"] is None:
            if (st == "StopIteration") != (b["g"] is None):
                diff = f"impl status {st}, model {'StopIteration' if b['g'] is None else 'returns'}"
        elif st != "ok":
            diff = "implementation raised " + st
        else:
            x, y = canon_explicit(a["g"], n0), canon_explicit(b["g"], n0)
            if not b["determined"]:          # receiver choice depends on Python's set order
                ctx.count("explicit_h_unit:receiver_choice_order_dependent")
                x, y = [x[0], x[1], x[3], x[4]], [y[0], y[1], y[3], y[4]]
            if x != y:
                diff = f"impl={json.dumps(x[1:])[:200]} model={json.dumps(y[1:])[:200]}"
            ctx.count("explicit_h_unit:new_H=%d" % x[-1])
        ctx.case({"explicit_h_unit": c["its"]}, st == "ok" and b["g"] is not None and len(b["g"]["nodes"]) > len(c["its"]["nodes"]))
        if diff:
            ctx.count("stage_mismatch:_explicit_h (unit)")
            ev.violate("implementation differs from the proven model at stage: _explicit_h (unit level)",
                       {"explicit_h_unit": c["its"]}, {"first_difference": diff}, no_input=True)


# ------------------------------------------------------------------ entry points and options
def fold_explicit_h(tpl):
    """Hydrogen-normal form of a template ITS, computed from the template alone (independent of SynRule): every explicit
    hydrogen bonded to a heavy atom on BOTH sides is folded into the hydrogen counts of `typesGH` (reactant-side heavy
    neighbours gain one on the left, product-side ones on the right) and removed.
    -> (folded graph, complete: no explicit hydrogen is left)"""
    import copy

    g = copy.deepcopy(tpl)

    def heavy(h, side):
        out = []
        for w in g.neighbors(h):
            o = g[h][w].get("order", (1.0, 1.0))
            if g.nodes[w].get("element") != "H" and isinstance(o, (tuple, list)) and o[side] > 0:
                out.append(w)
        return sorted(out)

    def bump(w, side):
        t = [list(x) for x in g.nodes[w]["typesGH"]]
        t[side][2] += 1
        g.nodes[w]["typesGH"] = tuple(tuple(x) for x in t)
        if side == 0 and "hcount" in g.nodes[w]:
            g.nodes[w]["hcount"] += 1

    complete = True
    for h in [n for n, d in g.nodes(data=True) if d.get("element") == "H"]:
        L, R = heavy(h, 0), heavy(h, 1)
        if not L or not R:
            complete = False
            continue
        for w in L:
            bump(w, 0)
        for w in R:
            bump(w, 1)
        g.remove_node(h)
    return g, complete


def _retype_numbers(g, r):
    """In place: every bond order (scalar or pair entry), standard_order and hydrogen count of graph `g` (also inside
    typesGH) re-typed by the derived PRNG `r` among representations that are equal under `==` and encode to one Lean value."""
    import numpy as np

    def order(x):
        if isinstance(x, bool) or not isinstance(x, (int, float)):
            return x
        kinds = [float, np.float64] + ([int, np.int64] if float(x) == int(x) else [])
        return r.choice(kinds)(x)

    def count(x):
        if isinstance(x, bool) or not isinstance(x, int):
            return x
        return r.choice([int, np.int64])(x)

    for _, d in g.nodes(data=True):
        if "hcount" in d:
            d["hcount"] = count(d["hcount"])
        if "typesGH" in d:
            d["typesGH"] = tuple((t[0], t[1], count(t[2])) + tuple(t[3:]) for t in d["typesGH"])
    for _, _, d in g.edges(data=True):
        if "order" in d:
            o = d["order"]
            d["order"] = tuple(order(x) for x in o) if isinstance(o, (tuple, list)) else order(o)
        if "standard_order" in d:
            d["standard_order"] = order(d["standard_order"])


def reactor_case_x(case):
    """`reactor_common.reactor_case` with the documented alternative entry points and options of `SynReactor`:

      tform  how the template reaches the reactor: "graph" (ITS graph, as in the other streams) | "str" (the reaction
             SMILES itself: `_wrap_template` parses it) | "synrule" / "synrule_nocanon" (a `SynRule` the caller built, with
             the hydrogen handling of the mode; `canon=False` for the second) | "from_smart" (`SynRule.from_smart`) |
             "from_gml" (`SynRule.from_gml` of the template's GML; GML carries no hydrogen counts, so explicit mode only)
      sform  how the substrate reaches it: "smiles" | "graph" (networkx graph) | "graph_shuffled" (the same graph with new
             non-contiguous ids and a shuffled insertion order, from the derived PRNG `Random(skey)`) | "syngraph" |
             "syngraph_nocanon" (`SynGraph` with / without canonical form)
      ctor   "init" | "from_smiles" (the alternate constructor; substrate as SMILES)
      kw     constructor options overriding the mode's (e.g. explicit_h=False for an explicit-H template, embed_threshold,
             embed_pre_filter, automorphism);  canon_arg: pass an own GraphCanonicaliser
      warm   a substrate SMILES that is run FIRST through a reactor built from the very same template object (graph / string /
             SynRule), options and canonicaliser object, its_list and smarts_list queried -- hidden state between calls;
      poke   call the diagnostic members (mapping_count, str(), substrate_smiles) between `mappings` and `its_list`
      numkey the numbers of the substrate graph and of the template graph are re-typed per value from Random(numkey): bond
             orders (scalar / pair entries, standard_order) as int | float | numpy.int64 | numpy.float64, hydrogen counts as
             int | numpy.int64 -- values equal under `==`, one Lean value; never bool, charges / map numbers untouched
    The record has the fields of `reactor_case`; `tpl` is always the template as an ITS graph built by the harness (what the
    specification compares the outputs with), whatever form the reactor was given."""
    if not any(k in case for k in FORM_KEYS):
        return rc.reactor_case(case)
    rc._quiet()
    import copy
    import random

    import networkx as nx
    from synkit.IO import rsmi_to_its
    from synkit.IO.chem_converter import smiles_to_graph, its_to_gml
    from synkit.Synthesis.Reactor.syn_reactor import SynReactor
    from synkit.Synthesis.Reactor.strategy import Strategy
    from synkit.Graph.Hyrogen._misc import has_XH, h_to_implicit
    from synkit.Graph.syn_graph import SynGraph
    from synkit.Graph.canon_graph import GraphCanonicaliser
    from synkit.Rule import SynRule
    from .. import graphio

    rec = {"status": "ok"}
    tform, sform, ctor = case.get("tform", "graph"), case.get("sform"), case.get("ctor", "init")
    kw = dict(rc.mode_kwargs(case["mode"]))
    kw.update(case.get("kw") or {})
    if case.get("canon_arg"):
        kw["canonicaliser"] = GraphCanonicaliser()
    implicit_h = not kw.get("implicit_temp", False)
    try:
        if "tpl_graph" in case:
            tpl = graphio.to_nx(case["tpl_graph"])
        else:
            tpl = rsmi_to_its(case["rsmi"], core=case["core"])
        if tform == "graph":
            targ = copy.deepcopy(tpl)
        elif tform == "str":
            targ = case["rsmi"]
        elif tform == "synrule":
            targ = SynRule(copy.deepcopy(tpl), implicit_h=implicit_h)
        elif tform == "synrule_nocanon":
            targ = SynRule(copy.deepcopy(tpl), canon=False, implicit_h=implicit_h)
        elif tform == "from_smart":
            targ = SynRule.from_smart(case["rsmi"], implicit_h=implicit_h)
        elif tform == "from_gml":
            targ = SynRule.from_gml(its_to_gml(copy.deepcopy(tpl), core=False), implicit_h=implicit_h)
        else:
            return {"status": "template-error:unknown-tform"}
    except Exception as e:  # template cannot be built: not a reactor case
        return {"status": "template-error:" + type(e).__name__}
    rec["tpl"] = rc.enc_graph(tpl)
    try:
        rec["rule_check_tpl"] = rec["tpl"]
        if implicit_h:
            folded, complete = fold_explicit_h(tpl)
            rec["rule_check_tpl"] = rc.enc_graph(folded)   # SynRule folds exactly these hydrogens
            if not kw.get("explicit_h", True):
                # hydrogens stay implicit in the outputs: clause (c) is evaluated against the hydrogen-normal form of the
                # template (only when that form is unambiguous: no H2 / H+ / hydride in the template)
                if complete:
                    rec["tpl_spec"] = rc.enc_graph(folded)
                else:
                    rec["spec_c_skip"] = True
        if "host_graph" in case:
            sub = graphio.to_nx(case["host_graph"])
            sform = sform or "graph"
        else:
            sub = case["sub"]
            sform = sform or "smiles"
        if sform != "smiles" and isinstance(sub, str):
            sub = smiles_to_graph(sub, use_index_as_atom_map=False, drop_non_aam=False)
        if sform == "graph_shuffled":
            r = random.Random(case.get("skey", 0))
            old = list(sub.nodes())
            new = r.sample(range(1, 3 * len(old) + 5), len(old))
            ren = dict(zip(old, new))
            order = list(old)
            r.shuffle(order)
            g = nx.Graph()
            for n in order:
                g.add_node(ren[n], **copy.deepcopy(sub.nodes[n]))
            edges = list(sub.edges(data=True))
            r.shuffle(edges)
            for u, v, d in edges:
                if r.random() < 0.5:
                    u, v = v, u
                g.add_edge(ren[u], ren[v], **copy.deepcopy(d))
            sub = g
        elif sform == "syngraph":
            sub = SynGraph(sub, GraphCanonicaliser())
        elif sform == "syngraph_nocanon":
            sub = SynGraph(sub, canon=False)
        if case["invert"]:
            rec["inverted"] = rc.enc_graph(SynReactor._invert_template(copy.deepcopy(tpl), balance_its=bool(kw.get("implicit_temp"))))
        if "numkey" in case:
            nr = random.Random(case["numkey"])
            if isinstance(sub, nx.Graph):
                _retype_numbers(sub, nr)
            if isinstance(targ, nx.Graph):
                _retype_numbers(targ, nr)

        def make(substrate):
            if ctor == "from_smiles":
                return SynReactor.from_smiles(substrate, targ, invert=case["invert"], strategy=case["strategy"],
                                              **{k: v for k, v in kw.items() if k in ("canonicaliser", "explicit_h", "implicit_temp", "automorphism")})
            return SynReactor(substrate, targ, invert=case["invert"], strategy=case["strategy"], **kw)

        if case.get("warm") is not None:
            w = make(case["warm"])
            rec["warm_outputs"] = [len(w.its_list), len(w.smarts_list)]
        re = make(sub)
        host = re.graph.raw
        rec["host"] = rc.enc_graph(host)
        rule = re.rule
        rec["rule"] = {"rc": rc.enc_graph(rule.rc.raw), "left": rc.enc_graph(rule.left.raw), "right": rc.enc_graph(rule.right.raw)}
        maps = re.mappings
        if case.get("poke"):
            rec["poked"] = [int(re.mapping_count), str(re), re.substrate_smiles]
        rec["flag"] = bool(re._flag_pattern_has_explicit_H)
        rec["mappings"] = [graphio.mapping(m) for m in maps]
        rec["map_order"] = [[[int(p), int(h)] for p, h in m.items()] for m in maps]
        strat = Strategy.from_string(case["strategy"])
        pg = rule.left.raw
        rec["has_xh"] = bool(has_XH(pg))
        if rec["has_xh"]:
            rec["pattern"] = rc.enc_graph(h_to_implicit(pg))
        glued, expl = [], []
        for m in maps:
            if rec["flag"]:
                hg = copy.deepcopy(host)
                for _, d in hg.nodes(data=True):
                    d.setdefault("typesGH", rc._default_tg(d))
                maps2, hexp = SynReactor._get_explicit_map(hg, m, rule.left.raw, strat, re.embed_threshold, False)
                expl.append({"hexp": rc.enc_graph(hexp), "maps": [graphio.mapping(x) for x in maps2]})
            batch = SynReactor._glue_graph(host, rule.rc.raw, m, rec["flag"], rule.left.raw, strat,
                                           embed_threshold=re.embed_threshold, embed_pre_filter=False)
            glued.append([rc.enc_graph(g) for g in batch])
        rec["glued"] = glued
        if rec["flag"]:
            rec["explicit_path"] = expl
        its_list = re.its_list
        rec["its"] = [rc.enc_graph(g) for g in its_list]
        rec["smarts_each"] = [SynReactor._to_smarts(copy.deepcopy(g)) for g in its_list]
        rec["smarts_list"] = list(re.smarts_list)
        rec["explicit_h"] = bool(re.explicit_h)
    except rc._SoftTimeout:
        raise
    except Exception as e:
        rec["status"] = "error:" + type(e).__name__
        rec["error"] = str(e)[:300]
    return rec


# ------------------------------------------------------------------ evaluation
class Eval:
    def __init__(self, ctx):
        self.ctx = ctx
        self.kept = {}

    def violate(self, what, case, detail, classes=(), no_input=False):
        if case.get("outside") and not what.startswith("implementation differs"):
            self.ctx.count(f"outside_quantifier:{case['outside']}: {what[:48]}")
            return
        key = (what, tuple(classes))
        self.kept[key] = self.kept.get(key, 0) + 1
        self.ctx.count("viol:" + what[:60])
        if self.kept[key] <= MAX_STORED:
            self.ctx.violation(what, canonical(case), detail, classes=classes, no_input=no_input)

    def requests(self, case, rec):
        """-> list of (tag, request)"""
        rq = []
        rule = rec["rule"]
        order = [n for n, _ in rule["rc"]["nodes"]]

        def in_pattern_order(m):   # IsMono lists a mapping in the pattern's node order
            d = {p: h for p, h in m}
            return [[p, d[p]] for p in order if p in d]
        rq.append((("decompose",), {"cmd": "reactor.decompose", "its": rule["rc"]}))
        if "rule_check_tpl" in rec:
            # clause (c) applied to the rule itself: the centre graph the reactor works with changes the bonds of the
            # (oriented, hydrogen-normal) template -- independent of whether the substrate offers a match
            rq.append((("rulec",), {"cmd": "reactor.spec", "host": rec["host"], "its": rule["rc"], "tpl": rec["rule_check_tpl"],
                                    "invert": case["invert"]}))
        if case["invert"] and "inverted" in rec:
            rq.append((("invert",), {"cmd": "reactor.invert", "tpl": rec["tpl"]}))
        if "has_xh" in rec:
            rq.append((("has_xh",), {"cmd": "reactor.has_xh", "g": rule["left"]}))
            if rec["has_xh"]:
                rq.append((("pattern",), {"cmd": "reactor.h_to_implicit", "g": rule["left"]}))
        if "glued" in rec:
            flat = 0
            for mi, m in enumerate(rec["mappings"]):
                batch = rec["glued"][mi]
                if not rec["flag"] and mi < MAX_ITS:
                    rq.append((("hyps", mi), {"cmd": "reactor.hyps", "host": rec["host"], "rc": rule["rc"], "m": in_pattern_order(m)}))
                if mi < MAX_MAPS:
                    if not rec["flag"]:
                        rq.append((("glue", mi), {"cmd": "reactor.glue", "host": rec["host"], "tpl": rule["rc"], "m": m}))
                    else:
                        ep = rec["explicit_path"][mi]
                        rq.append((("hexp", mi), {"cmd": "reactor.explicit_host", "host": rec["host"],
                                                  "nodes": [h for _, h in rec["map_order"][mi]]}))
                        for k, m2 in enumerate(ep["maps"][:MAX_REMAPS]):
                            rq.append((("glue2", mi, k), {"cmd": "reactor.glue", "host": ep["hexp"], "tpl": rule["rc"], "m": m2}))
                            rq.append((("mono2", mi, k), {"cmd": "reactor.hyps", "host": ep["hexp"], "rc": rule["rc"], "m": in_pattern_order(m2)}))
                    if rec.get("explicit_h"):
                        for k, g in enumerate(batch[:MAX_REMAPS]):
                            rq.append((("exh", flat + k), {"cmd": "reactor.explicit_h", "its": g}))
                if rec["flag"]:
                    # hypotheses (RoundExact) of the re-match behind every output the specification is evaluated on, beyond
                    # the MAX_MAPS x MAX_REMAPS compared stage-wise: its_list is the concatenation of the batches
                    ep = rec["explicit_path"][mi]
                    for k, m2 in enumerate(ep["maps"][:len(batch)]):
                        if flat + k < MAX_ITS and not (mi < MAX_MAPS and k < MAX_REMAPS):
                            rq.append((("hyp2", mi, k), {"cmd": "reactor.hyps", "host": ep["hexp"], "rc": rule["rc"], "m": in_pattern_order(m2)}))
                flat += len(batch)
        for k, its in enumerate(rec["its"][:MAX_ITS]):
            rq.append((("spec", k), {"cmd": "reactor.spec", "host": rec["host"], "its": its, "tpl": rec.get("tpl_spec") or rec["tpl"],
                                     "invert": case["invert"]}))
        # the same specification on every returned reaction STRING, read back by RDKit alone (read_rsmi)
        for k, sm in enumerate(rec.get("smarts_each", [])[:MAX_ITS]):
            if sm and k < len(rec["its"]):
                rd = read_rsmi(sm)
                if rd is not None:
                    rq.append((("sspec", k), {"cmd": "reactor.spec", "host": rec["host"], "its": rd, "tpl": rec.get("tpl_spec") or rec["tpl"],
                                              "invert": case["invert"]}))
        return rq

    def judge(self, case, rec, ans):
        """ans: dict tag -> driver answer. Returns True when the case is non-trivial."""
        ctx, rule = self.ctx, rec["rule"]
        stage_bad = []   # (stage, detail)

        # --- SynRule fragments vs its_decompose(rule.rc)
        d = ans[("decompose",)]
        for side in ("left", "right"):
            impl = _strip(rule[side], node_drop=("h_pairs",))
            if not same_graph(impl, d[side]):
                stage_bad.append(("SynRule fragment %s != its_decompose(rule.rc)" % side, first_diff(impl, d[side])))
        if ("rulec",) in ans:
            rcs = ans[("rulec",)]
            ctx.count("rule_level_c:%s" % rcs["c"])
            if not rcs["c"]:
                stage_bad.append(("reactor.rule.rc does not change the bonds of the (oriented) template",
                                  f"changed bonds {rcs['nchg']} vs template {rcs['tnchg']}"))
        if ("invert",) in ans and not same_graph(rec["inverted"], ans[("invert",)]):
            stage_bad.append(("_invert_template", first_diff(rec["inverted"], ans[("invert",)])))
        if ("has_xh",) in ans:
            if ans[("has_xh",)] != rec["has_xh"] or rec["flag"] != rec["has_xh"]:
                stage_bad.append(("has_XH flag", f"impl={rec['has_xh']} flag={rec['flag']} model={ans[('has_xh',)]}"))
            if ("pattern",) in ans and not same_graph(rec["pattern"], ans[("pattern",)]):
                stage_bad.append(("h_to_implicit(pattern)", first_diff(rec["pattern"], ans[("pattern",)])))

        # --- hypotheses of the theorems + glue per mapping
        exh_model = []
        if "glued" in rec:
            flat = 0
            for mi, m in enumerate(rec["mappings"]):
                batch = rec["glued"][mi]
                if not rec["flag"] and mi < MAX_ITS:
                    h = ans[("hyps", mi)]
                    for k in ("wf_host", "wf_tpl", "round_exact", "clash"):
                        ctx.count(f"hyp:{case.get('kind')}:{k}:{h[k]}")
                    if not h["is_mono"]:
                        stage_bad.append(("mapping is not a monomorphism of the template's reactant side", json.dumps(m)))
                if mi < MAX_MAPS:
                    if not rec["flag"]:
                        if len(batch) != 1:
                            stage_bad.append(("_glue_graph implicit path returns one ITS", str(len(batch))))
                        elif not same_graph(batch[0], ans[("glue", mi)]):
                            stage_bad.append(("_glue_graph (implicit path)", first_diff(batch[0], ans[("glue", mi)])))
                        ctx.count("glue_compared:implicit")
                    else:
                        ep = rec["explicit_path"][mi]
                        if not same_graph(ep["hexp"], ans[("hexp", mi)]):
                            stage_bad.append(("h_to_explicit(host, matched atoms)", first_diff(ep["hexp"], ans[("hexp", mi)])))
                        if len(batch) != len(ep["maps"]):
                            stage_bad.append(("_glue_graph explicit path: one ITS per re-match", f"{len(batch)} vs {len(ep['maps'])}"))
                        for k in range(min(len(batch), len(ep["maps"]), MAX_REMAPS)):
                            if not ans[("mono2", mi, k)]["is_mono"]:
                                stage_bad.append(("explicit re-match is not a monomorphism", json.dumps(ep["maps"][k])))
                            if not same_graph(batch[k], ans[("glue2", mi, k)]):
                                stage_bad.append(("_glue_graph (explicit path)", first_diff(batch[k], ans[("glue2", mi, k)])))
                            ctx.count("glue_compared:explicit")
                    if rec.get("explicit_h"):
                        for k, g in enumerate(batch[:MAX_REMAPS]):
                            mod = ans[("exh", flat + k)]
                            n0 = max(n for n, _ in g["nodes"]) + 1
                            if mod is None:
                                stage_bad.append(("_explicit_h: model raises StopIteration, implementation returned", ""))
                            else:
                                exh_model.append((flat + k, canon_explicit(mod, n0), n0))
                flat += len(batch)

        # _explicit_h: every model output must be one of the returned ITS graphs (position first, then
        # anywhere: the order of its_list is not part of the property)
        used = set()
        for pos, cm, n0 in exh_model:
            hit = None
            for j in [pos] + [j for j in range(len(rec["its"])) if j != pos]:
                if j < len(rec["its"]) and j not in used and canon_explicit(rec["its"][j], n0) == cm:
                    hit = j
                    break
            if hit is None:
                a = canon_explicit(rec["its"][pos], n0) if pos < len(rec["its"]) else None
                stage_bad.append(("_explicit_h", f"no returned ITS equals the model's output #{pos}: impl={json.dumps(a[1:] if a else a)[:200]} model={json.dumps(cm[1:])[:200]}"))
            else:
                used.add(hit)
                ctx.count("explicit_h_compared:new_H=%d" % cm[4])

        # --- specification on every returned ITS
        spec_bad = False
        tpl_unbalanced = None
        for k, its in enumerate(rec["its"][:MAX_ITS]):
            s = ans[("spec", k)]
            ctx.count("outputs_checked")
            tpl_unbalanced = s["timb"][:2] != [0, 0]
            where = {"output": k, "tag": case.get("tag"), "smarts": (rec["smarts_each"][k] if k < len(rec["smarts_each"]) else None)}
            if not s["a"]:
                spec_bad = True
                self.violate("(a) substrate side of a returned reaction is not the substrate", case, where)
            if s["imb"] != s["timb"]:
                spec_bad = True
                self.violate("(b) hydrogen/charge imbalance of a returned reaction differs from the template's own", case,
                             {**where, "result": s["imb"], "template": s["timb"]})
            elif s["imb"] != [0, 0, True]:
                spec_bad = True
                ctx.count("b_unbalanced_outputs")
                self.violate("(b) returned reaction does not conserve hydrogens / charge", case,
                             {**where, "result_dH_dQ_halfunits": s["imb"], "template_dH_dQ_halfunits": s["timb"]},
                             classes=["rc_template_unbalanced"] if tpl_unbalanced else ())
            if rec.get("spec_c_skip"):
                ctx.count("c_not_evaluated(explicit_h=False on a template with H2/H+/hydride)")
            elif not s["c"]:
                spec_bad = True
                clash = self._round_inexact(rec, ans, k)
                if clash:
                    ctx.count(f"c_fails_with_inexact_round:{case.get('kind')}")
                self.violate("(c) changed-bond graph of a returned reaction is not isomorphic to the template's", case,
                             {**where, "changed_bonds": s["nchg"], "template_changed_bonds": s["tnchg"],
                              "round_inexact_for_this_match": clash},
                             classes=["additive_round_clash"] if clash else ())
        if tpl_unbalanced is not None:
            ctx.count("template_unbalanced:%s" % tpl_unbalanced)

        # --- SMILES level, clause (c): the returned reaction string, read back by RDKit alone, against the template
        # (every stream, graph substrates included).  Evaluated where the graph of the same output meets (c) -- otherwise the
        # failure is already reported above; a string that differs from its graph only by what RDKit itself does to the
        # graph when the harness renders it (aromaticity re-perception, charge-separated forms) is counted, not gated.
        for k, sm in enumerate(rec.get("smarts_each", [])[:MAX_ITS]):
            if not sm or k >= len(rec["its"]):
                continue
            ss = ans.get(("sspec", k))
            if ss is None:
                ctx.count("smiles_c:string_not_readable_by_map_numbers")
                continue
            if rec.get("spec_c_skip"):
                continue
            ctx.count("smiles_c:evaluated")
            if ss["c"] or not ans[("spec", k)]["c"]:
                continue
            mine = indep_render(rec["its"][k])
            if mine is not None and mine == sm:
                ctx.count("smiles_c:differs_from_graph_by_rdkit_normalisation_only")
                continue
            spec_bad = True
            out_of_table = _orders_outside_table(rec["its"][k])
            ctx.count(f"smiles_c_fails:{case.get('kind')}")
            self.violate("(c) changed-bond graph of a returned reaction SMILES is not isomorphic to the template's", case,
                         {"output": k, "tag": case.get("tag"), "smarts": sm, "changed_bonds_in_string": ss["nchg"],
                          "changed_bonds_in_its_graph": ans[("spec", k)]["nchg"], "template_changed_bonds": ss["tnchg"],
                          "its_graph_orders_rdkit_cannot_write_halfunits": out_of_table,
                          "harness_rendering_of_the_same_graph": mine})

        # --- SMILES level (RDKit trusted)
        if "sub" in case:
            subc = rc.unmapped(case["sub"])
            kept = []
            for k, sm in enumerate(rec["smarts_each"]):
                if not sm:
                    ctx.count("outputs_not_rendered(sanitisation)")
                    continue
                kept.append(sm)
                if k >= MAX_ITS:
                    continue
                l, r = sm.split(">>")
                if rc.unmapped(l) != subc:
                    spec_bad = True
                    self.violate("(a) substrate side of a returned reaction SMILES is not the substrate", case, {"output": k, "smarts": sm})
                cl, cr = rc.atom_counts(l), rc.atom_counts(r)
                graph_bal = ans[("spec", k)]["imb"] == [0, 0, True]
                if (cl == cr) != graph_bal:
                    spec_bad = True
                    self.violate("(b) SMILES of a returned reaction is balanced differently from its ITS graph", case,
                                 {"output": k, "smarts": sm, "left": cl, "right": cr}, classes=["rc_template_unbalanced"] if tpl_unbalanced and cl != cr else ())
            exp = [">>".join(s.split(">>")[::-1]) for s in kept] if case["invert"] else kept
            if sorted(exp) != sorted(rec["smarts_list"]):
                stage_bad.append(("smarts_list != rendered its_list (reversed when invert)", f"{len(exp)} vs {len(rec['smarts_list'])}"))

        for stage, detail in stage_bad:
            ctx.count("stage_mismatch:" + stage[:50])
            # a stage mismatch without a spec violation on the outputs is a correspondence failure
            self.violate("implementation differs from the proven model at stage: " + stage, case,
                         {"first_difference": detail, "tag": case.get("tag")}, no_input=not spec_bad)
        return len(rec["mappings"]) >= 1 and len(rec["its"]) >= 1

    @staticmethod
    def _round_inexact(rec, ans, k):
        """Was `round` inexact (hypothesis RoundExact of glue_rc_image false) for the match that produced output k?
        Implicit path: one output per mapping -- by position, or (result order is not part of the property) for at least as
        many mappings as there are outputs failing (c).  Explicit path: its_list is the concatenation, in mapping order, of
        one output per re-match; the hypothesis is evaluated on the expanded host for that re-match."""
        if rec["flag"]:
            flat = 0
            for mi, batch in enumerate(rec.get("glued", [])):
                if flat <= k < flat + len(batch):
                    h = ans.get(("mono2", mi, k - flat)) or ans.get(("hyp2", mi, k - flat))
                    return h is not None and not h["round_exact"]
                flat += len(batch)
            return False
        h = ans.get(("hyps", k))
        if h is not None and not h["round_exact"]:
            return True
        inexact = sum(1 for t, a in ans.items() if t[0] == "hyps" and not a["round_exact"])
        failing = sum(1 for t, a in ans.items() if t[0] == "spec" and not a["c"])
        return inexact >= failing > 0


CHUNK = 240         # cases per pool/driver round (bounds memory: every record holds all stages)


def run_cases(ctx, cases, timeout, label):
    for i in range(0, len(cases), CHUNK):
        _run_chunk(ctx, cases[i:i + CHUNK], timeout, label)


def _run_chunk(ctx, cases, timeout, label):
    ev = getattr(ctx, "_c03_eval", None) or Eval(ctx)
    ctx._c03_eval = ev
    recs = rc.run_pool(cases, reactor_case_x, timeout=timeout)
    reqs, owners = [], []
    live = []
    for ci, (case, rec) in enumerate(zip(cases, recs)):
        st = rec.get("status", "?") if rec else "worker-died"
        ctx.count(f"{label}:status:{st.split(':')[0] if st.startswith('error') else st}")
        if st in ("timeout", "worker-died"):
            ctx.count("skipped_cases(timeout)")
            continue
        if st != "ok":
            ctx.count(f"impl_exception:{st}")
            ctx.case(canonical(case), False)
            continue
        ctx.count(f"{label}:mode={case['mode']} core={case.get('core')} invert={case['invert']} strat={case['strategy']} kind={case.get('kind')}")
        ctx.count("mappings:" + ("0" if not rec["mappings"] else "1" if len(rec["mappings"]) == 1 else "2-8" if len(rec["mappings"]) <= 8 else ">8"))
        ctx.count("path:" + ("explicit-rematch" if rec["flag"] else "implicit"))
        rq = ev.requests(case, rec)
        live.append((ci, len(reqs), len(rq), [t for t, _ in rq]))
        reqs.extend(r for _, r in rq)
    answers = ctx.lean().ok(reqs, shards=12) if reqs else []
    for ci, off, n, tags in live:
        ans = dict(zip(tags, answers[off:off + n]))
        case, rec = cases[ci], recs[ci]
        nontrivial = ev.judge(case, rec, ans)
        sample = None
        if "sub" in case and rec["smarts_list"]:
            sample = {"template": case["rsmi"][:160], "core": case["core"], "substrate": case["sub"], "invert": case["invert"],
                      "strategy": case["strategy"], "mode": case["mode"], "first_output": rec["smarts_list"][0][:200]}
        ctx.case(canonical(case), nontrivial, sample)


def _quiet_rdkit():
    """The SMILES-level checks parse [H+] / [H-] in this process; RDKit's per-atom warnings are noise."""
    try:
        from rdkit import RDLogger

        RDLogger.DisableLog("rdApp.warning")
    except Exception:
        pass


def load_regress():
    out = []
    d = ROOT / "regress" / "C03"
    if d.exists():
        for f in sorted(d.glob("*.json")):
            out.append(json.loads(f.read_text()))
    return out


def run(ctx):
    ctx.trusted = [
        "Lean 4.33 kernel; axioms of the property theorems as listed in obligation_list",
        "hand-written model SynKitModel/Reactor.lean tied to /repo by this correspondence run (not by translation)",
        "RDKit: SMILES parsing of substrates/templates and rendering of each result ITS (graph_to_smi); sanitisation decides which ITS reach smarts_list",
        "NetworkX VF2 enumerates the matches; every match used is checked to be a monomorphism (isMonoB, proved equivalent to IsMono)",
        "Driver/Reactor.lean + Driver/GraphJson.lean codecs, harness/reactor_common.py adapter, order-insensitive graph comparison",
        "proved for the implicit path (pattern without explicit H bonds); the explicit re-matching path is covered by the "
        "stage-wise correspondence and by the specification evaluated on its outputs, not by a theorem",
    ]
    ctx.assumptions = [
        "wildcard templates (an atom on one side only) and partial=True are outside the quantifier: skipped and counted",
        "reactions whose centre hydrogens are partly explicit, partly implicit are outside the quantifier (DESIGN 5a): skipped and counted",
        "the two in-place loops of _glue_graph are modelled as one simultaneous update (equal for injective matches and simple graphs)",
        "within a hydrogen-pair component _explicit_h iterates a Python set; the comparison is modulo the ids of the hydrogens it creates",
        "implementation exceptions and per-case timeouts return no reaction: counted, never violations",
        "entry stream, explicit_h=False on an explicit-H template: the outputs keep hydrogens implicit, so clause (c) is evaluated "
        "against the hydrogen-normal form of the template (every explicit hydrogen bonded to a heavy atom on both sides folded "
        "into the typesGH counts of its neighbours; computed by the harness from the template graph alone, fold_explicit_h); "
        "templates where that form is ambiguous (H2 / H+ / hydride) are not evaluated for (c) under this option and counted",
        "entry stream, from_gml: the GML text is produced by synkit's its_to_gml (input builder, trusted as rsmi_to_its is); the "
        "specification still compares the outputs with the original template graph",
        "entry stream, graph_shuffled: ids and insertion order come from random.Random(skey) with skey drawn from ctx.rnd",
        "clause (c) on a returned reaction string is evaluated on its RDKit reading (read_rsmi) where the ITS graph of the same "
        "output meets (c); a string equal to the harness's own RDKit rendering of that graph (bond table 1 / 1.5 / 2 / 3, "
        "indep_render) is RDKit's normal form of the graph (trusted) and counted, not gated; strings that cannot be read by map "
        "numbers are counted",
        "prebond-corpus / prebond-centre substrates are built with RDKit alone from the mapped corpus reaction (stereo removed, as "
        "Standardize does for the corpus substrates); numkey re-typing comes from random.Random(numkey), numkey drawn from ctx.rnd",
    ]
    ctx.gen_rule = (
        "regress/C03 first; corpus stream: vendored mapped reactions (ecoli, USPTO sample, hydrogen test set), template = reaction "
        "centre and full ITS, substrate = own reactants (forward) / products (backward) and foreign corpus molecules, strategies "
        "all/comp/bt, hydrogen mode per DESIGN 5a; quick = seeded sample of reactions, thorough = all; synthetic stream: random "
        "molecule-like substrate graphs (4-9 atoms, orders 1/1.5/2/3, charges, some optional attributes missing) with a template "
        "planted on a random connected part (bond order changes, bond formation incl. onto bonds the pattern omits, H/charge deltas "
        "balanced or not), forward and mirrored-backward; entry stream: seeded sample of corpus reactions of <= 40 atoms "
        "(quick 7 explicit + 9 implicit, thorough 40 + 60), substrate = own side (60%) or reactants+products together (40%), every template form (graph, str, synrule, "
        "synrule_nocanon, from_smart, from_gml[explicit mode only]) once (thorough twice) per reaction, direction / centre-or-full "
        "/ strategy uniform, substrate forms (smiles, graph, graph_shuffled, syngraph, syngraph_nocanon) round-robin, "
        "from_smiles constructor for half of the SMILES substrates, explicit_h=False on 35% of the explicit-mode cases, "
        "automorphism / embed_pre_filter / embed_threshold in {50, 5000} on 20% each, own canonicaliser on 25%; hand stream: 7 "
        "fixed proton / hydride / H2 templates x centre/full x forward/backward, strategy uniform (thorough: all three); "
        "prebond streams (after all older streams, so that their draws are unchanged): prebond-hand = 7 bond-forming templates x "
        "5-8 substrates each in which the two joined atoms are unbonded / single / double / triple / aromatic bonded x legal hydrogen "
        "modes (+ explicit_h=False) x centre (all three strategies) and full ITS (one strategy; thorough all), backward via the "
        "mirror image for one substrate per template (thorough: all), plus per template and mode two call sequences (control "
        "substrate first through the same template object given as graph / SynRule, diagnostic members called on half); "
        "prebond-corpus = seeded sample of corpus reactions (quick 40 of <= 40 atoms, thorough all of <= 60), up to 2 (thorough 3) "
        "substrates per reaction: own side with a bond of order 3, else 1 / 2 in random order, between the heavy atoms of a "
        "formed bond (each atom gives up as many hydrogens), centre and full template; prebond-centre = seeded sample of corpus "
        "reactions (quick 80, thorough all), the centre atoms of the side applied to as a molecule with the same extra bond, "
        "30% after a warm-up on the reaction's own side through the same template object, 20% with diagnostic members called; "
        "prebond-valent = 300 (thorough 3000) generated valence-correct molecule graphs (2-6 C/N/O/S atoms, orders 1-3, Cl/Br "
        "leaving groups) with a planted balanced template forming a bond of order k in {1,1,1,2} on an existing bond of order j "
        "uniform in {0,1,2,3,3}, leaving hydrogens (2/3) or halogens (1/3), 30% mirrored-backward, 40% with bond orders / hydrogen "
        "counts re-typed per value among int / float / numpy.int64 / numpy.float64 from a derived PRNG, 15% with diagnostic "
        "members called between mappings and its_list.")
    ctx.nontrivial_rule = "distinct (template, substrate, direction, strategy, mode) with >=1 match and >=1 returned ITS"
    build_and_audit(ctx, ["SynKitProofs.Props.C03"], "SynKitProofs/Audit/C03.lean", THEOREMS)

    _quiet_rdkit()
    timeout = 20.0 if ctx.quick else 60.0
    reg = load_regress()
    if reg:
        run_cases(ctx, [dict(c["case"], tag=c.get("name", "regress"), kind="regress") for c in reg], timeout, "regress")
    ctx.count("regress_cases", len(reg))
    run_cases(ctx, [dict(c, tag="probe", kind="probe") for c in PROBES], timeout, "probe")

    pool = prepared_corpus(ctx)
    if ctx.quick:
        # fast sub-population: reactions with at most 45 atoms, seeded sample
        small = [r for r in pool if r["n_atoms"] <= 45]
        by_mode = {"explicit": [r for r in small if r["mode"] == "explicit"], "implicit": [r for r in small if r["mode"] == "implicit"]}
        chosen = ctx.rnd.sample(by_mode["explicit"], min(10, len(by_mode["explicit"]))) + \
            ctx.rnd.sample(by_mode["implicit"], min(22, len(by_mode["implicit"])))
        cases = corpus_cases(ctx, small, chosen, [ctx.rnd.choice(["all", "comp", "bt"])], 1)
        for c in cases:
            if c["kind"] == "own":
                c["strategy"] = ctx.rnd.choice(["all", "comp", "bt"])
        nsyn = 250
    else:
        cases = corpus_cases(ctx, pool, pool, ["all", "comp", "bt"], 1)
        nsyn = 3000
    run_cases(ctx, cases, timeout, "corpus")
    # entry points / options (reactions of at most 40 atoms so that the stream stays cheap)
    small40 = [r for r in pool if r["n_atoms"] <= 40]
    n_e, n_i, per_form = (7, 9, 1) if ctx.quick else (40, 60, 2)
    ex = [r for r in small40 if r["mode"] == "explicit"]
    im = [r for r in small40 if r["mode"] == "implicit"]
    run_cases(ctx, entry_cases(ctx, ctx.rnd.sample(ex, min(n_e, len(ex))) + ctx.rnd.sample(im, min(n_i, len(im))), per_form),
              timeout, "entry")
    run_cases(ctx, hand_cases(ctx, not ctx.quick), timeout, "hand")
    syn = [synth_case(ctx.rnd) for _ in range(nsyn)]
    run_cases(ctx, syn, timeout, "synthetic")
    run_explicit_h_unit(ctx, 400 if ctx.quick else 4000)
    # the template joins two atoms the substrate already joins (after every older stream: their draws stay what they were)
    run_cases(ctx, prebond_hand_cases(ctx, not ctx.quick), timeout, "prebond-hand")
    joinable = [r for r in pool if r["n_atoms"] <= (40 if ctx.quick else 60)]
    n_pb, per_pb = (40, 2) if ctx.quick else (len(joinable), 3)
    run_cases(ctx, prebond_corpus_cases(ctx, ctx.rnd.sample(joinable, min(n_pb, len(joinable))), per_pb), timeout, "prebond-corpus")
    n_pc = 80 if ctx.quick else len(pool)
    run_cases(ctx, prebond_centre_cases(ctx, ctx.rnd.sample(pool, min(n_pc, len(pool))), per_pb), timeout, "prebond-centre")
    run_cases(ctx, [valent_case(ctx.rnd) for _ in range(300 if ctx.quick else 3000)], timeout, "prebond-valent")
    stage = [v for v in ctx.violations if v["what"].startswith("implementation differs")]
    spec = [v for v in ctx.violations if not v["what"].startswith("implementation differs")
            and not ({"rc_template_unbalanced", "additive_round_clash"} & set(v["classes"]))]
    ctx.obligation("correspondence: SynRule fragments, inversion, pattern preparation, glue per mapping, _explicit_h: impl == model", not stage)
    ctx.obligation("specification (a),(b),(c) holds on every returned ITS / SMILES (known classes rc_template_unbalanced, additive_round_clash excepted)", not spec)
    ctx.extra["exhaustive"] = False


def replay(ctx, case):
    c = dict(case["case"])
    if "explicit_h_unit" in c:
        a = rc.run_pool([{"its": c["explicit_h_unit"]}], rc.explicit_h_case, timeout=60)[0]
        b = ctx.lean().ok([{"cmd": "reactor.explicit_h_unit", "its": c["explicit_h_unit"]}])[0]
        n0 = max(x for x, _ in c["explicit_h_unit"]["nodes"]) + 1
        same = (a.get("status") == "StopIteration") == (b["g"] is None) and (
            b["g"] is None or (a.get("status") == "ok" and canon_explicit(a["g"], n0)[:1] == canon_explicit(b["g"], n0)[:1]))
        ctx.case(c, True)
        if not same:
            ctx.violation("implementation differs from the proven model at stage: _explicit_h (unit level)", c,
                          {"impl": a, "model": b}, no_input=True)
        return
    _quiet_rdkit()
    c.setdefault("tag", "replay")
    c.setdefault("kind", "synthetic" if "tpl_graph" in c else "replay")
    run_cases(ctx, [c], 120.0, "replay")

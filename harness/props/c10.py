"""C10 — changing representation (SMILES <-> graph, explicit <-> implicit H, ITS <-> GML) loses nothing.

Lean side: SynKitModel/Repr.lean (molecule table <-> graph, hydrogens), SynKitModel/Gml.lean (GML
writer/reader at token level + the ITS helpers the entry points call), theorems in
SynKitProofs/Props/C10.lean.  This file ties the model to the working tree:

 (a) SMILES -> graph -> SMILES over the molecule population: RDKit's atom/bond table is read
     before and after; `smiles_to_graph` = model `molToGraph` on the table, `graph_to_mol`
     (unsanitised) = model `graphToMol`; the specification gate is equality of canonical SMILES
     with stereo stripped (RDKit trusted).
 (b) `h_to_explicit`, `h_to_implicit`, `implicit_hydrogen`, `has_XH`, `has_HH` impl = model on
     molecule graphs, synthetic graphs and all tiny graphs; the specification (total hydrogen
     count, restoration under the guard of the theorem, molecule unchanged) is evaluated by the
     Lean driver on what the implementation returned.
 (c) GML: writer impl = model (items per section), reader impl = model (left/right/ITS graphs),
     text format stable, and `gml_to_its(its_to_gml(I))` has the same atoms, charges and order
     pairs as I (Lean `ruleEqb`, or `match.iso` on the rule views when ids are re-indexed).
 (d) the export routes `smart_to_gml(rsmi)`, `its_to_gml(full ITS, core=True)`,
     `its_to_gml(centre)` (and full export both ways) give pairwise isomorphic rules after
     re-import, also across renumberings of the atom maps.
"""
import copy
import itertools
import json
import re

from ..core import ROOT, build_and_audit
from .. import graphio

THEOREMS = [
    "SynKit.Repr.graphToMol_molToGraph",
    "SynKit.Repr.hToImplicit_hToExplicit",
    "SynKit.Repr.totalH_hToExplicit",
    "SynKit.Repr.totalH_roundtrip_partial",
    "SynKit.Repr.hasXH_false_iff",
    "SynKit.Gml.label_roundtrip",
    "SynKit.Gml.orderLabel_roundtrip",
    "SynKit.Gml.gml_roundtrip_partial",
    "SynKit.Gml.gml_two_ways_core",
    "SynKit.Gml.gml_two_ways_full_is_centre",
    "SynKit.Gml.gml_two_ways_centre_partial",
    "SynKit.Repr.totalH_hToImplicit",
    "SynKit.Gml.getRc_idem",
    "SynKit.Gml.gml_two_ways_centre",
    "SynKit.Gml.gml_roundtrip",
    "SynKit.Gml.gml_roundtrip_reindexed",
    "SynKit.Gml.gml_smart_roundtrip",
    "SynKit.Gml.gml_two_ways_full",
    "SynKit.C10.clauses_1_to_9",
    "SynKit.C10.last_clause_needs_molShape",
    "SynKit.C10.fullStatementMol",
    "SynKit.Repr.totalH_implicitHydrogen",
    "SynKit.Repr.implicitHydrogen_free_hydrogen_stays",
]

NODE_KEYS = ["element", "aromatic", "hcount", "charge", "neighbors", "atom_map"]


# ------------------------------------------------------------------ canonical forms
def canon_graph(j, node_keys=None, edge_keys=None):
    """JSON graph -> (sorted nodes, sorted undirected edges); attribute dicts restricted to keys."""
    def sel(a, keys):
        return {k: v for k, v in sorted(a.items()) if keys is None or k in keys}
    nodes = sorted([n, sel(a, node_keys)] for n, a in j["nodes"])
    edges = sorted([min(u, v), max(u, v), sel(a, edge_keys)] for u, v, a in j["edges"])
    return {"nodes": nodes, "edges": edges}


def node_order(j):
    return [n for n, _ in j["nodes"]]


def enc(G):
    return graphio.graph(G)


def norm_items(rule):
    """rule items per section as sorted lists; an edge is unordered."""
    out = {}
    for sec in ("left", "context", "right"):
        items = []
        for it in rule[sec]:
            if it[0] == "n":
                items.append(["n", it[1], it[2]])
            else:
                items.append(["e", min(it[1], it[2]), max(it[1], it[2]), it[3]])
        out[sec] = sorted(items, key=json.dumps)
    return out


# ------------------------------------------------------------------ RDKit table
def rd():
    from rdkit import Chem, RDLogger
    RDLogger.DisableLog("rdApp.*")
    return Chem


def table(mol):
    return {
        "atoms": [{"element": a.GetSymbol(), "charge": a.GetFormalCharge(), "atom_map": a.GetAtomMapNum(),
                   "hcount": a.GetTotalNumHs(), "aromatic": bool(a.GetIsAromatic())} for a in mol.GetAtoms()],
        "bonds": [[b.GetBeginAtomIdx(), b.GetEndAtomIdx(), int(round(b.GetBondTypeAsDouble() * 2))] for b in mol.GetBonds()],
    }


def table_out(mol):
    return {
        "atoms": [{"element": a.GetSymbol(), "charge": a.GetFormalCharge(), "atom_map": a.GetAtomMapNum(),
                   "hcount": (a.GetNumExplicitHs() if a.GetNoImplicit() else None)} for a in mol.GetAtoms()],
        "bonds": [[b.GetBeginAtomIdx(), b.GetEndAtomIdx(), int(round(b.GetBondTypeAsDouble() * 2))] for b in mol.GetBonds()],
    }


def can_smiles(s, remove_hs=True):
    Chem = rd()
    m = Chem.MolFromSmiles(s) if remove_hs else Chem.MolFromSmiles(s, sanitize=True)
    if m is None:
        return None
    return Chem.MolToSmiles(m, isomericSmiles=False)


# ------------------------------------------------------------------ corpora
def load_molecules():
    f = ROOT / "corpus" / "c10_molecules.txt"
    return [l.strip() for l in f.read_text().splitlines() if l.strip() and not l.startswith("#")]


def load_reactions():
    f = ROOT / "corpus" / "c10_reactions.txt"
    out = []
    for l in f.read_text().splitlines():
        if not l.strip() or l.startswith("#"):
            continue
        src, rs = l.split("\t")
        out.append((src, rs.strip()))
    return out


def reaction_molecules(reactions):
    """unmapped fragments of the corpus reactions (canonical, stereo kept as written by RDKit)."""
    Chem = rd()
    seen, out = set(), []
    for _, rs in reactions:
        for side in rs.split(">>"):
            for frag in side.split("."):
                m = Chem.MolFromSmiles(frag)
                if m is None or m.GetNumAtoms() == 0:
                    continue
                for a in m.GetAtoms():
                    a.SetAtomMapNum(0)
                s = Chem.MolToSmiles(m)
                if s not in seen:
                    seen.add(s)
                    out.append(s)
    return out


def renumber(rsmi, rnd):
    maps = sorted({int(x) for x in re.findall(r":(\d+)\]", rsmi)})
    perm = maps[:]
    rnd.shuffle(perm)
    # spread the numbers so that ids are not contiguous either
    off = rnd.choice([0, 0, 3, 17])
    table_ = {a: b + off for a, b in zip(maps, perm)}
    return re.sub(r":(\d+)\]", lambda m: f":{table_[int(m.group(1))]}]", rsmi)


# ------------------------------------------------------------------ batch of Lean requests
class Batch:
    def __init__(self, ctx):
        self.ctx = ctx
        self.reqs = []
        self.cbs = []

    def add(self, req, cb):
        self.reqs.append(req)
        self.cbs.append(cb)

    def run(self):
        while self.reqs:
            reqs, cbs = self.reqs, self.cbs
            self.reqs, self.cbs = [], []
            reps = self.ctx.lean().ok(reqs, shards=8)
            for rep, cb in zip(reps, cbs):
                cb(rep)


VS = {"a": 0, "b": 0, "c": 0, "d": 0}


def V(ctx, stream, what, case, detail=None, no_input=False):
    VS[stream] += 1
    ctx.violation(what, case, detail, no_input=no_input)


def is_err(rep):
    return isinstance(rep, dict) and "err" in rep


# ------------------------------------------------------------------ (a) SMILES <-> graph
def check_smiles(ctx, B, s, tag):
    from synkit.IO.chem_converter import smiles_to_graph, graph_to_smi
    from synkit.IO.graph_to_mol import GraphToMol
    Chem = rd()
    case = {"kind": "smiles", "smiles": s}
    mol = Chem.MolFromSmiles(s, sanitize=False)
    if mol is None:
        ctx.count("a:unparsable")
        return None
    try:
        Chem.SanitizeMol(mol)
    except Exception:
        ctx.count("a:unsanitisable")
        return None
    if mol.GetNumAtoms() == 0:
        ctx.count("a:empty_molecule_skipped")
        return None
    T = table(mol)
    g = smiles_to_graph(s)
    if g is None:
        V(ctx, "a", "smiles_to_graph returned None for a sanitisable molecule", case)
        return None
    ctx.count("a:molecules")
    ctx.count("a:aromatic" if any(a["aromatic"] for a in T["atoms"]) else "a:non_aromatic")
    if any(a["charge"] for a in T["atoms"]):
        ctx.count("a:charged")
    if any(a["atom_map"] for a in T["atoms"]):
        ctx.count("a:mapped")
    if any(a["element"] == "H" for a in T["atoms"]):
        ctx.count("a:explicit_H_atoms")
    ctx.case(["smiles", s], nontrivial=len(T["atoms"]) >= 2, sample={"stream": tag, "smiles": s})
    # specification: canonical SMILES (stereo stripped) unchanged
    s2 = graph_to_smi(g)
    c1 = Chem.MolToSmiles(Chem.MolFromSmiles(s), isomericSmiles=False)
    c2 = None
    if s2 is not None:
        m2 = Chem.MolFromSmiles(s2)
        c2 = Chem.MolToSmiles(m2, isomericSmiles=False) if m2 is not None else None
    spec_ok = c1 == c2
    if not spec_ok:
        V(ctx, "a", "SMILES -> graph -> SMILES changed the molecule (canonical SMILES, stereo stripped)", case,
                      {"canonical_in": c1, "graph_to_smi": s2, "canonical_out": c2})
        return g
    # table after the round trip, RDKit's own re-perception included
    try:
        mo2 = GraphToMol().graph_to_mol(g, sanitize=True, use_h_count=True)
        def nt(t):
            return (t["atoms"], sorted([min(a, b), max(a, b), o] for a, b, o in t["bonds"]))
        if nt(table(mo2)) == nt(T):
            ctx.count("a:table_identical_after_roundtrip")
        else:
            ctx.count("a:table_differs_but_same_canonical_smiles")
    except Exception:
        ctx.count("a:table_recheck_failed")
    # impl = model: table -> graph
    gj = enc(g)

    def cb_graph(rep):
        if canon_graph(rep) != canon_graph(gj) or node_order(rep) != node_order(gj):
            V(ctx, "a", "smiles_to_graph differs from model molToGraph on RDKit's atom/bond table", case,
                          {"impl": canon_graph(gj), "model": canon_graph(rep)}, no_input=True)
    B.add({"cmd": "repr.molToGraph", "mol": T}, cb_graph)
    # impl = model: graph -> table handed to RDKit
    mo = GraphToMol().graph_to_mol(g, sanitize=False, use_h_count=True)
    to = table_out(mo)

    def cb_mol(rep):
        if rep != to:
            V(ctx, "a", "graph_to_mol (before sanitisation) differs from model graphToMol", case,
                          {"impl": to, "model": rep}, no_input=True)
    B.add({"cmd": "repr.graphToMol", "graph": gj}, cb_mol)

    def cb_rt(rep):
        ctx.count("a:table_wf" if rep["wf"] else "a:table_not_wf")
        if rep["wf"] and not rep["same"]:
            V(ctx, "a", "model table round trip fails on a well-formed table (theorem graphToMol_molToGraph contradicted)", case, no_input=True)
    B.add({"cmd": "repr.roundtrip", "mol": T}, cb_rt)
    return g


# ------------------------------------------------------------------ (b) hydrogens
def impl_h(fn, G, *args):
    """call an implementation function on a deep copy; -> (json graph | {'err':..}, mutated?)"""
    Gc = copy.deepcopy(G)
    before = enc(Gc)
    try:
        out = enc(fn(Gc, *args))
    except KeyError:
        out = {"err": "KeyError"}
    except TypeError:
        out = {"err": "TypeError"}
    return out, enc(Gc) != before


def h_equal(a, b):
    if is_err(a) or is_err(b):
        return a == b
    return canon_graph(a) == canon_graph(b) and node_order(a) == node_order(b)


def check_hgraph(ctx, B, G, tag, smiles=None, collect=None, pres=None):
    """`pres`: the preserve_atom_maps list for implicit_hydrogen; drawn from the run PRNG when None (each atom map of a hydrogen
    node with probability 1/2) and recorded in the case, so that a replay uses the same list."""
    from synkit.Graph.Hyrogen._misc import h_to_explicit, h_to_implicit, implicit_hydrogen, has_XH, has_HH
    gj = enc(G)
    case = {"kind": "hgraph", "graph": gj, **({"smiles": smiles} if smiles else {})}
    E, _ = impl_h(h_to_explicit, G)
    I, _ = impl_h(h_to_implicit, G)
    if is_err(E) or is_err(I):
        ctx.count("b:impl_error")
        return
    IE, _ = impl_h(h_to_implicit, graphio.to_nx(E))
    hmaps = sorted({d.get("atom_map") for _, d in G.nodes(data=True) if d.get("element") == "H" and isinstance(d.get("atom_map"), int) and d.get("atom_map") >= 0})
    if pres is None:
        pres = [m for m in hmaps if ctx.rnd.random() < 0.5]
    else:
        pres = sorted({int(m) for m in pres})
    case["preserve"] = pres
    P, mutated = impl_h(lambda g_: implicit_hydrogen(g_, set(pres)), G)
    # shape of the input w.r.t. implicit_hydrogen (decided here from the input graph, never by the code under test): hydrogens
    # that are not preserved and are bonded to a heavy atom are folded; those without heavy neighbour (no bond at all / bonded
    # to hydrogens only: H, H+, H-, H2) must stay (F29, draft fix 0022)
    def _is_h(n):
        return G.nodes[n].get("element") == "H"
    h_np = [n for n in G.nodes if _is_h(n) and not (isinstance(G.nodes[n].get("atom_map"), int) and G.nodes[n].get("atom_map") in pres)]
    h_free = [n for n in h_np if G.degree(n) == 0]
    h_hh = [n for n in h_np if G.degree(n) > 0 and all(_is_h(m) for m in G.neighbors(n))]
    h_fold = [n for n in h_np if any(not _is_h(m) for m in G.neighbors(n))]
    if mutated:
        ctx.count("b:implicit_hydrogen_mutates_its_input(recorded,not gated)")
    xh, hh = bool(has_XH(G)), bool(has_HH(G))
    state = {"viol": False}

    def bad(what, detail, no_input=False):
        if not state["viol"]:
            state["viol"] = True
            if collect is not None:
                collect.append((what, detail, no_input))
            else:
                V(ctx, "b", what, shrink_hgraph(ctx, G, case) if not no_input else case, detail, no_input=no_input)

    info = {}

    def cb_info(name):
        def cb(rep):
            info[name] = rep
        return cb
    for name, j in (("g", gj), ("E", E), ("I", I), ("IE", IE)) + ((("P", P),) if not is_err(P) else ()):
        B.add({"cmd": "h.info", "graph": j}, cb_info(name))
    models = {}

    def cb_model(name):
        def cb(rep):
            models[name] = rep
        return cb
    B.add({"cmd": "h.explicit", "graph": gj}, cb_model("E"))
    B.add({"cmd": "h.implicit", "graph": gj}, cb_model("I"))
    B.add({"cmd": "h.implicit", "graph": E}, cb_model("IE"))
    B.add({"cmd": "h.implicitHydrogen", "graph": gj, "preserve": pres}, cb_model("P"))

    def final(_rep):
        ig = info["g"]
        nH = sum(1 for _, d in G.nodes(data=True) if d.get("element") == "H")
        ctx.count(f"b:{tag}")
        ctx.count("b:guard_holds" if ig["guard"] else "b:guard_fails")
        ctx.count("b:valence_holds" if ig["valence"] else "b:valence_fails")
        if not ig["typed"]:
            ctx.count("b:outside_domain")
        ctx.case(["hgraph", canon_graph(gj)], nontrivial=(ig["totalH"] != 0 and G.number_of_nodes() >= 1),
                 sample={"stream": tag, "graph": gj} if G.number_of_nodes() <= 3 else None)
        if not ig["typed"] or not ig["wf"]:
            return
        # ---- specification on what the implementation returned
        if info["E"]["totalH"] != ig["totalH"]:
            bad("h_to_explicit changes the total hydrogen count", {"before": ig["totalH"], "after": info["E"]["totalH"]})
        if ig["valence"] and info["I"]["totalH"] != ig["totalH"]:
            bad("h_to_implicit changes the total hydrogen count", {"before": ig["totalH"], "after": info["I"]["totalH"]})
        if info["E"]["valence"] and info["IE"]["totalH"] != info["E"]["totalH"]:
            bad("h_to_implicit(h_to_explicit(g)) changes the total hydrogen count",
                {"before": info["E"]["totalH"], "after": info["IE"]["totalH"]})
        if ig["guard"] and not h_equal(IE, gj):
            bad("h_to_implicit(h_to_explicit(g)) does not restore g although no explicit hydrogen is bonded to a heavy atom",
                {"g": canon_graph(gj), "back": canon_graph(IE)})
        if (xh, hh) != (ig["hasXH"], ig["hasHH"]):
            bad("has_XH / has_HH differ from the model", {"impl": [xh, hh], "model": [ig["hasXH"], ig["hasHH"]]})
        if not is_err(P):
            ctx.count("b:implicit_hydrogen:calls")
            if h_free:
                ctx.count("b:implicit_hydrogen:non-preserved hydrogen without any bond (must stay; F29)")
            if h_hh:
                ctx.count("b:implicit_hydrogen:non-preserved hydrogen bonded to hydrogens only (must stay; F29)")
            if h_fold:
                ctx.count("b:implicit_hydrogen:non-preserved hydrogen bonded to a heavy atom (folded)")
            if (h_free or h_hh) and h_fold:
                ctx.count("b:implicit_hydrogen:folded and free non-preserved hydrogens in one graph")
            # theorem implicitHydrogen_free_hydrogen_stays: a hydrogen without heavy neighbour is kept with all its attributes
            pn = {n: a for n, a in P["nodes"]}
            gn = {n: a for n, a in gj["nodes"]}
            lost = [n for n in h_free + h_hh if n not in pn]
            altered = [n for n in h_free + h_hh if n in pn and pn[n] != gn[n]]
            if lost or altered:
                bad("implicit_hydrogen removes / alters a hydrogen that has no heavy neighbour (it was not folded into any hydrogen count)",
                    {"preserve": pres, "removed": sorted(lost), "altered": sorted(altered)})
            # theorem totalH_implicitHydrogen: under the valence guard the total hydrogen count is kept, for every preserve list
            if "P" in info and ig["valence"] and info["P"]["totalH"] != ig["totalH"]:
                bad("implicit_hydrogen changes the total hydrogen count although hydrogens are monovalent and carry no count",
                    {"preserve": pres, "before": ig["totalH"], "after": info["P"]["totalH"]})
        # ---- impl = model
        for name, impl in (("E", E), ("I", I), ("IE", IE), ("P", P)):
            mod = models[name]
            if is_err(mod) and mod["err"] == "unsupported":
                ctx.count("b:model_unsupported")
                continue
            if not h_equal(impl, mod):
                what = {"E": "h_to_explicit", "I": "h_to_implicit", "IE": "h_to_implicit after h_to_explicit",
                        "P": "implicit_hydrogen"}[name]
                bad(f"{what} differs from the model", {"impl": impl if is_err(impl) else canon_graph(impl),
                                                      "model": mod if is_err(mod) else canon_graph(mod), "preserve": pres},
                    no_input=True)
        if nH:
            ctx.count("b:with_explicit_H_nodes")
    B.add({"cmd": "h.info", "graph": gj}, final)
    # molecule unchanged (RDKit trusted), only for graphs that come from a molecule
    if smiles is not None:
        from synkit.IO.chem_converter import graph_to_smi
        c0 = can_smiles(smiles)
        for name, j in (("explicit", E), ("explicit->implicit", IE)):
            se = graph_to_smi(graphio.to_nx(j))
            c = can_smiles(se) if se is not None else None
            if c != c0:
                # F18: H2 / H+ vanish; reported through the graph-level gate as well
                bad(f"the molecule changed after making hydrogens {name}", {"smiles": smiles, "before": c0, "after": c, "raw": se})


def hgraph_fails(ctx, G, pres=None):
    """re-evaluate one graph in isolation -> True when any gate fires (used by the shrinker)."""
    col = []
    B = Batch(ctx)
    saved = (ctx.evaluations, set(ctx._distinct), dict(ctx.counters), list(ctx.samples))
    st = ctx.rnd.getstate()
    check_hgraph(ctx, B, G, "shrink", collect=col, pres=pres)
    B.run()
    ctx.rnd.setstate(st)
    ctx.evaluations, ctx._distinct, ctx.counters, ctx.samples = saved[0], saved[1], saved[2], saved[3]
    return bool(col)


def shrink_hgraph(ctx, G, case):
    G = copy.deepcopy(G)
    changed = True
    budget = 60
    while changed and budget > 0:
        changed = False
        for n in list(G.nodes()):
            budget -= 1
            if budget <= 0:
                break
            H = copy.deepcopy(G)
            H.remove_node(n)
            if H.number_of_nodes() and hgraph_fails(ctx, H, case.get("preserve")):
                G = H
                changed = True
    return {"kind": "hgraph", "graph": enc(G), **({"preserve": case["preserve"]} if "preserve" in case else {}),
            **({"smiles": case["smiles"]} if "smiles" in case and G.number_of_nodes() == len(case["graph"]["nodes"]) else {})}


def synth_free_hgraph(rnd):
    """A molecule-like graph on which the hydrogen-count gate of implicit_hydrogen applies (hydrogens monovalent, no count of their
    own): a short heavy-atom chain, explicit hydrogens bonded to it, and 1-3 free hydrogen species next to it - H, H+, H- without
    any bond, or H2 - all with their own atom maps, so that the random preserve list names some of them and not others."""
    import networkx as nx
    G = nx.Graph()
    nid = [0]

    def add(el, charge=0, hcount=0):
        nid[0] += rnd.choice([1, 1, 1, 2, 5])
        G.add_node(nid[0], element=el, aromatic=False, charge=charge, hcount=hcount, atom_map=nid[0] if rnd.random() < 0.85 else 0)
        return nid[0]
    heavy = []
    for _ in range(rnd.randint(0, 3)):
        v = add(rnd.choice(["C", "C", "N", "O", "Cl"]), charge=rnd.choice([0, 0, 0, 1, -1]), hcount=rnd.choice([0, 0, 1, 2]))
        if heavy:
            G.add_edge(heavy[-1], v, order=rnd.choice([1.0, 1.0, 2.0]))
        heavy.append(v)
    for v in heavy:
        for _ in range(rnd.choice([0, 0, 1, 2])):
            G.add_edge(v, add("H"), order=1.0)
    for _ in range(rnd.randint(1, 3)):
        if rnd.random() < 0.4:
            G.add_edge(add("H"), add("H"), order=1.0)
        else:
            add("H", charge=rnd.choice([0, 1, 1, -1]))
    if rnd.random() < 0.5:                      # node order is not the id order
        order = list(G.nodes)
        rnd.shuffle(order)
        H = nx.Graph()
        H.add_nodes_from((n, G.nodes[n]) for n in order)
        es = list(G.edges(data=True))
        rnd.shuffle(es)
        H.add_edges_from((v, u, d) if rnd.random() < 0.5 else (u, v, d) for u, v, d in es)
        G = H
    return G


def synth_hgraph(rnd):
    import networkx as nx
    G = nx.Graph()
    n = rnd.randint(1, 7)
    ids = rnd.sample(range(1, 30), n) if rnd.random() < 0.5 else list(range(1, n + 1))
    for i in ids:
        el = rnd.choice(["C", "C", "N", "O", "H", "H", "H", "Cl"])
        d = {"element": el, "aromatic": False, "charge": rnd.choice([0, 0, 0, 1, -1]), "atom_map": rnd.choice([0, i])}
        r = rnd.random()
        if el == "H":
            d["hcount"] = 0 if r < 0.85 else rnd.choice([1, 2, -1])
        elif r < 0.8:
            d["hcount"] = rnd.choice([0, 0, 1, 2, 3])
        elif r < 0.9:
            d["hcount"] = rnd.choice([-1, -2])
        # else: no hcount key
        G.add_node(i, **d)
    for i, j in itertools.combinations(ids, 2):
        if rnd.random() < 0.35:
            G.add_edge(i, j, order=rnd.choice([1.0, 1.0, 2.0, 1.5]))
    return G


def tiny_hgraphs(nmax):
    import networkx as nx
    for n in range(1, nmax + 1):
        pairs = list(itertools.combinations(range(1, n + 1), 2))
        labels = [("C", 0), ("C", 2), ("H", 0), ("H", 1), ("O", None)]
        for lab in itertools.product(labels, repeat=n):
            for mask in range(1 << len(pairs)):
                G = nx.Graph()
                for i, (el, hc) in enumerate(lab, 1):
                    d = {"element": el, "aromatic": False, "charge": 0, "atom_map": i}
                    if hc is not None:
                        d["hcount"] = hc
                    G.add_node(i, **d)
                for k, (i, j) in enumerate(pairs):
                    if mask >> k & 1:
                        G.add_edge(i, j, order=1.0)
                yield G


# ------------------------------------------------------------------ labels
ELEMS = ["C", "N", "O", "H", "Cl", "Br", "Mg", "*", "Na", "c", "Uuo", "X"]
BAD_LABELS = ["", "2+", "+", "C+2", "Cl2", "O--", "N+-", "c1", "*", "X0+", "C 1", "C12", "Fe3+", "O2-", "N10-", "C-1", "1C+",
              "C+x", "Cé", "[C]", "C.", "N+ ", "H0-", "Zn02+", "C00", "S123456789+"]


def check_labels(ctx, B):
    from synkit.IO.nx_to_gml import NXToGML
    from synkit.IO.gml_to_nx import GMLToNX
    rdr = GMLToNX("")
    for el in ELEMS:
        for c in range(-12, 13):
            impl = el + NXToGML._charge_to_string(c)
            back = rdr._extract_element_and_charge(impl)
            case = {"kind": "label", "element": el, "charge": c}
            ctx.case(["label", el, c], nontrivial=c != 0)
            ctx.count("c:labels")
            if tuple(back) != (el, c):
                V(ctx, "c", "element/charge label does not survive writing and parsing", case, {"label": impl, "parsed": list(back)})

            def cb(rep, impl=impl, case=case):
                if rep != impl:
                    V(ctx, "c", "_charge_to_string differs from the model", case, {"impl": impl, "model": rep}, no_input=True)
            B.add({"cmd": "gml.label", "element": el, "charge": c}, cb)
    for lab in BAD_LABELS + [el + NXToGML._charge_to_string(c) for el in ELEMS for c in (-11, -2, -1, 0, 1, 3, 10)]:
        impl = list(rdr._extract_element_and_charge(lab))
        ctx.count("c:parse_labels")

        def cb(rep, impl=impl, lab=lab):
            if rep != impl:
                V(ctx, "c", "_extract_element_and_charge differs from the model", {"kind": "parse", "label": lab},
                              {"impl": impl, "model": rep}, no_input=True)
        B.add({"cmd": "gml.parseLabel", "label": lab}, cb)


# ------------------------------------------------------------------ (c) GML round trip on an ITS graph
ISO_SEL = {"node_keys": ["v"], "edge_keys": ["o"], "hcount": False}


def check_its(ctx, B, I, tag, origin):
    """I: an ITS graph (networkx). Exports: centre (core=True) and full (core=False), reindex both."""
    from synkit.IO.chem_converter import its_to_gml, gml_to_its
    from synkit.IO.gml_to_nx import GMLToNX
    from synkit.Graph.ITS.its_decompose import get_rc
    Ij = enc(I)
    try:
        rc = get_rc(I)
    except Exception as e:
        ctx.count("c:get_rc_error")
        return
    rcj = enc(rc)
    ctx.count(f"c:{tag}")
    ctx.case(["its", canon_graph(Ij, ["typesGH"], ["order"])], nontrivial=rc.number_of_edges() >= 1,
             sample={"stream": tag, "origin": origin} if isinstance(origin, str) else None)
    if any(d["typesGH"][0][3] != d["typesGH"][1][3] for _, d in rc.nodes(data=True) if "typesGH" in d):
        ctx.count("c:centre_with_charge_change")
    if any(abs(c) >= 2 for _, d in I.nodes(data=True) if "typesGH" in d for c in (d["typesGH"][0][3], d["typesGH"][1][3]) if isinstance(c, int)):
        ctx.count("c:with_multiple_charge")

    def cb_rc(rep):
        if canon_graph(rep, ["element", "charge", "typesGH", "atom_map"], ["order", "standard_order"]) != \
                canon_graph(rcj, ["element", "charge", "typesGH", "atom_map"], ["order", "standard_order"]) or node_order(rep) != node_order(rcj):
            V(ctx, "c", "get_rc differs from the model's getRc (as used by the GML export)", {"kind": "its", "its": Ij},
                          {"impl": canon_graph(rcj), "model": canon_graph(rep)}, no_input=True)
    B.add({"cmd": "gml.getRc", "its": Ij}, cb_rc)

    for core, src, srcj in ((True, rc, rcj), (False, I, Ij)):
        for reindex in (False, True):
            case = {"kind": "its", "its": Ij, "core": core, "reindex": reindex, "origin": origin}
            try:
                gml = its_to_gml(copy.deepcopy(I if not core else rc), core=core, reindex=reindex)
                L, R, back = GMLToNX(gml).transform()
                back2 = gml_to_its(gml)
            except Exception as e:
                V(ctx, "c", "its_to_gml / gml_to_its raised", case, {"error": repr(e)})
                continue
            backj = enc(back2)
            ctx.count("c:exports")
            one_export(ctx, B, case, gml, srcj, core, reindex, enc(L), enc(R), backj)


def one_export(ctx, B, case, gml, srcj, core, reindex, Lj, Rj, backj):
    st = {}
    # writer: impl = model
    B.add({"cmd": "gml.itsToGml", "its": srcj, "core": core, "reindex": reindex}, lambda rep: st.__setitem__("w", rep))
    # reader: impl = model on the implementation's text; text format stable
    B.add({"cmd": "gml.read", "text": gml}, lambda rep: st.__setitem__("r", rep))
    B.add({"cmd": "gml.retext", "text": gml}, lambda rep: st.__setitem__("t", rep))
    B.add({"cmd": "gml.shape", "its": srcj}, lambda rep: st.__setitem__("shape", rep))
    cand = backj
    if reindex:
        # ids were renumbered by position in the left graph; undo it with the obvious candidate map (node order of the
        # exported graph) so that large full exports need no isomorphism search; `equiv` falls back to match.iso otherwise
        inv = {i + 1: old for i, old in enumerate(node_order(srcj))}
        if sorted(inv) == sorted(node_order(backj)):
            cand = relabel_json(backj, lambda n: inv[n])

    def stage2(_):
        def finish(eq):
            ctx.count("c:shape_ok" if st["shape"] else "c:shape_fails(not gated on the round trip)")
            if not eq and st["shape"]:
                V(ctx, "c", "gml_to_its(its_to_gml(I)) differs from I in atoms, charges or (before, after) bond orders",
                              case, {"gml": gml, "back": canon_graph(backj, ["typesGH"], ["order"])})
                return
            w, r = st["w"], st["r"]
            if is_err(w) or is_err(r) or is_err(st["t"]):
                V(ctx, "c", "model could not write / read the rule", case, {"write": w if is_err(w) else None, "read": r if is_err(r) else None}, no_input=True)
                return
            if norm_items(w["rule"]) != norm_items(r["rule"]):
                V(ctx, "c", "its_to_gml writes other items than the model", case,
                              {"impl": norm_items(r["rule"]), "model": norm_items(w["rule"])}, no_input=True)
                return
            if st["t"] != gml:
                V(ctx, "c", "GML text format differs from the model's rendering of the same items", case,
                              {"impl": gml, "model": st["t"]}, no_input=True)
                return
            for name, impl, mod in (("left", Lj, r["graphs"]["left"]), ("right", Rj, r["graphs"]["right"]), ("its", backj, r["graphs"]["its"])):
                if canon_graph(impl) != canon_graph(mod):
                    V(ctx, "c", f"GMLToNX.transform ({name} graph) differs from the model reader", case,
                                  {"impl": canon_graph(impl), "model": canon_graph(mod)}, no_input=True)
                    return
        equiv(B, cand, srcj, finish)
    B.add({"cmd": "gml.shape", "its": srcj}, stage2)


def relabel_json(j, f):
    return {"nodes": [[f(n), a] for n, a in j["nodes"]], "edges": [[f(u), f(v), a] for u, v, a in j["edges"]]}


def equiv(B, aj, bj, cb):
    """equivalent rules: identical on ids (Lean ruleEqb), else label-preserving isomorphism of the views."""
    def on_eq(rep):
        if rep:
            cb(True)
            return
        vs = {}
        B.add({"cmd": "gml.view", "its": aj}, lambda r: vs.__setitem__("a", r))
        B.add({"cmd": "gml.view", "its": bj}, lambda r: vs.__setitem__("b", r))
        B.add({"cmd": "gml.shape", "its": aj}, lambda _: B.add({"cmd": "match.iso", "host": vs["a"], "pattern": vs["b"], **ISO_SEL}, cb))
    B.add({"cmd": "spec.gml.ruleEq", "a": aj, "b": bj}, on_eq)


def defer(B, n, j, fn):
    """run fn after n further request rounds (so that nested specification checks have reported)."""
    if n == 0:
        fn()
    else:
        B.add({"cmd": "gml.shape", "its": {"nodes": [], "edges": []}}, lambda _: defer(B, n - 1, j, fn))


def synth_its(rnd):
    """random small reaction as (G, H) on a shared node set -> ITS via the implementation's ITSGraph."""
    import networkx as nx
    from synkit.Graph.ITS.its_construction import ITSConstruction
    n = rnd.randint(2, 7)
    ids = rnd.sample(range(1, 40), n)
    G, H = nx.Graph(), nx.Graph()
    for i in ids:
        el = rnd.choice(["C", "C", "N", "O", "H", "Cl", "Br", "Mg", "*", "S"])
        cg = rnd.choice([0, 0, 0, 1, -1, 2, -2, 3, -3, 11])
        chh = cg if rnd.random() < 0.6 else rnd.choice([0, 1, -1, 2, -2, -12])
        hg = rnd.choice([0, 1, 2, 3])
        for X, c in ((G, cg), (H, chh)):
            X.add_node(i, element=el, aromatic=False, hcount=hg, charge=c, neighbors=[], atom_map=i)
    for i, j in itertools.combinations(ids, 2):
        if rnd.random() < 0.45:
            a = rnd.choice([0, 1.0, 1.0, 2.0, 1.5, 3.0])
            b = a if rnd.random() < 0.4 else rnd.choice([0, 1.0, 2.0, 1.5, 3.0])
            if a:
                G.add_edge(i, j, order=a)
            if b:
                H.add_edge(i, j, order=b)
    return ITSConstruction().ITSGraph(G, H), G, H


# ------------------------------------------------------------------ (d) export routes
def check_routes(ctx, B, rsmi, origin, base_view=None):
    """-> view graph (json, via callback list) of the centre rule, for comparison across renumberings."""
    from synkit.IO.chem_converter import smart_to_gml, its_to_gml, gml_to_its, rsmi_to_its, rsmi_to_graph
    from synkit.Graph.ITS.its_decompose import get_rc
    case = {"kind": "rsmi", "rsmi": rsmi, "origin": origin}
    try:
        its = rsmi_to_its(rsmi)
        rc = get_rc(its)
        r, p = rsmi_to_graph(rsmi)
    except Exception as e:
        ctx.count("d:its_error")
        return None
    if r is None or p is None:
        ctx.count("d:its_error")
        return None
    if set(r.nodes()) != set(p.nodes()) or set(its.nodes()) != set(r.nodes()):
        # precondition of the property's last clause (DESIGN App. A: FullyMapped): both sides carry the same mapped atoms
        ctx.count("d:skipped_not_fully_mapped")
        return None
    ctx.count("d:reactions")
    ctx.case(["rsmi", rsmi], nontrivial=rc.number_of_edges() >= 1, sample={"stream": "routes", "rsmi": rsmi[:200]})
    exports = {}
    try:
        for reindex in (False, True):
            exports[("smart", True, reindex)] = smart_to_gml(rsmi, core=True, reindex=reindex)
            exports[("its_full", True, reindex)] = its_to_gml(copy.deepcopy(its), core=True, reindex=reindex)
            exports[("its_centre", True, reindex)] = its_to_gml(copy.deepcopy(rc), core=True, reindex=reindex)
            exports[("smart", False, reindex)] = smart_to_gml(rsmi, core=False, reindex=reindex)
            exports[("its_full", False, reindex)] = its_to_gml(copy.deepcopy(its), core=False, reindex=reindex)
        back = {k: enc(gml_to_its(v)) for k, v in exports.items()}
    except Exception as e:
        V(ctx, "d", "a GML export route raised", case, {"error": repr(e)})
        return None
    views = {}
    # model = impl for the two entry points (items per section)
    rj, pj, itsj = enc(r), enc(p), enc(its)
    for core in (True, False):
        def cb_s(rep, core=core):
            if is_err(rep):
                return
            views[("model_smart", core)] = rep
        B.add({"cmd": "gml.smartToGml", "r": rj, "p": pj, "core": core, "reindex": False}, cb_s)
        B.add({"cmd": "gml.read", "text": exports[("smart", core, False)]}, lambda rep, core=core: views.__setitem__(("impl_smart", core), rep))
    B.add({"cmd": "gml.itsToGml", "its": itsj, "core": True, "reindex": False}, lambda rep: views.__setitem__(("model_itsfull", True), rep))
    B.add({"cmd": "gml.read", "text": exports[("its_full", True, False)]}, lambda rep: views.__setitem__(("impl_itsfull", True), rep))
    result = {}

    def stage2(_):
        pairs = []
        for reindex in (False, True):
            pairs += [(("smart", True, reindex), ("its_full", True, reindex), "smart_to_gml(rsmi) vs its_to_gml(full ITS, core=True)"),
                      (("smart", True, reindex), ("its_centre", True, reindex), "smart_to_gml(rsmi) vs its_to_gml(centre)"),
                      (("its_full", True, reindex), ("its_centre", True, reindex), "its_to_gml(full ITS, core=True) vs its_to_gml(centre)"),
                      (("smart", False, reindex), ("its_full", False, reindex), "smart_to_gml(rsmi, core=False) vs its_to_gml(full ITS, core=False)")]
        pairs.append((("smart", True, False), ("smart", True, True), "smart_to_gml reindex=False vs reindex=True"))
        done = {"v": False}
        for a, b, what in pairs:
            def cb(rep, a=a, b=b, what=what):
                ctx.count("d:route_pairs")
                if not rep and not done["v"]:
                    done["v"] = True
                    V(ctx, "d", "two documented ways of producing the GML rule of a reaction give non-equivalent rules: " + what,
                                  case, {"a": exports[a], "b": exports[b]})
            equiv(B, back[a], back[b], cb)
        if base_view is not None and base_view.get("view") is not None:
            def cb2(rep):
                ctx.count("d:renumbering_pairs")
                if not rep:
                    V(ctx, "d", "the GML rule of a renumbered reaction is not equivalent to the rule of the original",
                                  {**case, "original": base_view["rsmi"]}, {"a": exports[("smart", True, True)]})
            equiv(B, base_view["view"], back[("smart", True, True)], cb2)
        result["view"] = back[("smart", True, True)]
        result["rsmi"] = rsmi
        def model_compare():
            # only when the specification gate is silent: then a difference is a broken correspondence, not a failing input
            if done["v"]:
                return
            for key_m, key_i, what in ((("model_smart", True), ("impl_smart", True), "smart_to_gml(core=True)"),
                                       (("model_smart", False), ("impl_smart", False), "smart_to_gml(core=False)"),
                                       (("model_itsfull", True), ("impl_itsfull", True), "its_to_gml(full ITS, core=True)")):
                m, i = views.get(key_m), views.get(key_i)
                if m is None or i is None or is_err(m) or is_err(i):
                    ctx.count("d:model_compare_skipped")
                    continue
                if norm_items(m["rule"]) != norm_items(i["rule"]):
                    V(ctx, "d", f"{what} writes other items than the model", case,
                      {"impl": norm_items(i["rule"]), "model": norm_items(m["rule"])}, no_input=True)
                    return
        defer(B, 5, itsj, model_compare)
    B.add({"cmd": "gml.shape", "its": itsj}, stage2)
    return result


# ------------------------------------------------------------------ streams
def mapped_sides(reactions, rnd, k):
    out = []
    for src, rs in rnd.sample(reactions, min(k, len(reactions))):
        side = rs.split(">>")[rnd.randint(0, 1)]
        out.append(side)
    return out


def load_regress():
    d = ROOT / "regress" / "C10"
    return [json.loads(f.read_text()) for f in sorted(d.glob("*.json"))] if d.exists() else []


def run_case(ctx, B, c):
    k = c["kind"]
    if k == "smiles":
        g = check_smiles(ctx, B, c["smiles"], "replay")
        if g is not None:
            check_hgraph(ctx, B, g, "replay", smiles=c["smiles"])
    elif k == "hgraph":
        check_hgraph(ctx, B, graphio.to_nx(c["graph"]), "replay", smiles=c.get("smiles"), pres=c.get("preserve"))
    elif k == "its":
        check_its(ctx, B, its_from_json(c["its"]), "replay", c.get("origin"))
    elif k == "rsmi":
        check_routes(ctx, B, c["rsmi"], c.get("origin"))
        from synkit.IO.chem_converter import rsmi_to_its
        try:
            check_its(ctx, B, rsmi_to_its(c["rsmi"]), "replay", c.get("origin"))
        except Exception:
            pass
    elif k in ("label", "parse"):
        check_labels(ctx, B)


def its_from_json(j):
    G = graphio.to_nx(j)
    # lists inside typesGH came back as tuples, which is what the code accepts as well
    return G


def run(ctx):
    ctx.trusted = [
        "Lean 4.33 kernel; axioms of the property theorems as listed in obligation_list",
        "hand-written models SynKitModel/Repr.lean and SynKitModel/Gml.lean, tied to /repo by this correspondence run",
        "RDKit: SMILES parsing/printing, sanitisation, aromaticity perception, canonical SMILES (a molecule is its atom/bond table; "
        "canonical SMILES with stereo stripped decides 'same molecule')",
        "Driver/Repr.lean JSON codec, harness/graphio.py encoder, this adapter and its canonicalisation (nodes by id, edges unordered)",
        "text <-> token layer of GML (Rule.text / parseText) is executable model code checked against the implementation on every "
        "export, not covered by a theorem",
        "match.iso (model enumerator SynKitModel/Match.lean) decides equivalence of re-indexed rules",
    ]
    ctx.assumptions = [
        "molecule graphs carry hcount/charge/atom_map as integers (or not at all) and no typesGH; h_to_explicit is modelled for "
        "nodes=None, its=False; GML export for explicit_hydrogen=False",
        "ITS graphs have the shape ITSGraph/get_rc produce (ItsShape): typesGH rows with equal element strings over [A-Za-z*], integer "
        "charges, element/charge repeating the reactant side, order pairs over {0,1,1.5,2,3} not both 0; counted when it fails",
        "hydrogen-count preservation of h_to_implicit and of implicit_hydrogen is gated only when hydrogens are monovalent and carry no "
        "count (HValence), the round trip only under the guard NoHeavyBoundH of the theorem; 'a hydrogen without heavy neighbour is kept "
        "unchanged by implicit_hydrogen' is gated on every graph the function accepts",
    ]
    ctx.gen_rule = (
        "regression corpus first; (a) every vendored molecule (corpus/c10_molecules.txt: charged, aromatic, hetero-aromatic, "
        "organometallic, explicit-H and stereo spellings) + the unmapped fragments of the vendored corpus reactions (sample in quick, "
        "all in thorough) + mapped reaction sides; (b) the graphs of (a) + mapped sides with non-contiguous ids + random synthetic "
        "graphs with hydrogens in odd places (H-H, bridging, with own count, isolated, missing/negative counts) + molecule-like graphs "
        "with bonded explicit hydrogens and 1-3 free hydrogen species (H, H+, H-, H2) with own atom maps (quick 120, thorough 1200; "
        "implicit_hydrogen is called with a random subset of the hydrogens' atom maps) + ALL graphs with <=2 "
        "(quick) / <=3 (thorough) nodes over 5 labels; (c) all element x charge labels -12..12, a malformed-label stream, the ITS and "
        "centre of corpus reactions and of their renumberings, random synthetic ITS graphs with multiple and changing charges, each "
        "exported core/full x reindex on/off; (d) five export routes x reindex for corpus reactions and one renumbering each.")
    ctx.nontrivial_rule = ("distinct by input (SMILES string / canonical graph / reaction string); molecules with >=2 atoms, hydrogen "
                           "graphs with non-zero total hydrogen count, ITS graphs and reactions with >=1 centre bond, labels with non-zero charge")
    import os
    if os.environ.get("C10_DEV_SKIP_AUDIT") != "1":
        build_and_audit(ctx, ["SynKitProofs.Props.C10"], "SynKitProofs/Audit/C10.lean", THEOREMS)

    import logging
    logging.disable(logging.CRITICAL)
    rnd = ctx.rnd
    B = Batch(ctx)
    reg = load_regress()
    for c in reg:
        run_case(ctx, B, c)
    B.run()
    ctx.count("regress_cases", len(reg))

    reactions = load_reactions()
    mols = load_molecules()
    rmols = reaction_molecules(reactions)
    ctx.count("population:vendored_molecules", len(mols))
    ctx.count("population:reaction_fragments", len(rmols))
    ctx.count("population:reactions", len(reactions))

    # ---- (a) + (b) on molecules
    pop = [(s, "vendored") for s in mols]
    rsel = rmols if not ctx.quick else rnd.sample(rmols, min(120, len(rmols)))
    pop += [(s, "corpus-fragment") for s in rsel]
    for s, tag in pop:
        g = check_smiles(ctx, B, s, tag)
        if g is not None:
            check_hgraph(ctx, B, g, "molecule", smiles=s)
        if len(ctx.violations) >= 12:
            break
    B.run()
    from synkit.IO.chem_converter import smiles_to_graph
    for side in mapped_sides(reactions, rnd, 40 if ctx.quick else 300):
        g = check_smiles(ctx, B, side, "mapped-side")
        gm = smiles_to_graph(side, drop_non_aam=True, use_index_as_atom_map=True)
        if gm is not None and gm.number_of_nodes():
            check_hgraph(ctx, B, gm, "mapped-side-ids")
    B.run()
    # ---- (b) synthetic and tiny-exhaustive
    for _ in range(400 if ctx.quick else 4000):
        check_hgraph(ctx, B, synth_hgraph(rnd), "synthetic")
        if len(ctx.violations) >= 12:
            break
    B.run()
    # free hydrogen species (H, H+, H-, H2) next to a molecule with bonded explicit hydrogens: drives the branch of
    # implicit_hydrogen that keeps a non-preserved hydrogen without heavy neighbour (F29) on graphs where the count gate applies
    for _ in range(120 if ctx.quick else 1200):
        check_hgraph(ctx, B, synth_free_hgraph(rnd), "synthetic-free-hydrogens")
        if len(ctx.violations) >= 12:
            break
    B.run()
    nmax = 2 if ctx.quick else 3
    for G in tiny_hgraphs(nmax):
        check_hgraph(ctx, B, G, "tiny-exhaustive")
        if len(B.reqs) > 20000:
            B.run()
        if len(ctx.violations) >= 12:
            break
    B.run()
    ctx.extra["exhaustive"] = False
    ctx.extra["exhaustive_part"] = f"all hydrogen graphs with <= {nmax} nodes over labels C/0, C/2, H/0, H/1, O/no-count and all edge sets"
    nv = len(ctx.violations)

    # ---- (c) labels, ITS graphs
    check_labels(ctx, B)
    B.run()
    from synkit.IO.chem_converter import rsmi_to_its
    rsel = reactions if not ctx.quick else rnd.sample(reactions, 45)
    for src, rs in rsel:
        for variant in ([rs] if ctx.quick and rnd.random() < 0.5 else [rs, renumber(rs, rnd)]):
            try:
                its = rsmi_to_its(variant)
            except Exception:
                ctx.count("c:rsmi_to_its_error")
                continue
            check_its(ctx, B, its, "corpus-its", f"{src} {variant[:120]}")
        if len(ctx.violations) - nv >= 8:
            break
        if len(B.reqs) > 4000:
            B.run()
    B.run()
    for _ in range(150 if ctx.quick else 1500):
        I, _, _ = synth_its(rnd)
        check_its(ctx, B, I, "synthetic-its", None)
        if len(ctx.violations) - nv >= 8:
            break
        if len(B.reqs) > 4000:
            B.run()
    B.run()
    nv2 = len(ctx.violations)

    # ---- (d) routes
    rsel = reactions if not ctx.quick else rnd.sample(reactions, 35)
    for src, rs in rsel:
        base = check_routes(ctx, B, rs, src)
        B.run()
        if base is not None:
            check_routes(ctx, B, renumber(rs, rnd), src + " renumbered", base_view=base)
        if len(ctx.violations) - nv2 >= 6:
            break
    B.run()
    ctx.obligation("correspondence (a): smiles_to_graph / graph_to_mol = model; canonical SMILES unchanged", VS["a"] == 0)
    ctx.obligation("correspondence (b): hydrogen conversions = model; total H, restoration under the guard, molecule unchanged", VS["b"] == 0)
    ctx.obligation("correspondence (c): labels, GML writer/reader = model; ITS -> GML -> ITS keeps atoms, charges, order pairs", VS["c"] == 0)
    ctx.obligation("correspondence (d): export routes pairwise equivalent after re-import, also across renumberings", VS["d"] == 0)


def replay(ctx, case):
    import logging
    logging.disable(logging.CRITICAL)
    B = Batch(ctx)
    run_case(ctx, B, case["case"] if "case" in case else case)
    B.run()

"""C10 — changing representation (SMILES <-> graph, explicit <-> implicit H, ITS <-> GML) loses nothing.

Lean side: SynKitModel/Repr.lean (molecule table <-> graph, hydrogens), SynKitModel/Gml.lean (GML
writer/reader at token level + the ITS helpers the entry points call), theorems in
SynKitProofs/Props/C10.lean.  This file ties the model to the working tree:

 (a) SMILES -> graph -> SMILES over the molecule population: RDKit's atom/bond table is read
     before and after; `smiles_to_graph` = model `molToGraph` on the table, `graph_to_mol`
     (unsanitised) = model `graphToMol`; the specification gate is equality of canonical SMILES
     with stereo stripped (RDKit trusted).
 (b) `h_to_explicit`, `h_to_implicit`, `implicit_hydrogen`, `has_XH`, `has_HH` impl = model on
     molecule graphs, synthetic graphs and all tiny graphs; the specification (total hydrogen
     count, restoration under the guard of the theorem, molecule unchanged) is evaluated by the
     Lean driver on what the implementation returned.
 (c) GML: writer impl = model (items per section), reader impl = model (left/right/ITS graphs),
     text format stable, and `gml_to_its(its_to_gml(I))` has the same atoms, charges and order
     pairs as I (Lean `ruleEqb`, or `match.iso` on the rule views when ids are re-indexed).
 (d) the export routes `smart_to_gml(rsmi)`, `its_to_gml(full ITS, core=True)`,
     `its_to_gml(centre)` (and full export both ways) give pairwise isomorphic rules after
     re-import, also across renumberings of the atom maps.

Coverage-gap streams (a2/b2/c2/d2; model: SynKitModel/ReprOpt.lean): the non-default options and the
alternative entry points of the same functions - `use_index_as_atom_map` / `drop_non_aam` on partially
mapped molecules, attribute selection / `attr_profile` / `with_topology`, the legacy
`MolToGraph.mol_to_graph` (light-weight and detailed), `graph_to_mol(use_h_count=False)`,
`graph_to_smi(preserve_atom_maps=...)`, `graph_to_rsmi`; `h_to_explicit(G, nodes, its)`,
`implicit_hydrogen(reindex=True)`, `rsmi_to_its(explicit_hydrogen=True / core=True)`; the GML writer
with `explicit_hydrogen=True` and a rule name, GML text written by someone else (context edges, other
line order); reactions with unmapped atoms, a reaction SMARTS as input (`useSmiles=False`).
"""
import copy
import itertools
import json
import re

from ..core import ROOT, build_and_audit
from .. import graphio

THEOREMS = [
    "SynKit.Repr.graphToMol_molToGraph",
    "SynKit.Repr.hToImplicit_hToExplicit",
    "SynKit.Repr.totalH_hToExplicit",
    "SynKit.Repr.totalH_roundtrip_partial",
    "SynKit.Repr.hasXH_false_iff",
    "SynKit.Gml.label_roundtrip",
    "SynKit.Gml.orderLabel_roundtrip",
    "SynKit.Gml.gml_roundtrip_partial",
    "SynKit.Gml.gml_two_ways_core",
    "SynKit.Gml.gml_two_ways_full_is_centre",
    "SynKit.Gml.gml_two_ways_centre_partial",
    "SynKit.Repr.totalH_hToImplicit",
    "SynKit.Gml.getRc_idem",
    "SynKit.Gml.gml_two_ways_centre",
    "SynKit.Gml.gml_roundtrip",
    "SynKit.Gml.gml_roundtrip_reindexed",
    "SynKit.Gml.gml_smart_roundtrip",
    "SynKit.Gml.gml_two_ways_full",
    "SynKit.C10.clauses_1_to_9",
    "SynKit.C10.last_clause_needs_molShape",
    "SynKit.C10.fullStatementMol",
    "SynKit.Repr.totalH_implicitHydrogen",
    "SynKit.Repr.implicitHydrogen_free_hydrogen_stays",
    "SynKit.ReprOpt.hToExplicitG_totalH",
    "SynKit.ReprOpt.hToExplicitG_closed_form",
    "SynKit.ReprOpt.hToExplicitG_all",
    "SynKit.ReprOpt.hToExplicitG_restores",
    "SynKit.ReprOpt.implicitHydrogenReindex_relabel",
    "SynKit.ReprOpt.totalH_implicitHydrogenReindex",
    "SynKit.ReprOpt.molToGraphOpt_default",
    "SynKit.ReprOpt.molToGraphOpt_useIdx",
    "SynKit.ReprOpt.molToGraphOpt_drop",
    "SynKit.ReprOpt.itsToGmlX_false",
    "SynKit.ReprOpt.itsToGmlX_roundtrip_partial",
    "SynKit.ReprOpt.itsToGmlX_roundtrip_reindex",
    "SynKit.ReprOpt.itsToGmlX_roundtrip",
]

NODE_KEYS = ["element", "aromatic", "hcount", "charge", "neighbors", "atom_map"]


# ------------------------------------------------------------------ canonical forms
def canon_graph(j, node_keys=None, edge_keys=None):
    """JSON graph -> (sorted nodes, sorted undirected edges); attribute dicts restricted to keys."""
    def sel(a, keys):
        return {k: v for k, v in sorted(a.items()) if keys is None or k in keys}
    nodes = sorted([n, sel(a, node_keys)] for n, a in j["nodes"])
    edges = sorted([min(u, v), max(u, v), sel(a, edge_keys)] for u, v, a in j["edges"])
    return {"nodes": nodes, "edges": edges}


def node_order(j):
    return [n for n, _ in j["nodes"]]


def enc(G):
    return graphio.graph(G)


def norm_items(rule):
    """rule items per section as sorted lists; an edge is unordered."""
    out = {}
    for sec in ("left", "context", "right"):
        items = []
        for it in rule[sec]:
            if it[0] == "n":
                items.append(["n", it[1], it[2]])
            else:
                items.append(["e", min(it[1], it[2]), max(it[1], it[2]), it[3]])
        out[sec] = sorted(items, key=json.dumps)
    return out


# ------------------------------------------------------------------ RDKit table
def rd():
    from rdkit import Chem, RDLogger
    RDLogger.DisableLog("rdApp.*")
    return Chem


def table(mol):
    return {
        "atoms": [{"element": a.GetSymbol(), "charge": a.GetFormalCharge(), "atom_map": a.GetAtomMapNum(),
                   "hcount": a.GetTotalNumHs(), "aromatic": bool(a.GetIsAromatic())} for a in mol.GetAtoms()],
        "bonds": [[b.GetBeginAtomIdx(), b.GetEndAtomIdx(), int(round(b.GetBondTypeAsDouble() * 2))] for b in mol.GetBonds()],
    }


def table_out(mol):
    return {
        "atoms": [{"element": a.GetSymbol(), "charge": a.GetFormalCharge(), "atom_map": a.GetAtomMapNum(),
                   "hcount": (a.GetNumExplicitHs() if a.GetNoImplicit() else None)} for a in mol.GetAtoms()],
        "bonds": [[b.GetBeginAtomIdx(), b.GetEndAtomIdx(), int(round(b.GetBondTypeAsDouble() * 2))] for b in mol.GetBonds()],
    }


def can_smiles(s, remove_hs=True):
    Chem = rd()
    m = Chem.MolFromSmiles(s) if remove_hs else Chem.MolFromSmiles(s, sanitize=True)
    if m is None:
        return None
    return Chem.MolToSmiles(m, isomericSmiles=False)


# ------------------------------------------------------------------ corpora
def load_molecules():
    f = ROOT / "corpus" / "c10_molecules.txt"
    return [l.strip() for l in f.read_text().splitlines() if l.strip() and not l.startswith("#")]


def load_reactions():
    f = ROOT / "corpus" / "c10_reactions.txt"
    out = []
    for l in f.read_text().splitlines():
        if not l.strip() or l.startswith("#"):
            continue
        src, rs = l.split("\t")
        out.append((src, rs.strip()))
    return out


def reaction_molecules(reactions):
    """unmapped fragments of the corpus reactions (canonical, stereo kept as written by RDKit)."""
    Chem = rd()
    seen, out = set(), []
    for _, rs in reactions:
        for side in rs.split(">>"):
            for frag in side.split("."):
                m = Chem.MolFromSmiles(frag)
                if m is None or m.GetNumAtoms() == 0:
                    continue
                for a in m.GetAtoms():
                    a.SetAtomMapNum(0)
                s = Chem.MolToSmiles(m)
                if s not in seen:
                    seen.add(s)
                    out.append(s)
    return out


def renumber(rsmi, rnd):
    maps = sorted({int(x) for x in re.findall(r":(\d+)\]", rsmi)})
    perm = maps[:]
    rnd.shuffle(perm)
    # spread the numbers so that ids are not contiguous either
    off = rnd.choice([0, 0, 3, 17])
    table_ = {a: b + off for a, b in zip(maps, perm)}
    return re.sub(r":(\d+)\]", lambda m: f":{table_[int(m.group(1))]}]", rsmi)


# ------------------------------------------------------------------ batch of Lean requests
class Batch:
    def __init__(self, ctx):
        self.ctx = ctx
        self.reqs = []
        self.cbs = []

    def add(self, req, cb):
        self.reqs.append(req)
        self.cbs.append(cb)

    def run(self):
        while self.reqs:
            reqs, cbs = self.reqs, self.cbs
            self.reqs, self.cbs = [], []
            reps = self.ctx.lean().ok(reqs, shards=8)
            for rep, cb in zip(reps, cbs):
                cb(rep)


VS = {"a": 0, "b": 0, "c": 0, "d": 0}


def V(ctx, stream, what, case, detail=None, no_input=False):
    VS[stream] += 1
    ctx.violation(what, case, detail, no_input=no_input)


def is_err(rep):
    return isinstance(rep, dict) and "err" in rep


# ------------------------------------------------------------------ (a) SMILES <-> graph
def check_smiles(ctx, B, s, tag):
    from synkit.IO.chem_converter import smiles_to_graph, graph_to_smi
    from synkit.IO.graph_to_mol import GraphToMol
    Chem = rd()
    case = {"kind": "smiles", "smiles": s}
    mol = Chem.MolFromSmiles(s, sanitize=False)
    if mol is None:
        ctx.count("a:unparsable")
        return None
    try:
        Chem.SanitizeMol(mol)
    except Exception:
        ctx.count("a:unsanitisable")
        return None
    if mol.GetNumAtoms() == 0:
        ctx.count("a:empty_molecule_skipped")
        return None
    T = table(mol)
    g = smiles_to_graph(s)
    if g is None:
        V(ctx, "a", "smiles_to_graph returned None for a sanitisable molecule", case)
        return None
    ctx.count("a:molecules")
    ctx.count("a:aromatic" if any(a["aromatic"] for a in T["atoms"]) else "a:non_aromatic")
    if any(a["charge"] for a in T["atoms"]):
        ctx.count("a:charged")
    if any(a["atom_map"] for a in T["atoms"]):
        ctx.count("a:mapped")
    if any(a["element"] == "H" for a in T["atoms"]):
        ctx.count("a:explicit_H_atoms")
    ctx.case(["smiles", s], nontrivial=len(T["atoms"]) >= 2, sample={"stream": tag, "smiles": s})
    # specification: canonical SMILES (stereo stripped) unchanged
    s2 = graph_to_smi(g)
    c1 = Chem.MolToSmiles(Chem.MolFromSmiles(s), isomericSmiles=False)
    c2 = None
    if s2 is not None:
        m2 = Chem.MolFromSmiles(s2)
        c2 = Chem.MolToSmiles(m2, isomericSmiles=False) if m2 is not None else None
    spec_ok = c1 == c2
    if not spec_ok:
        V(ctx, "a", "SMILES -> graph -> SMILES changed the molecule (canonical SMILES, stereo stripped)", case,
                      {"canonical_in": c1, "graph_to_smi": s2, "canonical_out": c2})
        return g
    # table after the round trip, RDKit's own re-perception included
    try:
        mo2 = GraphToMol().graph_to_mol(g, sanitize=True, use_h_count=True)
        def nt(t):
            return (t["atoms"], sorted([min(a, b), max(a, b), o] for a, b, o in t["bonds"]))
        if nt(table(mo2)) == nt(T):
            ctx.count("a:table_identical_after_roundtrip")
        else:
            ctx.count("a:table_differs_but_same_canonical_smiles")
    except Exception:
        ctx.count("a:table_recheck_failed")
    # impl = model: table -> graph
    gj = enc(g)

    def cb_graph(rep):
        if canon_graph(rep) != canon_graph(gj) or node_order(rep) != node_order(gj):
            V(ctx, "a", "smiles_to_graph differs from model molToGraph on RDKit's atom/bond table", case,
                          {"impl": canon_graph(gj), "model": canon_graph(rep)}, no_input=True)
    B.add({"cmd": "repr.molToGraph", "mol": T}, cb_graph)
    # impl = model: graph -> table handed to RDKit
    mo = GraphToMol().graph_to_mol(g, sanitize=False, use_h_count=True)
    to = table_out(mo)

    def cb_mol(rep):
        if rep != to:
            V(ctx, "a", "graph_to_mol (before sanitisation) differs from model graphToMol", case,
                          {"impl": to, "model": rep}, no_input=True)
    B.add({"cmd": "repr.graphToMol", "graph": gj}, cb_mol)

    def cb_rt(rep):
        ctx.count("a:table_wf" if rep["wf"] else "a:table_not_wf")
        if rep["wf"] and not rep["same"]:
            V(ctx, "a", "model table round trip fails on a well-formed table (theorem graphToMol_molToGraph contradicted)", case, no_input=True)
    B.add({"cmd": "repr.roundtrip", "mol": T}, cb_rt)
    return g


# ------------------------------------------------------------------ (b) hydrogens
def impl_h(fn, G, *args):
    """call an implementation function on a deep copy; -> (json graph | {'err':..}, mutated?)"""
    Gc = copy.deepcopy(G)
    before = enc(Gc)
    try:
        out = enc(fn(Gc, *args))
    except KeyError:
        out = {"err": "KeyError"}
    except TypeError:
        out = {"err": "TypeError"}
    return out, enc(Gc) != before


def h_equal(a, b):
    if is_err(a) or is_err(b):
        return a == b
    return canon_graph(a) == canon_graph(b) and node_order(a) == node_order(b)


def check_hgraph(ctx, B, G, tag, smiles=None, collect=None, pres=None):
    """`pres`: the preserve_atom_maps list for implicit_hydrogen; drawn from the run PRNG when None (each atom map of a hydrogen
    node with probability 1/2) and recorded in the case, so that a replay uses the same list."""
    from synkit.Graph.Hyrogen._misc import h_to_explicit, h_to_implicit, implicit_hydrogen, has_XH, has_HH
    gj = enc(G)
    case = {"kind": "hgraph", "graph": gj, **({"smiles": smiles} if smiles else {})}
    E, _ = impl_h(h_to_explicit, G)
    I, _ = impl_h(h_to_implicit, G)
    if is_err(E) or is_err(I):
        ctx.count("b:impl_error")
        return
    IE, _ = impl_h(h_to_implicit, graphio.to_nx(E))
    hmaps = sorted({d.get("atom_map") for _, d in G.nodes(data=True) if d.get("element") == "H" and isinstance(d.get("atom_map"), int) and d.get("atom_map") >= 0})
    if pres is None:
        pres = [m for m in hmaps if ctx.rnd.random() < 0.5]
    else:
        pres = sorted({int(m) for m in pres})
    case["preserve"] = pres
    P, mutated = impl_h(lambda g_: implicit_hydrogen(g_, set(pres)), G)
    # shape of the input w.r.t. implicit_hydrogen (decided here from the input graph, never by the code under test): hydrogens
    # that are not preserved and are bonded to a heavy atom are folded; those without heavy neighbour (no bond at all / bonded
    # to hydrogens only: H, H+, H-, H2) must stay (F29, draft fix 0022)
    def _is_h(n):
        return G.nodes[n].get("element") == "H"
    h_np = [n for n in G.nodes if _is_h(n) and not (isinstance(G.nodes[n].get("atom_map"), int) and G.nodes[n].get("atom_map") in pres)]
    h_free = [n for n in h_np if G.degree(n) == 0]
    h_hh = [n for n in h_np if G.degree(n) > 0 and all(_is_h(m) for m in G.neighbors(n))]
    h_fold = [n for n in h_np if any(not _is_h(m) for m in G.neighbors(n))]
    if mutated:
        ctx.count("b:implicit_hydrogen_mutates_its_input(recorded,not gated)")
    xh, hh = bool(has_XH(G)), bool(has_HH(G))
    state = {"viol": False}

    def bad(what, detail, no_input=False):
        if not state["viol"]:
            state["viol"] = True
            if collect is not None:
                collect.append((what, detail, no_input))
            else:
                V(ctx, "b", what, shrink_hgraph(ctx, G, case) if not no_input else case, detail, no_input=no_input)

    info = {}

    def cb_info(name):
        def cb(rep):
            info[name] = rep
        return cb
    for name, j in (("g", gj), ("E", E), ("I", I), ("IE", IE)) + ((("P", P),) if not is_err(P) else ()):
        B.add({"cmd": "h.info", "graph": j}, cb_info(name))
    models = {}

    def cb_model(name):
        def cb(rep):
            models[name] = rep
        return cb
    B.add({"cmd": "h.explicit", "graph": gj}, cb_model("E"))
    B.add({"cmd": "h.implicit", "graph": gj}, cb_model("I"))
    B.add({"cmd": "h.implicit", "graph": E}, cb_model("IE"))
    B.add({"cmd": "h.implicitHydrogen", "graph": gj, "preserve": pres}, cb_model("P"))

    def final(_rep):
        ig = info["g"]
        nH = sum(1 for _, d in G.nodes(data=True) if d.get("element") == "H")
        ctx.count(f"b:{tag}")
        ctx.count("b:guard_holds" if ig["guard"] else "b:guard_fails")
        ctx.count("b:valence_holds" if ig["valence"] else "b:valence_fails")
        if not ig["typed"]:
            ctx.count("b:outside_domain")
        ctx.case(["hgraph", canon_graph(gj)], nontrivial=(ig["totalH"] != 0 and G.number_of_nodes() >= 1),
                 sample={"stream": tag, "graph": gj} if G.number_of_nodes() <= 3 else None)
        if not ig["typed"] or not ig["wf"]:
            return
        # ---- specification on what the implementation returned
        if info["E"]["totalH"] != ig["totalH"]:
            bad("h_to_explicit changes the total hydrogen count", {"before": ig["totalH"], "after": info["E"]["totalH"]})
        if ig["valence"] and info["I"]["totalH"] != ig["totalH"]:
            bad("h_to_implicit changes the total hydrogen count", {"before": ig["totalH"], "after": info["I"]["totalH"]})
        if info["E"]["valence"] and info["IE"]["totalH"] != info["E"]["totalH"]:
            bad("h_to_implicit(h_to_explicit(g)) changes the total hydrogen count",
                {"before": info["E"]["totalH"], "after": info["IE"]["totalH"]})
        if ig["guard"] and not h_equal(IE, gj):
            bad("h_to_implicit(h_to_explicit(g)) does not restore g although no explicit hydrogen is bonded to a heavy atom",
                {"g": canon_graph(gj), "back": canon_graph(IE)})
        if (xh, hh) != (ig["hasXH"], ig["hasHH"]):
            bad("has_XH / has_HH differ from the model", {"impl": [xh, hh], "model": [ig["hasXH"], ig["hasHH"]]})
        if not is_err(P):
            ctx.count("b:implicit_hydrogen:calls")
            if h_free:
                ctx.count("b:implicit_hydrogen:non-preserved hydrogen without any bond (must stay; F29)")
            if h_hh:
                ctx.count("b:implicit_hydrogen:non-preserved hydrogen bonded to hydrogens only (must stay; F29)")
            if h_fold:
                ctx.count("b:implicit_hydrogen:non-preserved hydrogen bonded to a heavy atom (folded)")
            if (h_free or h_hh) and h_fold:
                ctx.count("b:implicit_hydrogen:folded and free non-preserved hydrogens in one graph")
            # theorem implicitHydrogen_free_hydrogen_stays: a hydrogen without heavy neighbour is kept with all its attributes
            pn = {n: a for n, a in P["nodes"]}
            gn = {n: a for n, a in gj["nodes"]}
            lost = [n for n in h_free + h_hh if n not in pn]
            altered = [n for n in h_free + h_hh if n in pn and pn[n] != gn[n]]
            if lost or altered:
                bad("implicit_hydrogen removes / alters a hydrogen that has no heavy neighbour (it was not folded into any hydrogen count)",
                    {"preserve": pres, "removed": sorted(lost), "altered": sorted(altered)})
            # theorem totalH_implicitHydrogen: under the valence guard the total hydrogen count is kept, for every preserve list
            if "P" in info and ig["valence"] and info["P"]["totalH"] != ig["totalH"]:
                bad("implicit_hydrogen changes the total hydrogen count although hydrogens are monovalent and carry no count",
                    {"preserve": pres, "before": ig["totalH"], "after": info["P"]["totalH"]})
        # ---- impl = model
        for name, impl in (("E", E), ("I", I), ("IE", IE), ("P", P)):
            mod = models[name]
            if is_err(mod) and mod["err"] == "unsupported":
                ctx.count("b:model_unsupported")
                continue
            if not h_equal(impl, mod):
                what = {"E": "h_to_explicit", "I": "h_to_implicit", "IE": "h_to_implicit after h_to_explicit",
                        "P": "implicit_hydrogen"}[name]
                bad(f"{what} differs from the model", {"impl": impl if is_err(impl) else canon_graph(impl),
                                                      "model": mod if is_err(mod) else canon_graph(mod), "preserve": pres},
                    no_input=True)
        if nH:
            ctx.count("b:with_explicit_H_nodes")
    B.add({"cmd": "h.info", "graph": gj}, final)
    # molecule unchanged (RDKit trusted), only for graphs that come from a molecule
    if smiles is not None:
        from synkit.IO.chem_converter import graph_to_smi
        c0 = can_smiles(smiles)
        for name, j in (("explicit", E), ("explicit->implicit", IE)):
            se = graph_to_smi(graphio.to_nx(j))
            c = can_smiles(se) if se is not None else None
            if c != c0:
                # F18: H2 / H+ vanish; reported through the graph-level gate as well
                bad(f"the molecule changed after making hydrogens {name}", {"smiles": smiles, "before": c0, "after": c, "raw": se})


def hgraph_fails(ctx, G, pres=None):
    """re-evaluate one graph in isolation -> True when any gate fires (used by the shrinker)."""
    col = []
    B = Batch(ctx)
    saved = (ctx.evaluations, set(ctx._distinct), dict(ctx.counters), list(ctx.samples))
    st = ctx.rnd.getstate()
    check_hgraph(ctx, B, G, "shrink", collect=col, pres=pres)
    B.run()
    ctx.rnd.setstate(st)
    ctx.evaluations, ctx._distinct, ctx.counters, ctx.samples = saved[0], saved[1], saved[2], saved[3]
    return bool(col)


def shrink_hgraph(ctx, G, case):
    G = copy.deepcopy(G)
    changed = True
    budget = 60
    while changed and budget > 0:
        changed = False
        for n in list(G.nodes()):
            budget -= 1
            if budget <= 0:
                break
            H = copy.deepcopy(G)
            H.remove_node(n)
            if H.number_of_nodes() and hgraph_fails(ctx, H, case.get("preserve")):
                G = H
                changed = True
    return {"kind": "hgraph", "graph": enc(G), **({"preserve": case["preserve"]} if "preserve" in case else {}),
            **({"smiles": case["smiles"]} if "smiles" in case and G.number_of_nodes() == len(case["graph"]["nodes"]) else {})}


def synth_free_hgraph(rnd):
    """A molecule-like graph on which the hydrogen-count gate of implicit_hydrogen applies (hydrogens monovalent, no count of their
    own): a short heavy-atom chain, explicit hydrogens bonded to it, and 1-3 free hydrogen species next to it - H, H+, H- without
    any bond, or H2 - all with their own atom maps, so that the random preserve list names some of them and not others."""
    import networkx as nx
    G = nx.Graph()
    nid = [0]

    def add(el, charge=0, hcount=0):
        nid[0] += rnd.choice([1, 1, 1, 2, 5])
        G.add_node(nid[0], element=el, aromatic=False, charge=charge, hcount=hcount, atom_map=nid[0] if rnd.random() < 0.85 else 0)
        return nid[0]
    heavy = []
    for _ in range(rnd.randint(0, 3)):
        v = add(rnd.choice(["C", "C", "N", "O", "Cl"]), charge=rnd.choice([0, 0, 0, 1, -1]), hcount=rnd.choice([0, 0, 1, 2]))
        if heavy:
            G.add_edge(heavy[-1], v, order=rnd.choice([1.0, 1.0, 2.0]))
        heavy.append(v)
    for v in heavy:
        for _ in range(rnd.choice([0, 0, 1, 2])):
            G.add_edge(v, add("H"), order=1.0)
    for _ in range(rnd.randint(1, 3)):
        if rnd.random() < 0.4:
            G.add_edge(add("H"), add("H"), order=1.0)
        else:
            add("H", charge=rnd.choice([0, 1, 1, -1]))
    if rnd.random() < 0.5:                      # node order is not the id order
        order = list(G.nodes)
        rnd.shuffle(order)
        H = nx.Graph()
        H.add_nodes_from((n, G.nodes[n]) for n in order)
        es = list(G.edges(data=True))
        rnd.shuffle(es)
        H.add_edges_from((v, u, d) if rnd.random() < 0.5 else (u, v, d) for u, v, d in es)
        G = H
    return G


def synth_hgraph(rnd):
    import networkx as nx
    G = nx.Graph()
    n = rnd.randint(1, 7)
    ids = rnd.sample(range(1, 30), n) if rnd.random() < 0.5 else list(range(1, n + 1))
    for i in ids:
        el = rnd.choice(["C", "C", "N", "O", "H", "H", "H", "Cl"])
        d = {"element": el, "aromatic": False, "charge": rnd.choice([0, 0, 0, 1, -1]), "atom_map": rnd.choice([0, i])}
        r = rnd.random()
        if el == "H":
            d["hcount"] = 0 if r < 0.85 else rnd.choice([1, 2, -1])
        elif r < 0.8:
            d["hcount"] = rnd.choice([0, 0, 1, 2, 3])
        elif r < 0.9:
            d["hcount"] = rnd.choice([-1, -2])
        # else: no hcount key
        G.add_node(i, **d)
    for i, j in itertools.combinations(ids, 2):
        if rnd.random() < 0.35:
            G.add_edge(i, j, order=rnd.choice([1.0, 1.0, 2.0, 1.5]))
    return G


def tiny_hgraphs(nmax):
    import networkx as nx
    for n in range(1, nmax + 1):
        pairs = list(itertools.combinations(range(1, n + 1), 2))
        labels = [("C", 0), ("C", 2), ("H", 0), ("H", 1), ("O", None)]
        for lab in itertools.product(labels, repeat=n):
            for mask in range(1 << len(pairs)):
                G = nx.Graph()
                for i, (el, hc) in enumerate(lab, 1):
                    d = {"element": el, "aromatic": False, "charge": 0, "atom_map": i}
                    if hc is not None:
                        d["hcount"] = hc
                    G.add_node(i, **d)
                for k, (i, j) in enumerate(pairs):
                    if mask >> k & 1:
                        G.add_edge(i, j, order=1.0)
                yield G


# ------------------------------------------------------------------ labels
ELEMS = ["C", "N", "O", "H", "Cl", "Br", "Mg", "*", "Na", "c", "Uuo", "X"]
BAD_LABELS = ["", "2+", "+", "C+2", "Cl2", "O--", "N+-", "c1", "*", "X0+", "C 1", "C12", "Fe3+", "O2-", "N10-", "C-1", "1C+",
              "C+x", "Cé", "[C]", "C.", "N+ ", "H0-", "Zn02+", "C00", "S123456789+"]


def check_labels(ctx, B):
    from synkit.IO.nx_to_gml import NXToGML
    from synkit.IO.gml_to_nx import GMLToNX
    rdr = GMLToNX("")
    for el in ELEMS:
        for c in range(-12, 13):
            impl = el + NXToGML._charge_to_string(c)
            back = rdr._extract_element_and_charge(impl)
            case = {"kind": "label", "element": el, "charge": c}
            ctx.case(["label", el, c], nontrivial=c != 0)
            ctx.count("c:labels")
            if tuple(back) != (el, c):
                V(ctx, "c", "element/charge label does not survive writing and parsing", case, {"label": impl, "parsed": list(back)})

            def cb(rep, impl=impl, case=case):
                if rep != impl:
                    V(ctx, "c", "_charge_to_string differs from the model", case, {"impl": impl, "model": rep}, no_input=True)
            B.add({"cmd": "gml.label", "element": el, "charge": c}, cb)
    for lab in BAD_LABELS + [el + NXToGML._charge_to_string(c) for el in ELEMS for c in (-11, -2, -1, 0, 1, 3, 10)]:
        impl = list(rdr._extract_element_and_charge(lab))
        ctx.count("c:parse_labels")

        def cb(rep, impl=impl, lab=lab):
            if rep != impl:
                V(ctx, "c", "_extract_element_and_charge differs from the model", {"kind": "parse", "label": lab},
                              {"impl": impl, "model": rep}, no_input=True)
        B.add({"cmd": "gml.parseLabel", "label": lab}, cb)


# ------------------------------------------------------------------ (c) GML round trip on an ITS graph
ISO_SEL = {"node_keys": ["v"], "edge_keys": ["o"], "hcount": False}


def check_its(ctx, B, I, tag, origin, rule_name=None):
    """I: an ITS graph (networkx). Exports: centre (core=True) and full (core=False), reindex both."""
    from synkit.IO.chem_converter import its_to_gml, gml_to_its
    from synkit.IO.gml_to_nx import GMLToNX
    from synkit.Graph.ITS.its_decompose import get_rc
    Ij = enc(I)
    try:
        rc = get_rc(I)
    except Exception as e:
        ctx.count("c:get_rc_error")
        return
    rcj = enc(rc)
    ctx.count(f"c:{tag}")
    ctx.case(["its", canon_graph(Ij, ["typesGH"], ["order"])], nontrivial=rc.number_of_edges() >= 1,
             sample={"stream": tag, "origin": origin} if isinstance(origin, str) else None)
    if any(d["typesGH"][0][3] != d["typesGH"][1][3] for _, d in rc.nodes(data=True) if "typesGH" in d):
        ctx.count("c:centre_with_charge_change")
    if any(abs(c) >= 2 for _, d in I.nodes(data=True) if "typesGH" in d for c in (d["typesGH"][0][3], d["typesGH"][1][3]) if isinstance(c, int)):
        ctx.count("c:with_multiple_charge")

    def cb_rc(rep):
        if canon_graph(rep, ["element", "charge", "typesGH", "atom_map"], ["order", "standard_order"]) != \
                canon_graph(rcj, ["element", "charge", "typesGH", "atom_map"], ["order", "standard_order"]) or node_order(rep) != node_order(rcj):
            V(ctx, "c", "get_rc differs from the model's getRc (as used by the GML export)", {"kind": "its", "its": Ij},
                          {"impl": canon_graph(rcj), "model": canon_graph(rep)}, no_input=True)
    B.add({"cmd": "gml.getRc", "its": Ij}, cb_rc)

    # the rule name is an argument of the export as well: drawn once per graph (recorded in the case)
    name = rule_name if rule_name is not None else ctx.rnd.choice(RULE_NAMES)
    ctx.count("c:rule_name:default" if name == "rule" else "c:rule_name:other")
    for core, src, srcj in ((True, rc, rcj), (False, I, Ij)):
        for reindex in (False, True):
            case = {"kind": "its", "its": Ij, "core": core, "reindex": reindex, "origin": origin, "rule_name": name}
            try:
                gml = its_to_gml(copy.deepcopy(I if not core else rc), core=core, rule_name=name, reindex=reindex)
                L, R, back = GMLToNX(gml).transform()
                back2 = gml_to_its(gml)
            except Exception as e:
                V(ctx, "c", "its_to_gml / gml_to_its raised", case, {"error": repr(e)})
                continue
            backj = enc(back2)
            ctx.count("c:exports")
            one_export(ctx, B, case, gml, srcj, core, reindex, enc(L), enc(R), backj, name)


def one_export(ctx, B, case, gml, srcj, core, reindex, Lj, Rj, backj, name="rule"):
    st = {}
    # writer: impl = model
    B.add({"cmd": "gml.itsToGml", "its": srcj, "core": core, "reindex": reindex}, lambda rep: st.__setitem__("w", rep))
    # reader: impl = model on the implementation's text; text format stable
    B.add({"cmd": "gml.read", "text": gml}, lambda rep: st.__setitem__("r", rep))
    B.add({"cmd": "gml.retext", "text": gml, "name": name}, lambda rep: st.__setitem__("t", rep))
    B.add({"cmd": "gml.shape", "its": srcj}, lambda rep: st.__setitem__("shape", rep))
    cand = backj
    if reindex:
        # ids were renumbered by position in the left graph; undo it with the obvious candidate map (node order of the
        # exported graph) so that large full exports need no isomorphism search; `equiv` falls back to match.iso otherwise
        inv = {i + 1: old for i, old in enumerate(node_order(srcj))}
        if sorted(inv) == sorted(node_order(backj)):
            cand = relabel_json(backj, lambda n: inv[n])

    def stage2(_):
        def finish(eq):
            ctx.count("c:shape_ok" if st["shape"] else "c:shape_fails(not gated on the round trip)")
            if not eq and st["shape"]:
                V(ctx, "c", "gml_to_its(its_to_gml(I)) differs from I in atoms, charges or (before, after) bond orders",
                              case, {"gml": gml, "back": canon_graph(backj, ["typesGH"], ["order"])})
                return
            w, r = st["w"], st["r"]
            if is_err(w) or is_err(r) or is_err(st["t"]):
                V(ctx, "c", "model could not write / read the rule", case, {"write": w if is_err(w) else None, "read": r if is_err(r) else None}, no_input=True)
                return
            if norm_items(w["rule"]) != norm_items(r["rule"]):
                V(ctx, "c", "its_to_gml writes other items than the model", case,
                              {"impl": norm_items(r["rule"]), "model": norm_items(w["rule"])}, no_input=True)
                return
            if st["t"] != gml:
                V(ctx, "c", "GML text format differs from the model's rendering of the same items", case,
                              {"impl": gml, "model": st["t"]}, no_input=True)
                return
            for name, impl, mod in (("left", Lj, r["graphs"]["left"]), ("right", Rj, r["graphs"]["right"]), ("its", backj, r["graphs"]["its"])):
                if canon_graph(impl) != canon_graph(mod):
                    V(ctx, "c", f"GMLToNX.transform ({name} graph) differs from the model reader", case,
                                  {"impl": canon_graph(impl), "model": canon_graph(mod)}, no_input=True)
                    return
        equiv(B, cand, srcj, finish)
    B.add({"cmd": "gml.shape", "its": srcj}, stage2)


def relabel_json(j, f):
    return {"nodes": [[f(n), a] for n, a in j["nodes"]], "edges": [[f(u), f(v), a] for u, v, a in j["edges"]]}


def equiv(B, aj, bj, cb, iso_limit=None, undecided=None):
    """equivalent rules: identical on ids (Lean ruleEqb), else label-preserving isomorphism of the views. With `iso_limit`, rules
    with more nodes than that are not searched (explicit-hydrogen rules have many interchangeable hydrogens): `undecided()` is
    called instead of `cb`."""
    def on_eq(rep):
        if rep:
            cb(True)
            return
        if iso_limit is not None and max(len(aj["nodes"]), len(bj["nodes"])) > iso_limit:
            if len(aj["nodes"]) != len(bj["nodes"]) or len(aj["edges"]) != len(bj["edges"]):
                cb(False)
            elif undecided is not None:
                undecided()
            return
        vs = {}
        B.add({"cmd": "gml.view", "its": aj}, lambda r: vs.__setitem__("a", r))
        B.add({"cmd": "gml.view", "its": bj}, lambda r: vs.__setitem__("b", r))
        B.add({"cmd": "gml.shape", "its": aj}, lambda _: B.add({"cmd": "match.iso", "host": vs["a"], "pattern": vs["b"], **ISO_SEL}, cb))
    B.add({"cmd": "spec.gml.ruleEq", "a": aj, "b": bj}, on_eq)


def defer(B, n, j, fn):
    """run fn after n further request rounds (so that nested specification checks have reported)."""
    if n == 0:
        fn()
    else:
        B.add({"cmd": "gml.shape", "its": {"nodes": [], "edges": []}}, lambda _: defer(B, n - 1, j, fn))


def synth_its(rnd):
    """random small reaction as (G, H) on a shared node set -> ITS via the implementation's ITSGraph."""
    import networkx as nx
    from synkit.Graph.ITS.its_construction import ITSConstruction
    n = rnd.randint(2, 7)
    ids = rnd.sample(range(1, 40), n)
    G, H = nx.Graph(), nx.Graph()
    for i in ids:
        el = rnd.choice(["C", "C", "N", "O", "H", "Cl", "Br", "Mg", "*", "S"])
        cg = rnd.choice([0, 0, 0, 1, -1, 2, -2, 3, -3, 11])
        chh = cg if rnd.random() < 0.6 else rnd.choice([0, 1, -1, 2, -2, -12])
        hg = rnd.choice([0, 1, 2, 3])
        for X, c in ((G, cg), (H, chh)):
            X.add_node(i, element=el, aromatic=False, hcount=hg, charge=c, neighbors=[], atom_map=i)
    for i, j in itertools.combinations(ids, 2):
        if rnd.random() < 0.45:
            a = rnd.choice([0, 1.0, 1.0, 2.0, 1.5, 3.0])
            b = a if rnd.random() < 0.4 else rnd.choice([0, 1.0, 2.0, 1.5, 3.0])
            if a:
                G.add_edge(i, j, order=a)
            if b:
                H.add_edge(i, j, order=b)
    return ITSConstruction().ITSGraph(G, H), G, H


# ------------------------------------------------------------------ (d) export routes
def smarts_of(rsmi):
    """(reaction SMARTS, lossless?) by RDKit; lossless = RDKit reads the SMARTS back to the same molecules on both sides (RDKit's
    SMARTS printer drops the hydrogen of an aromatic [nH], for instance: then the SMARTS is another reaction and nothing is asked)."""
    from rdkit.Chem import rdChemReactions
    Chem = rd()
    try:
        sm = rdChemReactions.ReactionToSmarts(rdChemReactions.ReactionFromSmarts(rsmi, useSmiles=True))
        rs2 = rdChemReactions.ReactionToSmiles(rdChemReactions.ReactionFromSmarts(sm, useSmiles=False))
    except Exception:
        return None, False

    def norm(x):
        out = []
        for side in x.split(">>"):
            m = Chem.MolFromSmiles(side)
            if m is None:
                return None
            out.append(Chem.MolToSmiles(m, isomericSmiles=False))
        return out
    a, b = norm(rsmi), norm(rs2)
    return sm, (a is not None and a == b)


def check_routes(ctx, B, rsmi, origin, base_view=None, extra=None):
    """-> view graph (json, via callback list) of the centre rule, for comparison across renumberings.
    `extra`: which of the additional routes are driven - None draws them from the run PRNG (and records them in the case)."""
    from synkit.IO.chem_converter import smart_to_gml, its_to_gml, gml_to_its, rsmi_to_its, rsmi_to_graph, gml_to_smart
    from synkit.Graph.ITS.its_decompose import get_rc
    if extra is None:
        extra = {"smarts": ctx.rnd.random() < 0.4, "explicit": ctx.rnd.random() < 0.4, "back": ctx.rnd.random() < 0.2,
                 "name": ctx.rnd.choice(RULE_NAMES)}
    case = {"kind": "rsmi", "rsmi": rsmi, "origin": origin, "extra": extra}
    try:
        its = rsmi_to_its(rsmi)
        rc = get_rc(its)
        r, p = rsmi_to_graph(rsmi)
    except Exception as e:
        ctx.count("d:its_error")
        return None
    if r is None or p is None:
        ctx.count("d:its_error")
        return None
    if set(r.nodes()) != set(p.nodes()) or set(its.nodes()) != set(r.nodes()):
        # precondition of the property's last clause (DESIGN App. A: FullyMapped): both sides carry the same mapped atoms
        ctx.count("d:skipped_not_fully_mapped")
        return None
    ctx.count("d:reactions")
    ctx.case(["rsmi", rsmi], nontrivial=rc.number_of_edges() >= 1, sample={"stream": "routes", "rsmi": rsmi[:200]})
    exports = {}
    try:
        for reindex in (False, True):
            exports[("smart", True, reindex)] = smart_to_gml(rsmi, core=True, reindex=reindex)
            exports[("its_full", True, reindex)] = its_to_gml(copy.deepcopy(its), core=True, reindex=reindex)
            exports[("its_centre", True, reindex)] = its_to_gml(copy.deepcopy(rc), core=True, reindex=reindex)
            exports[("smart", False, reindex)] = smart_to_gml(rsmi, core=False, reindex=reindex)
            exports[("its_full", False, reindex)] = its_to_gml(copy.deepcopy(its), core=False, reindex=reindex)
            # the centre asked from the importer itself: rsmi_to_its(rsmi, core=True)
            exports[("its_corearg", True, reindex)] = its_to_gml(rsmi_to_its(rsmi, core=True), core=True, reindex=reindex)
        if extra.get("explicit"):
            # explicit_hydrogen=True, both entry points (ids are not re-indexed: the hydrogens get the same ids on both routes)
            for core in (True, False):
                exports[("smart_x", core, False)] = smart_to_gml(rsmi, core=core, reindex=False, explicit_hydrogen=True, rule_name=extra["name"])
                exports[("its_full_x", core, False)] = its_to_gml(copy.deepcopy(its), core=core, reindex=False, explicit_hydrogen=True, rule_name=extra["name"])
        smarts_ok = False
        if extra.get("smarts"):
            sm, smarts_ok = smarts_of(rsmi)
            ctx.count("d:smarts:lossless" if smarts_ok else "d:smarts:lossy_or_unreadable(skipped)")
            if smarts_ok:
                exports[("smart_smarts", True, False)] = smart_to_gml(sm, core=True, useSmiles=False)
                exports[("smart_smarts", False, False)] = smart_to_gml(sm, core=False, useSmiles=False)
                # the hydrogen counts are part of the reaction as well: with explicit hydrogens the two strings must give rules of
                # the same size (the SMARTS text is a SMILES-readable string too, only without its hydrogens)
                exports[("smart_smarts_x", False, False)] = smart_to_gml(sm, core=False, useSmiles=False, explicit_hydrogen=True)
                exports[("smart_smiles_x", False, False)] = smart_to_gml(rsmi, core=False, explicit_hydrogen=True)
        back = {k: enc(gml_to_its(v)) for k, v in exports.items()}
        rc_arg = enc(rsmi_to_its(rsmi, core=True))
    except Exception as e:
        V(ctx, "d", "a GML export route raised", case, {"error": repr(e)})
        return None
    # GML -> reaction string -> GML: not part of the property (the rule string carries no hydrogens); executed and recorded
    rs_back = None
    if extra.get("back"):
        try:
            rs_back = gml_to_smart(exports[("smart", True, False)])
            gml_back = smart_to_gml(rs_back, core=True) if rs_back else None
            back_again = enc(gml_to_its(gml_back)) if gml_back else None
        except Exception:
            back_again = None
        ctx.count("d:gml_to_smart:calls(recorded, not gated)")
    views = {}
    # model = impl for the two entry points (items per section)
    rj, pj, itsj = enc(r), enc(p), enc(its)
    for core in (True, False):
        def cb_s(rep, core=core):
            if is_err(rep):
                return
            views[("model_smart", core)] = rep
        B.add({"cmd": "gml.smartToGml", "r": rj, "p": pj, "core": core, "reindex": False}, cb_s)
        B.add({"cmd": "gml.read", "text": exports[("smart", core, False)]}, lambda rep, core=core: views.__setitem__(("impl_smart", core), rep))
    B.add({"cmd": "gml.itsToGml", "its": itsj, "core": True, "reindex": False}, lambda rep: views.__setitem__(("model_itsfull", True), rep))
    B.add({"cmd": "gml.read", "text": exports[("its_full", True, False)]}, lambda rep: views.__setitem__(("impl_itsfull", True), rep))
    B.add({"cmd": "gml.getRc", "its": itsj}, lambda rep: views.__setitem__("model_rc", rep))
    if extra.get("explicit"):
        for core in (True, False):
            B.add({"cmd": "gml.smartToGmlX", "r": rj, "p": pj, "core": core, "reindex": False, "explicit": True, "name": extra["name"]},
                  lambda rep, core=core: views.__setitem__(("model_smart_x", core), rep))
            B.add({"cmd": "gml.read", "text": exports[("smart_x", core, False)]}, lambda rep, core=core: views.__setitem__(("impl_smart_x", core), rep))
    result = {}

    def stage2(_):
        pairs = []
        for reindex in (False, True):
            pairs += [(("smart", True, reindex), ("its_full", True, reindex), "smart_to_gml(rsmi) vs its_to_gml(full ITS, core=True)"),
                      (("smart", True, reindex), ("its_centre", True, reindex), "smart_to_gml(rsmi) vs its_to_gml(centre)"),
                      (("its_full", True, reindex), ("its_centre", True, reindex), "its_to_gml(full ITS, core=True) vs its_to_gml(centre)"),
                      (("smart", False, reindex), ("its_full", False, reindex), "smart_to_gml(rsmi, core=False) vs its_to_gml(full ITS, core=False)")]
            pairs.append((("smart", True, reindex), ("its_corearg", True, reindex), "smart_to_gml(rsmi) vs its_to_gml(rsmi_to_its(rsmi, core=True))"))
        pairs.append((("smart", True, False), ("smart", True, True), "smart_to_gml reindex=False vs reindex=True"))
        xpairs = []
        if extra.get("explicit"):
            ctx.count("d:explicit_hydrogen_routes")
            for core in (True, False):
                xpairs.append((("smart_x", core, False), ("its_full_x", core, False),
                               f"smart_to_gml(rsmi, core={core}, explicit_hydrogen=True) vs its_to_gml(full ITS, core={core}, explicit_hydrogen=True)"))
        if ("smart_smarts", True, False) in exports:
            pairs.append((("smart", True, False), ("smart_smarts", True, False), "smart_to_gml(reaction SMILES) vs smart_to_gml(reaction SMARTS, useSmiles=False)"))
            pairs.append((("smart", False, False), ("smart_smarts", False, False), "smart_to_gml(reaction SMILES, core=False) vs smart_to_gml(reaction SMARTS, core=False, useSmiles=False)"))
        if ("smart_smarts_x", False, False) in exports:
            xpairs.append((("smart_smiles_x", False, False), ("smart_smarts_x", False, False),
                           "smart_to_gml(reaction SMILES, core=False, explicit_hydrogen=True) vs smart_to_gml(reaction SMARTS, useSmiles=False, core=False, explicit_hydrogen=True)"))
        done = {"v": False}
        for a, b, what in xpairs:
            def cbx(rep, a=a, b=b, what=what):
                ctx.count("d:route_pairs")
                if not rep and not done["v"]:
                    done["v"] = True
                    V(ctx, "d", "two documented ways of producing the GML rule of a reaction give non-equivalent rules: " + what,
                      case, {"a": exports[a], "b": exports[b]})
            equiv(B, back[a], back[b], cbx, iso_limit=24, undecided=lambda: ctx.count("d:explicit_pair_undecided(ids differ, too large to search)"))
        if extra.get("back") and back_again is not None:
            equiv(B, back[("smart", True, False)], back_again,
                  lambda rep: ctx.count("d:gml_to_smart:rule survives GML -> string -> GML (recorded)" if rep else "d:gml_to_smart:rule differs after GML -> string -> GML (recorded, not gated)"))
        elif extra.get("back"):
            ctx.count("d:gml_to_smart:no string / not re-importable (recorded, not gated)")
        for a, b, what in pairs:
            def cb(rep, a=a, b=b, what=what):
                ctx.count("d:route_pairs")
                if not rep and not done["v"]:
                    done["v"] = True
                    V(ctx, "d", "two documented ways of producing the GML rule of a reaction give non-equivalent rules: " + what,
                                  case, {"a": exports[a], "b": exports[b]})
            equiv(B, back[a], back[b], cb)
        if base_view is not None and base_view.get("view") is not None:
            def cb2(rep):
                ctx.count("d:renumbering_pairs")
                if not rep:
                    V(ctx, "d", "the GML rule of a renumbered reaction is not equivalent to the rule of the original",
                                  {**case, "original": base_view["rsmi"]}, {"a": exports[("smart", True, True)]})
            equiv(B, base_view["view"], back[("smart", True, True)], cb2)
        result["view"] = back[("smart", True, True)]
        result["rsmi"] = rsmi
        def model_compare():
            # only when the specification gate is silent: then a difference is a broken correspondence, not a failing input
            if done["v"]:
                return
            mrc = views.get("model_rc")
            keys_n, keys_e = ["element", "charge", "typesGH", "atom_map"], ["order", "standard_order"]
            if mrc is not None and canon_graph(mrc, keys_n, keys_e) != canon_graph(rc_arg, keys_n, keys_e):
                V(ctx, "d", "rsmi_to_its(rsmi, core=True) differs from the model's getRc of the full ITS", case,
                  {"impl": canon_graph(rc_arg, keys_n, keys_e), "model": canon_graph(mrc, keys_n, keys_e)}, no_input=True)
                return
            for key_m, key_i, what in ((("model_smart", True), ("impl_smart", True), "smart_to_gml(core=True)"),
                                       (("model_smart", False), ("impl_smart", False), "smart_to_gml(core=False)"),
                                       (("model_itsfull", True), ("impl_itsfull", True), "its_to_gml(full ITS, core=True)"),
                                       (("model_smart_x", True), ("impl_smart_x", True), "smart_to_gml(core=True, explicit_hydrogen=True)"),
                                       (("model_smart_x", False), ("impl_smart_x", False), "smart_to_gml(core=False, explicit_hydrogen=True)")):
                if key_m[0] == "model_smart_x" and not extra.get("explicit"):
                    continue
                m, i = views.get(key_m), views.get(key_i)
                if m is None or i is None or is_err(m) or is_err(i):
                    ctx.count("d:model_compare_skipped")
                    continue
                if norm_items(m["rule"]) != norm_items(i["rule"]):
                    V(ctx, "d", f"{what} writes other items than the model", case,
                      {"impl": norm_items(i["rule"]), "model": norm_items(m["rule"])}, no_input=True)
                    return
                if key_m[0] == "model_smart_x" and f'ruleID "{extra["name"]}"' not in exports[("smart_x", key_m[1], False)]:
                    V(ctx, "d", f"{what} does not write the rule name it was given", case, {"impl": exports[("smart_x", key_m[1], False)][:200]}, no_input=True)
                    return
        defer(B, 5, itsj, model_compare)
    B.add({"cmd": "gml.shape", "its": itsj}, stage2)
    return result


# ================================================================== coverage-gap streams (options / alternative entry points)
CORE_EDGE = ["order"]
RULE_NAMES = ["rule", "R17", "my rule", "left", "node", "context 2"]


def sanitised(s):
    Chem = rd()
    mol = Chem.MolFromSmiles(s, sanitize=False)
    if mol is None:
        return None
    try:
        Chem.SanitizeMol(mol)
    except Exception:
        return None
    return mol if mol.GetNumAtoms() else None


def mol_norm(smi):
    """The molecule behind a SMILES string with its hydrogens implicit (RDKit trusted): atom maps of hydrogens are cleared and
    RemoveHs folds them into their heavy atom (H2, H+, H- have none and stay); the maps of the heavy atoms are kept; canonical
    SMILES with stereo stripped."""
    Chem = rd()
    if smi is None:
        return None
    m = Chem.MolFromSmiles(smi)
    if m is None:
        return None
    for a in m.GetAtoms():
        if a.GetAtomicNum() == 1:
            a.SetAtomMapNum(0)
    try:
        m = Chem.RemoveHs(m)
    except Exception:
        return None
    return Chem.MolToSmiles(m, isomericSmiles=False)


def core_json(G, keys=None):
    return graphio.graph(G, node_keys=NODE_KEYS if keys is None else keys, edge_keys=CORE_EDGE)


def partially_mapped(side, rnd):
    """a mapped molecule with the atom map cleared on some atoms (at least one cleared, at least one kept) and the remaining map
    numbers shifted by 0 or 60 (with 0 a map number may coincide with the index-based id of an unmapped atom: NetworkX merges the
    two nodes, the model answers `unsupported` and the case is counted)."""
    Chem = rd()
    m = Chem.MolFromSmiles(side)
    if m is None:
        return None
    mapped = [a for a in m.GetAtoms() if a.GetAtomMapNum()]
    if len(mapped) < 2:
        return None
    off = rnd.choice([0, 60, 60])
    clear = [a for a in mapped if rnd.random() < 0.35]
    if not clear:
        clear = [rnd.choice(mapped)]
    if len(clear) == len(mapped):
        clear = clear[1:]
    ids = {a.GetIdx() for a in clear}
    for a in mapped:
        a.SetAtomMapNum(0 if a.GetIdx() in ids else a.GetAtomMapNum() + off)
    return Chem.MolToSmiles(m)


MOL_VARIANTS = [
    ("MolToGraph(attr_profile='full').transform", dict(attr_profile="full"), NODE_KEYS),
    ("MolToGraph(node_attrs=None, edge_attrs=None).transform", dict(), NODE_KEYS),
    ("MolToGraph(with_topology=True).transform", dict(node_attrs=NODE_KEYS, edge_attrs=["order"], with_topology=True), NODE_KEYS),
    ("MolToGraph(node_attrs=[element, charge, hcount, atom_map]).transform",
     dict(node_attrs=["element", "charge", "hcount", "atom_map"], edge_attrs=["order"]), ["element", "charge", "hcount", "atom_map"]),
]


def check_mol_options(ctx, B, s, tag):
    """(a2) the id options, the attribute selection and the legacy entry points of the molecule -> graph converter, and
    graph_to_mol without hydrogen counts: impl = model (`repr.molToGraphOpt`) on RDKit's table, and the graph goes back to the same
    molecule whenever no atom was dropped."""
    from synkit.IO.chem_converter import smiles_to_graph, graph_to_smi
    from synkit.IO.mol_to_graph import MolToGraph
    from synkit.IO.graph_to_mol import GraphToMol
    Chem = rd()
    mol = sanitised(s)
    if mol is None:
        ctx.count("a2:skipped_unsanitisable")
        return
    case = {"kind": "molopt", "smiles": s}
    T = table(mol)
    nmap = sum(1 for a in T["atoms"] if a["atom_map"])
    kind = "unmapped" if nmap == 0 else ("fully_mapped" if nmap == len(T["atoms"]) else "partially_mapped")
    ctx.count(f"a2:molecules:{kind}")
    ctx.count(f"a2:{tag}")
    ctx.case(["molopt", s], nontrivial=len(T["atoms"]) >= 2, sample={"stream": "mol-options:" + tag, "smiles": s})
    c1 = Chem.MolToSmiles(Chem.MolFromSmiles(s), isomericSmiles=False)
    impl = []          # (label, (useIdx, drop), node order compared?, node keys, graph)
    state = {"viol": False}

    def bad(what, detail=None, no_input=False):
        if not state["viol"]:
            state["viol"] = True
            V(ctx, "a", what, case, detail, no_input=no_input)

    def call(label, fn):
        try:
            return fn()
        except Exception as e:
            bad(f"{label} raised on a sanitisable molecule", {"error": repr(e)})
            return None
    for useIdx, drop in ((True, False), (True, True)):
        label = f"smiles_to_graph(use_index_as_atom_map={useIdx}, drop_non_aam={drop})"
        impl.append((label, (useIdx, drop), True, NODE_KEYS,
                     call(label, lambda: smiles_to_graph(s, drop_non_aam=drop, use_index_as_atom_map=useIdx))))
    impl.append(("smiles_to_graph(node_attrs=None, edge_attrs=None)", (False, False), True, NODE_KEYS,
                 call("smiles_to_graph(node_attrs=None)", lambda: smiles_to_graph(s, node_attrs=None, edge_attrs=None))))
    try:
        g_err = smiles_to_graph(s, drop_non_aam=True)
    except Exception:
        g_err = "raised"
    ctx.count("a2:drop_non_aam without use_index_as_atom_map -> %s (recorded, not gated)" % ("None" if g_err is None else "other"))
    for label, kw, keys in MOL_VARIANTS:
        impl.append((label, (False, False), True, keys, call(label, lambda: MolToGraph(**kw).transform(sanitised(s)))))
    for lw in (True, False):
        for useIdx, drop in ((False, False), (True, False), (True, True)):
            label = f"MolToGraph.mol_to_graph(light_weight={lw}, use_index_as_atom_map={useIdx}, drop_non_aam={drop})"
            impl.append((label, (useIdx, drop), False, NODE_KEYS,
                         call(label, lambda: MolToGraph.mol_to_graph(sanitised(s), drop_non_aam=drop, light_weight=lw,
                                                                     use_index_as_atom_map=useIdx))))
    models = {}
    for key in ((False, False), (True, False), (True, True)):
        B.add({"cmd": "repr.molToGraphOpt", "mol": T, "useIndex": key[0], "drop": key[1]}, lambda rep, key=key: models.__setitem__(key, rep))
    # graph_to_mol without hydrogen counts: what is handed to RDKit carries no count (model: a graph without the hcount key)
    g0 = smiles_to_graph(s)
    nohj = None
    if g0 is not None:
        noh = copy.deepcopy(g0)
        for _, d in noh.nodes(data=True):
            d.pop("hcount", None)
        nohj = enc(noh)
        outs = {}
        for label, G_, uh in (("graph_to_mol(use_h_count=False)", g0, False), ("graph_to_mol(graph without hcount, use_h_count=True)", noh, True)):
            r = call(label, lambda: table_out(GraphToMol().graph_to_mol(G_, sanitize=False, use_h_count=uh)))
            if r is not None:
                outs[label] = r

        def cb_noh(rep):
            for label, to in outs.items():
                if rep != to:
                    bad(f"{label} differs from model graphToMol on the graph without counts", {"impl": to, "model": rep}, no_input=True)
        B.add({"cmd": "repr.graphToMol", "graph": nohj}, cb_noh)

    def final(_):
        for label, key, ordered, keys, G in impl:
            if state["viol"]:
                return
            mod = models[key]
            if is_err(mod):
                ctx.count("a2:id_collision(model unsupported, not compared)")
                continue
            if G is None:
                bad(f"{label} returned None for a sanitisable molecule")
                continue
            ctx.count("a2:conversions_compared")
            gj = core_json(G, keys)
            # specification: whenever no atom is dropped the graph goes back to the same molecule
            if not key[1] or kind == "fully_mapped":
                s2 = graph_to_smi(G)
                m2 = Chem.MolFromSmiles(s2) if s2 is not None else None
                c2 = Chem.MolToSmiles(m2, isomericSmiles=False) if m2 is not None else None
                ctx.count("a2:roundtrips")
                if c2 != c1:
                    bad(f"SMILES -> graph -> SMILES changed the molecule through {label}", {"canonical_in": c1, "graph_to_smi": s2, "canonical_out": c2})
                    return
            if canon_graph(gj, keys, CORE_EDGE) != canon_graph(mod, keys, CORE_EDGE) or (ordered and node_order(gj) != node_order(mod)):
                bad(f"{label} differs from model molToGraphOpt on RDKit's atom/bond table",
                    {"impl": canon_graph(gj, keys, CORE_EDGE), "model": canon_graph(mod, keys, CORE_EDGE)}, no_input=True)
        if kind == "partially_mapped" and not is_err(models[(True, True)]):
            ctx.count("a2:atoms_dropped", len(T["atoms"]) - len(models[(True, True)]["nodes"]))
            ctx.count("a2:bonds_to_a_dropped_atom", sum(1 for a, b, _ in T["bonds"] if (T["atoms"][a]["atom_map"] == 0) != (T["atoms"][b]["atom_map"] == 0)))
    B.add({"cmd": "gml.shape", "its": {"nodes": [], "edges": []}}, final)


def explicit_mapped(s, rnd=None, pres=None):
    """the graph of molecule `s` with its hydrogens made explicit by the harness (one node per counted hydrogen, atom map = node id)
    -> (graph, list of the hydrogen maps)."""
    from synkit.IO.chem_converter import smiles_to_graph
    g = smiles_to_graph(s)
    if g is None:
        return None, []
    E = copy.deepcopy(g)
    nxt = max(E.nodes, default=0)
    hs = []
    for n in list(g.nodes):
        k = E.nodes[n].get("hcount", 0)
        for _ in range(k):
            nxt += 1
            E.add_node(nxt, element="H", aromatic=False, hcount=0, charge=0, neighbors=[], atom_map=nxt)
            E.add_edge(n, nxt, order=1.0)
            hs.append(nxt)
        E.nodes[n]["hcount"] = 0
    return E, hs


def check_smi_preserve(ctx, B, s, tag, pres=None):
    """(a2) graph_to_smi(graph, preserve_atom_maps=[...]) on a molecule whose hydrogens are explicit nodes: some stay explicit,
    the others are folded back; the molecule must be the same (hydrogens implicit on both sides, RDKit trusted)."""
    from synkit.IO.chem_converter import graph_to_smi
    if sanitised(s) is None:
        return
    E, hs = explicit_mapped(s)
    if E is None or not hs or len(hs) > 40:
        ctx.count("a2:preserve:skipped(no hydrogens / too many)")
        return
    if pres is None:
        pres = [h for h in hs if ctx.rnd.random() < 0.4] or [ctx.rnd.choice(hs)]
    pres = sorted(int(x) for x in pres)
    case = {"kind": "smipres", "smiles": s, "preserve": pres}
    ctx.count("a2:preserve:molecules")
    ctx.case(["smipres", s, pres], nontrivial=True, sample={"stream": "graph_to_smi-preserve:" + tag, "smiles": s, "preserve": pres})
    c0 = mol_norm(s)
    out = graph_to_smi(copy.deepcopy(E), preserve_atom_maps=list(pres))
    c = mol_norm(out)
    if c0 is None:
        ctx.count("a2:preserve:reference_not_computable")
    elif c != c0:
        V(ctx, "a", "graph_to_smi with preserve_atom_maps changed the molecule (hydrogens implicit on both sides)", case,
          {"before": c0, "after": c, "raw": out})
        return
    elif out is not None and sum(1 for h in pres if f":{h}]" in out) != len(pres):
        # the call site of implicit_hydrogen inside graph_to_smi (the function itself is compared with the model below)
        V(ctx, "a", "graph_to_smi(preserve_atom_maps) differs from the model: graphToMol after implicitHydrogen with that list keeps the "
                    "named hydrogens as atoms", case, {"raw": out}, no_input=True)
        return
    check_hgraph(ctx, B, E, "molecule-explicit-mapped", pres=pres)


def all_mapped(side):
    Chem = rd()
    m = Chem.MolFromSmiles(side)
    return m is not None and m.GetNumAtoms() > 0 and all(a.GetAtomMapNum() for a in m.GetAtoms())


def check_graph_to_rsmi(ctx, B, rsmi, origin):
    """(a2) graph_to_rsmi(r, p, its, explicit_hydrogen): each side is a molecule that must come back unchanged (hydrogens implicit on
    both sides of the comparison; the atom maps of the heavy atoms are part of it)."""
    from synkit.IO.chem_converter import rsmi_to_graph, graph_to_rsmi, rsmi_to_its
    case = {"kind": "g2rsmi", "rsmi": rsmi, "origin": origin}
    sides = rsmi.split(">>")
    if len(sides) != 2 or not all(all_mapped(x) for x in sides):
        ctx.count("a2:graph_to_rsmi:skipped_not_fully_mapped")
        return
    try:
        r, p = rsmi_to_graph(rsmi)
    except Exception:
        r = p = None
    if r is None or p is None:
        ctx.count("a2:graph_to_rsmi:skipped_unsanitisable")
        return
    ref = [mol_norm(x) for x in sides]
    if None in ref:
        ctx.count("a2:graph_to_rsmi:reference_not_computable")
        return
    ctx.count("a2:graph_to_rsmi:reactions")
    ctx.case(["g2rsmi", rsmi], nontrivial=True, sample={"stream": "graph_to_rsmi", "rsmi": rsmi[:200]})
    variants = [("its=None", None, False), ("explicit_hydrogen=True", None, True)]
    if set(r.nodes) == set(p.nodes):
        try:
            variants.append(("its given", rsmi_to_its(rsmi), False))
        except Exception:
            pass
    if any(d.get("element") == "H" for _, d in r.nodes(data=True)) or any(d.get("element") == "H" for _, d in p.nodes(data=True)):
        ctx.count("a2:graph_to_rsmi:with_explicit_hydrogen_atoms")
    for label, its, eh in variants:
        try:
            out = graph_to_rsmi(copy.deepcopy(r), copy.deepcopy(p), copy.deepcopy(its), True, eh)
        except Exception as e:
            out = None
        got = [mol_norm(x) for x in out.split(">>")] if out is not None and out.count(">>") == 1 else None
        ctx.count("a2:graph_to_rsmi:calls")
        if got != ref:
            V(ctx, "a", f"graph_to_rsmi ({label}) does not give back the molecules of the reaction", case, {"out": out, "expected": ref, "got": got})
            return


def explicit_h_variant(rsmi, rnd):
    """The same reaction with one or two hydrogens written as mapped explicit atoms (RDKit does the editing): a hydrogen that
    moves from an atom losing one to an atom gaining one (so that it belongs to the reaction centre), and/or a hydrogen that stays on
    its atom. None when the reaction has no such hydrogen."""
    Chem = rd()
    sides = rsmi.split(">>")
    if len(sides) != 2:
        return None
    ms = [Chem.MolFromSmiles(x) for x in sides]
    if any(m is None for m in ms) or not all(all(a.GetAtomMapNum() for a in m.GetAtoms()) for m in ms):
        return None
    hc = [{a.GetAtomMapNum(): a.GetTotalNumHs() for a in m.GetAtoms() if a.GetAtomicNum() > 1} for m in ms]
    common = sorted(set(hc[0]) & set(hc[1]))
    donors = [m for m in common if hc[0][m] - hc[1][m] >= 1]
    acceptors = [m for m in common if hc[1][m] - hc[0][m] >= 1]
    keep = [m for m in common if hc[0][m] >= 1 and hc[1][m] >= 1]
    nxt = max(max(hc[0], default=0), max(hc[1], default=0), max((a.GetAtomMapNum() for m in ms for a in m.GetAtoms()), default=0)) + 1
    plan = []
    if donors and acceptors and rnd.random() < 0.8:
        plan.append((rnd.choice(donors), rnd.choice(acceptors), nxt))
        nxt += 1
    if keep and (not plan or rnd.random() < 0.5):
        m = rnd.choice(keep)
        if not any(m in (a, b) for a, b, _ in plan):
            plan.append((m, m, nxt))
    if not plan:
        return None
    out = []
    for i, m in enumerate(ms):
        rw = Chem.RWMol(m)
        for a, b, hmap in plan:
            target = a if i == 0 else b
            atom = next(x for x in rw.GetAtoms() if x.GetAtomMapNum() == target)
            tot = atom.GetTotalNumHs()
            if tot < 1:
                return None
            atom.SetNoImplicit(True)
            atom.SetNumExplicitHs(tot - 1)
            h = Chem.Atom(1)
            h.SetAtomMapNum(hmap)
            rw.AddBond(atom.GetIdx(), rw.AddAtom(h), Chem.BondType.SINGLE)
        try:
            Chem.SanitizeMol(rw)
        except Exception:
            return None
        out.append(Chem.MolToSmiles(rw))
    new = ">>".join(out)
    if [mol_norm(x) for x in new.split(">>")] != [mol_norm(x) for x in sides]:
        return None
    return new


EXPLICIT_H_REACTIONS = [
    "[H:1][Cl:2].[NH3:3]>>[H:1][NH3+:3].[Cl-:2]",
    "[CH3:1][H:2].[Cl:3][Cl:4]>>[CH3:1][Cl:3].[H:2][Cl:4]",
    "[H:1][H:2].[CH2:3]=[CH2:4]>>[H:1][CH2:3][CH2:4][H:2]",
    "[H:1][Cl:2].[NH3:3].[H+:4]>>[H:1][NH3+:3].[Cl-:2].[H+:4]",
    "[H:1][O:2][H:3].[CH3:4][C:5](=[O:6])[O:7][CH3:8]>>[H:1][O:2][C:5]([CH3:4])=[O:6].[H:3][O:7][CH3:8]",
]


def record_error_paths(ctx):
    """Error paths next to the property (it speaks about sanitisable molecules and well-formed reaction strings only): executed and
    recorded, nothing is gated on them."""
    from synkit.IO.chem_converter import smiles_to_graph, graph_to_smi, rsmi_to_graph
    import networkx as nx
    for s in ("CC(C)(C)(C)(C)C", "c1ccccc1C(F)(F)(F)(F)F", "C1=CC=CN1=O(=O)=O"):
        try:
            g = smiles_to_graph(s)
        except Exception:
            g = "raised"
        ctx.count("a2:error-path:smiles_to_graph(unsanitisable) -> %s (recorded)" % ("None" if g is None else "other"))
    for s in ("CCO", "CC>O>CC", "C>>C>>C"):
        try:
            r = rsmi_to_graph(s)
        except Exception:
            r = "raised"
        ctx.count("a2:error-path:rsmi_to_graph(no single '>>') -> %s (recorded)" % ("(None, None)" if r == (None, None) else "other"))
    G = nx.Graph()
    G.add_node(1, element="C", charge=0, hcount=0, atom_map=0)
    for i in range(2, 8):
        G.add_node(i, element="C", charge=0, hcount=3, atom_map=0)
        G.add_edge(1, i, order=1.0)
    try:
        r = graph_to_smi(G)
    except Exception:
        r = "raised"
    ctx.count("a2:error-path:graph_to_smi(valence error) -> %s (recorded)" % ("None" if r is None else "other"))


# ------------------------------------------------------------------ (b2) options of the hydrogen conversions
def check_hopts(ctx, B, G, tag, ns=None, pres=None):
    """h_to_explicit(G, nodes) for a node list (absent and repeated ids included), h_to_explicit(G, None, its=True),
    implicit_hydrogen(G, preserve, reindex=True): impl = model (`h.explicitOpt`, `h.implicitHydrogenReindex`); the specification
    (total hydrogen count; making the chosen hydrogens explicit and all implicit again restores G under the guard) is evaluated by
    the Lean driver on what the implementation returned."""
    from synkit.Graph.Hyrogen._misc import h_to_explicit, h_to_implicit, implicit_hydrogen
    rnd = ctx.rnd
    gj = enc(G)
    nodes = list(G.nodes)
    if not nodes:
        return
    if ns is None:
        ns = [n for n in nodes if rnd.random() < 0.5]
        if rnd.random() < 0.35:
            ns.append(max(nodes) + rnd.randint(1, 4))
        if ns and rnd.random() < 0.3:
            ns.append(rnd.choice(ns))
        rnd.shuffle(ns)
        if not ns:
            ns = [rnd.choice(nodes)]
    ns = [int(x) for x in ns]
    hmaps = sorted({d.get("atom_map") for _, d in G.nodes(data=True) if d.get("element") == "H" and isinstance(d.get("atom_map"), int) and d.get("atom_map") >= 0})
    if pres is None:
        pres = [m for m in hmaps if rnd.random() < 0.5]
    pres = sorted({int(m) for m in pres})
    case = {"kind": "hopt", "graph": gj, "nodes": ns, "preserve": pres}
    En, _ = impl_h(lambda g_: h_to_explicit(g_, list(ns)), G)
    Ei, _ = impl_h(lambda g_: h_to_explicit(g_, None, True), G)
    Pr, _ = impl_h(lambda g_: implicit_hydrogen(g_, set(pres), True), G)
    if is_err(En) or is_err(Ei):
        ctx.count("b2:impl_error")
        return
    IEn, _ = impl_h(h_to_implicit, graphio.to_nx(En))
    info, models = {}, {}
    for name, j in (("g", gj), ("En", En), ("Ei", Ei), ("IEn", IEn)) + ((("Pr", Pr),) if not is_err(Pr) else ()):
        if not is_err(j):
            B.add({"cmd": "h.info", "graph": j}, lambda rep, name=name: info.__setitem__(name, rep))
    B.add({"cmd": "h.explicitOpt", "graph": gj, "nodes": ns, "its": False}, lambda rep: models.__setitem__("En", rep))
    B.add({"cmd": "h.explicitOpt", "graph": gj, "nodes": [], "its": True}, lambda rep: models.__setitem__("Ei", rep))
    B.add({"cmd": "h.implicitHydrogenReindex", "graph": gj, "preserve": pres}, lambda rep: models.__setitem__("Pr", rep))
    B.add({"cmd": "h.implicit", "graph": En}, lambda rep: models.__setitem__("IEn", rep))
    state = {"viol": False}

    def bad(what, detail, no_input=False):
        if not state["viol"]:
            state["viol"] = True
            V(ctx, "b", what, case, detail, no_input=no_input)

    def final(_):
        ig = info["g"]
        ctx.count(f"b2:{tag}")
        ctx.case(["hopt", canon_graph(gj), ns, pres], nontrivial=ig["totalH"] != 0,
                 sample={"stream": "h-options:" + tag, "graph": gj, "nodes": ns} if G.number_of_nodes() <= 3 else None)
        if any(n not in G for n in ns):
            ctx.count("b2:node_list_with_absent_id")
        if len(set(ns)) < len(ns):
            ctx.count("b2:node_list_with_repeated_id")
        if not ig["typed"] or not ig["wf"]:
            ctx.count("b2:outside_domain")
            return
        expanded = sum(1 for n in set(ns) if n in G and isinstance(G.nodes[n].get("hcount"), int) and G.nodes[n].get("hcount") > 0)
        ctx.count("b2:node_list_expands_something" if expanded else "b2:node_list_expands_nothing")
        # ---- specification
        if info["En"]["totalH"] != ig["totalH"]:
            bad("h_to_explicit(G, nodes) changes the total hydrogen count", {"nodes": ns, "before": ig["totalH"], "after": info["En"]["totalH"]})
        if info["Ei"]["totalH"] != ig["totalH"]:
            bad("h_to_explicit(G, None, its=True) changes the total hydrogen count", {"before": ig["totalH"], "after": info["Ei"]["totalH"]})
        if ig["guard"]:
            ctx.count("b2:guard_holds")
            if not h_equal(IEn, gj):
                bad("h_to_implicit(h_to_explicit(g, nodes)) does not restore g although no explicit hydrogen is bonded to a heavy atom",
                    {"nodes": ns, "g": canon_graph(gj), "back": IEn if is_err(IEn) else canon_graph(IEn)})
        if not is_err(Pr):
            ctx.count("b2:implicit_hydrogen(reindex=True):calls")
            if "Pr" in info and ig["valence"] and info["Pr"]["totalH"] != ig["totalH"]:
                bad("implicit_hydrogen(reindex=True) changes the total hydrogen count although hydrogens are monovalent and carry no count",
                    {"preserve": pres, "before": ig["totalH"], "after": info["Pr"]["totalH"]})
        # ---- impl = model
        for name, impl, what in (("En", En, "h_to_explicit(G, nodes)"), ("Ei", Ei, "h_to_explicit(G, None, its=True)"),
                                 ("IEn", IEn, "h_to_implicit after h_to_explicit(G, nodes)"), ("Pr", Pr, "implicit_hydrogen(reindex=True)")):
            mod = models[name]
            if is_err(mod) and mod["err"] == "unsupported":
                ctx.count("b2:model_unsupported")
                continue
            if not h_equal(impl, mod):
                bad(f"{what} differs from the model", {"impl": impl if is_err(impl) else canon_graph(impl),
                                                      "model": mod if is_err(mod) else canon_graph(mod), "nodes": ns, "preserve": pres}, no_input=True)
    B.add({"cmd": "gml.shape", "its": {"nodes": [], "edges": []}}, final)


def side_h(I, i):
    """total hydrogens of side i of an ITS graph: the counts in the typesGH rows plus the hydrogen atoms present on that side."""
    tot = 0
    for _, d in I.nodes(data=True):
        t = d.get("typesGH")
        if not t or len(t) < 2 or len(t[i]) < 3:
            continue
        row = t[i]
        if isinstance(row[2], int):
            tot += row[2]
        if row[0] == "H":
            tot += 1
    return tot


def check_its_explicit(ctx, B, rsmi, origin):
    """(b2) rsmi_to_its(rsmi, explicit_hydrogen=True) = h_to_explicit(ITS, None, True) on an ITS graph (typesGH adjustment, tuple
    orders): impl = model. Whether the product side keeps its hydrogen total is recorded, not gated (the property's hydrogen clause
    is about molecules)."""
    from synkit.IO.chem_converter import rsmi_to_its
    from synkit.Graph.Hyrogen._misc import h_to_explicit
    try:
        I0 = rsmi_to_its(rsmi)
        I1 = rsmi_to_its(rsmi, explicit_hydrogen=True)
        I2 = h_to_explicit(copy.deepcopy(I0), None, True)
    except Exception:
        ctx.count("b2:its-explicit:error")
        return
    case = {"kind": "itsexp", "rsmi": rsmi, "origin": origin}
    j0, j1, j2 = enc(I0), enc(I1), enc(I2)
    ctx.count("b2:its-explicit:reactions")
    ctx.case(["itsexp", rsmi], nontrivial=I1.number_of_nodes() > I0.number_of_nodes(), sample={"stream": "its-explicit", "rsmi": rsmi[:160]})
    if side_h(I1, 0) != side_h(I0, 0):
        ctx.count("b2:its-explicit:reactant-side hydrogen total changed (recorded, not gated)")
    if side_h(I1, 1) != side_h(I0, 1):
        ctx.count("b2:its-explicit:product-side hydrogen total changed (recorded, not gated: only the reactant row of typesGH is adjusted)")

    def cb(rep):
        if is_err(rep):
            ctx.count("b2:its-explicit:model_unsupported")
            return
        for what, j in (("h_to_explicit(ITS, None, True)", j2), ("rsmi_to_its(explicit_hydrogen=True)", j1)):
            if canon_graph(j) != canon_graph(rep):
                V(ctx, "b", f"{what} differs from the model on an ITS graph", case,
                  {"impl": canon_graph(j), "model": canon_graph(rep)}, no_input=True)
                return
    B.add({"cmd": "h.explicitOpt", "graph": j0, "nodes": [], "its": True}, cb)


# ------------------------------------------------------------------ (c2) GML: explicit hydrogens, rule names, text written by someone else
def check_its_x(ctx, B, I, tag, origin, name=None):
    """its_to_gml(..., explicit_hydrogen=True, rule_name=...): writer impl = model (`gml.itsToGmlX`), reader impl = model on the text
    (context edges), text format stable; specification: after re-import the rule restricted to the atoms of I is I (atoms, charges,
    order pairs), and everything else is a hydrogen hanging on one atom of I by a (1, 1) bond, as many as the counts of I say."""
    from synkit.IO.chem_converter import its_to_gml, gml_to_its
    from synkit.IO.gml_to_nx import GMLToNX
    from synkit.Graph.ITS.its_decompose import get_rc
    try:
        rc = get_rc(I)
    except Exception:
        return
    Ij, rcj = enc(I), enc(rc)
    if name is None:
        name = ctx.rnd.choice(RULE_NAMES)
    ctx.count(f"c2:explicit:{tag}")
    ctx.case(["its-x", canon_graph(Ij, ["typesGH", "hcount"], ["order"])], nontrivial=rc.number_of_edges() >= 1,
             sample={"stream": "explicit-hydrogen export:" + tag, "origin": origin} if isinstance(origin, str) else None)
    for core, src, srcj in ((True, rc, rcj), (False, I, Ij)):
        for reindex in (False, True):
            case = {"kind": "its", "its": Ij, "core": core, "reindex": reindex, "explicit_hydrogen": True, "rule_name": name, "origin": origin}
            try:
                gml = its_to_gml(copy.deepcopy(src), core=core, rule_name=name, reindex=reindex, explicit_hydrogen=True)
                L, R, _ = GMLToNX(gml).transform()
                back = gml_to_its(gml)
            except Exception as e:
                V(ctx, "c", "its_to_gml(explicit_hydrogen=True) / gml_to_its raised", case, {"error": repr(e)})
                continue
            ctx.count("c2:explicit:exports")
            one_export_x(ctx, B, case, gml, srcj, core, reindex, name, enc(L), enc(R), enc(back))


def hcount_of(a):
    v = a.get("hcount")
    if isinstance(v, dict) and "n" in v and v["n"] % 2 == 0:
        return max(v["n"] // 2, 0)
    return 0


def one_export_x(ctx, B, case, gml, srcj, core, reindex, name, Lj, Rj, backj):
    st = {}
    B.add({"cmd": "gml.itsToGmlX", "its": srcj, "core": core, "reindex": reindex, "explicit": True, "name": name}, lambda rep: st.__setitem__("w", rep))
    B.add({"cmd": "gml.read", "text": gml}, lambda rep: st.__setitem__("r", rep))
    B.add({"cmd": "gml.retext", "text": gml, "name": name}, lambda rep: st.__setitem__("t", rep))
    B.add({"cmd": "gml.shape", "its": srcj}, lambda rep: st.__setitem__("shape", rep))
    ids = node_order(srcj)
    n = len(ids)
    # reindex=True: the atoms are 1..n (position in the node list + 1) and the writer expands the hydrogens AFTER the renumbering, so
    # the new hydrogens are n+1, ...; undo the renumbering on the atoms and move the hydrogens above the original ids (an original id
    # may well lie in n+1.. when the ids are sparse)
    top = max(ids, default=0)
    inv = (lambda x: ids[x - 1] if 1 <= x <= n else (top + (x - n) if x > n else x)) if reindex else (lambda x: x)
    rel = relabel_json(backj, inv)
    orig = set(ids)
    sub = {"nodes": [x for x in rel["nodes"] if x[0] in orig], "edges": [e for e in rel["edges"] if e[0] in orig and e[1] in orig]}
    extras = [x for x in rel["nodes"] if x[0] not in orig]
    # expected hydrogens: the counts of the exported graph (the centre carries none)
    want = {nid: hcount_of(a) for nid, a in srcj["nodes"]}
    problems = []
    if len({x[0] for x in rel["nodes"]}) != len(rel["nodes"]):
        problems.append("node ids collide after undoing the re-indexing")
    hang = {}
    for nid, a in extras:
        t = graphio.unval(a["typesGH"]) if a.get("typesGH") is not None else None
        es = [e for e in rel["edges"] if nid in (e[0], e[1])]
        ok = (t is not None and len(t) == 2 and all(len(r) >= 4 and r[0] == "H" and r[3] == 0 for r in t) and len(es) == 1
              and graphio.unval(es[0][2]["order"]) == (1, 1))
        if not ok:
            problems.append(f"extra node {nid} is not a hydrogen hanging on one atom by a (1, 1) bond")
            continue
        other = es[0][1] if es[0][0] == nid else es[0][0]
        if other not in orig:
            problems.append(f"extra hydrogen {nid} is not bonded to an atom of the rule")
        hang[other] = hang.get(other, 0) + 1
    if sum(hang.values()) != sum(want.values()) or (not reindex and any(hang.get(k, 0) != v for k, v in want.items())):
        problems.append("the explicit hydrogens do not match the hydrogen counts of the exported graph")
    if extras:
        ctx.count("c2:explicit:exports_with_hydrogen_nodes")

    def stage2(_):
        def finish(eq):
            if not st["shape"]:
                ctx.count("c2:explicit:shape_fails(not gated)")
            if st["shape"] and (not eq or problems):
                V(ctx, "c", "gml_to_its(its_to_gml(I, explicit_hydrogen=True)) does not keep the atoms, charges and (before, after) bond orders "
                            "of I, or adds something other than the counted hydrogens", case, {"gml": gml, "problems": problems, "same_on_the_atoms_of_I": eq})
                return
            w, r = st["w"], st["r"]
            if is_err(w) and w.get("err") == "unsupported":
                ctx.count("c2:explicit:model_unsupported")
                return
            if is_err(w) or is_err(r) or is_err(st["t"]):
                V(ctx, "c", "model could not write / read the rule (explicit_hydrogen=True)", case, {"write": w if is_err(w) else None, "read": r if is_err(r) else None}, no_input=True)
                return
            if norm_items(w["rule"]) != norm_items(r["rule"]):
                V(ctx, "c", "its_to_gml(explicit_hydrogen=True) writes other items than the model", case,
                  {"impl": norm_items(r["rule"]), "model": norm_items(w["rule"])}, no_input=True)
                return
            if st["t"] != gml:
                V(ctx, "c", "GML text format (rule name, explicit hydrogens) differs from the model's rendering of the same items", case,
                  {"impl": gml, "model": st["t"]}, no_input=True)
                return
            for nm, impl, mod in (("left", Lj, r["graphs"]["left"]), ("right", Rj, r["graphs"]["right"]), ("its", backj, r["graphs"]["its"])):
                if canon_graph(impl) != canon_graph(mod):
                    V(ctx, "c", f"GMLToNX.transform ({nm} graph, rule with context edges) differs from the model reader", case,
                      {"impl": canon_graph(impl), "model": canon_graph(mod)}, no_input=True)
                    return
        equiv(B, sub, srcj, finish)
    B.add({"cmd": "gml.shape", "its": srcj}, stage2)


def spec_label(el, c):
    """the label syntax as documented: element, then '+', '-', '2+', '3-', ... (written here independently of the code)."""
    if c == 0:
        return el
    return el + ("" if abs(c) == 1 else str(abs(c))) + ("+" if c > 0 else "-")


ORDER_SIGN = {1: "-", 1.5: ":", 2: "=", 3: "#"}


def foreign_gml(I, rnd, style=None):
    """The rule of ITS graph I written the way a rule file usually comes from elsewhere: atoms and bonds that do not change in the
    context section (context *edges*), changing bonds and charge-changing atoms in left / right; nodes before edges or after, lines
    shuffled, sections in any order, other indentation, rule id line present or not."""
    if style is None:
        style = {"nodes_first": rnd.random() < 0.6, "shuffle": rnd.random() < 0.5, "sections": rnd.sample(["left", "context", "right"], 3),
                 "indent": rnd.choice(["      ", "\t", " "]), "rule_id": rnd.random() < 0.7, "seed": rnd.randint(0, 10 ** 6)}
    import random as _random
    lr = _random.Random(style["seed"])          # derived from the run PRNG through the recorded seed
    sec = {"left": ([], []), "context": ([], []), "right": ([], [])}
    for n, d in I.nodes(data=True):
        (el, _, _, cl, *_), (_, _, _, cr, *_) = d["typesGH"]
        if cl != cr:
            sec["left"][0].append(f'node [ id {n} label "{spec_label(el, cl)}" ]')
            sec["right"][0].append(f'node [ id {n} label "{spec_label(el, cr)}" ]')
        else:
            sec["context"][0].append(f'node [ id {n} label "{spec_label(el, cl)}" ]')
    for u, v, d in I.edges(data=True):
        a, b = d["order"]
        if lr.random() < 0.5:
            u, v = v, u
        if a == b:
            sec["context"][1].append(f'edge [ source {u} target {v} label "{ORDER_SIGN[a]}" ]')
        else:
            if a:
                sec["left"][1].append(f'edge [ source {u} target {v} label "{ORDER_SIGN[a]}" ]')
            if b:
                sec["right"][1].append(f'edge [ source {u} target {v} label "{ORDER_SIGN[b]}" ]')
    out = ["rule ["]
    if style["rule_id"]:
        out.append('   ruleID "foreign"')
    for name in style["sections"]:
        ns_, es_ = sec[name]
        lines = (ns_ + es_) if style["nodes_first"] else (es_ + ns_)
        if style["shuffle"]:
            lr.shuffle(lines)
        out.append(f"   {name} [")
        out += [style["indent"] + l for l in lines]
        out.append("   ]")
    out.append("]")
    return "\n".join(out), style


def check_foreign_gml(ctx, B, I, tag, origin, text=None):
    """(c2) gml_to_its / GMLToNX on a rule text that was not written by its_to_gml: reader impl = model (`gml.read`), and the rule
    read is the rule written (atoms, charges, (before, after) orders; Lean `ruleEqb` / `match.iso`)."""
    from synkit.IO.chem_converter import gml_to_its
    from synkit.IO.gml_to_nx import GMLToNX
    Ij = enc(I)
    if any("typesGH" not in d or len(d["typesGH"]) != 2 for _, d in I.nodes(data=True)) or \
            any(not isinstance(d.get("order"), tuple) or any(o not in (0, 1, 1.5, 2, 3) for o in d["order"]) or d["order"] == (0, 0)
                for _, _, d in I.edges(data=True)) or any(not isinstance(c, int) for _, d in I.nodes(data=True) for c in (d["typesGH"][0][3], d["typesGH"][1][3])):
        ctx.count("c2:foreign:skipped_shape")
        return
    style = None
    if text is None:
        text, style = foreign_gml(I, ctx.rnd)
    case = {"kind": "gmltext", "its": Ij, "text": text, "origin": origin}
    try:
        L, R, _ = GMLToNX(text).transform()
        back = gml_to_its(text)
    except Exception as e:
        V(ctx, "c", "gml_to_its raised on a well-formed rule text with context edges", case, {"error": repr(e)})
        return
    backj = enc(back)
    ctx.count(f"c2:foreign:{tag}")
    in_ctx, nctx = False, 0
    for line in text.split("\n"):
        t = line.strip()
        if t.endswith("[") and not t.startswith(("node", "edge")):
            in_ctx = t.startswith("context")
        elif in_ctx and t.startswith("edge"):
            nctx += 1
    ctx.count("c2:foreign:texts_with_context_edges" if nctx else "c2:foreign:texts_without_context_edges")
    ctx.count("c2:foreign:context_edges", nctx)
    ctx.case(["gmltext", text], nontrivial=I.number_of_edges() >= 1, sample={"stream": "foreign-gml:" + tag, "text": text} if len(text) < 500 else None)
    st = {}
    B.add({"cmd": "gml.read", "text": text}, lambda rep: st.__setitem__("r", rep))
    B.add({"cmd": "gml.shape", "its": Ij}, lambda rep: st.__setitem__("shape", rep))

    def stage2(_):
        def finish(eq):
            if not st["shape"]:
                ctx.count("c2:foreign:shape_fails(not gated)")
            elif not eq:
                V(ctx, "c", "gml_to_its reads another rule than the text states (atoms, charges, (before, after) bond orders)", case,
                  {"back": canon_graph(backj, ["typesGH"], ["order"])})
                return
            r = st["r"]
            if is_err(r):
                V(ctx, "c", "model reader could not parse a well-formed rule text", case, None, no_input=True)
                return
            for nm, impl, mod in (("left", enc(L), r["graphs"]["left"]), ("right", enc(R), r["graphs"]["right"]), ("its", backj, r["graphs"]["its"])):
                if canon_graph(impl) != canon_graph(mod):
                    V(ctx, "c", f"GMLToNX.transform ({nm} graph, foreign text) differs from the model reader", case,
                      {"impl": canon_graph(impl), "model": canon_graph(mod)}, no_input=True)
                    return
        equiv(B, backj, Ij, finish)
    B.add({"cmd": "gml.shape", "its": Ij}, stage2)


# ------------------------------------------------------------------ (d2) reactions with unmapped atoms
def unmap_some(rsmi, rnd):
    """the reaction with the atom map removed from some atoms on BOTH sides (rsmi_to_graph drops them together with their bonds)
    and, sometimes, an unmapped spectator molecule added to both sides."""
    maps = sorted({int(x) for x in re.findall(r":(\d+)\]", rsmi)})
    if len(maps) < 4 or rsmi.count(">>") != 1:
        return None
    k = rnd.randint(1, max(1, len(maps) // 5))
    drop = set(rnd.sample(maps, k))
    out = re.sub(r":(\d+)\]", lambda m: "]" if int(m.group(1)) in drop else m.group(0), rsmi)
    if rnd.random() < 0.6:
        sp = rnd.choice(["O", "[Na+]", "CCO", "c1ccccc1", "[OH-]"])
        a, b = out.split(">>")
        out = f"{a}.{sp}>>{sp}.{b}" if rnd.random() < 0.5 else f"{sp}.{a}>>{b}.{sp}"
    return out


# ------------------------------------------------------------------ streams
def mapped_sides(reactions, rnd, k):
    out = []
    for src, rs in rnd.sample(reactions, min(k, len(reactions))):
        side = rs.split(">>")[rnd.randint(0, 1)]
        out.append(side)
    return out


def load_regress():
    d = ROOT / "regress" / "C10"
    return [json.loads(f.read_text()) for f in sorted(d.glob("*.json"))] if d.exists() else []


def run_case(ctx, B, c):
    k = c["kind"]
    if k == "f44":
        return f44_probe(ctx)
    if k == "smiles":
        g = check_smiles(ctx, B, c["smiles"], "replay")
        if g is not None:
            check_hgraph(ctx, B, g, "replay", smiles=c["smiles"])
    elif k == "hgraph":
        check_hgraph(ctx, B, graphio.to_nx(c["graph"]), "replay", smiles=c.get("smiles"), pres=c.get("preserve"))
    elif k == "its":
        check_its(ctx, B, its_from_json(c["its"]), "replay", c.get("origin"), rule_name=c.get("rule_name"))
        if c.get("explicit_hydrogen"):
            check_its_x(ctx, B, its_from_json(c["its"]), "replay", c.get("origin"), name=c.get("rule_name"))
    elif k == "molopt":
        check_mol_options(ctx, B, c["smiles"], "replay")
    elif k == "smipres":
        check_smi_preserve(ctx, B, c["smiles"], "replay", pres=c.get("preserve"))
    elif k == "g2rsmi":
        check_graph_to_rsmi(ctx, B, c["rsmi"], c.get("origin"))
    elif k == "hopt":
        check_hopts(ctx, B, graphio.to_nx(c["graph"]), "replay", ns=c.get("nodes"), pres=c.get("preserve"))
    elif k == "itsexp":
        check_its_explicit(ctx, B, c["rsmi"], c.get("origin"))
    elif k == "gmltext":
        check_foreign_gml(ctx, B, its_from_json(c["its"]), "replay", c.get("origin"), text=c["text"])
    elif k == "rsmi":
        check_routes(ctx, B, c["rsmi"], c.get("origin"), extra=c.get("extra") or {"smarts": True, "explicit": True, "back": False, "name": "rule"})
        from synkit.IO.chem_converter import rsmi_to_its
        try:
            check_its(ctx, B, rsmi_to_its(c["rsmi"]), "replay", c.get("origin"))
        except Exception:
            pass
    elif k in ("label", "parse"):
        check_labels(ctx, B)


def its_from_json(j):
    G = graphio.to_nx(j)
    # lists inside typesGH came back as tuples, which is what the code accepts as well
    return G



def f44_probe(ctx):
    """Fixed regression for finding F44 (repaired by notes/draft-fixes/0023-explicit-hydrogen-after-reindex.patch; theorem
    `itsToGmlX_roundtrip`: with explicit_hydrogen=True the round trip holds for both values of reindex, no condition on the ids).
    NXToGML.transform used to add the explicit hydrogens (ids maxId+1, ...) BEFORE renumbering the atoms 1..n, so a fresh hydrogen
    id <= n collided with a renumbered atom; it now renumbers first and expands afterwards.  Two fixed inputs: a C-O bond-forming
    ITS with one hydrogen on each atom, atom ids (0, 1) [the former failing input: the fresh ids 2, 3 met the renumbered atoms
    1, 2 and the oxygen was lost] and the same with ids (1, 2).  Both must round-trip; a failure on either is a plain violation
    (no known-finding class).  The demand is C10's own: the heavy atoms and the bond between them survive ITS -> GML -> ITS."""
    import networkx as nx
    from synkit.IO.chem_converter import its_to_gml, gml_to_its

    def mk(a, b):
        I = nx.Graph()
        I.add_node(a, element="C", charge=0, hcount=1, aromatic=False, atom_map=a, typesGH=(("C", False, 1, 0, []), ("C", False, 1, 0, [])))
        I.add_node(b, element="O", charge=0, hcount=1, aromatic=False, atom_map=b, typesGH=(("O", False, 1, 0, []), ("O", False, 1, 0, [])))
        I.add_edge(a, b, order=(0.0, 1.0), standard_order=-1.0)
        return I

    for ids in ((0, 1), (1, 2)):
        ctx.count("f44_probe")
        ctx.case(["f44", list(ids)], True)
        try:
            J = gml_to_its(its_to_gml(mk(*ids), core=False, reindex=True, explicit_hydrogen=True))
            heavy = sorted(d.get("element") for _, d in J.nodes(data=True) if d.get("element") != "H")
            bonds = sorted(tuple(float(x) for x in d.get("order")) for u, v, d in J.edges(data=True)
                           if J.nodes[u].get("element") != "H" and J.nodes[v].get("element") != "H")
            ok = heavy == ["C", "O"] and bonds == [(0.0, 1.0)]
            got = {"heavy_atoms": heavy, "heavy_bonds": bonds}
        except Exception as e:  # noqa: BLE001
            ok, got = False, {"raised": repr(e)[:200]}
        if not ok:
            ctx.violation("ITS -> GML (reindex=True, explicit_hydrogen=True) -> ITS does not keep the atoms and the changed bond",
                          {"kind": "f44", "ids": list(ids)}, dict(got, stream="f44-probe"), classes=[])


def run(ctx):
    ctx.trusted = [
        "Lean 4.33 kernel; axioms of the property theorems as listed in obligation_list",
        "hand-written models SynKitModel/Repr.lean, SynKitModel/Gml.lean and (options; their theorems are in Props/C10.lean, namespace ReprOpt) SynKitModel/ReprOpt.lean, "
        "tied to /repo by this correspondence run",
        "RDKit: SMILES parsing/printing, sanitisation, aromaticity perception, canonical SMILES (a molecule is its atom/bond table; "
        "canonical SMILES with stereo stripped decides 'same molecule')",
        "Driver/Repr.lean JSON codec, harness/graphio.py encoder, this adapter and its canonicalisation (nodes by id, edges unordered)",
        "text <-> token layer of GML (Rule.text / parseText) is executable model code checked against the implementation on every "
        "export, not covered by a theorem",
        "match.iso (model enumerator SynKitModel/Match.lean) decides equivalence of re-indexed rules",
    ]
    ctx.assumptions = [
        "molecule graphs carry hcount/charge/atom_map as integers (or not at all) and no typesGH; h_to_explicit is modelled for "
        "nodes=None, its=False; GML export for explicit_hydrogen=False",
        "ITS graphs have the shape ITSGraph/get_rc produce (ItsShape): typesGH rows with equal element strings over [A-Za-z*], integer "
        "charges, element/charge repeating the reactant side, order pairs over {0,1,1.5,2,3} not both 0; counted when it fails",
        "hydrogen-count preservation of h_to_implicit and of implicit_hydrogen is gated only when hydrogens are monovalent and carry no "
        "count (HValence), the round trip only under the guard NoHeavyBoundH of the theorem; 'a hydrogen without heavy neighbour is kept "
        "unchanged by implicit_hydrogen' is gated on every graph the function accepts",
        "options (streams a2/b2/c2/d2): the expected values come from the model extension SynKitModel/ReprOpt.lean (molToGraphOpt, "
        "hToExplicitG, implicitHydrogenReindex, writeRuleX - executable model code without a property theorem of its own, tied to the "
        "proved definitions by two `decide` examples and to the tree by this run) and from the property's own predicates evaluated on "
        "what the implementation returned (h.info totalH, spec.gml.ruleEq / match.iso, canonical SMILES by RDKit); two atoms that get "
        "the same node id under use_index_as_atom_map (a map number equal to the index-based id of an unmapped atom) are outside the "
        "model and counted; `hydrogens implicit on both sides' (RDKit RemoveHs after clearing the hydrogens' atom maps) is how two "
        "SMILES are compared when one of them keeps some hydrogens explicit (graph_to_smi with preserve_atom_maps, graph_to_rsmi)",
        "explicit_hydrogen=True exports: the rule re-imported must equal I on the atoms of I, and every other atom must be a hydrogen "
        "hanging on one atom of I by a (1, 1) bond, as many as the hcount attributes of the exported graph say (the reaction centre "
        "carries no counts, so none there); node ids >= 1 (the fresh hydrogen ids lie above every re-indexed id)",
        "recorded, NOT gated (outside what the property states): error paths (unsanitisable SMILES, reaction strings without a single "
        "'>>', drop_non_aam without use_index_as_atom_map, a graph RDKit rejects), GML -> reaction string -> GML (gml_to_smart), and the "
        "hydrogen totals of the two sides of an ITS graph expanded by h_to_explicit(its=True) / rsmi_to_its(explicit_hydrogen=True) "
        "(the property's hydrogen clause is about molecules; the expansion is compared with the model as coded)",
        "a reaction SMARTS is driven through smart_to_gml(useSmiles=False) only when RDKit reads it back to the same molecules on "
        "both sides (its SMARTS printer is not lossless on aromatic [nH]); otherwise counted and skipped",
    ]
    ctx.gen_rule = (
        "regression corpus first; (a) every vendored molecule (corpus/c10_molecules.txt: charged, aromatic, hetero-aromatic, "
        "organometallic, explicit-H and stereo spellings) + the unmapped fragments of the vendored corpus reactions (sample in quick, "
        "all in thorough) + mapped reaction sides; (b) the graphs of (a) + mapped sides with non-contiguous ids + random synthetic "
        "graphs with hydrogens in odd places (H-H, bridging, with own count, isolated, missing/negative counts) + molecule-like graphs "
        "with bonded explicit hydrogens and 1-3 free hydrogen species (H, H+, H-, H2) with own atom maps (quick 120, thorough 1200; "
        "implicit_hydrogen is called with a random subset of the hydrogens' atom maps) + ALL graphs with <=2 "
        "(quick) / <=3 (thorough) nodes over 5 labels; (c) all element x charge labels -12..12, a malformed-label stream, the ITS and "
        "centre of corpus reactions and of their renumberings, random synthetic ITS graphs with multiple and changing charges, each "
        "exported core/full x reindex on/off under a rule name drawn from 6 names; (d) six export routes x reindex for corpus reactions "
        "and one renumbering each (the centre also through rsmi_to_its(core=True)); with probability 0.4 the two entry points with "
        "explicit_hydrogen=True, 0.4 the reaction as SMARTS (useSmiles=False), 0.2 GML -> string -> GML (recorded). "
        "COVERAGE-GAP STREAMS: (a2) molecule converters with options on a sample of vendored molecules, mapped reaction sides and "
        "partially mapped variants of them (atom map cleared on each atom with p=0.35, >=1 cleared, >=1 kept; maps shifted by 0/60): "
        "smiles_to_graph with use_index_as_atom_map / drop_non_aam / node_attrs=None, MolToGraph with attr_profile=full, all "
        "attributes, with_topology, an attribute subset, MolToGraph.mol_to_graph light-weight and detailed x 3 id options, "
        "graph_to_mol without counts (quick 30+30+30 molecules, thorough 217+300+300); graph_to_smi(preserve_atom_maps) on molecule "
        "graphs whose hydrogens the harness made explicit (each hydrogen preserved with p=0.4, >=1; quick 50, thorough 400), "
        "graph_to_rsmi (its None / given / explicit_hydrogen) on corpus reactions, on 5 hand-written reactions with explicit "
        "hydrogens and on corpus reactions where RDKit rewrote a moving and/or a staying hydrogen as a mapped atom (quick 30, "
        "thorough all); (b2) h_to_explicit(G, nodes) with a random node list (each node p=0.5, an absent id p=0.35, a repeated id "
        "p=0.3, shuffled), h_to_explicit(G, None, True), implicit_hydrogen(reindex=True) on molecule graphs, synthetic graphs, "
        "free-hydrogen graphs and all graphs with <=2 nodes (quick 60+150+60+55, thorough x10 / <=3 nodes), ITS graphs of corpus "
        "reactions through rsmi_to_its(explicit_hydrogen=True) (quick 25, thorough all); (c2) explicit_hydrogen=True exports "
        "(core/full x reindex, named) of synthetic ITS graphs (quick 60, thorough 600) and corpus ITS graphs (quick 12, thorough "
        "all), rule texts written by the harness with context edges / other line and section order for synthetic and corpus ITS "
        "graphs (quick 80+25, thorough 800+all); (d2) corpus reactions with the map removed from 1..n/5 atoms on both sides and an "
        "unmapped spectator molecule (p=0.6) through all routes (quick 12, thorough 120), hydrogen-explicit reaction variants "
        "through all routes (quick 10, thorough 100).")
    ctx.nontrivial_rule = ("distinct by input (SMILES string / canonical graph / reaction string); molecules with >=2 atoms, hydrogen "
                           "graphs with non-zero total hydrogen count, ITS graphs and reactions with >=1 centre bond, labels with non-zero charge")
    import os
    if os.environ.get("C10_DEV_SKIP_AUDIT") != "1":
        build_and_audit(ctx, ["SynKitProofs.Props.C10"], "SynKitProofs/Audit/C10.lean", THEOREMS)

    import logging
    import time as _time
    logging.disable(logging.CRITICAL)
    rnd = ctx.rnd
    B = Batch(ctx)
    phases, _t = {}, [ctx.t0]

    def phase(name):
        now = _time.time()
        phases[name] = round(phases.get(name, 0) + now - _t[0], 1)
        _t[0] = now
        ctx.extra["phase_wall_s"] = phases
    phase("build+audit")
    reg = load_regress()
    for c in reg:
        run_case(ctx, B, c)
    B.run()
    ctx.count("regress_cases", len(reg))

    reactions = load_reactions()
    mols = load_molecules()
    rmols = reaction_molecules(reactions)
    ctx.count("population:vendored_molecules", len(mols))
    ctx.count("population:reaction_fragments", len(rmols))
    ctx.count("population:reactions", len(reactions))

    phase("regress")
    # ---- (a) + (b) on molecules
    pop = [(s, "vendored") for s in mols]
    rsel = rmols if not ctx.quick else rnd.sample(rmols, min(120, len(rmols)))
    pop += [(s, "corpus-fragment") for s in rsel]
    for s, tag in pop:
        g = check_smiles(ctx, B, s, tag)
        if g is not None:
            check_hgraph(ctx, B, g, "molecule", smiles=s)
        if len(ctx.violations) >= 12:
            break
    B.run()
    from synkit.IO.chem_converter import smiles_to_graph
    for side in mapped_sides(reactions, rnd, 40 if ctx.quick else 300):
        g = check_smiles(ctx, B, side, "mapped-side")
        gm = smiles_to_graph(side, drop_non_aam=True, use_index_as_atom_map=True)
        if gm is not None and gm.number_of_nodes():
            check_hgraph(ctx, B, gm, "mapped-side-ids")
    B.run()
    phase("a+b molecules")
    # ---- (b) synthetic and tiny-exhaustive
    for _ in range(400 if ctx.quick else 4000):
        check_hgraph(ctx, B, synth_hgraph(rnd), "synthetic")
        if len(ctx.violations) >= 12:
            break
    B.run()
    # free hydrogen species (H, H+, H-, H2) next to a molecule with bonded explicit hydrogens: drives the branch of
    # implicit_hydrogen that keeps a non-preserved hydrogen without heavy neighbour (F29) on graphs where the count gate applies
    for _ in range(120 if ctx.quick else 1200):
        check_hgraph(ctx, B, synth_free_hgraph(rnd), "synthetic-free-hydrogens")
        if len(ctx.violations) >= 12:
            break
    B.run()
    nmax = 2 if ctx.quick else 3
    for G in tiny_hgraphs(nmax):
        check_hgraph(ctx, B, G, "tiny-exhaustive")
        if len(B.reqs) > 20000:
            B.run()
        if len(ctx.violations) >= 12:
            break
    B.run()
    phase("b synthetic/tiny")
    # ---- (a2) options and alternative entry points of the molecule converters
    nv_a2 = len(ctx.violations)
    record_error_paths(ctx)
    k = 30 if ctx.quick else 300
    sides = mapped_sides(reactions, rnd, k)
    pm = [x for x in (partially_mapped(sd, rnd) for sd in sides) if x]
    for s_, tag in [(x, "vendored") for x in (rnd.sample(mols, min(30, len(mols))) if ctx.quick else mols)] + \
                   [(x, "mapped-side") for x in sides] + [(x, "partially-mapped") for x in pm]:
        check_mol_options(ctx, B, s_, tag)
        if len(ctx.violations) - nv_a2 >= 6:
            break
        if len(B.reqs) > 4000:
            B.run()
    B.run()
    for s_ in rnd.sample(mols + rmols, min(50 if ctx.quick else 400, len(mols) + len(rmols))):
        check_smi_preserve(ctx, B, s_, "molecule")
        if len(ctx.violations) - nv_a2 >= 6:
            break
        if len(B.reqs) > 4000:
            B.run()
    B.run()
    hreactions = []
    for i, rs in enumerate(EXPLICIT_H_REACTIONS):
        check_graph_to_rsmi(ctx, B, rs, f"hand-written:{i}")
    for src, rs in (rnd.sample(reactions, 30) if ctx.quick else reactions):
        check_graph_to_rsmi(ctx, B, rs, src)
        hv = explicit_h_variant(rs, rnd)
        if hv is not None:
            hreactions.append((src + " hydrogen-explicit", hv))
            check_graph_to_rsmi(ctx, B, hv, src + " hydrogen-explicit")
        if len(ctx.violations) - nv_a2 >= 6:
            break
    ctx.count("a2:graph_to_rsmi:hydrogen-explicit variants", len(hreactions))
    B.run()
    phase("a2")
    # ---- (b2) options of the hydrogen conversions
    from synkit.IO.chem_converter import smiles_to_graph as _s2g
    nv_b2 = len(ctx.violations)
    for G in tiny_hgraphs(nmax):
        check_hopts(ctx, B, G, "tiny-exhaustive")
        if len(B.reqs) > 8000:
            B.run()
        if len(ctx.violations) - nv_b2 >= 6:
            break
    B.run()
    for s_ in rnd.sample(mols + rmols, min(60 if ctx.quick else 600, len(mols) + len(rmols))):
        g_ = _s2g(s_)
        if g_ is not None and g_.number_of_nodes() and len(ctx.violations) - nv_b2 < 6:
            check_hopts(ctx, B, g_, "molecule")
    for _ in range(150 if ctx.quick else 1500):
        check_hopts(ctx, B, synth_hgraph(rnd), "synthetic")
        if len(B.reqs) > 8000:
            B.run()
        if len(ctx.violations) - nv_b2 >= 6:
            break
    for _ in range(60 if ctx.quick else 600):
        check_hopts(ctx, B, synth_free_hgraph(rnd), "synthetic-free-hydrogens")
        if len(B.reqs) > 8000:
            B.run()
    B.run()
    for src, rs in (rnd.sample(reactions, 25) if ctx.quick else reactions):
        check_its_explicit(ctx, B, rs, src)
        if len(B.reqs) > 2000:
            B.run()
    B.run()
    ctx.extra["exhaustive"] = False
    ctx.extra["exhaustive_part"] = f"all hydrogen graphs with <= {nmax} nodes over labels C/0, C/2, H/0, H/1, O/no-count and all edge sets"
    nv = len(ctx.violations)

    phase("b2")
    # ---- (c) labels, ITS graphs
    check_labels(ctx, B)
    B.run()
    from synkit.IO.chem_converter import rsmi_to_its
    rsel = reactions if not ctx.quick else rnd.sample(reactions, 45)
    for src, rs in rsel:
        for variant in ([rs] if ctx.quick and rnd.random() < 0.5 else [rs, renumber(rs, rnd)]):
            try:
                its = rsmi_to_its(variant)
            except Exception:
                ctx.count("c:rsmi_to_its_error")
                continue
            check_its(ctx, B, its, "corpus-its", f"{src} {variant[:120]}")
        if len(ctx.violations) - nv >= 8:
            break
        if len(B.reqs) > 4000:
            B.run()
    B.run()
    for _ in range(150 if ctx.quick else 1500):
        I, _, _ = synth_its(rnd)
        check_its(ctx, B, I, "synthetic-its", None)
        if len(ctx.violations) - nv >= 8:
            break
        if len(B.reqs) > 4000:
            B.run()
    B.run()
    phase("c")
    # ---- (c2) explicit-hydrogen exports, rule texts written elsewhere
    nv_c2 = len(ctx.violations)
    for _ in range(60 if ctx.quick else 600):
        I, _, _ = synth_its(rnd)
        check_its_x(ctx, B, I, "synthetic-its", None)
        if len(ctx.violations) - nv_c2 >= 6:
            break
        if len(B.reqs) > 4000:
            B.run()
    for _ in range(80 if ctx.quick else 800):
        I, _, _ = synth_its(rnd)
        check_foreign_gml(ctx, B, I, "synthetic-its", None)
        if len(ctx.violations) - nv_c2 >= 6:
            break
        if len(B.reqs) > 4000:
            B.run()
    B.run()
    for i, (src, rs) in enumerate(rnd.sample(reactions, 25) if ctx.quick else reactions):
        try:
            its = rsmi_to_its(rs)
        except Exception:
            continue
        check_foreign_gml(ctx, B, its, "corpus-its", f"{src} {rs[:120]}")
        if not ctx.quick or i < 12:
            check_its_x(ctx, B, its, "corpus-its", f"{src} {rs[:120]}")
        if len(ctx.violations) - nv_c2 >= 6:
            break
        if len(B.reqs) > 4000:
            B.run()
    for src, rs in hreactions[: (10 if ctx.quick else 100)]:
        try:
            its = rsmi_to_its(rs)
        except Exception:
            continue
        check_its(ctx, B, its, "hydrogen-explicit-its", f"{src} {rs[:120]}")
        check_foreign_gml(ctx, B, its, "hydrogen-explicit-its", f"{src} {rs[:120]}")
    B.run()
    nv2 = len(ctx.violations)

    phase("c2")
    # ---- (d) routes
    rsel = reactions if not ctx.quick else rnd.sample(reactions, 35)
    # two passes (all originals, then one renumbering of each against the view of its original), so that the Lean requests of many
    # reactions travel together
    bases = []
    for src, rs in rsel:
        bases.append((src, rs, check_routes(ctx, B, rs, src)))
        if len(B.reqs) > 3000:
            B.run()
        if len(ctx.violations) - nv2 >= 6:
            break
    B.run()
    for src, rs, base in bases:
        if base is not None and len(ctx.violations) - nv2 < 6:
            check_routes(ctx, B, renumber(rs, rnd), src + " renumbered", base_view=base)
        if len(B.reqs) > 3000:
            B.run()
    B.run()
    phase("d")
    # ---- (d2) reactions with unmapped atoms / spectators, hydrogen-explicit reactions, through all routes
    nv_d2 = len(ctx.violations)
    done_ = 0
    for src, rs in rnd.sample(reactions, min(len(reactions), 40 if ctx.quick else 400)):
        v_ = unmap_some(rs, rnd)
        if v_ is None:
            continue
        before = ctx.counters.get("d:reactions", 0)
        check_routes(ctx, B, v_, src + " partially unmapped")
        if len(B.reqs) > 3000:
            B.run()
        if ctx.counters.get("d:reactions", 0) > before:
            ctx.count("d2:partially_unmapped_reactions")
            done_ += 1
            try:
                check_its(ctx, B, rsmi_to_its(v_), "partially-unmapped-its", f"{src} {v_[:120]}")
            except Exception:
                pass
        if done_ >= (12 if ctx.quick else 120) or len(ctx.violations) - nv_d2 >= 6:
            break
    for src, rs in hreactions[: (10 if ctx.quick else 100)] + [(f"hand-written:{i}", x) for i, x in enumerate(EXPLICIT_H_REACTIONS)]:
        before = ctx.counters.get("d:reactions", 0)
        check_routes(ctx, B, rs, src)
        if len(B.reqs) > 3000:
            B.run()
        if ctx.counters.get("d:reactions", 0) > before:
            ctx.count("d2:hydrogen_explicit_reactions")
        if len(ctx.violations) - nv_d2 >= 6:
            break
    B.run()
    phase("d2")
    f44_probe(ctx)
    ctx.obligation("correspondence (a): smiles_to_graph / graph_to_mol = model; canonical SMILES unchanged", VS["a"] == 0)
    ctx.obligation("correspondence (b): hydrogen conversions = model; total H, restoration under the guard, molecule unchanged", VS["b"] == 0)
    ctx.obligation("correspondence (c): labels, GML writer/reader = model; ITS -> GML -> ITS keeps atoms, charges, order pairs", VS["c"] == 0)
    ctx.obligation("correspondence (d): export routes pairwise equivalent after re-import, also across renumberings", VS["d"] == 0)


def replay(ctx, case):
    import logging
    logging.disable(logging.CRITICAL)
    B = Batch(ctx)
    run_case(ctx, B, case["case"] if "case" in case else case)
    B.run()

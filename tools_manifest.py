#!/usr/bin/env python3
"""Regenerates MANIFEST.json from the table below (keeps it valid by construction)."""
import json, pathlib
ROOT = pathlib.Path(__file__).resolve().parent
PROPS = [json.loads(l) for l in (ROOT / "properties.jsonl").read_text().splitlines() if l.strip()]

# one JSON file per claimed property under claims/ (text, note, technique, design)
CLAIMED = {f.stem: json.loads(f.read_text()) for f in sorted((ROOT / "claims").glob("C*.json"))}
PENDING_REASON = "check not built yet in this session (work in progress; see DESIGN.md section 5 for the plan)"

def main():
    checks, na = [], []
    for p in PROPS:
        pid = p["id"]
        if pid in CLAIMED:
            c = CLAIMED[pid]
            checks.append({
                "property_id": pid,
                "quick_cmd": f"./check {pid} --tier quick",
                "thorough_cmd": f"./check {pid} --tier thorough",
                "evidence_file": f"evidence/{pid}.json",
                "replay_cmd_template": f"./check {pid} --replay {{path}}",
                "engine": "lean-model+correspondence",
                "level_claimed": {"category": "proof", "text": c["text"], "design_ref": c["design"]},
                "level_note": c["note"],
                "technique": c["technique"],
            })
        else:
            na.append({"property_id": pid, "reason": PENDING_REASON})
    m = {
        "version": 1,
        "setup_cmd": "cd lean && lake build",
        "hooks": {
            "guard": "SYNKIT_VERIF",
            "enable": "no hooks are needed: every observable is reachable through public or underscore attributes; the guard name is reserved and unused",
            "baseline_off_cmd": "cd /repo && /venv/bin/python -m pytest -ra -q -p no:cacheprovider --timeout=900 --continue-on-collection-errors",
            "source_commits": [],
            "add_only": True,
        },
        "engines": [{
            "name": "lean-model+correspondence",
            "path": "lean/ (model, proofs, driver) and harness/ (generators, adapters, reporting)",
            "serves_properties": sorted(CLAIMED),
            "kind_free_text": "Lean 4 machine-checked theorems over a hand-written executable model; the model is tied to /repo on every run by a differential correspondence check driven through a JSON line protocol",
        }],
        "checks": checks,
        "not_applicable": na,
        "notes": "See DESIGN.md. Fix commits in /repo are recorded in known_findings.json (status fixed).",
    }
    (ROOT / "MANIFEST.json").write_text(json.dumps(m, indent=1) + "\n")

if __name__ == "__main__":
    main()

#!/venv/bin/python
"""Anchor coverage of the correspondence checks.

For each property the quick (or thorough) check is run under coverage.py restricted to
/repo/synkit, and the executed lines are intersected with the source ranges the property is
anchored in (properties.jsonl: anchors.mechanism[].where, anchors.files).  The result says which
statements of the anchored code the correspondence never executes -- i.e. where the tie between
model and code is only by reading -- and is written to coverage/<id>.json.

    ./tools_cover.py C17 [C18 ...] [--tier quick] [--seed 0]
    ./tools_cover.py --table            # markdown table from coverage/*.json

The evidence directory is saved and restored, so this tool never changes what the checks wrote.
Scratch data lives in a temporary directory that is removed afterwards.
"""
import json, os, re, shutil, subprocess, sys, tempfile

ROOT = os.path.dirname(os.path.abspath(__file__))
REPO = os.environ.get("VERIF_REPO", "/repo")


def props():
    out = {}
    for line in open(os.path.join(ROOT, "properties.jsonl")):
        line = line.strip()
        if line:
            d = json.loads(line)
            out[d["id"]] = d
    return out


def parse_where(w):
    m = re.match(r"^([^:]+\.py)(?::(\d+)(?:-(\d+))?)?", w.strip())
    if not m:
        return None
    f, a, b = m.group(1), m.group(2), m.group(3)
    if a is None:
        return (f, None, None)
    a = int(a)
    return (f, a, int(b) if b else a)


def run_one(pid, tier, seed, tmp):
    covf = os.path.join(tmp, pid + ".cov")
    env = dict(os.environ, COVERAGE_FILE=covf, PYTHONWARNINGS="ignore", VERIF_SEED=str(seed))
    rc = os.path.join(tmp, "rc")
    open(rc, "w").write("[run]\nparallel = True\nconcurrency = multiprocessing,thread\n"
                        "include = %s/synkit/*\n" % REPO)
    p = subprocess.run(["/venv/bin/python", "-m", "coverage", "run", "--rcfile", rc,
                        "-m", "harness.core", pid, "--tier", tier],
                       cwd=ROOT, env=env, capture_output=True, text=True)
    last = (p.stdout.strip().splitlines() or [""])[-1]
    subprocess.run(["/venv/bin/python", "-m", "coverage", "combine", "--rcfile", rc],
                   cwd=tmp, env=env, capture_output=True, text=True)
    js = os.path.join(tmp, pid + ".json")
    subprocess.run(["/venv/bin/python", "-m", "coverage", "json", "--rcfile", rc, "-o", js],
                   cwd=tmp, env=env, capture_output=True, text=True)
    data = json.load(open(js)) if os.path.exists(js) else {"files": {}}
    return p.returncode, last, data


def analyse(pid, prop, data):
    files = {}
    for f, d in data["files"].items():
        rel = os.path.relpath(f, REPO) if os.path.isabs(f) else f
        files[rel] = d
    res = {"property": pid, "mechanisms": [], "files": []}
    for rel in prop["anchors"].get("files", []):
        d = files.get(rel)
        if d is None:
            res["files"].append({"file": rel, "statements": None, "executed": 0,
                                 "note": "never imported by the check"})
            continue
        ex, mi = d["executed_lines"], d["missing_lines"]
        res["files"].append({"file": rel, "statements": len(ex) + len(mi), "executed": len(ex)})
    from harness import anchors
    groups = {}
    for name, where, fn, a, b, q in anchors.property_ranges(prop):
        groups.setdefault((name, where), []).append((fn, a, b, q))
    for (name, where), rs in groups.items():
        ex, mi, funcs, seen = [], {}, [], False
        for fn, a, b, q in rs:
            d = files.get(fn)
            funcs.append("%s:%s:%d-%d" % (fn.split("/")[-1], q, a, b))
            if d is None:
                continue
            seen = True
            ex += [(fn, n) for n in d["executed_lines"] if a <= n <= b]
            for n in d["missing_lines"]:
                if a <= n <= b:
                    mi.setdefault(fn, set()).add(n)
        ex = set(ex)
        nmi = sum(len(v) for v in mi.values())
        res["mechanisms"].append({"name": name, "where": where, "resolved": funcs,
                                  "statements": (len(ex) + nmi) if seen else None, "executed": len(ex),
                                  "missing": ["%s:%s" % (fn.split("/")[-1], ",".join(compress(sorted(v))))
                                              for fn, v in sorted(mi.items())] if seen else None})
    return res


def compress(ns):
    out, i = [], 0
    ns = sorted(ns)
    while i < len(ns):
        j = i
        while j + 1 < len(ns) and ns[j + 1] == ns[j] + 1:
            j += 1
        out.append(str(ns[i]) if i == j else "%d-%d" % (ns[i], ns[j]))
        i = j + 1
    return out


def table():
    rows = ["| prop | tier | anchored mechanism statements executed | anchored files executed | not executed (mechanism ranges) |",
            "|---|---|---|---|---|"]
    d = os.path.join(ROOT, "coverage")
    for fn in sorted(os.listdir(d)):
        if not fn.endswith(".json"):
            continue
        r = json.load(open(os.path.join(d, fn)))
        ms = [m for m in r["mechanisms"] if m["statements"]]
        s = sum(m["statements"] for m in ms)
        e = sum(m["executed"] for m in ms)
        fs = [f for f in r["files"] if f["statements"]]
        fs_s = sum(f["statements"] for f in fs)
        fs_e = sum(f["executed"] for f in fs)
        miss = "; ".join(x for m in ms for x in (m["missing"] or []))
        rows.append("| %s | %s | %d/%d (%.0f%%) | %d/%d (%.0f%%) | %s |" % (
            r["property"], r["tier"], e, s, 100.0 * e / max(s, 1), fs_e, fs_s,
            100.0 * fs_e / max(fs_s, 1), miss[:400]))
    print("\n".join(rows))


def main():
    args = sys.argv[1:]
    if "--table" in args:
        return table()
    tier, seed = "quick", 0
    if "--tier" in args:
        i = args.index("--tier"); tier = args[i + 1]; del args[i:i + 2]
    if "--seed" in args:
        i = args.index("--seed"); seed = int(args[i + 1]); del args[i:i + 2]
    P = props()
    ids = args or sorted(P)
    os.makedirs(os.path.join(ROOT, "coverage"), exist_ok=True)
    tmp = tempfile.mkdtemp(prefix="verifcov_")
    evd = os.path.join(ROOT, "evidence")
    bak = os.path.join(tmp, "evidence_bak")
    shutil.copytree(evd, bak)
    try:
        for pid in ids:
            code, last, data = run_one(pid, tier, seed, tmp)
            r = analyse(pid, P[pid], data)
            r.update({"tier": tier, "seed": seed, "check_exit": code, "check_summary": last})
            json.dump(r, open(os.path.join(ROOT, "coverage", pid + ".json"), "w"), indent=1)
            ms = [m for m in r["mechanisms"] if m["statements"]]
            print(pid, "exit", code, "mechanism statements %d/%d" % (
                sum(m["executed"] for m in ms), sum(m["statements"] for m in ms)), flush=True)
    finally:
        shutil.rmtree(evd)
        shutil.copytree(bak, evd)
        shutil.rmtree(tmp, ignore_errors=True)


if __name__ == "__main__":
    main()

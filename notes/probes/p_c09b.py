import warnings; warnings.filterwarnings("ignore")
import logging; logging.disable(logging.CRITICAL)
import json, pickle, random
from collections import Counter
from rdkit import Chem, RDLogger; RDLogger.DisableLog('rdApp.*')
from synkit.Chem.Reaction.standardize import Standardize
from synkit.Chem.Reaction.aam_validator import AAMValidator
from synkit.Chem.Reaction.balance_check import BalanceReactionCheck
std=Standardize()
uspto = [d['smart'] for d in pickle.load(open('/repo/Data/Testcase/graph.pkl.gz','rb'))]
ecoli = [d['smart'] for d in json.load(open('/repo/Data/ecoli.json.gz'))]
def rewrite(rs, rnd):
    out=[]
    for side in rs.split('>>'):
        frags=side.split('.'); rnd.shuffle(frags); new=[]
        for f in frags:
            m=Chem.MolFromSmiles(f, sanitize=False)
            if m is None: return None
            new.append(Chem.MolToSmiles(m, doRandom=True, canonical=False))
        out.append('.'.join(new))
    return '>>'.join(out)
def renum(rs, rnd):
    r,p=rs.split('>>'); mr,mp=Chem.MolFromSmiles(r,sanitize=False),Chem.MolFromSmiles(p,sanitize=False)
    maps=sorted({a.GetAtomMapNum() for m in (mr,mp) for a in m.GetAtoms() if a.GetAtomMapNum()}); perm=maps[:]; rnd.shuffle(perm); d=dict(zip(maps,perm))
    for m in (mr,mp):
        for a in m.GetAtoms():
            if a.GetAtomMapNum(): a.SetAtomMapNum(d[a.GetAtomMapNum()])
    return Chem.MolToSmiles(mr)+'>>'+Chem.MolToSmiles(mp)
rnd=random.Random(5); c=Counter(); ex={}
for rs in uspto+ecoli:
    try: s1=std.fit(rs)
    except Exception: c['fit-err']+=1; continue
    if s1 is None: c['fit-none']+=1; continue
    try: s2=std.fit(s1)
    except Exception: s2='ERR'
    c[('idem',s2==s1)]+=1
    if s2!=s1: ex.setdefault('idem',(rs,s1,s2))
    for k in range(2):
        v=rewrite(rs,rnd)
        if v is None: continue
        try: sv=std.fit(v)
        except Exception: sv='ERR'
        c[('rewrite-inv',sv==s1)]+=1
        if sv!=s1: ex.setdefault('rewrite',(rs,v,s1,sv))
        v2=renum(rs,rnd)
        try: sv2=std.fit(v2)
        except Exception: sv2='ERR'
        c[('renum-inv',sv2==s1)]+=1
        if sv2!=s1: ex.setdefault('renum',(rs,v2,s1,sv2))
        try: acc=AAMValidator.smiles_check(v2, rs, check_method='ITS')
        except Exception: acc='ERR'
        c[('validator-accepts-renum',acc)]+=1
        if acc is not True: ex.setdefault('val',(rs,v2))
print(sorted(c.items(), key=str))
for k,v in ex.items(): print(k,[str(x)[:200] for x in v])

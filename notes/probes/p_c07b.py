import warnings; warnings.filterwarnings("ignore")
import networkx as nx, random, itertools
from collections import Counter
from synkit.Graph.Matcher.subgraph_matcher import SubgraphMatch
from synkit.Graph.Matcher.graph_morphism import subgraph_isomorphism, graph_isomorphism
from synkit.Graph.Matcher.graph_matcher import GraphMatcherEngine
from p_c06 import rgraph
from p_c07 import relabel
def brute_sub(child, parent, induced, na=("element","charge"), nd=("*",0), ea="order"):
    P=list(child.nodes); H=list(parent.nodes)
    if len(P)>len(H): return False
    for img in itertools.permutations(H,len(P)):
        m=dict(zip(P,img))
        if any(child.nodes[p].get(a,d)!=parent.nodes[m[p]].get(a,d) for p in P for a,d in zip(na,nd)): continue
        ok=True
        for u,v in itertools.combinations(P,2):
            e1=child.has_edge(u,v); e2=parent.has_edge(m[u],m[v])
            if e1 and (not e2 or child[u][v].get(ea)!=parent[m[u]][m[v]].get(ea)): ok=False;break
            if induced and e2 and not e1: ok=False;break
        if ok: return True
    return False
rnd=random.Random(23); c=Counter()
for t in range(1200):
    parent=rgraph(rnd, rnd.randint(1,6), rnd.choice([.3,.5,.7]))
    if rnd.random()<.6 and len(parent)>1:
        keep=rnd.sample(list(parent.nodes), rnd.randint(1,len(parent)))
        child=parent.subgraph(keep).copy()
        if rnd.random()<.5 and child.number_of_edges():   # drop an edge -> mono but maybe not induced
            child.remove_edge(*rnd.choice(list(child.edges)))
        child=relabel(child,rnd)
    else: child=rgraph(rnd, rnd.randint(1,4), .5, base=300)
    for g in (parent,child):
        for n in g: g.nodes[n].setdefault('charge',0)
    for induced in (True,False):
        exp=brute_sub(child,parent,induced)
        ct='induced' if induced else 'monomorphism'
        for filt in (False,True):
            for name,fn in (("SM",SubgraphMatch.subgraph_isomorphism),("GM",subgraph_isomorphism)):
                got=fn(child,parent,use_filter=filt,check_type=ct)
                c[(name,ct,filt,got==exp)]+=1
    # get_mappings: valid + nonempty iff induced-contained
    eng=GraphMatcherEngine(node_attrs=['element','charge'],edge_attrs=['order'],max_mappings=None)
    for wl in (False,True):
        eng.wl1_filter=wl
        ms=eng.get_mappings(parent,child)
        # hcount rule: host>=pattern
        def valid(m):
            if set(m)!=set(child.nodes) or len(set(m.values()))!=len(m): return False
            for p,h in m.items():
                if any(child.nodes[p].get(a)!=parent.nodes[h].get(a) for a in ('element','charge')): return False
                if parent.nodes[h].get('hcount',0)<child.nodes[p].get('hcount',0): return False
            for u,v in itertools.combinations(child.nodes,2):
                e1=child.has_edge(u,v); e2=parent.has_edge(m[u],m[v])
                if e1!=e2 or (e1 and child[u][v]['order']!=parent[m[u]][m[v]]['order']): return False
            return True
        c[('get_mappings-valid',wl,all(valid(m) for m in ms))]+=1
print(sorted(c.items(), key=str))
c2=Counter(); rnd=random.Random(29)
def brute_sub_h(child,parent):
    P=list(child.nodes); H=list(parent.nodes)
    if len(P)>len(H): return False
    for img in itertools.permutations(H,len(P)):
        m=dict(zip(P,img))
        if any(child.nodes[p].get(a)!=parent.nodes[m[p]].get(a) for p in P for a in ('element','charge')): continue
        if any(parent.nodes[m[p]].get('hcount',0)<child.nodes[p].get('hcount',0) for p in P): continue
        if all((child.has_edge(u,v)==parent.has_edge(m[u],m[v])) and (not child.has_edge(u,v) or child[u][v]['order']==parent[m[u]][m[v]]['order']) for u,v in itertools.combinations(P,2)): return True
    return False
for t in range(800):
    parent=rgraph(rnd, rnd.randint(1,6), rnd.choice([.3,.5,.7]))
    keep=rnd.sample(list(parent.nodes), rnd.randint(1,len(parent))); child=relabel(parent.subgraph(keep).copy(),rnd)
    if rnd.random()<.3: child=rgraph(rnd, rnd.randint(1,4), .5, base=300)
    for g in (parent,child):
        for n in g: g.nodes[n].setdefault('charge',0)
    exp=brute_sub_h(child,parent)
    res=[]
    for wl in (False,True):
        eng=GraphMatcherEngine(node_attrs=['element','charge'],edge_attrs=['order'],max_mappings=None,wl1_filter=wl)
        ms=eng.get_mappings(parent,child); res.append(sorted(tuple(sorted(m.items())) for m in ms))
        c2[('nonempty-iff-contained',wl,(len(ms)>0)==exp)]+=1
    c2[('filter-invariant',res[0]==res[1])]+=1
print(sorted(c2.items(), key=str))

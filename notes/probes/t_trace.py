import warnings; warnings.filterwarnings("ignore")
import logging; logging.disable(logging.CRITICAL)
from synkit.Synthesis.Reactor.syn_reactor import SynReactor
from synkit.IO import rsmi_to_its
def show(g, name):
    print("  ["+name+"] nodes:")
    for n,d in sorted(g.nodes(data=True)): print("     ", n, {k:v for k,v in d.items() if k in ('element','hcount','charge','h_pairs','typesGH')})
    print("  ["+name+"] edges:", sorted((min(u,v),max(u,v),d.get('order'),d.get('standard_order')) for u,v,d in g.edges(data=True)))
rule_h = "[CH3:1][C:2](=[O:3])[O:4][H:7].[CH3:5][O:6][H:8]>>[CH3:1][C:2](=[O:3])[O:6][CH3:5].[O:4]([H:7])[H:8]"
tpl = rsmi_to_its(rule_h, core=True)
show(tpl, "input rc")
r = SynReactor("CC(=O)O.CO", tpl, strategy='all')
show(r.rule.rc.raw, "rule.rc"); show(r.rule.left.raw, "rule.left"); show(r.rule.right.raw, "rule.right")
print("  mappings", r.mappings)
host=r.graph.raw
its0 = SynReactor._glue_graph(host, r.rule.rc.raw, r.mappings[0], r._flag_pattern_has_explicit_H, r.rule.left.raw)
show(its0[0], "glued (before _explicit_h)")
show(r.its_list[0], "after _explicit_h")
print(r.smarts_list)

import warnings; warnings.filterwarnings("ignore")
import networkx as nx, random, itertools
from synkit.Graph.Matcher.graph_matcher import GraphMatcherEngine
from synkit.Graph.Matcher.subgraph_matcher import SubgraphMatch
from synkit.Graph.Matcher.graph_morphism import graph_isomorphism, subgraph_isomorphism
from p_c06 import rgraph
def brute_iso(g1,g2,na,ea,hrule=True):
    if len(g1)!=len(g2): return False
    P=list(g2.nodes); H=list(g1.nodes)
    for img in itertools.permutations(H,len(P)):
        m=dict(zip(P,img)); ok=True   # g2 node -> g1 node ; g1 = "host" (nh), g2="pattern"
        for p in P:
            if any(g1.nodes[m[p]].get(a)!=g2.nodes[p].get(a) for a in na): ok=False;break
            if hrule and g1.nodes[m[p]].get('hcount',0) < g2.nodes[p].get('hcount',0): ok=False;break
        if not ok: continue
        for u,v in itertools.combinations(P,2):
            e2=g2.has_edge(u,v); e1=g1.has_edge(m[u],m[v])
            if e1!=e2: ok=False;break
            if e2 and any(g1[m[u]][m[v]].get(a)!=g2[u][v].get(a) for a in ea): ok=False;break
        if ok: return True
    return False
def relabel(g, rnd):
    nodes=list(g.nodes); p=[x+1000 for x in nodes]; rnd.shuffle(p); m=dict(zip(nodes,p))
    h=nx.Graph(); order=nodes[:]; rnd.shuffle(order)
    for n in order: h.add_node(m[n], **g.nodes[n])
    for u,v,d in g.edges(data=True): h.add_edge(m[u],m[v],**d)
    return h
rnd=random.Random(3); bad=0
for t in range(1500):
    g1=rgraph(rnd, rnd.randint(1,5), .5)
    mode=rnd.random()
    if mode<.4: g2=relabel(g1,rnd)
    elif mode<.7:
        g2=relabel(g1,rnd); 
        if g2.number_of_edges() and rnd.random()<.5:
            u,v=rnd.choice(list(g2.edges)); g2[u][v]['order']=3.0-g2[u][v]['order']
        else:
            n=rnd.choice(list(g2.nodes)); g2.nodes[n]['element']='O'
    else: g2=rgraph(rnd, len(g1), .5, base=50)
    na=rnd.choice([['element'],['element','charge'],[]]); ea=rnd.choice([['order'],[]])
    for wl in (False,True):
        e=GraphMatcherEngine(node_attrs=na, edge_attrs=ea, wl1_filter=wl)
        got=e.isomorphic(g1,g2); exp=brute_iso(g1,g2,na,ea)
        if got!=exp: bad+=1; print("iso mismatch", t, wl, got, exp, na, ea)
print("bad", bad)

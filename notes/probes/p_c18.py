import warnings; warnings.filterwarnings("ignore")
import random, itertools, networkx as nx
from collections import Counter
from synkit.CRN.Hypergraph.hypergraph import CRNHyperGraph
from synkit.CRN.Topo.canon import CRNCanonicalizer
from synkit.CRN.Topo.automorphism import CRNAutomorphism
from p_crn import rnet
def view_key(G, nkeys=("kind",), ekeys=("role","stoich")):
    return (sorted((n, tuple(d.get(k) for k in nkeys)) for n,d in G.nodes(data=True)), sorted((u,v,tuple(d.get(k) for k in ekeys)) for u,v,d in G.edges(data=True)))
def brute_auts(G, nkeys=("kind",), ekeys=("role","stoich")):
    V=list(G.nodes); out=[]
    if len(V)>8: return None
    for img in itertools.permutations(V):
        m=dict(zip(V,img))
        if any(tuple(G.nodes[v].get(k) for k in nkeys)!=tuple(G.nodes[m[v]].get(k) for k in nkeys) for v in V): continue
        ok=True
        for u in V:
            for v in V:
                if u==v and not G.has_edge(u,u) and not G.has_edge(m[u],m[u]): continue
                e1=G.has_edge(u,v); e2=G.has_edge(m[u],m[v])
                if e1!=e2 or (e1 and tuple(G[u][v].get(k) for k in ekeys)!=tuple(G[m[u]][m[v]].get(k) for k in ekeys)): ok=False;break
            if not ok: break
        if ok: out.append(m)
    return out
def orbits_of(auts,V):
    seen=set(); out=[]
    for v in V:
        if v in seen: continue
        o=frozenset(a[v] for a in auts); seen|=o; out.append(o)
    return sorted(out,key=lambda o:sorted(map(str,o)))
def rename(H, rnd):
    sp=sorted(H.species); new=["S%d"%i for i in range(len(sp))]; rnd.shuffle(new); m=dict(zip(sp,new))
    H2=CRNHyperGraph(); es=list(H.edge_list()); rnd.shuffle(es)
    for e in es: H2.add_rxn({m[s]:c for s,c in e.reactants.items()},{m[s]:c for s,c in e.products.items()}, rule=e.rule)
    return H2
rnd=random.Random(17); c=Counter(); ex={}
for t in range(250):
    H=rnet(rnd, rnd.randint(2,4), rnd.randint(1,3), cmax=2, catalysts=True)
    for inc in (False,True):
        cz=CRNCanonicalizer(H, include_rule=inc); s=cz.summary(); G=cz.G
        auts=brute_auts(G)
        if auts is None: c['too-big']+=1; continue
        ok_n = s['automorphism_count']==len(auts); c[('canon-count',inc,ok_n)]+=1
        ok_o = sorted(map(frozenset,s['orbits']),key=lambda o:sorted(map(str,o)))==orbits_of(auts,list(G.nodes)); c[('canon-orbits',inc,ok_o)]+=1
        if not (ok_n and ok_o): ex.setdefault(('canon',inc),[repr(e) for e in H.edge_list()])
        a=CRNAutomorphism(H, include_rule=inc).summary(max_count=10**6, timeout_sec=None)
        ok_a = a['automorphism_count']==len(auts) and sorted(map(frozenset,a['orbits']),key=lambda o:sorted(map(str,o)))==orbits_of(auts,list(G.nodes)); c[('vf2',inc,ok_a)]+=1
        if not ok_a: ex.setdefault(('vf2',inc),([repr(e) for e in H.edge_list()], a['automorphism_count'], len(auts)))
        H2=rename(H,rnd); k1=view_key(s['canon_graph']); k2=view_key(CRNCanonicalizer(H2, include_rule=inc).graph())
        c[('rename-invariant',inc,k1==k2)]+=1
        if k1!=k2: ex.setdefault(('rename',inc),([repr(e) for e in H.edge_list()],[repr(e) for e in H2.edge_list()]))
print(sorted(c.items(), key=str))
for k,v in ex.items(): print(k, str(v)[:500])

import warnings; warnings.filterwarnings("ignore")
import networkx as nx, random, itertools
from synkit.Graph.Matcher.automorphism import Automorphism
from synkit.Graph.Matcher.auto_est import AutoEst
from synkit.Graph.Matcher.dedup_matches import deduplicate_matches_with_anchor
from p_c06 import rgraph
def brute_auts(g, na=("element","charge"), ea=("order",)):
    V=list(g.nodes); out=[]
    for img in itertools.permutations(V):
        m=dict(zip(V,img))
        if any(g.nodes[v].get(a, 0 if a=='charge' else '*')!=g.nodes[m[v]].get(a, 0 if a=='charge' else '*') for v in V for a in na): continue
        ok=True
        for u,v in itertools.combinations(V,2):
            if g.has_edge(u,v)!=g.has_edge(m[u],m[v]): ok=False;break
            if g.has_edge(u,v) and any(g[u][v].get(a,1.0)!=g[m[u]][m[v]].get(a,1.0) for a in ea): ok=False;break
        if ok: out.append(m)
    return out
def orbits_of(auts, V):
    seen=set(); out=[]
    for v in V:
        if v in seen: continue
        o=frozenset(a[v] for a in auts); seen|=o; out.append(o)
    return sorted(out, key=lambda o: sorted(o))
rnd=random.Random(9); bad=0
fams=[nx.cycle_graph(4), nx.cycle_graph(5), nx.cycle_graph(6), nx.complete_bipartite_graph(2,3), nx.star_graph(4), nx.path_graph(5), nx.disjoint_union(nx.path_graph(2), nx.path_graph(2)), nx.disjoint_union(nx.cycle_graph(3), nx.path_graph(3))]
for f in fams:
    for n in f: f.nodes[n].update(element='C', charge=0)
    for u,v in f.edges: f[u][v]['order']=1.0
cases = fams+[rgraph(rnd, rnd.randint(1,6), rnd.choice([.3,.5,.7])) for _ in range(400)]
for i,g in enumerate(cases):
    A=Automorphism(g); comps=list(nx.connected_components(g))
    if len(comps)<=1:
        auts=brute_auts(g); exp_n=len(auts); exp_orb=orbits_of(auts, list(g.nodes))
    else:
        exp_n=1; exp_orb=[]
        for c in comps:
            sub=g.subgraph(c); a=brute_auts(sub); exp_n*=len(a); exp_orb+=orbits_of(a, list(sub.nodes))
        exp_orb=sorted(exp_orb, key=lambda o: sorted(o))
    got_orb=sorted(A.orbits, key=lambda o: sorted(o))
    if A.n_automorphisms!=exp_n or got_orb!=exp_orb: bad+=1; print("AUT mismatch", i, A.n_automorphisms, exp_n, got_orb, exp_orb)
    # AutoEst coarsening vs exact (whole-graph automorphisms incl. component swaps)
    auts_all=brute_auts(g); true_orb=orbits_of(auts_all, list(g.nodes))
    est=AutoEst(g, node_attrs=["element","charge"], edge_attrs=["order"]).fit().orbits
    idx={v:k for k,o in enumerate(est) for v in o}
    if any(len({idx[v] for v in o})>1 for o in true_orb): bad+=1; print("EST separates true orbit", i)
print("cases", len(cases), "bad", bad)

import warnings; warnings.filterwarnings("ignore")
import random, numpy as np
from collections import Counter
from synkit.CRN.Props import stoich
from p_crn import rnet, exact
from p_c17 import pos_kernel
rnd=random.Random(21); c=Counter()
for t in range(1500):
    H = rnet(rnd, rnd.randint(2,6), rnd.randint(1,5), cmax=3, catalysts=True)
    S = np.array(exact(H)['S'].tolist(), dtype=float)
    got = stoich.is_conservative(H); ref = pos_kernel(S.T)
    B = stoich.left_nullspace(H); k = B.shape[1] if B.size else 0
    eps=1e-8
    signdef = any(np.all(B[:,j]>eps) or np.all(B[:,j]<-eps) for j in range(k))
    c[(got, ref, 'k>1' if k>1 else 'k<=1', 'signdef' if signdef else 'lp')]+=1
print(sorted(c.items(), key=str))

import warnings; warnings.filterwarnings("ignore")
import logging; logging.disable(logging.CRITICAL)
import gc, networkx as nx
from synkit.Synthesis.Reactor.batch_reactor import _RuleApplier
import synkit.Synthesis.Reactor.batch_reactor as br
br._apply_rule_raw = lambda sub, rule, inv, engine, **k: [sub.graph['name']]
ap = _RuleApplier("syn", strategy="bt", explicit_h=True, implicit_temp=False, cache_enabled=True, cache_maxsize=8)
rule = nx.Graph()
def mk(name):
    g = nx.Graph(); g.graph['name']=name; return g
hits=0; tries=0; wrong=0
for rep in range(200):
    g1 = mk("first-%d"%rep); k = id(g1); ap(g1, rule, False); del g1
    g2 = mk("second-%d"%rep); tries+=1
    if id(g2)==k:
        hits+=1
        out = ap(g2, rule, False)
        if out != ["second-%d"%rep]: wrong+=1
print("id reused in", hits, "of", tries, "; wrong (stale) answers:", wrong)

import warnings; warnings.filterwarnings("ignore")
from synkit.CRN.Hypergraph.hypergraph import CRNHyperGraph
from synkit.CRN.Hypergraph.conversion import *
from synkit.CRN.Topo.canon import CRNCanonicalizer
H=CRNHyperGraph(); H.add_rxn({"r_1":1},{"B":1}); H.add_rxn({"B":1},{"C":1})
B=hypergraph_to_bipartite(H, include_edge_id_attr=True, species_prefix=None, reaction_prefix=None)
print(B.nodes(data=True)); print(list(B.edges(data=True)))
H2=bipartite_to_hypergraph(B); print([repr(e) for e in H2.edge_list()])
print(CRNCanonicalizer(H, include_rule=True).summary()['automorphism_count'])

import warnings; warnings.filterwarnings("ignore")
import logging; logging.disable(logging.CRITICAL)
import pickle, json
from rdkit import RDLogger; RDLogger.DisableLog('rdApp.*')
from synkit.Synthesis.Reactor.syn_reactor import SynReactor
from synkit.IO import rsmi_to_its
from synkit.Chem.Reaction.standardize import Standardize
std=Standardize()
uspto = [d['smart'] for d in pickle.load(open('/repo/Data/Testcase/graph.pkl.gz','rb'))]
for i,rs in enumerate(uspto):
    target=std.fit(rs); tpl=rsmi_to_its(rs, core=True)
    re=SynReactor(target.split('>>')[1], tpl, invert=True, strategy='bt'); outs={std.fit(s) for s in re.smarts_list}
    if target not in outs:
        print(i, rs); print(" target", target); print(" outs", sorted(outs)[:5], len(re.mappings))

import Mathlib.LinearAlgebra.Matrix.Rank
open Matrix

variable {m n r : ℕ}

/-- rank certificate: basis columns `f`, left inverse `L`, coefficient matrix `C` -/
theorem rank_of_cert (S : Matrix (Fin m) (Fin n) ℚ) (f : Fin r → Fin n)
    (L : Matrix (Fin r) (Fin m) ℚ) (C : Matrix (Fin r) (Fin n) ℚ)
    (hL : L * S.submatrix id f = 1) (hC : S = S.submatrix id f * C) : S.rank = r := by
  set B := S.submatrix id f with hB
  apply le_antisymm
  · calc S.rank = (B * C).rank := by rw [← hC]
      _ ≤ B.rank := rank_mul_le_left B C
      _ ≤ r := by simpa using rank_le_card_width B
  · have h1 : (1 : Matrix (Fin r) (Fin r) ℚ).rank = r := by simp
    calc r = (L * B).rank := by rw [hL, h1]
      _ ≤ B.rank := rank_mul_le_right L B
      _ ≤ S.rank := by
        have : B = S * (1 : Matrix (Fin n) (Fin n) ℚ).submatrix id f := by
          ext i j; simp [hB, Matrix.mul_apply, Matrix.one_apply]
        rw [this]; exact rank_mul_le_left _ _

import warnings; warnings.filterwarnings("ignore")
import random, itertools
from collections import Counter, deque
from synkit.CRN.Hypergraph.hypergraph import CRNHyperGraph
from synkit.CRN.Path.realizability import PathwayRealizability, hypergraph_to_pr_inputs
from p_crn import rnet
def exhaustive(H, flow):
    sp=sorted(H.species); rx=sorted(H.edges)
    pre={e:[H.edges[e].reactants.get(s,0) for s in sp] for e in rx}; post={e:[H.edges[e].products.get(s,0) for s in sp] for e in rx}
    start=(tuple(0 for _ in sp), tuple(flow[e] for e in rx)); target=(tuple(0 for _ in sp), tuple(0 for _ in rx))
    if start==target: return True, 1
    seen={start}; q=deque([start])
    while q:
        m,rem=q.popleft()
        for i,e in enumerate(rx):
            if rem[i]>0 and all(m[j]>=pre[e][j] for j in range(len(sp))):
                m2=tuple(m[j]-pre[e][j]+post[e][j] for j in range(len(sp))); r2=rem[:i]+(rem[i]-1,)+rem[i+1:]
                st=(m2,r2)
                if st==target: return True, len(seen)
                if st not in seen: seen.add(st); q.append(st)
    return False, len(seen)
rnd=random.Random(31); c=Counter(); ex=[]
for t in range(600):
    H=rnet(rnd, rnd.randint(1,4), rnd.randint(1,4), cmax=2, catalysts=True)
    flow={e:rnd.choice([0,1,1,2,3]) for e in H.edges}
    v,e,f=hypergraph_to_pr_inputs(H, flow=flow)
    pr=PathwayRealizability().load_hypergraph_and_flow(v,e,f).build_petri_net_from_flow()
    ok,cert=pr.is_realizable()
    exp,n=exhaustive(H,flow)
    c[('verdict',ok==exp, ok)]+=1
    if ok!=exp and len(ex)<3: ex.append(([repr(x) for x in H.edge_list()],flow,ok,exp))
    if ok:
        # validate certificate
        sp=sorted(H.species); m={s:0 for s in sp}; cnt=Counter(cert); good=True
        for tid in cert:
            ed=H.edges[tid]
            if any(m[s]<k for s,k in ed.reactants.items()): good=False;break
            for s,k in ed.reactants.items(): m[s]-=k
            for s,k in ed.products.items(): m[s]+=k
        good = good and all(v==0 for v in m.values()) and all(cnt[e]==flow[e] for e in H.edges)
        c[('cert-valid',good)]+=1
print(sorted(c.items(), key=str)); print(ex)

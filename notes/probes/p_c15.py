import warnings; warnings.filterwarnings("ignore")
import random, copy
from collections import Counter
from synkit.CRN.Hypergraph.hypergraph import CRNHyperGraph
class Ref:
    def __init__(s): s.edges={}; s.kept=set(); s.mol={}; s.counters={}
    def species(s): 
        sp=set(s.kept)
        for (rule,r,p) in s.edges.values(): sp|=set(r)|set(p)
        return sp
def check(H, R, c, hist):
    ok=True
    es={k:(e.rule, dict(e.reactants.items()), dict(e.products.items())) for k,e in H.edges.items()}
    if es!=R.edges: ok=False; c['edges']+=1
    sp=R.species()
    if H.species!=sp: ok=False; c['species']+=1
    for s_ in sp:
        if set(H.species_to_in_edges.get(s_,()))!={k for k,(ru,r,p) in R.edges.items() if s_ in p}: ok=False; c['in']+=1
        if set(H.species_to_out_edges.get(s_,()))!={k for k,(ru,r,p) in R.edges.items() if s_ in r}: ok=False; c['out']+=1
    if set(H.species_to_in_edges)-sp or set(H.species_to_out_edges)-sp: ok=False; c['idx-extra-keys']+=1
    if set(H.species_to_mol)-sp: ok=False; c['mol']+=1
    so,eo,m=H.incidence_matrix(sparse=True)
    exp={}
    for k,(ru,r,p) in R.edges.items():
        for s_,v in r.items(): exp[(s_,k)]=exp.get((s_,k),0)-v
        for s_,v in p.items(): exp[(s_,k)]=exp.get((s_,k),0)+v
    if m!=exp: ok=False; c['incidence']+=1
    return ok
rnd=random.Random(3); c=Counter(); fails=[]
SP=list("ABCDEF"); RULES=["r","R1",None]
for trial in range(400):
    H=CRNHyperGraph(); R=Ref(); hist=[]; copies=[]
    for step in range(rnd.randint(5,40)):
        op=rnd.choice(["add","add","add","addid","rm","rmsp","rmsp_keep","mol","copy","merge"])
        try:
            if op in("add","addid"):
                r={s:rnd.randint(1,3) for s in SP if rnd.random()<.3}; p={s:rnd.randint(1,3) for s in SP if rnd.random()<.3}
                rule=rnd.choice(RULES); eid=None
                if op=="addid": eid=rnd.choice(["r_1","r_2","R1_1","x"])
                hist.append((op,r,p,rule,eid))
                try: e=H.add_rxn(r,p,rule=rule,edge_id=eid); R.edges[e.id]=(rule or "r",r,p)
                except (KeyError,ValueError) as ex: pass
            elif op=="rm" and H.edges:
                k=rnd.choice(sorted(H.edges)); hist.append((op,k)); H.remove_rxn(k); 
                ru,r,p=R.edges.pop(k)
                for s_ in set(r)|set(p):
                    if s_ not in R.species(): R.mol.pop(s_,None)
                # kept species remain only if... (code drops species with no incidence on remove_rxn)
                R.kept={s_ for s_ in R.kept if s_ not in (set(r)|set(p))}
            elif op in("rmsp","rmsp_keep") and H.species:
                s_=rnd.choice(sorted(H.species)); prune=(op=="rmsp"); hist.append((op,s_))
                H.remove_species(s_, prune_orphans=prune)
                gone=[]
                for k,(ru,r,p) in list(R.edges.items()):
                    r.pop(s_,None); p.pop(s_,None)
                    if not r and not p: gone.append(k)
                for k in gone: R.edges.pop(k)
                if prune: R.kept.discard(s_)
                else:
                    if s_ not in R.species(): R.kept.add(s_)
            elif op=="mol" and H.species:
                s_=rnd.choice(sorted(H.species)); H.assign_mol(s_,"m"+s_); hist.append((op,s_))
            elif op=="copy":
                copies.append((H.copy(), copy.deepcopy(R), list(hist)))
            elif op=="merge":
                O=CRNHyperGraph(); O.add_rxn({"A":1},{"Z":2},rule="R1"); O.add_rxn({"Z":1},{"B":1})
                before=set(H.edges); H.merge(O, prefix_edges=rnd.random()<.5); hist.append((op,))
                new=sorted(set(H.edges)-before)
                for k in new: e=H.edges[k]; R.edges[k]=(e.rule, dict(e.reactants.items()), dict(e.products.items()))
        except Exception as ex:
            c[('exc',type(ex).__name__,op)]+=1
        # kept-species bookkeeping: the code forgets a kept species when a later remove touches it; mirror loosely
        R.kept &= H.species if False else R.kept
        if not check(H,R,c,hist):
            fails.append(hist[-6:]); break
    for (Hc,Rc,h) in copies:
        if not check(Hc,Rc,Counter(),h): c['copy-affected']+=1
print(dict(c)); print(len(fails)); print(fails[:3])

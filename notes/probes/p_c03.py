import warnings; warnings.filterwarnings("ignore")
import logging; logging.disable(logging.CRITICAL)
import json, pickle, random, time, networkx as nx
from collections import Counter
from rdkit import Chem, RDLogger; RDLogger.DisableLog('rdApp.*')
from rdkit.Chem.rdMolDescriptors import CalcMolFormula
from synkit.Synthesis.Reactor.syn_reactor import SynReactor
from synkit.IO import rsmi_to_its
from synkit.IO.chem_converter import rsmi_to_graph
from synkit.Graph.ITS.its_decompose import get_rc
from synkit.Graph.ITS.its_construction import ITSConstruction
from synkit.Chem.Reaction.standardize import Standardize
from networkx.algorithms.isomorphism import GraphMatcher
std=Standardize()
ecoli = [d['smart'] for d in json.load(open('/repo/Data/ecoli.json.gz'))]
uspto = [d['smart'] for d in pickle.load(open('/repo/Data/Testcase/graph.pkl.gz','rb'))]
def unmapped(s):
    m=Chem.MolFromSmiles(s); 
    for a in m.GetAtoms(): a.SetAtomMapNum(0)
    return Chem.MolToSmiles(m)
def formula(s): return CalcMolFormula(Chem.MolFromSmiles(s))
def rc_sig(rsmi):
    r,p = rsmi_to_graph(rsmi, drop_non_aam=False, use_index_as_atom_map=True)
    # make H explicit for comparability? keep simple: ITS on mapped atoms
    its = ITSConstruction.ITSGraph(r,p); rc=get_rc(its)
    g=nx.Graph()
    for n,d in rc.nodes(data=True):
        t=d['typesGH']; g.add_node(n, lab=(t[0][0], t[1][2]-t[0][2], t[1][3]-t[0][3]))
    for u,v,d in rc.edges(data=True): g.add_edge(u,v, lab=d['order'][1]-d['order'][0])
    return g
def iso(a,b): return GraphMatcher(a,b,node_match=lambda x,y:x['lab']==y['lab'], edge_match=lambda x,y:x['lab']==y['lab']).is_isomorphic()
def hmode(rs):
    its=rsmi_to_its(rs); rc=get_rc(its)
    hexp=any(d.get('element')=='H' for _,d in rc.nodes(data=True)); himp=any(d['typesGH'][0][2]!=d['typesGH'][1][2] for n,d in its.nodes(data=True))
    return hexp,himp
rnd=random.Random(4); c=Counter(); ex={}
pool=[(rs,)+hmode(rs) for rs in uspto[:40]]+[]
for rs in ecoli[:80]:
    try: pool.append((rs,)+hmode(rs))
    except Exception: pass
t0=time.time()
for (rs,hexp,himp) in pool:
    if hexp and himp: c['mixed-H skip']+=1; continue
    kw = dict(implicit_temp=True, explicit_h=False) if not hexp else {}
    try: target=std.fit(rs)
    except Exception: continue
    for core in (True,False):
        tpl=rsmi_to_its(rs, core=core)
        tsig=rc_sig(rs)
        for invert in (False,True):
            subs=[target.split('>>')[1 if invert else 0]]
            other=rnd.choice(pool)[0]
            try: subs.append(std.fit(other).split('>>')[1 if invert else 0])
            except Exception: pass
            for sub in subs:
                t=time.time()
                try:
                    re=SynReactor(sub, tpl, invert=invert, strategy='bt', **kw); outs=re.smarts_list
                except Exception as e:
                    c[('ERR',type(e).__name__)]+=1; continue
                if time.time()-t>20: c['slow']+=1
                for o in outs:
                    l,r=o.split('>>'); side = r if invert else l
                    a = unmapped(side)==Chem.MolToSmiles(Chem.MolFromSmiles(sub)); c[('a-substrate-preserved',a)]+=1
                    if not a: ex.setdefault('a',(rs[:80],sub,o))
                    try: b = formula(l)==formula(r)
                    except Exception: b='err'
                    c[('b-balanced',b)]+=1
                    if b is not True: ex.setdefault('b',(rs,sub,o))
                    try:
                        osig=rc_sig(o); cc=iso(osig,tsig)
                    except Exception as e: cc='err:'+type(e).__name__
                    c[('c-rc-iso',cc)]+=1
                    if cc is not True: ex.setdefault('c',(rs,sub,o,core,invert))
print("%.0fs"%(time.time()-t0)); print(sorted(c.items(), key=str))
for k,v in ex.items(): print(k, [str(x)[:300] for x in v])

import warnings; warnings.filterwarnings("ignore")
import random
from collections import Counter
from synkit.CRN.Hypergraph.hypergraph import CRNHyperGraph
from synkit.CRN.Hypergraph.conversion import *
def edges(H, ids=True): 
    return sorted(((e.id,) if ids else ())+(e.rule, tuple(sorted(e.reactants.items())), tuple(sorted(e.products.items()))) for e in H.edge_list())
names = ["A","B","C2","Glc6P","x1","NADH","H2O","Z"]
rnd=random.Random(2); c=Counter(); ex={}
for t in range(2000):
    H=CRNHyperGraph(); ns=rnd.randint(1,6); sp=rnd.sample(names, ns)
    for _ in range(rnd.randint(1,8)):
        r={s:rnd.choice([1,1,2,3,12]) for s in sp if rnd.random()<.35}; p={s:rnd.choice([1,1,2,3,10]) for s in sp if rnd.random()<.35}
        if not r and not p: continue
        kw={}
        if rnd.random()<.2: kw['edge_id']="e%d"%rnd.randint(0,3)
        try: H.add_rxn(r,p,rule=rnd.choice(["r","R1","R2",None]), **kw)
        except KeyError: pass
    if not H.edges: continue
    if rnd.random()<.5: H.set_mol_map({s:"mol_"+s for s in H.species if rnd.random()<.7})
    for ints in (False,True):
        for pre in (("S:","R:"),(None,None)):
            if pre==(None,None) and not ints: 
                pass
            B=hypergraph_to_bipartite(H, integer_ids=ints, include_edge_id_attr=True, include_mol=True, species_prefix=pre[0], reaction_prefix=pre[1])
            H2=bipartite_to_hypergraph(B)
            ok = edges(H2)==edges(H) and H2.species_to_mol=={k:v for k,v in H.species_to_mol.items()}
            c[('bip',ints,pre[0] is None, ok)]+=1
            if not ok: ex.setdefault(('bip',ints,pre[0] is None), ([repr(e) for e in H.edge_list()], edges(H2)))
    L=hypergraph_to_rxn_strings(H); H3=rxns_to_hypergraph(L)
    ok=edges(H3,False)==edges(H,False); c[('str',ok)]+=1
    if not ok: ex.setdefault('str',(L, edges(H3,False), edges(H,False)))
    if all(e.reactants.data and e.products.data for e in H.edge_list()):
        S=hypergraph_to_species_graph(H); H4=species_graph_to_hypergraph(S)
        ok=[x[:1]+x[2:] for x in edges(H4)]==[x[:1]+x[2:] for x in edges(H)]; c[('species',ok)]+=1
        if not ok: ex.setdefault('species',([repr(e) for e in H.edge_list()], edges(H4)))
print(sorted(c.items(), key=str)); 
for k,v in ex.items(): print(k, str(v)[:600])

import warnings; warnings.filterwarnings("ignore")
from synkit.CRN.Hypergraph.hypergraph import CRNHyperGraph
# C15: id collision
H = CRNHyperGraph()
H.add_rxn({"A":1},{"B":1}, edge_id="r_1")
H.add_rxn({"C":1},{"D":1})   # generated id r_1 -> overwrite?
print("edges:", {k:repr(v) for k,v in H.edges.items()})
print("species:", H.species, "in:", dict(H.species_to_in_edges), "out:", dict(H.species_to_out_edges))
# merge collision
H1 = CRNHyperGraph(); H1.add_rxn({"A":1},{"B":1}, edge_id="r_1")
H2 = CRNHyperGraph(); H2.add_rxn({"X":1},{"Y":1}); 
try:
    H1.merge(H2, prefix_edges=True); print("merge ok", list(H1.edges))
except Exception as e: print("merge err", repr(e), list(H1.edges))
# C19
from synkit.CRN.Props.deficiency import DeficiencyAnalyzer
H = CRNHyperGraph().parse_rxns(["A+B>>C","C>>A+B"])
print(DeficiencyAnalyzer(H).compute_crn_deficiency().as_dict())
# C20
from synkit.CRN.Petri.structure import find_siphons, find_traps
H = CRNHyperGraph().parse_rxns(["A>>B","B>>A","B>>C"])
print("siphons", find_siphons(H), "traps", find_traps(H))
# C17
from synkit.CRN.Props.stoich import is_conservative, compute_conservativity, is_consistent, build_S, left_nullspace
H = CRNHyperGraph().parse_rxns(["C+B>>F+A"])
print("S", build_S(H)); print("left", left_nullspace(H))
print("is_conservative", is_conservative(H), compute_conservativity(H))
for rx in (["A+B>>C+D"],["A+B>>C"],["A>>B","C>>D"],["A+B>>2C","C>>D+E"]):
    H = CRNHyperGraph().parse_rxns(rx); print(rx, is_conservative(H), is_consistent(H))

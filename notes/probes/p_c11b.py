import warnings; warnings.filterwarnings("ignore")
import logging; logging.disable(logging.CRITICAL)
import json, pickle, random, time, sys
from collections import Counter
from rdkit import Chem, RDLogger; RDLogger.DisableLog('rdApp.*')
import synkit.Synthesis.Reactor.syn_reactor as sr
from synkit.Synthesis.Reactor.syn_reactor import SynReactor
from synkit.IO import rsmi_to_its
from synkit.Graph.ITS.its_decompose import get_rc
from synkit.Chem.Reaction.standardize import Standardize
std=Standardize()
ecoli = [d['smart'] for d in json.load(open('/repo/Data/ecoli.json.gz'))]
uspto = [d['smart'] for d in pickle.load(open('/repo/Data/Testcase/graph.pkl.gz','rb'))]
NEW = hasattr(SynReactor, "_prune_by_rule_automorphisms")
def run(sub, tpl, invert, kw, prune):
    if NEW:
        orig = SynReactor._prune_by_rule_automorphisms
        if not prune: SynReactor._prune_by_rule_automorphisms = staticmethod(lambda m, rc, pn, max_group=0: list(m))
    else:
        orig = sr.deduplicate_matches_with_anchor
        if not prune: sr.deduplicate_matches_with_anchor = lambda m, **k: list(m)
    try:
        r = SynReactor(sub, tpl, invert=invert, strategy='bt', **kw)
        return len(r.mappings), {std.fit(s) for s in r.smarts_list}
    finally:
        if NEW: SynReactor._prune_by_rule_automorphisms = staticmethod(orig)
        else: sr.deduplicate_matches_with_anchor = orig
def hexp(rs):
    rc=get_rc(rsmi_to_its(rs)); return any(d.get('element')=='H' for _,d in rc.nodes(data=True))
rnd=random.Random(8); c=Counter(); ex=[]; tot_raw=tot_pruned=0
pool=[]
for rs in uspto[:50]+ecoli[:60]:
    try: pool.append((rs, std.fit(rs), hexp(rs)))
    except Exception: pass
t0=time.time()
for rs,target,hx in pool:
    kw = {} if hx else dict(implicit_temp=True, explicit_h=False)
    tpl = rsmi_to_its(rs, core=True)
    for invert in (False, True):
        subs=[target.split('>>')[1 if invert else 0], rnd.choice(pool)[1].split('>>')[1 if invert else 0]]
        for sub in subs:
            try:
                n1,o1 = run(sub,tpl,invert,kw,True); n2,o2 = run(sub,tpl,invert,kw,False)
            except Exception as e: c['err']+=1; continue
            tot_raw+=n2; tot_pruned+=n1
            c[('same' if o1==o2 else 'LOST')]+=1
            if o1!=o2 and len(ex)<3: ex.append((rs[:100],sub,len(o1),len(o2)))
print("NEW" if NEW else "OLD", dict(c), "raw matches", tot_raw, "after pruning", tot_pruned, "%.0fs"%(time.time()-t0)); print(ex)

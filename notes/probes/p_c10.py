import warnings; warnings.filterwarnings("ignore")
import logging; logging.disable(logging.CRITICAL)
import json, pickle, networkx as nx
from collections import Counter
from rdkit import Chem, RDLogger; RDLogger.DisableLog('rdApp.*')
from synkit.IO.chem_converter import smiles_to_graph, graph_to_smi, rsmi_to_its, its_to_gml, gml_to_its, smart_to_gml
from synkit.Graph.Hyrogen._misc import h_to_explicit, h_to_implicit
from synkit.Graph.ITS.its_decompose import get_rc
ecoli = [d['smart'] for d in json.load(open('/repo/Data/ecoli.json.gz'))]
uspto = [d['smart'] for d in pickle.load(open('/repo/Data/Testcase/graph.pkl.gz','rb'))]
mols=set()
for rs in ecoli+uspto:
    for side in rs.split('>>'):
        for f in side.split('.'):
            m = Chem.MolFromSmiles(f)
            if m is None: continue
            for a in m.GetAtoms(): a.SetAtomMapNum(0)
            mols.add(Chem.MolToSmiles(m, isomericSmiles=False))
mols=sorted(mols); print("molecules", len(mols))
c=Counter(); ex={}
def gkey(g, attrs=("element","aromatic","hcount","charge")):
    return (sorted((n,tuple(d.get(a) for a in attrs)) for n,d in g.nodes(data=True)), sorted((min(u,v),max(u,v),d.get('order')) for u,v,d in g.edges(data=True)))
for s in mols:
    g = smiles_to_graph(s)
    if g is None: c['parse-none']+=1; continue
    s2 = graph_to_smi(g)
    can = Chem.MolToSmiles(Chem.MolFromSmiles(s), isomericSmiles=False)
    ok = (s2 is not None and Chem.MolToSmiles(Chem.MolFromSmiles(s2), isomericSmiles=False)==can)
    c[('smi-roundtrip', ok)]+=1
    if not ok: ex.setdefault('smi',(s,s2))
    ge = h_to_explicit(g); gi = h_to_implicit(ge)
    ok2 = gkey(gi)==gkey(g)
    c[('H-roundtrip', ok2)]+=1
    if not ok2: ex.setdefault('H',(s,))
    toth = lambda G: sum(d.get('hcount',0) for _,d in G.nodes(data=True) if d['element']!='H')+sum(1 for _,d in G.nodes(data=True) if d['element']=='H')
    c[('totalH', toth(g)==toth(ge)==toth(gi))]+=1
    se = graph_to_smi(ge)
    okm = se is not None and Chem.MolToSmiles(Chem.RemoveHs(Chem.MolFromSmiles(se)), isomericSmiles=False)==can
    c[('explicit-same-mol', okm)]+=1
    if not okm: ex.setdefault('expl',(s,se))
print(sorted(c.items(), key=str)); print(ex)
# GML
c=Counter(); ex={}
def rule_key(its):
    return (sorted((n, d['element'], d['charge'], d['typesGH'][0][3], d['typesGH'][1][3]) for n,d in its.nodes(data=True)), sorted((min(u,v),max(u,v),tuple(d['order'])) for u,v,d in its.edges(data=True)))
for rs in (ecoli[:80]+uspto[:60]):
    try:
        its = rsmi_to_its(rs); rc = get_rc(its)
    except Exception as e: c['its-err']+=1; continue
    try:
        back = gml_to_its(its_to_gml(rc, core=True, reindex=False))
        ok = rule_key(back)==rule_key(rc)
        c[('gml-rc-roundtrip', ok)]+=1
        if not ok: ex.setdefault('gml',(rs,))
        backf = gml_to_its(its_to_gml(its, core=False, reindex=False))
        okf = rule_key(backf)==rule_key(its)
        c[('gml-full-roundtrip', okf)]+=1
        if not okf: ex.setdefault('gmlf',(rs,))
        a = gml_to_its(smart_to_gml(rs, core=True, reindex=False)); b = gml_to_its(its_to_gml(its, core=True, reindex=False))
        c[('two-ways smart vs its(full,core=True)', rule_key(a)==rule_key(b))]+=1
        c[('two-ways smart vs its(rc)', rule_key(a)==rule_key(back))]+=1
    except Exception as e:
        c[('gml-err', type(e).__name__)]+=1; ex.setdefault('gmlerr',(rs,repr(e)))
print(sorted(c.items(), key=str)); print({k:str(v)[:300] for k,v in ex.items()})

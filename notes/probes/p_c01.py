import warnings; warnings.filterwarnings("ignore")
import logging; logging.disable(logging.CRITICAL)
import json, pickle, networkx as nx
from collections import Counter
from rdkit import Chem, RDLogger; RDLogger.DisableLog('rdApp.*')
from synkit.IO.chem_converter import rsmi_to_graph, rsmi_to_its, its_to_rsmi
from synkit.Graph.ITS.its_construction import ITSConstruction
from synkit.Graph.ITS.its_decompose import its_decompose, get_rc
from synkit.Chem.Reaction.aam_validator import AAMValidator
from synkit.Chem.Reaction.standardize import Standardize
from synkit.Graph.Context.radius_expand import RadiusExpand
std=Standardize()
ecoli = [d['smart'] for d in json.load(open('/repo/Data/ecoli.json.gz'))]
uspto = [d['smart'] for d in pickle.load(open('/repo/Data/Testcase/graph.pkl.gz','rb'))]
def gkey(g, attrs=("element","aromatic","hcount","charge")):
    return (sorted((n,tuple(d.get(a) for a in attrs)) for n,d in g.nodes(data=True)), sorted((min(u,v),max(u,v),d.get('order')) for u,v,d in g.edges(data=True)))
c=Counter(); ex={}
for rs in ecoli+uspto:
    try:
        r,p = rsmi_to_graph(rs)
        if r is None or p is None: c['parse-none']+=1; continue
        if set(r.nodes)!=set(p.nodes): c['unbalanced-maps']+=1; continue
        its = ITSConstruction.ITSGraph(r,p)
    except Exception as e: c[('err',type(e).__name__)]+=1; continue
    g,h = its_decompose(its)
    ok = gkey(g)==gkey(r) and gkey(h)==gkey(p)
    c[('decompose', ok)]+=1
    if not ok: ex.setdefault('dec', rs)
    # union/edges
    eset = {frozenset(e) for e in r.edges}|{frozenset(e) for e in p.edges}
    ok2 = set(its.nodes)==set(r.nodes)|set(p.nodes) and {frozenset(e) for e in its.edges}==eset and all(d['order']==(r[u][v]['order'] if r.has_edge(u,v) else 0.0, p[u][v]['order'] if p.has_edge(u,v) else 0.0) and d['standard_order']==d['order'][0]-d['order'][1] for u,v,d in its.edges(data=True))
    c[('union', ok2)]+=1
    out = its_to_rsmi(its)
    if out is None: c['rsmi-none']+=1; ex.setdefault('none', rs); continue
    eq = AAMValidator.smiles_check(out, rs, check_method='ITS')
    c[('rsmi-equiv', eq)]+=1
    if not eq: ex.setdefault('equiv', (rs,out))
    try: su = std.fit(out)==std.fit(rs)
    except Exception: su='err'
    c[('rsmi-unmapped', su)]+=1
    if su is not True: ex.setdefault('unm',(rs,out))
    # C02
    rc = get_rc(its); rc2 = get_rc(rc)
    c[('rc-idem', gkey(rc,("element","charge","typesGH"))==gkey(rc2,("element","charge","typesGH")) )]+=1
    chg = {frozenset((u,v)) for u,v,d in its.edges(data=True) if d['order'][0]!=d['order'][1] or (its.nodes[u]['element']==its.nodes[v]['element']=='H')}
    c[('rc-edges', {frozenset(e) for e in rc.edges}==chg)]+=1
    prev=set(rc.nodes)
    okm=True
    for k in (1,2,3):
        K = RadiusExpand.extract_k(its,k); ks=set(K.nodes)
        d = nx.multi_source_dijkstra_path_length(its, set(rc.nodes)) if len(rc) else {}
        if ks!={n for n,dd in d.items() if dd<=k} or not prev<=ks: okm=False
        prev=ks
    c[('context', okm)]+=1
print(sorted(c.items(), key=str)); print({k:str(v)[:400] for k,v in ex.items()})

import warnings; warnings.filterwarnings("ignore")
import logging; logging.disable(logging.CRITICAL)
import json, pickle, time, sys
from rdkit import Chem, RDLogger; RDLogger.DisableLog('rdApp.*')
from synkit.Synthesis.Reactor.syn_reactor import SynReactor
from synkit.IO import rsmi_to_its
from synkit.Chem.Reaction.standardize import Standardize
std = Standardize()
ecoli = [d['smart'] for d in json.load(open('/repo/Data/ecoli.json.gz'))]
from collections import Counter
miss=[]
for core in (True, False):
    for invert in (False, True):
        c = Counter(); t=time.time()
        for i,rs in enumerate(ecoli[:120]):
            try: target = std.fit(rs)
            except Exception: c["bad-input"]+=1; continue
            try:
                tpl = rsmi_to_its(rs, core=core)
                sub = target.split('>>')[1 if invert else 0]
                re = SynReactor(sub, tpl, invert=invert, strategy='bt', implicit_temp=True, explicit_h=False)
                outs = {std.fit(s) for s in re.smarts_list}
                ok = target in outs
                c['OK' if ok else 'MISS']+=1
                if not ok: miss.append((i,core,invert,len(outs)))
            except Exception as e:
                c['ERR:'+type(e).__name__]+=1
        print('ecoli implicit', 'core' if core else 'full', 'bw' if invert else 'fw', dict(c), '%.1fs'%(time.time()-t), flush=True)
print(miss[:20])

/-! throwaway feasibility probe: backtracking enumerator, sound + complete -/
abbrev Mapping := List (Nat × Nat)

variable (ok : Mapping → Nat → Nat → Bool) (hs : List Nat)

def extend : List Nat → Mapping → List Mapping
  | [], acc => [acc]
  | p :: ps, acc => hs.flatMap fun h => if ok acc p h then extend ps ((p, h) :: acc) else []

def ValidExt (acc : Mapping) : Mapping → Prop
  | [] => True
  | (p, h) :: rest => ValidExt acc rest ∧ h ∈ hs ∧ ok (rest ++ acc) p h = true

theorem validExt_snoc (acc new : Mapping) (p h : Nat) :
    ValidExt ok hs acc (new ++ [(p, h)]) ↔
      (h ∈ hs ∧ ok acc p h = true) ∧ ValidExt ok hs ((p, h) :: acc) new := by
  induction new with
  | nil => simp [ValidExt]
  | cons x xs ih =>
    obtain ⟨q, g⟩ := x
    simp only [List.cons_append, ValidExt, ih, List.append_assoc, List.singleton_append]
    constructor
    · rintro ⟨⟨a, b⟩, c, d⟩; exact ⟨a, b, c, d⟩
    · rintro ⟨a, b, c, d⟩; exact ⟨⟨a, b⟩, c, d⟩

theorem mem_extend (ps : List Nat) (acc m : Mapping) :
    m ∈ extend ok hs ps acc ↔
      ∃ new, m = new ++ acc ∧ new.map Prod.fst = ps.reverse ∧ ValidExt ok hs acc new := by
  induction ps generalizing acc m with
  | nil =>
    simp only [extend, List.mem_singleton, List.reverse_nil, List.map_eq_nil_iff]
    constructor
    · intro h; exact ⟨[], by simp [h], rfl, trivial⟩
    · rintro ⟨new, rfl, rfl, -⟩; rfl
  | cons p ps ih =>
    simp only [extend, List.mem_flatMap]
    constructor
    · rintro ⟨h, hh, hm⟩
      split at hm
      · next hok =>
        obtain ⟨new, rfl, hfst, hv⟩ := (ih _ _).1 hm
        exact ⟨new ++ [(p, h)], by simp, by simp [hfst],
          (validExt_snoc ok hs acc new p h).2 ⟨⟨hh, hok⟩, hv⟩⟩
      · simp at hm
    · rintro ⟨new, rfl, hfst, hv⟩
      rw [List.reverse_cons] at hfst
      -- new ends with an element whose fst is p
      obtain ⟨init, ⟨q, h⟩, rfl⟩ : ∃ init x, new = init ++ [x] := by
        cases hne : new.reverse with
        | nil => simp_all
        | cons x xs => exact ⟨xs.reverse, x, by simpa using congrArg List.reverse hne⟩
      simp only [List.map_append, List.map_cons, List.map_nil] at hfst
      obtain ⟨h1, h2⟩ := List.append_inj' hfst rfl
      simp only [List.cons.injEq, and_true] at h2
      subst h2
      obtain ⟨⟨hh, hok⟩, hv'⟩ := (validExt_snoc ok hs acc init q h).1 hv
      refine ⟨h, hh, ?_⟩
      rw [if_pos hok]
      exact (ih _ _).2 ⟨init, by simp, h1, hv'⟩

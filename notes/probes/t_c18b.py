import warnings; warnings.filterwarnings("ignore")
from synkit.CRN.Hypergraph.hypergraph import CRNHyperGraph
from synkit.CRN.Topo.canon import CRNCanonicalizer
from synkit.CRN.Topo.automorphism import CRNAutomorphism
import inspect
for rx in (["2A+B>>C"], ["A+B>>C"]):
    H = CRNHyperGraph().parse_rxns(rx)
    s = CRNCanonicalizer(H, include_rule=True).summary()
    a = CRNAutomorphism(H, include_rule=True).summary()
    print(rx, "canon autcount", s['automorphism_count'], s['orbits'], "| VF2", a['automorphism_count'], a['orbits'])
# renaming invariance of canonical graph
import networkx as nx
def canon_edges(rx, inc):
    H = CRNHyperGraph().parse_rxns(rx)
    G = CRNCanonicalizer(H, include_rule=inc).graph()
    return sorted((u,v,tuple(sorted((k,str(x)) for k,x in d.items() if k in ('role','stoich')))) for u,v,d in G.edges(data=True)), sorted((n,d.get('kind')) for n,d in G.nodes(data=True))
print(canon_edges(["A+B>>C","C>>D"], True) == canon_edges(["X+D>>B","B>>A"], True))
print(canon_edges(["A+B>>C","C>>D"], False) == canon_edges(["X+D>>B","B>>A"], False))
print(inspect.signature(CRNAutomorphism.orbits))
try:
    print(CRNAutomorphism(CRNHyperGraph().parse_rxns(["A>>B"])).orbits())
except Exception as e: print("orbits() err", repr(e))

import warnings; warnings.filterwarnings("ignore")
import random, numpy as np, sympy as sp
from scipy.optimize import linprog
from synkit.CRN.Props import stoich
from p_crn import rnet, exact
def pos_kernel(A):  # exists x>0 with A x = 0 ?  maximize t: A x=0, x>=t, sum x=1
    m,n = A.shape
    if n==0: return False
    c = np.zeros(n+1); c[-1]=-1
    Aeq = np.zeros((m+1,n+1)); Aeq[:m,:n]=A; Aeq[m,:n]=1; beq=np.zeros(m+1); beq[m]=1
    Aub = np.zeros((n,n+1)); Aub[:,:n]=-np.eye(n); Aub[:,-1]=1
    res = linprog(c, A_ub=Aub, b_ub=np.zeros(n), A_eq=Aeq, b_eq=beq, bounds=[(None,None)]*(n+1), method="highs")
    return bool(res.success and -res.fun > 1e-9)
rnd=random.Random(11); bad={}; N=400
for t in range(N):
    H = rnet(rnd, rnd.randint(2,6), rnd.randint(1,5), cmax=3, catalysts=True)
    ex = exact(H); S = np.array(ex['S'].tolist(), dtype=float)
    sp_, rx_, Si = stoich.build_S(H)
    if sp_!=ex['species'] or not np.array_equal(Si, S): bad['S']=bad.get('S',0)+1
    if stoich.stoichiometric_rank(H)!=ex['rank']: bad['rank']=bad.get('rank',0)+1
    L = stoich.left_nullspace(H); R = stoich.right_nullspace(H)
    if L.shape[1]!=S.shape[0]-ex['rank'] or R.shape[1]!=S.shape[1]-ex['rank']: bad['dims']=bad.get('dims',0)+1
    if (L.size and np.abs(L.T@S).max()>1e-9) or (R.size and np.abs(S@R).max()>1e-9): bad['annih']=bad.get('annih',0)+1
    cons = stoich.is_conservative(H); cons_ref = pos_kernel(S.T)
    if (cons is True)!=cons_ref: bad['conservative']=bad.get('conservative',0)+1; bad.setdefault('ex_cons',[repr(e) for e in H.edge_list()])
    flag, m = stoich.compute_conservativity(H)
    if flag and m is not None and (np.min(m)<=0 or np.abs(m@S).max()>1e-8): bad['witness']=bad.get('witness',0)+1
    if (flag is True)!=cons_ref: bad['compute_cons']=bad.get('compute_cons',0)+1
    consi = stoich.is_consistent(H); consi_ref = pos_kernel(S)
    if (consi is True)!=consi_ref: bad['consistent']=bad.get('consistent',0)+1; bad.setdefault('ex_consi',[repr(e) for e in H.edge_list()])
print(N, bad)
from collections import Counter
c=Counter()
rnd=random.Random(12)
for t in range(300):
    H = rnet(rnd, rnd.randint(2,6), rnd.randint(1,5), cmax=3, catalysts=True)
    S = np.array(exact(H)['S'].tolist(), dtype=float)
    c[('consistent', stoich.is_consistent(H), pos_kernel(S))]+=1
    c[('conservative', stoich.is_conservative(H), pos_kernel(S.T))]+=1
print(sorted(c.items(), key=str))

import warnings; warnings.filterwarnings("ignore")
import logging; logging.disable(logging.CRITICAL)
import json, pickle, time, sys
from rdkit import Chem, RDLogger; RDLogger.DisableLog('rdApp.*')
from synkit.Synthesis.Reactor.syn_reactor import SynReactor
from synkit.IO import rsmi_to_its
from synkit.Chem.Reaction.standardize import Standardize
from synkit.Graph.ITS.its_decompose import get_rc
std = Standardize()
ecoli = [d['smart'] for d in json.load(open('/repo/Data/ecoli.json.gz'))]
uspto = [d['smart'] for d in pickle.load(open('/repo/Data/Testcase/graph.pkl.gz','rb'))]
def hstyle(rsmi):
    its = rsmi_to_its(rsmi); rc = get_rc(its)
    hexp = any(d.get('element')=='H' for _,d in rc.nodes(data=True))
    himp = any(d['typesGH'][0][2]!=d['typesGH'][1][2] for _,d in rc.nodes(data=True))
    return hexp, himp
def run(rsmi, core, invert, strat):
    r,p = rsmi.split('>>')
    target = std.fit(rsmi)
    tpl = rsmi_to_its(rsmi, core=core)
    sub = std.fit(rsmi).split('>>')[1 if invert else 0]
    t=time.time()
    try:
        re = SynReactor(sub, tpl, invert=invert, strategy=strat)
        outs = {std.fit(s) for s in re.smarts_list}
    except Exception as e:
        return 'ERR:'+type(e).__name__, time.time()-t
    return ('OK' if target in outs else 'MISS(%d)'%len(outs)), time.time()-t
from collections import Counter
for name, corp in (('ecoli',ecoli[:0]),('uspto',uspto[:100])):
    for core in (True,):
        for invert in (False, True):
            c = Counter(); tt=0
            for rs in corp:
                try: hexp,himp = hstyle(rs)
                except Exception as e: c['parse-err']+=1; continue
                res, dt = run(rs, core, invert, 'bt'); tt+=dt
                c[(res.split('(')[0], 'Hexp' if hexp else '', 'Himp' if himp else '')]+=1
            print(name, 'core' if core else 'full', 'bw' if invert else 'fw', dict(c), '%.1fs'%tt, flush=True)

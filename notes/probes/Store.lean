/-! feasibility probe for C15: store with a hand-maintained index -/
abbrev Side := List (Nat × Nat)            -- species ↦ coefficient (>0), keys distinct
structure Rxn where
  reactants : Side
  products  : Side
deriving Repr, DecidableEq

structure St where
  edges  : List (Nat × Rxn)               -- id ↦ reaction, keys distinct
  outIdx : Nat → List Nat                 -- species ↦ ids of reactions consuming it

def St.lookup (s : St) (i : Nat) : Option Rxn := (s.edges.find? (·.1 == i)).map (·.2)

def St.Inv (s : St) : Prop :=
  (s.edges.map (·.1)).Nodup ∧
  ∀ sp i, i ∈ s.outIdx sp ↔ ∃ r, (i, r) ∈ s.edges ∧ sp ∈ r.reactants.map (·.1)

def St.add (s : St) (i : Nat) (r : Rxn) : Option St :=
  if i ∈ s.edges.map (·.1) then none else
  some { edges := s.edges ++ [(i, r)]
         outIdx := fun sp => if sp ∈ r.reactants.map (·.1) then s.outIdx sp ++ [i] else s.outIdx sp }

def St.remove (s : St) (i : Nat) : Option St :=
  match s.lookup i with
  | none => none
  | some _ => some { edges := s.edges.filter (·.1 != i)
                     outIdx := fun sp => (s.outIdx sp).filter (· != i) }

theorem add_inv (s s' : St) (i : Nat) (r : Rxn) (h : s.Inv) (ha : s.add i r = some s') : s'.Inv := by
  unfold St.add at ha
  split at ha
  · simp at ha
  · next hni =>
    cases ha
    obtain ⟨hnd, hidx⟩ := h
    refine ⟨?_, ?_⟩
    · simp only [List.map_append, List.map_cons, List.map_nil]
      rw [List.nodup_append]
      refine ⟨hnd, by simp, ?_⟩
      intro a ha b hb; simp at hb; subst hb; intro hab; subst hab; exact hni ha
    · intro sp j
      by_cases hsp : sp ∈ r.reactants.map (·.1)
      · simp only [hsp, if_true, List.mem_append, List.mem_singleton, hidx]
        constructor
        · rintro (⟨r', hr', hs'⟩ | rfl)
          · exact ⟨r', Or.inl hr', hs'⟩
          · exact ⟨r, Or.inr rfl, hsp⟩
        · rintro ⟨r', hr' | hr', hs'⟩
          · exact Or.inl ⟨r', hr', hs'⟩
          · cases hr'; exact Or.inr rfl
      · simp only [hsp, if_false, hidx, List.mem_append, List.mem_singleton]
        constructor
        · rintro ⟨r', hr', hs'⟩; exact ⟨r', Or.inl hr', hs'⟩
        · rintro ⟨r', hr' | hr', hs'⟩
          · exact ⟨r', hr', hs'⟩
          · cases hr'; exact absurd hs' hsp

theorem remove_inv (s s' : St) (i : Nat) (h : s.Inv) (hr : s.remove i = some s') : s'.Inv := by
  unfold St.remove at hr
  split at hr
  · simp at hr
  · cases hr
    obtain ⟨hnd, hidx⟩ := h
    refine ⟨?_, ?_⟩
    · exact (hnd.sublist ((List.filter_sublist).map _))
    · intro sp j
      simp only [List.mem_filter, hidx, bne_iff_ne, ne_eq]
      constructor
      · rintro ⟨⟨r, hr, hs⟩, hji⟩; exact ⟨r, ⟨hr, by simpa using hji⟩, hs⟩
      · rintro ⟨r, ⟨hr, hji⟩, hs⟩; exact ⟨⟨r, hr, hs⟩, by simpa using hji⟩

import warnings; warnings.filterwarnings("ignore")
import networkx as nx, random
from synkit.Graph.Matcher.graph_matcher import GraphMatcherEngine
def mk(nodes, edges):
    g = nx.Graph()
    for n,e in nodes: g.add_node(n, element=e, charge=0)
    for u,v,o in edges: g.add_edge(u,v,order=o)
    return g
host = mk([(1,'C'),(2,'C'),(3,'O')],[(1,2,1),(2,3,1)])
pat = mk([(10,'C'),(11,'O')],[(10,11,1)])
eng = GraphMatcherEngine(node_attrs=['element'], edge_attrs=['order'], max_mappings=None)
print("C07 get_mappings strictly smaller pattern:", eng.get_mappings(host, pat))
print("  swapped args:", eng.get_mappings(pat, host))
host2 = mk([(1,'C'),(2,'O')],[(1,2,1)])
print("  equal size:", eng.get_mappings(host2, pat))
# wl cache sharing
g1 = mk([(1,'C'),(2,'C')],[(1,2,1)]); g2 = mk([(1,'C'),(2,'C')],[(1,2,1)]); g2.nodes[1]['charge']=1
e_charge = GraphMatcherEngine(node_attrs=['element','charge'], edge_attrs=['order'], wl1_filter=True)
e_elem = GraphMatcherEngine(node_attrs=['element'], edge_attrs=['order'], wl1_filter=True)
print("fresh elem-only iso (expected True):", GraphMatcherEngine(node_attrs=['element'], edge_attrs=['order'], wl1_filter=False).isomorphic(g1,g2))
print("charge engine:", e_charge.isomorphic(g1,g2))
print("elem engine after charge engine (expected True):", e_elem.isomorphic(g1,g2))
# subgraph filter with relabelled
from synkit.Graph.Matcher.subgraph_matcher import SubgraphMatch
print("SubgraphMatch no filter:", SubgraphMatch.subgraph_isomorphism(pat, host, use_filter=False), "filter:", SubgraphMatch.subgraph_isomorphism(pat, host, use_filter=True))
from synkit.Graph.Matcher.graph_morphism import subgraph_isomorphism
print("graph_morphism no filter:", subgraph_isomorphism(pat, host, use_filter=False), "filter:", subgraph_isomorphism(pat, host, use_filter=True))

# C08 nauty
from synkit.Graph.Canon.nauty import NautyCanonicalizer
from synkit.Graph.canon_graph import GraphCanonicaliser, CanonicalGraph
c4 = nx.cycle_graph(4)
for n in c4: c4.nodes[n].update(element='C', charge=0, aromatic=False, hcount=2)
for u,v in c4.edges: c4[u][v]['order']=1.0
nc = NautyCanonicalizer(node_attrs=['element','aromatic','charge','hcount'], edge_attrs=['order'])
cg = nc.canonical_form(c4)
print("C08 nauty C4 canonical nodes:", sorted(cg.nodes()))
gc = GraphCanonicaliser(backend='nauty')
def perm_graph(g, seed):
    rnd = random.Random(seed); nodes = list(g.nodes()); p = nodes[:]; rnd.shuffle(p)
    m = dict(zip(nodes,p)); h = nx.Graph()
    order = nodes[:]; rnd.shuffle(order)
    for n in order: h.add_node(m[n], **g.nodes[n])
    es = list(g.edges(data=True)); rnd.shuffle(es)
    for u,v,d in es: h.add_edge(m[u],m[v],**d)
    return h
sigs = set(); csigs=set()
for s in range(20):
    h = perm_graph(c4, s)
    sigs.add(gc.canonical_signature(h)); csigs.add(CanonicalGraph(h, gc).canonical_hash)
print("nauty signatures over 20 perms of C4:", len(sigs), len(csigs))
# path graph P3 C-C-C with ends equal
p3 = mk([(1,'C'),(2,'O'),(3,'C')],[(1,2,1),(2,3,1)])
for n in p3: p3.nodes[n].update(aromatic=False,hcount=0)
sigs=set()
for s in range(20):
    sigs.add(gc.canonical_signature(perm_graph(p3,s)))
print("nauty sigs P3:", len(sigs))
for be in ['generic','wl','morgan']:
    g = GraphCanonicaliser(backend=be); ss=set()
    for s in range(20): ss.add(g.canonical_signature(perm_graph(p3,s)))
    print(be, "sigs P3:", len(ss))

import warnings; warnings.filterwarnings("ignore")
import logging; logging.disable(logging.CRITICAL)
import json, pickle, random, networkx as nx
from collections import Counter
from rdkit import Chem, RDLogger; RDLogger.DisableLog('rdApp.*')
from synkit.Chem.Reaction.aam_validator import AAMValidator
from synkit.Chem.Reaction.balance_check import BalanceReactionCheck
from synkit.Chem.Reaction.standardize import Standardize
from synkit.IO.chem_converter import rsmi_to_graph
from synkit.Graph.ITS.its_construction import ITSConstruction
from synkit.Graph.ITS.its_decompose import get_rc
from networkx.algorithms.isomorphism import GraphMatcher
std=Standardize()
uspto = [d['smart'] for d in pickle.load(open('/repo/Data/Testcase/graph.pkl.gz','rb'))]
ecoli = [d['smart'] for d in json.load(open('/repo/Data/ecoli.json.gz'))]
def its_of(rs):
    r,p=rsmi_to_graph(rs); return ITSConstruction.ITSGraph(r,p)
def iso(a,b): return GraphMatcher(a,b,node_match=lambda x,y:x['typesGH']==y['typesGH'], edge_match=lambda x,y:x['order']==y['order']).is_isomorphic()
def transpose_product(rs, a, b):
    r,p=rs.split('>>'); mp=Chem.MolFromSmiles(p, sanitize=False)
    for at in mp.GetAtoms():
        if at.GetAtomMapNum()==a: at.SetAtomMapNum(b)
        elif at.GetAtomMapNum()==b: at.SetAtomMapNum(a)
    return r+'>>'+Chem.MolToSmiles(mp)
rnd=random.Random(1); c=Counter(); ex={}
for rs in uspto[:60]+ecoli[:60]:
    try: its=its_of(rs); rc=get_rc(its)
    except Exception: continue
    centre=[n for n in rc.nodes]
    if len(centre)<2: continue
    for _ in range(3):
        a,b=rnd.sample(centre,2)
        rs2=transpose_product(rs,a,b)
        try: its2=its_of(rs2); rc2=get_rc(its2)
        except Exception: c['transposed-invalid']+=1; continue
        for method,g1,g2 in (('ITS',its,its2),('RC',rc,rc2)):
            ref=iso(g1,g2); got=AAMValidator.smiles_check(rs2, rs, check_method=method)
            c[(method,'ref',ref,'got',got)]+=1
            if ref!=got: ex.setdefault(method,(rs,rs2))
    # balance
    l,r=rs.split('>>'); frags=r.split('.')
    if len(frags)>1:
        unb=l+'>>'+'.'.join(frags[1:]); c[('balance-deleted', BalanceReactionCheck.rsmi_balance_check(unb))]+=1
    c[('balance-orig', BalanceReactionCheck.rsmi_balance_check(rs))]+=1
print(sorted(c.items(), key=str)); print({k:str(v)[:500] for k,v in ex.items()})

import warnings; warnings.filterwarnings("ignore")
import networkx as nx, random, itertools
from synkit.Graph.canon_graph import GraphCanonicaliser, CanonicalGraph
from p_c06 import rgraph
from p_c07 import brute_iso, relabel
rnd=random.Random(13)
fams=[nx.cycle_graph(4), nx.cycle_graph(6), nx.complete_bipartite_graph(2,3), nx.star_graph(4), nx.path_graph(5), nx.disjoint_union(nx.path_graph(2), nx.path_graph(2)), nx.cubical_graph(), nx.petersen_graph()]
for f in fams:
    for n in f: f.nodes[n].update(element='C', charge=0, aromatic=False, hcount=0)
    for u,v in f.edges: f[u][v]['order']=1.0
cases=fams+[rgraph(rnd, rnd.randint(1,7), rnd.choice([.3,.5,.7])) for _ in range(300)]
for g in cases:
    for n in g: 
        g.nodes[n].setdefault('aromatic', False); g.nodes[n].setdefault('hcount',0)
for be in ('nauty','generic','wl','morgan'):
    gc=GraphCanonicaliser(backend=be); bad=Counter=0; incompl=0; notonto=0; unsound=0
    sigs=[]
    for g in cases:
        s0=gc.canonical_signature(g); cg=gc.make_canonical_graph(g)
        if sorted(cg.nodes())!=list(range(1,len(g)+1)): notonto+=1
        if not brute_iso(cg, g, ['element','charge','aromatic','hcount'], ['order'], hrule=False) if len(g)<=7 else False: unsound+=1
        for k in range(4):
            h=relabel(g,rnd)
            if gc.canonical_signature(h)!=s0: incompl+=1
            if CanonicalGraph(h,gc).canonical_hash!=CanonicalGraph(g,gc).canonical_hash: bad+=1
        sigs.append((s0,g))
    # soundness across different graphs: equal sig => iso
    for (s1,g1),(s2,g2) in itertools.combinations(sigs[:150],2):
        if s1==s2 and not brute_iso(g1,g2,['element','charge','aromatic','hcount'],['order'],hrule=False): unsound+=1
    print(be, "cases", len(cases), "not-onto-1..N", notonto, "not-faithful/unsound", unsound, "sig differs under relabel", incompl, "wrapper differs", bad)

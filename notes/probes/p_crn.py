import warnings; warnings.filterwarnings("ignore")
import random, itertools, networkx as nx, sympy as sp
from synkit.CRN.Hypergraph.hypergraph import CRNHyperGraph
from synkit.CRN.Hypergraph.conversion import hypergraph_to_bipartite
from synkit.CRN.Props.deficiency import DeficiencyAnalyzer
from synkit.CRN.Petri.structure import find_siphons, find_traps
from synkit.CRN.Props import stoich
def rnet(rnd, ns, nr, cmax=2, catalysts=False):
    sp_ = [chr(65+i) for i in range(ns)]
    H = CRNHyperGraph()
    for _ in range(nr):
        while True:
            r = {s: rnd.randint(1,cmax) for s in sp_ if rnd.random()<.4}
            p = {s: rnd.randint(1,cmax) for s in sp_ if rnd.random()<.4 and (catalysts or s not in r)}
            if r or p: break
        H.add_rxn(r,p)
    return H
def und(H):
    B = hypergraph_to_bipartite(H, integer_ids=True)
    return B.to_undirected()
def exact(H):
    species = sorted(H.species); rx = [H.edges[k] for k in sorted(H.edges)]
    S = sp.Matrix(len(species), len(rx), lambda i,j: rx[j].products.get(species[i],0)-rx[j].reactants.get(species[i],0))
    cx = []
    for e in rx:
        for side in (e.reactants, e.products):
            v = tuple(side.get(s,0) for s in species)
            if v not in cx: cx.append(v)
    CG = nx.DiGraph(); CG.add_nodes_from(range(len(cx)))
    for e in rx:
        CG.add_edge(cx.index(tuple(e.reactants.get(s,0) for s in species)), cx.index(tuple(e.products.get(s,0) for s in species)))
    comps = list(nx.connected_components(CG.to_undirected()))
    wr = all(nx.is_strongly_connected(CG.subgraph(c)) for c in comps)
    rank = S.rank()
    def issiphon(X): return all((not any(s in X for s in e.products)) or any(s in X for s in e.reactants) for e in rx)
    def istrap(X): return all((not any(s in X for s in e.reactants)) or any(s in X for s in e.products) for e in rx)
    def minimal(pred):
        out=[]
        for k in range(1,len(species)+1):
            for c in itertools.combinations(species,k):
                X=set(c)
                if pred(X) and not any(o<=X for o in out): out.append(X)
        return sorted(map(sorted,out))
    return dict(nc=len(cx), nl=len(comps), rank=rank, delta=len(cx)-len(comps)-rank, wr=wr, siph=minimal(issiphon), trap=minimal(istrap), S=S, species=species)
rnd=random.Random(5); bad=0; N=300
for t in range(N):
    H = rnet(rnd, rnd.randint(2,5), rnd.randint(1,4))
    ex = exact(H); G = H
    d = DeficiencyAnalyzer(G).compute_crn_deficiency().as_dict()
    got = (d['n_complexes'], d['n_linkage_classes'], d['stoich_rank'], d['deficiency'], d['weakly_reversible'])
    exp = (ex['nc'], ex['nl'], ex['rank'], ex['delta'], ex['wr'])
    if got!=exp: bad+=1; print("DEF mismatch", t, got, exp, [repr(e) for e in H.edge_list()])
    if sum(d['linkage_deficiencies'])>d['deficiency'] or d['deficiency']<0: bad+=1; print("DEF ineq", d)
    s = sorted(map(sorted, find_siphons(G))); tr = sorted(map(sorted, find_traps(G)))
    if s!=ex['siph'] or tr!=ex['trap']: bad+=1; print("SIPHON/TRAP mismatch", t, s, ex['siph'], tr, ex['trap'])
print("with undirected view (simulated fix): bad", bad, "of", N)

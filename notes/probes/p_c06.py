import warnings; warnings.filterwarnings("ignore")
import networkx as nx, random, itertools
from synkit.Graph.Matcher.subgraph_matcher import SubgraphSearchEngine as S
def rgraph(rnd, n, p, base=0):
    g = nx.Graph()
    ids = list(range(base+1, base+n+1)); rnd.shuffle(ids)
    for v in ids:
        a = dict(element=rnd.choice("CN"), charge=rnd.choice([0,0,0,1]))
        if rnd.random()<0.8: a['hcount']=rnd.choice([0,1,2])
        g.add_node(v, **a)
    for u,v in itertools.combinations(ids,2):
        if rnd.random()<p: g.add_edge(u,v,order=float(rnd.choice([1,2])))
    return g
def brute(host, pat, na, ea):
    out=[]
    P=list(pat.nodes); H=list(host.nodes)
    for img in itertools.permutations(H, len(P)):
        m=dict(zip(P,img)); ok=True
        for p in P:
            if any(host.nodes[m[p]].get(a)!=pat.nodes[p].get(a) for a in na): ok=False;break
            if host.nodes[m[p]].get('hcount',0) < pat.nodes[p].get('hcount',0): ok=False;break
        if not ok: continue
        for u,v,d in pat.edges(data=True):
            if not host.has_edge(m[u],m[v]) or any(host[m[u]][m[v]].get(a)!=d.get(a) for a in ea): ok=False;break
        if ok: out.append(m)
    return out
def comps(g): 
    c={}
    for i,cc in enumerate(nx.connected_components(g)):
        for v in cc: c[v]=i
    return c
def key(ms): return sorted(tuple(sorted(m.items())) for m in ms)
rnd=random.Random(7); bad=0; n=0
for t in range(3000):
    host=rgraph(rnd, rnd.randint(1,6), rnd.choice([.2,.4,.6])); pat=rgraph(rnd, rnd.randint(0,3), rnd.choice([.3,.7]), base=100)
    na=rnd.choice([['element'],['element','charge']]); ea=['order']
    h0=host.copy(); p0=pat.copy()
    full=brute(host,pat,na,ea)
    a=S.find_subgraph_mappings(host,pat,node_attrs=na,edge_attrs=ea,strategy='all')
    if key(a)!=key(full): bad+=1; print("ALL mismatch", t, len(a), len(full))
    hc, pc = comps(host), comps(pat)
    nh, np_ = len(set(hc.values())), len(set(pc.values()))
    if np_==0: exp=[{}]
    elif nh<np_: exp=full
    else: exp=[m for m in full if all((hc[m[u]]!=hc[m[v]]) for u in pat for v in pat if pc[u]!=pc[v])]
    c=S.find_subgraph_mappings(host,pat,node_attrs=na,edge_attrs=ea,strategy='comp',strict_cc_count=False)
    if key(c)!=key(exp): bad+=1; print("COMP mismatch", t, len(c), len(exp), nh, np_)
    b=S.find_subgraph_mappings(host,pat,node_attrs=na,edge_attrs=ea,strategy='bt',strict_cc_count=False)
    if key(b)!=key(exp if exp else full): bad+=1; print("BT mismatch", t)
    if not (nx.utils.graphs_equal(host,h0) and nx.utils.graphs_equal(pat,p0)): bad+=1; print("mutated")
    n+=1
print("cases", n, "bad", bad)

import warnings; warnings.filterwarnings("ignore")
import logging; logging.disable(logging.CRITICAL)
import random
from rdkit import Chem, RDLogger; RDLogger.DisableLog('rdApp.*')
from synkit.Synthesis.Reactor.syn_reactor import SynReactor
import synkit.Synthesis.Reactor.syn_reactor as sr
from synkit.IO import rsmi_to_its
from synkit.Chem.Reaction.standardize import Standardize
std = Standardize()
# Suzuki-type: aryl bromide + aryl boronic acid -> biaryl + B(OH)2Br
suzuki = "[cH:1]1[cH:2][cH:3][cH:4][cH:5][c:6]1[Br:7].[cH:8]1[cH:9][cH:10][cH:11][cH:12][c:13]1[B:14]([OH:15])[OH:16]>>[cH:1]1[cH:2][cH:3][cH:4][cH:5][c:6]1[c:13]1[cH:8][cH:9][cH:10][cH:11][cH:12]1.[Br:7][B:14]([OH:15])[OH:16]"
def renumber(rsmi, seed):
    rnd = random.Random(seed)
    r,p = rsmi.split('>>'); mr, mp = Chem.MolFromSmiles(r, sanitize=False), Chem.MolFromSmiles(p, sanitize=False)
    maps = sorted({a.GetAtomMapNum() for a in mr.GetAtoms()})
    perm = maps[:]; rnd.shuffle(perm); d = dict(zip(maps, perm))
    for m in (mr, mp):
        for a in m.GetAtoms(): a.SetAtomMapNum(d[a.GetAtomMapNum()])
    return Chem.MolToSmiles(mr) + '>>' + Chem.MolToSmiles(mp)
target = "Cc1ccc(-c2ccccc2F)cc1.OB(O)Br"   # unsymmetrical biaryl + byproduct
def run(tpl_rsmi, prune=True):
    orig = sr.deduplicate_matches_with_anchor
    if not prune: sr.deduplicate_matches_with_anchor = lambda m, **k: list(m)
    try:
        r = SynReactor(target, rsmi_to_its(tpl_rsmi, core=True), invert=True, strategy='bt', implicit_temp=True, explicit_h=False)
        outs = sorted({std.fit(s) for s in r.smarts_list})
        return len(r.mappings), outs
    finally:
        sr.deduplicate_matches_with_anchor = orig
ref_n, ref = run(suzuki, prune=False)
print("unpruned", ref_n, len(ref))
for o in ref: print("   ", o)
for seed in range(8):
    t = renumber(suzuki, seed)
    n, outs = run(t, True); n2, outs2 = run(t, False)
    print(seed, "pruned maps", n, "distinct", len(outs), "| unpruned maps", n2, "distinct", len(outs2), "| lost", len(set(outs2)-set(outs)))

import warnings; warnings.filterwarnings("ignore")
import networkx as nx
from synkit.Graph.Matcher.subgraph_matcher import SubgraphSearchEngine as S
def mk(nodes, edges):
    g = nx.Graph()
    for n,e,h in nodes: g.add_node(n, element=e, charge=0, hcount=h)
    for u,v,o in edges: g.add_edge(u,v,order=o)
    return g
host = mk([(1,'C',1),(2,'C',0),(3,'C',1),(4,'C',0),(5,'O',0)],[(1,2,1),(3,4,1)])   # 3 comps: C-C, C-C, O
pat  = mk([(10,'C',0),(11,'C',0)],[])   # two isolated C => 2 comps
kw = dict(node_attrs=['element','charge'], edge_attrs=['order'])
for strat in ('all','comp','bt'):
    for strict in (True, False):
        r = S.find_subgraph_mappings(host, pat, strategy=strat, strict_cc_count=strict, **kw)
        print(strat, 'strict' if strict else 'loose', len(r))
r_all = S.find_subgraph_mappings(host, pat, strategy='all', **kw)
for mr in (1,2,3,100):
    for strat in ('all','comp'):
        r = S.find_subgraph_mappings(host, pat, strategy=strat, strict_cc_count=False, max_results=mr, **kw)
        print('max_results', mr, strat, len(r), all(x in r_all for x in r))
for th in (0,1,5,11,12):
    print('threshold', th, [len(S.find_subgraph_mappings(host, pat, strategy=s, strict_cc_count=False, threshold=th, **kw)) for s in ('all','comp','bt')])
print('empty pattern', [S.find_subgraph_mappings(host, nx.Graph(), strategy=s, strict_cc_count=False, **kw) for s in ('all','comp','bt')])
# max_results conflict case: pattern 2 comps, max_results=1
host2 = mk([(1,'C',0),(2,'N',0),(3,'C',0)],[])
pat2 = mk([(10,'C',0),(11,'C',0)],[])
print('conflict', S.find_subgraph_mappings(host2, pat2, strategy='comp', strict_cc_count=False, max_results=1, **kw), S.find_subgraph_mappings(host2, pat2, strategy='comp', strict_cc_count=False, **kw))

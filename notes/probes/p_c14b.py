import warnings; warnings.filterwarnings("ignore")
import logging; logging.disable(logging.CRITICAL)
import networkx as nx, time
from rdkit import RDLogger; RDLogger.DisableLog('rdApp.*')
from synkit.CRN.DAG.syncrn import SynCRN
rules = ["[CH3:1][C:2](=[O:3])[OH:4].[CH3:5][OH:6]>>[CH3:1][C:2](=[O:3])[O:6][CH3:5].[OH2:4]",
         "[CH3:1][CH2:2][OH:3]>>[CH2:1]=[CH2:2].[OH2:3]"]
seeds = ["CC(=O)O","CO","CCO","CCC(=O)O"]
def key(G):
    return (sorted((d.get('kind'), d.get('smiles_nomap', d.get('smiles')), d.get('rule_index')) for n,d in G.nodes(data=True)),
            sorted(((G.nodes[u].get('smiles_nomap', G.nodes[u].get('kind')), G.nodes[v].get('smiles_nomap', G.nodes[v].get('kind')), d.get('role'), d.get('rule_index'), d.get('step'))) for u,v,d in G.edges(data=True)))
res=[]
for par in (False, True, True):
    t=time.time()
    crn = SynCRN(rules=rules, repeats=2, implicit_temp=True, explicit_h=False)
    G = crn.build(seeds, parallel=par, max_workers=3)
    res.append(key(G)); print("parallel", par, G.number_of_nodes(), G.number_of_edges(), "%.1fs"%(time.time()-t))
print("equal:", res[0]==res[1]==res[2])

import warnings; warnings.filterwarnings("ignore")
from synkit.CRN.Hypergraph.hypergraph import CRNHyperGraph
from synkit.CRN.Topo.canon import CRNCanonicalizer
from synkit.CRN.Topo.automorphism import CRNAutomorphism
for rx in (["A>>B","A>>C"], ["A>>B","B>>C","C>>A"], ["A+B>>C","C>>A+B"]):
  for inc in (False, True):
    H = CRNHyperGraph().parse_rxns(rx)
    s = CRNCanonicalizer(H, include_rule=inc).summary()
    a = CRNAutomorphism(H, include_rule=inc).summary()
    print(rx, "include_rule", inc)
    print("  canon nodes", sorted(s['canon_graph'].nodes()), "autcount", s['automorphism_count'], "orbits", s['orbits'], "perm", s['canonical_perm'])
    print("  VF2 autcount", a['automorphism_count'], "orbits", a['orbits'])

import warnings; warnings.filterwarnings("ignore")
import logging; logging.disable(logging.CRITICAL)
import pickle
from rdkit import Chem, RDLogger; RDLogger.DisableLog('rdApp.*')
from synkit.Synthesis.Reactor.syn_reactor import SynReactor
from synkit.IO import rsmi_to_its
from synkit.IO.graph_to_mol import GraphToMol
from synkit.Graph.ITS.its_decompose import its_decompose, get_rc
from synkit.Graph.utils import remove_wildcard_nodes
from synkit.Chem.Reaction.standardize import Standardize
std=Standardize()
# small analogue: reductive amination CH2=O + NH2Me + H2 -> CH3-NHMe ... with explicit H
rs = "[CH3:1][CH:2]=[O:3].[CH3:4][NH:5][H:6].[H:7][H:8]>>[CH3:1][CH:2]([NH:5][CH3:4])[H:7].[O:3]([H:6])[H:8]"
target=std.fit(rs); print(target)
tpl=rsmi_to_its(rs, core=True)
print("rc nodes", tpl.nodes(data='element'), "rc edges", [(u,v,d['order']) for u,v,d in tpl.edges(data=True)])
for inv in (False, True):
    re=SynReactor(target.split('>>')[1 if inv else 0], tpl, invert=inv, strategy='bt')
    print("invert", inv, "rule left", re.rule.left.raw.nodes(data=True), re.rule.left.raw.edges(data=True))
    print(" mappings", re.mappings)
    for its in re.its_list:
        l,r = its_decompose(its)
        for g in (l,r):
            g=remove_wildcard_nodes(g)
            try: print("  ", Chem.MolToSmiles(GraphToMol().graph_to_mol(g, sanitize=True, use_h_count=True)))
            except Exception as e: print("   FAIL", e, sorted(g.nodes(data=True))[:12], sorted(g.edges(data=True)))
    print(" smarts", re.smarts_list)
print("=== deeper, invert=True")
from synkit.Graph.Hyrogen._misc import h_to_explicit
from synkit.Graph.Matcher.subgraph_matcher import SubgraphSearchEngine
from synkit.Synthesis.Reactor.strategy import Strategy
re=SynReactor(target.split('>>')[1], tpl, invert=True, strategy='bt')
host=re.graph.raw; m=re.mappings[0]
hx=h_to_explicit(host, list(m.values()))
print("host explicit nodes", [(n,d['element'],d['hcount']) for n,d in hx.nodes(data=True)])
pe=re.rule.left.raw
print("pattern explicit", [(n,d['element'],d.get('hcount')) for n,d in pe.nodes(data=True)], list(pe.edges(data='order')))
for st in ('all','comp','bt'):
    mm=SubgraphSearchEngine.find_subgraph_mappings(host=hx, pattern=pe, node_attrs=["element","charge"], edge_attrs=["order"], strategy=st)
    print(st, len(mm), mm[:2])
print("its_list", len(re.its_list))
for its in re.its_list[:2]:
    l,r = its_decompose(its)
    for g in (l,r):
        try: print("  ", Chem.MolToSmiles(GraphToMol().graph_to_mol(remove_wildcard_nodes(g), sanitize=True, use_h_count=True)))
        except Exception as e: print("   FAIL", e); print(sorted((n,d['element'],d['hcount'],d['charge']) for n,d in g.nodes(data=True))); print(sorted(g.edges(data='order')))

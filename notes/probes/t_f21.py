import warnings; warnings.filterwarnings("ignore")
import logging; logging.disable(logging.CRITICAL)
import networkx as nx
from synkit.Rule.syn_rule import SynRule
from synkit.Graph.canon_graph import GraphCanonicaliser
def rc_from_cycles(cycles):
    g = nx.Graph(); base=0
    for L in cycles:
        ids=[base+i+1 for i in range(L)]
        for n in ids:
            t=('C',False,0,0,[]); g.add_node(n, element='C', charge=0, atom_map=n, hcount=0, aromatic=False, typesGH=(t,t))
        for i in range(L):
            u,v=ids[i],ids[(i+1)%L]
            o=(1.0,0.0) if i%2==0 else (0.0,1.0)
            g.add_edge(u,v,order=o,standard_order=o[0]-o[1])
        base+=L
    return g
for be in ('generic','nauty'):
    can=GraphCanonicaliser(backend=be)
    r8=SynRule(rc_from_cycles([8]), canonicaliser=can); r44=SynRule(rc_from_cycles([4,4]), canonicaliser=can)
    print(be, "SynRule(8-cycle)==SynRule(4+4):", r8==r44, "| rc signatures equal:", r8.rc.signature==r44.rc.signature, "| iso rc:", nx.is_isomorphic(r8.rc.raw, r44.rc.raw, edge_match=lambda a,b:a['order']==b['order']))

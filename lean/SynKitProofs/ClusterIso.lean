import SynKitModel.Cluster
import SynKitModel.Match
import SynKitProofs.ClusterLemmas
import SynKitProofs.Match
/-!
# Helper lemmas for C13: the clustering theorems instantiated with the real isomorphism test

1. **Pull-back along a map** (`pull`, `classOf_map`, `libCheck_map`, `clusterRun_map`, …): running the
   clustering code on `xs.map f` with oracle `iso` is running it on `xs` with the oracle
   `fun a b => iso (f a) (f b)`.  With `f = Subtype.val` this relativises every abstract theorem of
   `Props/C13.lean` to a carrier predicate `P` (`IsEquivOn`, `KeyInvOn`, `liftP`).
2. **The concrete oracle** `clIso G H = isoDecide clSel (norm G) (norm H)`:
   `GraphCluster()` / `BatchCluster()` build `nodeMatch = generic_node_match(["element","charge"],
   ["*", 0], [eq, eq])` and `edgeMatch = generic_edge_match("order", 1, eq)` and hand them to
   `graph_isomorphism(g1, g2, nodeMatch, edgeMatch)` = `nx.is_isomorphic(...)`.  `generic_*_match` reads
   `data.get(attr, default)`: the default replaces an ABSENT key only (a key present with value `None`
   stays `None`).  The shared engine reads `d.get(k)` (absent = `None`), so the defaults are modelled by the
   normalisation `norm` that writes the default under every absent key (`get_withDefault`,
   `nodeOk_norm_iff`, `edgeOk_norm_iff` prove that engine-on-normalised = `generic_*_match`).
   No hydrogen rule (`hcountRule := false`).
3. `clIso` is an equivalence on well-formed graphs (`clIso_equivOn`), equals `∃ m, IsIso clSel …`
   (`clIso_iff`), and is invariant under relabelling (`clIso_relabel_left/right`, `clIso_relabel_self`).
-/
namespace SynKit.Cluster

/-! ## 1. pull-back of the clustering code along a map -/

section Pull
variable {α β : Type} {κ : Type} [DecidableEq κ]

/-- The oracle `iso` read through `f`. -/
def pull (iso : α → α → Bool) (f : β → α) (a b : β) : Bool := iso (f a) (f b)

/-- A template read through `f` (class number kept). -/
def tmap (f : β → α) (t : Tmpl β) : Tmpl α := ⟨f t.item, t.cls⟩

theorem enumFrom_map (f : β → α) (xs : List β) :
    ∀ i, enumFrom i (xs.map f) = (enumFrom i xs).map fun p => (p.1, f p.2) := by
  induction xs with
  | nil => intro i; rfl
  | cons x xs ih => intro i; simp [enumFrom, ih]

theorem inner_map (iso : α → α → Bool) (key : α → κ) (f : β → α) (xi : β) (c : Nat) (rest : List (Nat × β)) :
    ∀ s, inner iso key (f xi) c (rest.map fun p => (p.1, f p.2)) s =
      inner (pull iso f) (key ∘ f) xi c rest s := by
  induction rest with
  | nil => intro s; rfl
  | cons p rest ih =>
    obtain ⟨j, xj⟩ := p
    rintro ⟨vis, cl, r2c⟩
    simp only [List.map_cons, inner, ih]
    rfl

theorem outer_map (iso : α → α → Bool) (key : α → κ) (f : β → α) (l : List (Nat × β)) :
    ∀ s, outer iso key (l.map fun p => (p.1, f p.2)) s = outer (pull iso f) (key ∘ f) l s := by
  induction l with
  | nil => intro s; rfl
  | cons p rest ih =>
    obtain ⟨i, xi⟩ := p
    intro s
    simp only [List.map_cons, outer, inner_map, ih]

theorem iterState_map (iso : α → α → Bool) (key : α → κ) (f : β → α) (xs : List β) :
    iterState iso key (xs.map f) = iterState (pull iso f) (key ∘ f) xs := by
  unfold iterState
  rw [enumFrom_map, outer_map]

theorem classOf_map (iso : α → α → Bool) (key : α → κ) (f : β → α) (xs : List β) (j : Nat) :
    classOf iso key (xs.map f) j = classOf (pull iso f) (key ∘ f) xs j := by
  unfold classOf; rw [iterState_map]

theorem gcClasses_map (iso : α → α → Bool) (key : α → κ) (f : β → α) (xs : List β) :
    gcClasses iso key (xs.map f) = gcClasses (pull iso f) (key ∘ f) xs := by
  unfold gcClasses
  simp only [List.length_map, classOf_map]

theorem newClass_map (f : β → α) (ts : List (Tmpl β)) : newClass (ts.map (tmap f)) = newClass ts := by
  unfold newClass
  rw [List.map_map]
  rfl

theorem libCheck_map (iso : α → α → Bool) (key : α → κ) (f : β → α) (x : β) (ts : List (Tmpl β)) :
    libCheck iso key (f x) (ts.map (tmap f)) =
      ((libCheck (pull iso f) (key ∘ f) x ts).1, (libCheck (pull iso f) (key ∘ f) x ts).2.map (tmap f)) := by
  rw [libCheck_eq, libCheck_eq, List.find?_map, newClass_map]
  have : ((fun t : Tmpl α => matchB iso key t.item (f x)) ∘ tmap f) =
      fun t : Tmpl β => matchB (pull iso f) (key ∘ f) t.item x := rfl
  rw [this]
  cases List.find? (fun t : Tmpl β => matchB (pull iso f) (key ∘ f) t.item x) ts with
  | some t => rfl
  | none => simp [tmap]

theorem clusterRun_map (iso : α → α → Bool) (key : α → κ) (f : β → α) (l : List β) :
    ∀ ts : List (Tmpl β), clusterRun iso key (l.map f) (ts.map (tmap f)) =
      ((clusterRun (pull iso f) (key ∘ f) l ts).1, (clusterRun (pull iso f) (key ∘ f) l ts).2.map (tmap f)) := by
  induction l with
  | nil => intro ts; rfl
  | cons x l ih =>
    intro ts
    simp only [List.map_cons, clusterRun, libCheck_map, ih]

theorem tinv_map (iso : α → α → Bool) (f : β → α) (ts : List (Tmpl β)) :
    TInv iso (ts.map (tmap f)) ↔ TInv (pull iso f) ts := by
  constructor
  · intro h i j a b ha hb hij
    exact h i j (tmap f a) (tmap f b) (by rw [List.getElem?_map, ha]; rfl) (by rw [List.getElem?_map, hb]; rfl) hij
  · intro h i j a b ha hb hij
    rw [List.getElem?_map] at ha hb
    cases ha' : ts[i]? with
    | none => rw [ha'] at ha; cases ha
    | some a' =>
      cases hb' : ts[j]? with
      | none => rw [hb'] at hb; cases hb
      | some b' =>
        rw [ha'] at ha; rw [hb'] at hb
        cases ha; cases hb
        exact h i j a' b' ha' hb' hij

/-! ### carrier predicates -/

/-- `iso` is an equivalence relation on the items satisfying `P`. -/
structure IsEquivOn (P : α → Prop) (iso : α → α → Bool) : Prop where
  refl : ∀ x, P x → iso x x = true
  symm : ∀ x y, P x → P y → iso x y = true → iso y x = true
  trans : ∀ x y z, P x → P y → P z → iso x y = true → iso y z = true → iso x z = true

/-- The pre-grouping attribute is `iso`-invariant on the items satisfying `P`. -/
def KeyInvOn (P : α → Prop) (iso : α → α → Bool) (key : α → κ) : Prop :=
  ∀ x y, P x → P y → iso x y = true → key x = key y

theorem isEquiv_sub {P : α → Prop} {iso : α → α → Bool} (hE : IsEquivOn P iso) :
    IsEquiv (pull iso (Subtype.val : {x // P x} → α)) where
  refl := fun x => hE.refl x.1 x.2
  symm := fun x y h => hE.symm x.1 y.1 x.2 y.2 h
  trans := fun x y z h1 h2 => hE.trans x.1 y.1 z.1 x.2 y.2 z.2 h1 h2

omit [DecidableEq κ] in
theorem keyInv_sub {P : α → Prop} {iso : α → α → Bool} {key : α → κ} (hK : KeyInvOn P iso key) :
    KeyInv (pull iso (Subtype.val : {x // P x} → α)) (key ∘ Subtype.val) :=
  fun x y h => hK x.1 y.1 x.2 y.2 h

/-- A list all of whose members satisfy `P`, as a list over the subtype. -/
def liftP {P : α → Prop} : (xs : List α) → (∀ x ∈ xs, P x) → List {x // P x}
  | [], _ => []
  | x :: xs, h => ⟨x, h x List.mem_cons_self⟩ :: liftP xs (fun y hy => h y (List.mem_cons_of_mem _ hy))

theorem liftP_map {P : α → Prop} (xs : List α) (h : ∀ x ∈ xs, P x) : (liftP xs h).map Subtype.val = xs := by
  induction xs with
  | nil => rfl
  | cons x xs ih => simp [liftP, ih]

theorem exists_lift {P : α → Prop} (xs : List α) (h : ∀ x ∈ xs, P x) :
    ∃ ys : List {x // P x}, xs = ys.map Subtype.val := ⟨liftP xs h, (liftP_map xs h).symm⟩

/-- Templates all of whose items satisfy `P`, as templates over the subtype. -/
theorem exists_lift_tmpl {P : α → Prop} (ts : List (Tmpl α)) (h : ∀ t ∈ ts, P t.item) :
    ∃ us : List (Tmpl {x // P x}), ts = us.map (tmap Subtype.val) := by
  induction ts with
  | nil => exact ⟨[], rfl⟩
  | cons t ts ih =>
    obtain ⟨us, hus⟩ := ih (fun u hu => h u (List.mem_cons_of_mem _ hu))
    exact ⟨⟨⟨t.item, h t List.mem_cons_self⟩, t.cls⟩ :: us, by rw [List.map_cons, ← hus]; rfl⟩

end Pull

/-! ## 2. the concrete oracle: element, charge, bond order with the `generic_*_match` defaults -/

open SynKit.Match

/-- What `GraphCluster()` / `BatchCluster()` compare: node keys `element`, `charge`; edge key `order`;
no hydrogen rule. -/
def clSel : Sel := { nodeKeys := ["element", "charge"], edgeKeys := ["order"], hcountRule := false }

/-- Make `d.get(k, v)` explicit: write the default `v` under `k` when the key is ABSENT (a key that is
present with value `None` is left alone, as `dict.get` does). -/
def withDefault (a : Attrs) (k : String) (v : Val) : Attrs := if Dict.contains a k then a else a ++ [(k, v)]

/-- Node defaults of `generic_node_match(["element","charge"], ["*", 0], …)`. -/
def normNode (a : Attrs) : Attrs := withDefault (withDefault a "element" (.str "*")) "charge" (.num 0)

/-- Edge default of `generic_edge_match("order", 1, eq)` (numbers travel in half-units: `1` is `num 2`). -/
def normEdge (a : Attrs) : Attrs := withDefault a "order" (.num 2)

/-- The graph with every default written out. Node ids, node order, edge ends and edge order are kept. -/
def norm (G : LGraph) : LGraph :=
  { nodes := G.nodes.map fun p => (p.1, normNode p.2)
    edges := G.edges.map fun e => (e.1, e.2.1, normEdge e.2.2) }

/-- `graph_isomorphism(G, H, nodeMatch, edgeMatch)` with the matchers of `GraphCluster()`. -/
def clIso (G H : LGraph) : Bool := isoDecide clSel (norm G) (norm H)

/-! ### the normalisation is `dict.get(key, default)` -/

theorem dict_get?_append (a b : Dict Val) (k : String) :
    Dict.get? (a ++ b) k = (Dict.get? a k).or (Dict.get? b k) := by
  induction a with
  | nil => simp [Dict.get?]
  | cons p rest ih =>
    obtain ⟨k', v'⟩ := p
    by_cases h : k' = k <;> simp [Dict.get?, h, ih]

/-- Reading the defaulted key from the normalised dict is Python's `a.get(k, v)`. -/
theorem get_withDefault (a : Attrs) (k : String) (v : Val) :
    Attrs.get (withDefault a k v) k = Dict.getD a k v := by
  unfold withDefault Attrs.get Dict.getD Dict.contains
  by_cases h : k ∈ Dict.keys a
  · simp only [h, decide_true, if_true]
    cases hg : Dict.get? a k with
    | none => exact absurd h ((Dict.get?_eq_none_iff a k).1 hg)
    | some x => rfl
  · simp only [h, decide_false, Bool.false_eq_true, if_false]
    rw [dict_get?_append, (Dict.get?_eq_none_iff a k).2 h]
    simp [Dict.get?]

/-- Other keys are not touched. -/
theorem get_withDefault_other (a : Attrs) (k k' : String) (v : Val) (hk : k ≠ k') :
    Attrs.get (withDefault a k v) k' = Attrs.get a k' := by
  unfold withDefault Attrs.get Dict.getD
  split
  · rfl
  · rw [dict_get?_append]
    simp [Dict.get?, hk]

theorem getD_withDefault_other (a : Attrs) (k k' : String) (v w : Val) (hk : k ≠ k') :
    Dict.getD (withDefault a k v) k' w = Dict.getD a k' w := by
  unfold withDefault Dict.getD
  split
  · rfl
  · rw [dict_get?_append]
    simp [Dict.get?, hk]

/-- **The node closure on normalised dicts is `generic_node_match(["element","charge"], ["*",0], [eq,eq])`.** -/
theorem nodeOk_norm_iff (a b : Attrs) :
    nodeOk clSel (normNode a) (normNode b) = true ↔
      Dict.getD a "element" (.str "*") = Dict.getD b "element" (.str "*") ∧
      Dict.getD a "charge" (.num 0) = Dict.getD b "charge" (.num 0) := by
  have he : ∀ a : Attrs, Attrs.get (normNode a) "element" = Dict.getD a "element" (.str "*") := by
    intro a
    unfold normNode
    rw [get_withDefault_other _ "charge" "element" _ (by decide), get_withDefault]
  have hc : ∀ a : Attrs, Attrs.get (normNode a) "charge" = Dict.getD a "charge" (.num 0) := by
    intro a
    unfold normNode
    rw [get_withDefault, getD_withDefault_other _ "element" "charge" _ _ (by decide)]
  unfold nodeOk clSel
  simp only [List.all_cons, List.all_nil, Bool.and_true, Bool.not_false, Bool.true_or, Bool.and_eq_true,
    decide_eq_true_eq, he, hc]

/-- **The edge closure on normalised dicts is `generic_edge_match("order", 1, eq)`.** -/
theorem edgeOk_norm_iff (a b : Attrs) :
    edgeOk clSel (normEdge a) (normEdge b) = true ↔ Dict.getD a "order" (.num 2) = Dict.getD b "order" (.num 2) := by
  unfold edgeOk clSel normEdge
  simp only [List.all_cons, List.all_nil, Bool.and_true, decide_eq_true_eq, get_withDefault]

/-! ### shape of the normalised graph -/

theorem norm_ids (G : LGraph) : (norm G).ids = G.ids := by
  unfold norm LGraph.ids
  simp only [List.map_map]
  rfl

theorem norm_nodes_length (G : LGraph) : (norm G).nodes.length = G.nodes.length := by
  unfold norm; simp

theorem norm_WF (G : LGraph) (hG : G.WF) : (norm G).WF := by
  obtain ⟨h1, h2, h3⟩ := hG
  refine ⟨by rw [norm_ids]; exact h1, ?_, ?_⟩
  · intro e' he'
    unfold norm at he'
    obtain ⟨e, he, rfl⟩ := List.mem_map.1 he'
    rw [norm_ids]
    exact h2 e he
  · unfold norm
    simp only [List.map_map]
    exact h3

theorem norm_relabel (G : LGraph) (f : Nat → Nat) : norm (G.relabel f) = (norm G).relabel f := by
  unfold norm LGraph.relabel
  simp only [List.map_map]
  rfl

theorem injOnIds_norm (G : LGraph) (f : Nat → Nat) (hf : InjOnIds G f) : InjOnIds (norm G) f := by
  unfold InjOnIds; rw [norm_ids]; exact hf

/-! ## 3. `clIso` is isomorphism, an equivalence on well-formed graphs, relabelling-invariant -/

/-- The verdict is the existence of an isomorphism on element, charge and bond order (defaults written out). -/
theorem clIso_iff (G H : LGraph) (hH : H.WF) : clIso G H = true ↔ ∃ m, IsIso clSel (norm G) (norm H) m :=
  isoDecide_iff clSel (norm G) (norm H) (norm_WF H hH)

theorem clIso_refl (G : LGraph) (hG : G.WF) : clIso G G = true :=
  isoDecide_refl clSel (norm G) (norm_WF G hG)

theorem clIso_symm (G H : LGraph) (hG : G.WF) (hH : H.WF) : clIso G H = clIso H G :=
  isoDecide_symm clSel (norm G) (norm H) (norm_WF G hG) (norm_WF H hH) (Or.inl rfl)

theorem clIso_trans (A B C : LGraph) (hB : B.WF) (hC : C.WF) (hab : clIso A B = true) (hbc : clIso B C = true) :
    clIso A C = true :=
  isoDecide_trans clSel (norm A) (norm B) (norm C) (norm_WF B hB) (norm_WF C hC) hab hbc

/-- **`clIso` is an equivalence relation on well-formed graphs.** -/
theorem clIso_equivOn : IsEquivOn LGraph.WF clIso where
  refl := clIso_refl
  symm := fun G H hG hH h => by rw [← clIso_symm G H hG hH]; exact h
  trans := fun A B C _ hB hC h1 h2 => clIso_trans A B C hB hC h1 h2

/-- Relabelling the first graph along an injective renaming does not change the verdict. -/
theorem clIso_relabel_left (G H : LGraph) (hG : G.WF) (hH : H.WF) (f : Nat → Nat) (hf : Function.Injective f) :
    clIso (G.relabel f) H = clIso G H := by
  unfold clIso
  rw [norm_relabel]
  exact isoDecide_relabel_host clSel (norm G) (norm H) (norm_WF G hG) (norm_WF H hH) f hf

/-- Relabelling the second graph along an injective renaming does not change the verdict. -/
theorem clIso_relabel_right (G H : LGraph) (hH : H.WF) (f : Nat → Nat) (hf : Function.Injective f) :
    clIso G (H.relabel f) = clIso G H := by
  unfold clIso
  rw [norm_relabel]
  exact isoDecide_relabel_pattern clSel (norm G) (norm H) (norm_WF H hH) f hf

/-- A copy relabelled along a renaming that is injective on the graph's nodes is isomorphic to the
original, with an explicit isomorphism (`v ↦ f v`). -/
theorem isIso_relabel_self (G : LGraph) (hG : G.WF) (f : Nat → Nat) (hf : InjOnIds G f) :
    IsIso clSel (norm (G.relabel f)) (norm G) (((norm G).ids.map fun v => (v, v)).map fun x => (x.1, f x.2)) := by
  rw [norm_relabel]
  exact isIso_relabel_host clSel (norm G) (norm G) (norm_WF G hG) _ f (injOnIds_norm G f hf)
    (isIso_refl clSel (norm G) (norm_WF G hG))

theorem clIso_relabel_self (G : LGraph) (hG : G.WF) (f : Nat → Nat) (hf : InjOnIds G f) :
    clIso (G.relabel f) G = true :=
  (clIso_iff _ G hG).2 ⟨_, isIso_relabel_self G hG f hf⟩

end SynKit.Cluster

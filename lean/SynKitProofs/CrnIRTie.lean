import SynKitModel.CrnIR
import SynKitProofs.CrnIREquiv
import SynKitProofs.CrnIRWf
import SynKitProofs.CrnCanonLemmas
import Mathlib.Data.List.Count
/-!
# Leaves with equal labels differ by an automorphism (C18)

Two leaves of **one** search tree that carry the same label give a structure-preserving self-map
of the graph (position `i` of the first permutation ↦ position `i` of the second).  The label
covers the selected node attributes and all ordered pairs `i ≠ j`, but `_label` skips the diagonal,
so self-loops (a catalyst gives `A → A` in the species view) are not in the label.  They are
recovered from the refinement: all leaves of one tree list, position by position, nodes with the
same partition-independent part of the signature (`crnInv`: node attributes, both degrees, the
sorted multiset of out-arc attributes), because refinement and individualisation split cells *in
place*; and equal out-arc multisets whose off-diagonal parts agree have equal diagonal parts.
-/
set_option linter.unusedSimpArgs false
set_option linter.unusedVariables false
namespace SynKit.CrnCanon
open SynKit
open SynKit.Canon (StrictTotal sortBy sortNat irDedup irSplitBy irIsDiscrete irTargetCell irIndividualise IRPartOK
  sortNat_perm mem_sortNat sortNat_length mem_irDedup nodup_irDedup sortBy_perm mem_sortBy irTargetCell_some
  irIndividualise_ok cons_filter_ne_perm irNormEdgeVal)

/-! ## Part 1: all leaves of a tree agree, position by position, on `crnInv` -/

/-- The partition-independent part of the signature. -/
def crnInv (sel : SelD) (G : LGraph) (v : Nat) : CrnSig := crnSig sel G [] v

theorem crnInv_of_sig {sel : SelD} {G : LGraph} {P : List (List Nat)} {v w : Nat}
    (h : crnSig sel G P v = crnSig sel G P w) : crnInv sel G v = crnInv sel G w := by
  simp only [crnSig, CrnSig.mk.injEq] at h
  simp only [crnInv, crnSig, CrnSig.mk.injEq, List.map_nil, and_true]
  exact ⟨h.1, h.2.1, h.2.2.1, trivial, h.2.2.2.2⟩

/-- all nodes of a cell have the same invariant -/
def CellHom (sel : SelD) (G : LGraph) (c : List Nat) : Prop := ∀ x ∈ c, ∀ y ∈ c, crnInv sel G x = crnInv sel G y
def PartHom (sel : SelD) (G : LGraph) (P : List (List Nat)) : Prop := ∀ c ∈ P, CellHom sel G c

theorem map_eq_of_perm_const {α β : Type} (f : α → β) {l c : List α} (hp : l.Perm c)
    (hc : ∀ x ∈ c, ∀ y ∈ c, f x = f y) : l.map f = c.map f := by
  cases c with
  | nil => rw [hp.eq_nil]
  | cons a c' =>
    have h1 : (a :: c').map f = List.replicate (a :: c').length (f a) := by
      rw [List.eq_replicate_iff]
      refine ⟨by simp, ?_⟩
      intro b hb
      obtain ⟨x, hx, rfl⟩ := List.mem_map.1 hb
      exact hc x hx a List.mem_cons_self
    have h2 : l.map f = List.replicate (a :: c').length (f a) := by
      rw [List.eq_replicate_iff]
      refine ⟨by simpa using hp.length_eq, ?_⟩
      intro b hb
      obtain ⟨x, hx, rfl⟩ := List.mem_map.1 hb
      exact hc x (hp.subset hx) a List.mem_cons_self
    rw [h1, h2]

theorem irSplitBy_key_const {κ : Type} [DecidableEq κ] (lt : κ → κ → Bool) (key : Nat → κ) (c : List Nat) :
    ∀ d ∈ irSplitBy lt key c, ∀ x ∈ d, ∀ y ∈ d, key x = key y := by
  intro d hd x hx y hy
  unfold irSplitBy at hd
  obtain ⟨k, _, rfl⟩ := List.mem_map.1 hd
  rw [mem_sortNat, List.mem_filter] at hx hy
  have h1 := hx.2
  have h2 := hy.2
  simp only [decide_eq_true_eq] at h1 h2
  rw [h1, h2]

theorem irSplitBy_length_le_one {κ : Type} [DecidableEq κ] (lt : κ → κ → Bool) (key : Nat → κ) (c : List Nat)
    (h : (irSplitBy lt key c).length ≤ 1) : ∀ x ∈ c, ∀ y ∈ c, key x = key y := by
  intro x hx y hy
  have hl : (irDedup (c.map key)).length ≤ 1 := by
    have : (irSplitBy lt key c).length = (irDedup (c.map key)).length := by
      unfold irSplitBy
      rw [List.length_map, (sortBy_perm lt _).length_eq]
    omega
  have h1 : key x ∈ irDedup (c.map key) := (mem_irDedup _ _).2 (List.mem_map_of_mem hx)
  have h2 : key y ∈ irDedup (c.map key) := (mem_irDedup _ _).2 (List.mem_map_of_mem hy)
  match hd : irDedup (c.map key), hl with
  | [], _ => rw [hd] at h1; simp at h1
  | [a], _ =>
    rw [hd] at h1 h2
    simp only [List.mem_singleton] at h1 h2
    rw [h1, h2]
  | _ :: _ :: _, hl => simp at hl

theorem crnRefineCell_hom (sel : SelD) (G : LGraph) (P : List (List Nat)) (c : List Nat) :
    ∀ d ∈ crnRefineCell sel G P c, CellHom sel G d := by
  intro d hd
  unfold crnRefineCell at hd
  split at hd
  · rename_i hc
    simp only [List.mem_singleton] at hd
    subst hd
    intro x hx y hy
    match d, hc, hx, hy with
    | [a], _, hx, hy =>
      simp only [List.mem_singleton] at hx hy
      rw [hx, hy]
  · simp only at hd
    split at hd
    · intro x hx y hy
      exact crnInv_of_sig (irSplitBy_key_const _ _ _ d hd x hx y hy)
    · rename_i hl
      simp only [List.mem_singleton] at hd
      subst hd
      intro x hx y hy
      rw [mem_sortNat] at hx hy
      exact crnInv_of_sig (irSplitBy_length_le_one CrnSig.lt (crnSig sel G P) c (by omega) x hx y hy)

/-- after one pass every cell is homogeneous, whatever the partition was -/
theorem crnRefineStep_hom (sel : SelD) (G : LGraph) (P : List (List Nat)) : PartHom sel G (crnRefineStep sel G P) := by
  intro d hd
  unfold crnRefineStep at hd
  obtain ⟨c, _, hdc⟩ := List.mem_flatMap.1 hd
  exact crnRefineCell_hom sel G P c d hdc

theorem flatMap_refineCell_inv (sel : SelD) (G : LGraph) (Q : List (List Nat)) (l : List (List Nat))
    (h : PartHom sel G l) :
    (l.flatMap (crnRefineCell sel G Q)).flatten.map (crnInv sel G) = l.flatten.map (crnInv sel G) := by
  induction l with
  | nil => rfl
  | cons c l ih =>
    simp only [List.flatMap_cons, List.flatten_append, List.flatten_cons, List.map_append]
    rw [ih fun d hd => h d (List.mem_cons_of_mem _ hd),
      map_eq_of_perm_const _ (crnRefineCell_flatten_perm sel G Q c) (h c List.mem_cons_self)]

/-- a pass over a homogeneous partition keeps the invariant at every position -/
theorem crnRefineStep_inv (sel : SelD) (G : LGraph) (P : List (List Nat)) (h : PartHom sel G P) :
    (crnRefineStep sel G P).flatten.map (crnInv sel G) = P.flatten.map (crnInv sel G) :=
  flatMap_refineCell_inv sel G P P h

theorem crnRefineLoop_inv (sel : SelD) (G : LGraph) (k : Nat) (P : List (List Nat)) (h : PartHom sel G P) :
    PartHom sel G (crnRefineLoop sel G k P) ∧
    (crnRefineLoop sel G k P).flatten.map (crnInv sel G) = P.flatten.map (crnInv sel G) := by
  induction k generalizing P with
  | zero => exact ⟨h, rfl⟩
  | succ k ih =>
    simp only [crnRefineLoop]
    split
    · exact ⟨crnRefineStep_hom sel G P, crnRefineStep_inv sel G P h⟩
    · obtain ⟨h1, h2⟩ := ih _ (crnRefineStep_hom sel G P)
      exact ⟨h1, h2.trans (crnRefineStep_inv sel G P h)⟩

/-- `_refine` returns a homogeneous partition, whatever it was given (it makes at least one pass) -/
theorem crnRefine_hom (sel : SelD) (G : LGraph) (P : List (List Nat)) : PartHom sel G (crnRefine sel G P) := by
  unfold crnRefine
  simp only [crnRefineLoop]
  split
  · exact crnRefineStep_hom sel G P
  · exact (crnRefineLoop_inv sel G _ _ (crnRefineStep_hom sel G P)).1

theorem crnRefine_inv (sel : SelD) (G : LGraph) (P : List (List Nat)) (h : PartHom sel G P) :
    (crnRefine sel G P).flatten.map (crnInv sel G) = P.flatten.map (crnInv sel G) :=
  (crnRefineLoop_inv sel G _ P h).2

theorem irIndividualise_inv (sel : SelD) (G : LGraph) {pre post : List (List Nat)} {c : List Nat} {v : Nat}
    (h : PartHom sel G (pre ++ c :: post)) (hcn : c.Nodup) (hv : v ∈ c) :
    PartHom sel G (irIndividualise pre c post v) ∧
    (irIndividualise pre c post v).flatten.map (crnInv sel G) = (pre ++ c :: post).flatten.map (crnInv sel G) := by
  have hc : CellHom sel G c := h c (by simp)
  have hperm : (v :: sortNat (c.filter fun w => decide (w ≠ v))).Perm c :=
    ((sortNat_perm _).cons v).trans (cons_filter_ne_perm hcn hv)
  constructor
  · intro d hd
    unfold irIndividualise at hd
    simp only [List.append_assoc, List.mem_append, List.mem_singleton] at hd
    rcases hd with hd | hd | hd | hd
    · exact h d (by simp [hd])
    · subst hd
      intro x hx y hy
      simp only [List.mem_singleton] at hx hy
      rw [hx, hy]
    · split at hd
      · simp at hd
      · simp only [List.mem_singleton] at hd
        subst hd
        intro x hx y hy
        rw [mem_sortNat] at hx hy
        exact hc x (List.mem_filter.1 hx).1 y (List.mem_filter.1 hy).1
    · exact h d (by simp [hd])
  · have hflat : (irIndividualise pre c post v).flatten =
        pre.flatten ++ (v :: sortNat (c.filter fun w => decide (w ≠ v))) ++ post.flatten := by
      unfold irIndividualise
      simp only
      split
      · rename_i he
        have : (c.filter fun w => decide (w ≠ v)) = [] := List.isEmpty_iff.1 he
        rw [this]
        simp [sortNat, sortBy]
      · simp
    rw [hflat]
    simp only [List.flatten_append, List.flatten_cons, List.map_append]
    rw [map_eq_of_perm_const _ hperm hc]
    simp

/-- every leaf below a node lists, position by position, nodes with the invariants of the refined
partition of that node -/
theorem crnLeaves_inv (sel : SelD) (G : LGraph) {ids : List Nat} (hn : ids.Nodup) (fuel : Nat)
    (P : List (List Nat)) (pfx : List Nat) (hok : IRPartOK ids P) :
    ∀ l ∈ crnLeaves sel G fuel P pfx,
      l.2.map (crnInv sel G) = (crnRefine sel G P).flatten.map (crnInv sel G) := by
  induction fuel generalizing P pfx with
  | zero => intro l hl; simp [crnLeaves] at hl
  | succ fuel ih =>
    intro l hl
    have hr := crnRefine_ok sel G ids P hok
    have hh := crnRefine_hom sel G P
    simp only [crnLeaves] at hl
    split at hl
    · simp only [List.mem_singleton] at hl
      rw [hl]
    · split at hl
      · exact absurd hl List.not_mem_nil
      · rename_i pre c post ht
        obtain ⟨hP, hc⟩ := irTargetCell_some ht
        rw [List.mem_flatMap] at hl
        obtain ⟨v, hv, hl⟩ := hl
        rw [mem_crnChildren] at hv
        rw [hP] at hr hh
        have hfn : (pre ++ c :: post).flatten.Nodup := hr.1.nodup_iff.2 hn
        have hcn : c.Nodup := (List.nodup_flatten.1 hfn).1 c (by simp)
        obtain ⟨hq1, hq2⟩ := irIndividualise_inv sel G hh hcn hv
        rw [ih _ _ (irIndividualise_ok hn hr hv hc).1 l hl, crnRefine_inv sel G _ hq1, hq2, hP]

/-- **All leaves of one search tree agree position by position on the invariant.** -/
theorem crnRootLeaves_inv (sel : SelD) (G : LGraph) (hn : G.ids.Nodup) :
    ∀ l ∈ crnRootLeaves sel G, ∀ l' ∈ crnRootLeaves sel G,
      l.2.map (crnInv sel G) = l'.2.map (crnInv sel G) := by
  intro l hl l' hl'
  rw [crnLeaves_inv sel G hn _ _ _ (crnInitPart_ok sel G) l hl,
    crnLeaves_inv sel G hn _ _ _ (crnInitPart_ok sel G) l' hl']

/-! ## Part 2: attribute look-ups recovered from label items and signature items -/

def NodeOK (sel : SelD) (a : Attrs) : Prop :=
  ∀ k ∈ sel.nodeKeys, Dict.get? a k ≠ some Val.none ∧ Dict.get? a k ≠ some (.str "")

def EdgeOK (sel : SelD) (a : Attrs) : Prop :=
  ∀ k ∈ sel.edgeKeys, Dict.get? a k ≠ some Val.none ∧ Dict.get? a k ≠ some (.str "") ∧
    (k = "order" → valIsTup (Dict.get? a k) = false)

theorem attrs_mem_nodes' (G : LGraph) {v : Nat} (hv : v ∈ G.ids) : (v, G.attrs v) ∈ G.nodes := by
  unfold LGraph.ids at hv
  obtain ⟨p, hp, rfl⟩ := List.mem_map.1 hv
  unfold LGraph.attrs
  cases hf : G.nodes.find? (fun q => decide (q.1 = p.1)) with
  | none =>
    have := List.find?_eq_none.1 hf p hp
    simp at this
  | some q =>
    have h1 := List.find?_some hf
    have h2 := List.mem_of_find?_eq_some hf
    simp only [decide_eq_true_eq] at h1
    simp only
    rw [← h1]
    exact h2

theorem CrnAttrOK.node {sel : SelD} {G : LGraph} (h : CrnAttrOK sel G) {v : Nat} (hv : v ∈ G.ids) :
    NodeOK sel (G.attrs v) := h.1 _ (attrs_mem_nodes' G hv)

theorem CrnAttrOK.arc {sel : SelD} {G : LGraph} (h : CrnAttrOK sel G) {u v : Nat} {a : Attrs}
    (ha : G.arc? u v = some a) : EdgeOK sel a := h.2 _ (arc?_some_mem G u v a ha)

theorem get?_eq_of_getD_str {a b : Attrs} {k : String} (ha : Dict.get? a k ≠ some (.str ""))
    (hb : Dict.get? b k ≠ some (.str "")) (h : Dict.getD a k (.str "") = Dict.getD b k (.str "")) :
    Dict.get? a k = Dict.get? b k := by
  unfold Dict.getD at h
  cases hx : Dict.get? a k <;> cases hy : Dict.get? b k <;> rw [hx, hy] at h <;> simp_all

theorem get?_eq_of_get {a b : Attrs} {k : String} (ha : Dict.get? a k ≠ some Val.none)
    (hb : Dict.get? b k ≠ some Val.none) (h : a.get k = b.get k) : Dict.get? a k = Dict.get? b k := by
  unfold Attrs.get Dict.getD at h
  cases hx : Dict.get? a k <;> cases hy : Dict.get? b k <;> rw [hx, hy] at h <;> simp_all

theorem get_eq_of_get? {a b : Attrs} {k : String} (h : Dict.get? a k = Dict.get? b k) : a.get k = b.get k := by
  unfold Attrs.get Dict.getD
  rw [h]

theorem irNormEdgeVal_id {k : String} {v : Val} (h : k = "order" → ∀ xs, v ≠ .tup xs) : irNormEdgeVal k v = v := by
  cases v with
  | tup xs =>
    simp only [irNormEdgeVal]
    split
    · rename_i hk
      exact absurd rfl (h hk xs)
    · rfl
  | _ => rfl

theorem get_not_tup {a : Attrs} {k : String} (h : valIsTup (Dict.get? a k) = false) : ∀ xs, a.get k ≠ .tup xs := by
  intro xs e
  unfold Attrs.get Dict.getD at e
  cases hx : Dict.get? a k with
  | none => rw [hx] at e; simp at e
  | some w =>
    rw [hx] at e h
    simp only [Option.getD_some] at e
    rw [e] at h
    simp [valIsTup] at h

theorem crnEdgeGet_of_sigKey {sel : SelD} {a b : Attrs} (ha : EdgeOK sel a) (hb : EdgeOK sel b)
    (h : crnEdgeSigKey sel a = crnEdgeSigKey sel b) : crnEdgeGet sel a = crnEdgeGet sel b := by
  unfold crnEdgeSigKey at h
  rw [List.map_inj_left] at h
  rw [crnEdgeGet_eq_iff]
  intro k hk
  have hk' := h k hk
  rw [irNormEdgeVal_id fun e => get_not_tup ((ha k hk).2.2 e),
    irNormEdgeVal_id fun e => get_not_tup ((hb k hk).2.2 e)] at hk'
  exact get?_eq_of_get (ha k hk).1 (hb k hk).1 hk'

theorem crnEdgeGet_of_labKey {sel : SelD} {a b : Attrs} (ha : EdgeOK sel a) (hb : EdgeOK sel b)
    (h : crnEdgeLabKey sel a = crnEdgeLabKey sel b) : crnEdgeGet sel a = crnEdgeGet sel b := by
  unfold crnEdgeLabKey at h
  rw [List.map_inj_left] at h
  rw [crnEdgeGet_eq_iff]
  intro k hk
  exact get?_eq_of_getD_str (ha k hk).2.1 (hb k hk).2.1 (h k hk)

theorem node_get?_of_labKey {sel : SelD} {a b : Attrs} (ha : NodeOK sel a) (hb : NodeOK sel b)
    (h : crnNodeLabKey sel a = crnNodeLabKey sel b) : ∀ k ∈ sel.nodeKeys, Dict.get? a k = Dict.get? b k := by
  unfold crnNodeLabKey at h
  rw [List.map_inj_left] at h
  intro k hk
  exact get?_eq_of_getD_str (ha k hk).2 (hb k hk).2 (h k hk)

/-- from equal matrix entries to equal look-ups -/
theorem arc_of_crnBit {sel : SelD} {G : LGraph} (hok : CrnAttrOK sel G) {u v u' v' : Nat}
    (h : crnBit sel G u' v' = crnBit sel G u v) :
    (G.arc? u' v').map (crnEdgeGet sel) = (G.arc? u v).map (crnEdgeGet sel) := by
  unfold crnBit at h
  cases hx : G.arc? u' v' <;> cases hy : G.arc? u v <;> rw [hx, hy] at h <;> simp at h
  · simp only [Option.map_some, Option.some.injEq]
    exact crnEdgeGet_of_labKey (hok.arc hx) (hok.arc hy) h

/-! ## Part 3: the diagonal is determined by the invariant and the off-diagonal part -/

theorem filter_map_perm_of_perm {l l' : List Nat} {f : Nat → Nat} (hp : (l.map f).Perm l') (q : Nat → Bool) :
    ((l.filter fun w => q (f w)).map f).Perm (l'.filter q) := by
  have e : (l.filter fun w => q (f w)).map f = (l.map f).filter q := by
    rw [List.filter_map]
    rfl
  rw [e]
  exact hp.filter q

theorem filter_split (l : List Nat) (p : Nat) (q : Nat → Bool) :
    ((l.filter fun w => (w == p) && q w) ++ (l.filter fun w => (!(w == p)) && q w)).Perm (l.filter q) := by
  have := List.filter_append_perm (fun w => w == p) (l.filter q)
  rwa [List.filter_filter, List.filter_filter] at this

theorem filter_eq_and {l : List Nat} (hn : l.Nodup) {p : Nat} (hp : p ∈ l) (q : Nat → Bool) :
    (l.filter fun w => (w == p) && q w) = if q p then [p] else [] := by
  have h1 : (l.filter fun w => (w == p) && q w) = (l.filter fun w => w == p).filter q := by
    rw [List.filter_filter]
    apply List.filter_congr
    intro w _
    exact Bool.and_comm _ _
  rw [h1, List.filter_beq, List.count_eq_one_of_mem hn hp]
  simp only [List.replicate_one, List.filter_cons, List.filter_nil]

theorem diag_of_offdiag (sel : SelD) (G : LGraph) (hn : G.ids.Nodup) (hok : CrnAttrOK sel G) (f : Nat → Nat)
    (hperm : (G.ids.map f).Perm G.ids)
    (hoff : ∀ p ∈ G.ids, ∀ q ∈ G.ids, p ≠ q →
      (G.arc? (f p) (f q)).map (crnEdgeGet sel) = (G.arc? p q).map (crnEdgeGet sel))
    (p : Nat) (hp : p ∈ G.ids) (hinv : crnInv sel G (f p) = crnInv sel G p) :
    (G.arc? (f p) (f p)).map (crnEdgeGet sel) = (G.arc? p p).map (crnEdgeGet sel) := by
  -- the out-arc multisets agree
  have hedges : ((crnSuccs G (f p)).map fun w => crnEdgeSigKey sel ((G.arc? (f p) w).getD [])).Perm
      ((crnSuccs G p).map fun w => crnEdgeSigKey sel ((G.arc? p w).getD [])) := by
    have := congrArg CrnSig.edges hinv
    simp only [crnInv, crnSig] at this
    exact (sortBy_perm _ _).symm.trans (by rw [this]; exact sortBy_perm _ _)
  -- re-index the successors of `f p` along `f`
  have hT : ((G.ids.filter fun w => (G.arc? (f p) (f w)).isSome).map fun w =>
        crnEdgeSigKey sel ((G.arc? (f p) (f w)).getD [])).Perm
      ((crnSuccs G (f p)).map fun w => crnEdgeSigKey sel ((G.arc? (f p) w).getD [])) := by
    have h1 := filter_map_perm_of_perm hperm (fun w => (G.arc? (f p) w).isSome)
    have h2 := h1.map fun w => crnEdgeSigKey sel ((G.arc? (f p) w).getD [])
    rw [List.map_map] at h2
    exact h2
  -- split both sides into the diagonal and the off-diagonal part
  have hsplitP := (filter_split G.ids p fun w => (G.arc? p w).isSome).map
    fun w => crnEdgeSigKey sel ((G.arc? p w).getD [])
  have hsplitF := (filter_split G.ids p fun w => (G.arc? (f p) (f w)).isSome).map
    fun w => crnEdgeSigKey sel ((G.arc? (f p) (f w)).getD [])
  rw [List.map_append] at hsplitP hsplitF
  have hne : ((G.ids.filter fun w => (!(w == p)) && (G.arc? (f p) (f w)).isSome).map fun w =>
        crnEdgeSigKey sel ((G.arc? (f p) (f w)).getD [])) =
      ((G.ids.filter fun w => (!(w == p)) && (G.arc? p w).isSome).map fun w =>
        crnEdgeSigKey sel ((G.arc? p w).getD [])) := by
    have hfil : (G.ids.filter fun w => (!(w == p)) && (G.arc? (f p) (f w)).isSome) =
        (G.ids.filter fun w => (!(w == p)) && (G.arc? p w).isSome) := by
      apply List.filter_congr
      intro w hw
      by_cases e : w = p
      · simp [e]
      · have := congrArg Option.isSome (hoff p hp w hw (Ne.symm e))
        simp only [Option.isSome_map] at this
        rw [this]
    rw [hfil]
    apply List.map_congr_left
    intro w hw
    rw [List.mem_filter] at hw
    have e : w ≠ p := by
      intro e
      simp [e] at hw
    have := hoff p hp w hw.1 (Ne.symm e)
    cases hx : G.arc? (f p) (f w) <;> cases hy : G.arc? p w <;> rw [hx, hy] at this <;> simp at this
    · simp only [Option.getD_some]
      exact crnEdgeSigKey_congr sel _ _ this
  rw [hne] at hsplitF
  have hdiag := (List.perm_append_right_iff _).1
    (hsplitF.trans (hT.trans (hedges.trans hsplitP.symm)))
  rw [filter_eq_and hn hp, filter_eq_and hn hp] at hdiag
  cases hx : G.arc? (f p) (f p) <;> cases hy : G.arc? p p <;> simp only [hx, hy, Option.isSome_none,
    Option.isSome_some, if_true, if_false, Bool.false_eq_true, List.map_nil, List.map_cons] at hdiag
  · rfl
  · have := hdiag.length_eq
    simp at this
  · have := hdiag.length_eq
    simp at this
  · rw [List.perm_singleton] at hdiag
    simp only [List.cons.injEq, and_true, Option.getD_some] at hdiag
    simp only [Option.map_some, Option.some.injEq]
    exact crnEdgeGet_of_sigKey (hok.arc hx) (hok.arc hy) hdiag

/-! ## Part 4: the position map of two equal-label leaves -/

/-- position `i` of `o` ↦ position `i` of `o2` -/
def posMap (o o2 : List Nat) (p : Nat) : Nat := o2.getD (o.idxOf p) 0

theorem map_posMap {o o2 : List Nat} (hnd : o.Nodup) (hlen : o.length = o2.length) : o.map (posMap o o2) = o2 := by
  apply List.ext_getElem
  · simpa using hlen
  · intro i h1 h2
    rw [List.getElem_map]
    unfold posMap
    rw [hnd.idxOf_getElem, List.getD_eq_getElem _ _ h2]

/-- **Two orders of the nodes with equal labels and position-wise equal invariants differ by a
structure-preserving self-map.** -/
theorem crnIso_of_equal_labels (sel : SelD) (G : LGraph) (hn : G.ids.Nodup) (hok : CrnAttrOK sel G)
    (o o2 : List Nat) (ho : o.Perm G.ids) (ho2 : o2.Perm G.ids)
    (hlab : crnBuildLabel sel G o = crnBuildLabel sel G o2)
    (hinv : o.map (crnInv sel G) = o2.map (crnInv sel G)) :
    CrnIso sel G G (posMap o o2) ∧ o.map (posMap o o2) = o2 := by
  have hlen : o.length = o2.length := ho.length_eq.trans ho2.length_eq.symm
  have hond : o.Nodup := ho.nodup_iff.2 hn
  have hmap := map_posMap hond hlen
  have hidx : ∀ p ∈ G.ids, ∃ i, ∃ h1 : i < o.length, ∃ h2 : i < o2.length, o[i] = p ∧ posMap o o2 p = o2[i] := by
    intro p hp
    have hp' : p ∈ o := ho.symm.subset hp
    have h1 : o.idxOf p < o.length := List.idxOf_lt_length_iff.2 hp'
    have h2 : o.idxOf p < o2.length := hlen ▸ h1
    exact ⟨_, h1, h2, List.getElem_idxOf h1, List.getD_eq_getElem _ _ h2⟩
  have hmem2 : ∀ i (h2 : i < o2.length), o2[i] ∈ G.ids := fun i h2 => ho2.subset (List.getElem_mem h2)
  have hmem1 : ∀ i (h1 : i < o.length), o[i] ∈ G.ids := fun i h1 => ho.subset (List.getElem_mem h1)
  -- read the label
  unfold crnBuildLabel at hlab
  injection hlab with hnodes hrows
  unfold crnNodeSeg at hnodes
  obtain ⟨_, hnode⟩ := map_eq_map_get _ _ _ _ hnodes
  unfold crnRows at hrows
  obtain ⟨_, hrow⟩ := map_eq_map_get _ _ _ _ hrows
  obtain ⟨_, hinv'⟩ := map_eq_map_get _ _ _ _ hinv
  have hbit : ∀ i (h1 : i < o.length) (h2 : i < o2.length) j (j1 : j < o.length) (j2 : j < o2.length), i ≠ j →
      crnBit sel G o2[i] o2[j] = crnBit sel G o[i] o[j] := by
    intro i h1 h2 j j1 j2 hij
    have hr := hrow i (by simpa using h1) (by simpa using h2)
    obtain ⟨_, hr'⟩ := map_eq_map_get _ _ _ _ hr
    have := hr' j (by simpa using j1) (by simpa using j2)
    simp only [List.getElem_zipIdx, Nat.zero_add, hij, if_false] at this
    exact this.symm
  have hperm : (G.ids.map (posMap o o2)).Perm G.ids :=
    (ho.symm.map _).trans ((List.Perm.of_eq hmap).trans ho2)
  have hoff : ∀ p ∈ G.ids, ∀ q ∈ G.ids, p ≠ q →
      (G.arc? (posMap o o2 p) (posMap o o2 q)).map (crnEdgeGet sel) = (G.arc? p q).map (crnEdgeGet sel) := by
    intro p hp q hq hpq
    obtain ⟨i, i1, i2, rfl, ei⟩ := hidx p hp
    obtain ⟨j, j1, j2, rfl, ej⟩ := hidx q hq
    rw [ei, ej]
    have hij : i ≠ j := by
      intro e
      subst e
      exact hpq rfl
    exact arc_of_crnBit hok (hbit i i1 i2 j j1 j2 hij)
  refine ⟨⟨hperm, ?_, ?_⟩, hmap⟩
  · intro p hp
    obtain ⟨i, i1, i2, rfl, ei⟩ := hidx p hp
    rw [ei]
    exact node_get?_of_labKey (hok.node (hmem2 i i2)) (hok.node (hmem1 i i1)) (hnode i i1 i2).symm
  · intro p hp q hq
    by_cases hpq : p = q
    · subst hpq
      apply diag_of_offdiag sel G hn hok _ hperm hoff p hp
      obtain ⟨i, i1, i2, rfl, ei⟩ := hidx p hp
      rw [ei]
      exact (hinv' i i1 i2).symm
    · exact hoff p hp q hq hpq

/-- **Two leaves of one search tree with the same label differ by a structure-preserving
self-map** (self-loops included). -/
theorem crnIso_of_leaves (sel : SelD) (G : LGraph) (hn : G.ids.Nodup)
    (hok : CrnAttrOK sel G) (l l' : List Nat × List Nat) (hl : l ∈ crnRootLeaves sel G) (hl' : l' ∈ crnRootLeaves sel G)
    (hlab : crnLeafLabel sel G l = crnLeafLabel sel G l') :
    CrnIso sel G G (posMap l.2 l'.2) ∧ l.2.map (posMap l.2 l'.2) = l'.2 :=
  crnIso_of_equal_labels sel G hn hok l.2 l'.2 (crnRootLeaves_perm sel G hn l hl)
    (crnRootLeaves_perm sel G hn l' hl') hlab (crnRootLeaves_inv sel G hn l hl l' hl')

/-! ## `CrnIso` and the specification `IsIsoF` -/

theorem isIsoF_of_crnIso {sel : SelD} {G H : LGraph} {g : Nat → Nat} (hG : G.ids.Nodup) (h : CrnIso sel G H g) :
    IsIsoF sel G H g where
  inj := h.inj hG
  mem p hp := h.mem hp
  size := by
    have := h.perm.length_eq
    simpa using this.symm
  node p hp := by
    rw [nodeOkD_iff]
    apply List.map_congr_left
    intro k hk
    exact get_eq_of_get? (h.node p hp k hk)
  arc p hp q hq := by
    have he := h.arc p hp q hq
    cases hx : G.arc? (g p) (g q) <;> cases hy : H.arc? p q <;> rw [hx, hy] at he <;> simp at he
    · rfl
    · rw [arcOkD_some_iff]
      rw [crnEdgeGet_eq_iff] at he
      apply List.map_congr_left
      intro k hk
      exact get_eq_of_get? (he k hk)

theorem crnIso_of_isIsoF {sel : SelD} {G H : LGraph} {g : Nat → Nat} (hG : G.ids.Nodup) (hH : H.ids.Nodup)
    (aG : CrnAttrOK sel G) (aH : CrnAttrOK sel H) (h : IsIsoF sel G H g) : CrnIso sel G H g where
  perm := h.map_perm hG hH
  node p hp k hk := by
    have := (nodeOkD_iff sel _ _).1 (h.node p hp)
    rw [List.map_inj_left] at this
    exact get?_eq_of_get ((aG.node (h.mem p hp)) k hk).1 ((aH.node hp) k hk).1 (this k hk)
  arc p hp q hq := by
    have he := h.arc p hp q hq
    cases hx : G.arc? (g p) (g q) <;> cases hy : H.arc? p q <;> rw [hx, hy] at he
    · simp [arcOkD] at he
    · simp [arcOkD] at he
    · rw [arcOkD_some_iff, List.map_inj_left] at he
      simp only [Option.map_some, Option.some.injEq]
      rw [crnEdgeGet_eq_iff]
      intro k hk
      exact get?_eq_of_get ((aG.arc hx) k hk).1 ((aH.arc hy) k hk).1 (he k hk)

end SynKit.CrnCanon

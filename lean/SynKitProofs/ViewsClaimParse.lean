import SynKitModel.ViewsClaim
import SynKitProofs.ViewsClaimBasic
import SynKitProofs.ViewsLemmas.Str
/-! # C16: `parse_rxns` input forms (explicit per-line rules, `prefer_suffix`) on printed lines -/
namespace SynKit.Views.Raw
open SynKit SynKit.Views

/-! ## `hasRuleSuffix` -/

theorem hasRuleSuffix_no_bar (l : List Char) (h : '|' ∉ l) : hasRuleSuffix l = false := by
  induction l with
  | nil => rfl
  | cons c cs ih =>
    simp only [List.mem_cons, not_or] at h
    have hc : c ≠ '|' := fun e => h.1 e.symm
    simp only [hasRuleSuffix, hc, decide_false, Bool.false_and, Bool.false_or]
    exact ih h.2

theorem hasRuleSuffix_of_bar (pre rest : List Char)
    (h : (matchRuleAt (rest.dropWhile isWs)).isSome = true) :
    hasRuleSuffix (pre ++ '|' :: rest) = true := by
  induction pre with
  | nil => simp [hasRuleSuffix, h]
  | cons c cs ih => simp only [List.cons_append, hasRuleSuffix, ih, Bool.or_true]

/-- The printed line with the rule suffix: `core ++ " | rule=" ++ rule ++ tail`. -/
theorem fmtLine_shape (f : StrFlags) (hf : f.includeRule = true) (e : Rxn) (hr : WfRule e.rule) :
    ∃ tail, (tail = [] ∨ ∃ idl, tail = ' ' :: 'i' :: 'd' :: '=' :: idl) ∧
      fmtLine f e = (fmtSide e.reactants ++ arrow ++ fmtSide e.products ++ [' ']) ++
        '|' :: (' ' :: 'r' :: 'u' :: 'l' :: 'e' :: '=' :: (e.rule.toList ++ tail)) := by
  have h1 : "rule=".toList = ['r', 'u', 'l', 'e', '='] := rfl
  have h2 : "id=".toList = ['i', 'd', '='] := rfl
  have h3 : (e.rule != "") = true := by simp [hr.1]
  unfold fmtLine
  simp only [hf, h3, Bool.and_self, if_true, h1, h2]
  cases f.includeId with
  | false => exact ⟨[], Or.inl rfl, by simp [intercalate]⟩
  | true => exact ⟨' ' :: 'i' :: 'd' :: '=' :: e.id.toList, Or.inr ⟨_, rfl⟩, by simp [intercalate]⟩

/-- The printed line without any suffix is the bare core. -/
theorem fmtLine_plain (f : StrFlags) (hf : f.includeRule = false) (hi : f.includeId = false) (e : Rxn) :
    fmtLine f e = fmtSide e.reactants ++ arrow ++ fmtSide e.products := by
  unfold fmtLine
  simp [hf, hi]

theorem matchRuleAt_head (rule tail : List Char) (hne : rule ≠ []) (hr : ∀ c ∈ rule, isWs c = false) :
    (matchRuleAt ('r' :: 'u' :: 'l' :: 'e' :: '=' :: (rule ++ tail))).isSome = true := by
  obtain ⟨x, r, hxr⟩ := List.exists_cons_of_ne_nil hne
  have hx : isWs x = false := hr x (by simp [hxr])
  have h0 : isWs '=' = false := by decide
  have hdrop : List.dropWhile isWs (rule ++ tail) = rule ++ tail := by
    rw [hxr]; simp [hx]
  simp only [matchRuleAt, List.dropWhile, h0, hdrop]
  simp [hxr, hx]

theorem hasRuleSuffix_fmtLine (f : StrFlags) (hf : f.includeRule = true) (e : Rxn) (hr : WfRule e.rule) :
    hasRuleSuffix (fmtLine f e) = true := by
  obtain ⟨hrne, hrws⟩ := Str.wfRule_list e.rule hr
  obtain ⟨tail, _, hline⟩ := fmtLine_shape f hf e hr
  rw [hline]
  apply hasRuleSuffix_of_bar
  have h1 : isWs ' ' = true := by decide
  have h2 : isWs 'r' = false := by decide
  simp only [List.dropWhile, h1, h2]
  exact matchRuleAt_head _ _ hrne hrws

theorem hasRuleSuffix_fmtLine_plain (f : StrFlags) (hf : f.includeRule = false) (hi : f.includeId = false)
    (e : Rxn) (hl : WfLabels e.reactants ∧ WfLabels e.products) :
    hasRuleSuffix (fmtLine f e) = false := by
  rw [fmtLine_plain f hf hi e]
  apply hasRuleSuffix_no_bar
  have hnr := Str.fmtSide_no_sep e.reactants hl.1
  have hnp := Str.fmtSide_no_sep e.products hl.2
  simp only [List.mem_append, not_or, arrow]
  exact ⟨⟨hnr.1, by decide⟩, hnp.1⟩

/-! ## One line -/

theorem parseLine_fmtLine_explicit (f : StrFlags) (hf : f.includeRule = false) (hi : f.includeId = false)
    (e : Rxn) (hs : WfSide e.reactants ∧ WfSide e.products)
    (hl : WfLabels e.reactants ∧ WfLabels e.products) (r : String) :
    parseLine (some r) false (fmtLine f e) =
      .ok ⟨some r, sortSide e.reactants, sortSide e.products⟩ := by
  have hnr := Str.fmtSide_no_sep e.reactants hl.1
  have htr := Str.fmtSide_tight e.reactants hl.1
  have htp := Str.fmtSide_tight e.products hl.2
  have hcore : strip (fmtSide e.reactants ++ arrow ++ fmtSide e.products) =
      (fmtSide e.reactants ++ [' ']) ++ '>' :: '>' :: ([' '] ++ fmtSide e.products) := by
    rw [Str.strip_tight _ (Str.Tight_append _ _ _ htr htp)]; simp [arrow]
  have harrow : '>' ∉ fmtSide e.reactants ++ [' '] := by
    simp only [List.mem_append, not_or]; exact ⟨hnr.2, by decide⟩
  have hsa := Str.splitArrow_append (fmtSide e.reactants ++ [' ']) ([' '] ++ fmtSide e.products) harrow
  have hpr := Str.side_roundtrip_pad e.reactants hs.1 hl.1 [] [' '] (by simp) (by simp; decide)
  have hpp := Str.side_roundtrip_pad e.products hs.2 hl.2 [' '] [] (by simp; decide) (by simp)
  rw [List.nil_append] at hpr
  rw [List.append_nil] at hpp
  unfold parseLine
  simp only [Bool.false_eq_true, if_false, fmtLine_plain f hf hi e, hcore, hsa, hpr, hpp]

/-! ## Lists of items -/

theorem parseItemsFrom_explicit (f : StrFlags) (hf : f.includeRule = false) (hi : f.includeId = false)
    (ps pf : Bool) (d : String) (es : List Rxn) :
    ∀ st : PState,
    (∀ e ∈ es, (WfSide e.reactants ∧ WfSide e.products) ∧ (WfLabels e.reactants ∧ WfLabels e.products) ∧
      WfRule e.rule) →
    parseItemsFrom ps pf d st (es.map fun e => (fmtLine f e, some e.rule)) =
      parseLinesFrom true "r" st (es.map (fmtLine { f with includeRule := true })) := by
  induction es with
  | nil => intro st _; rfl
  | cons e es ih =>
    intro st h
    obtain ⟨hs, hl, hr⟩ := h e List.mem_cons_self
    have hno := hasRuleSuffix_fmtLine_plain f hf hi e hl
    have h1 := parseLine_fmtLine_explicit f hf hi e hs hl e.rule
    have h2 := Str.parseLine_fmtLine { f with includeRule := true } rfl e hs hl hr
    simp only [List.map_cons, parseItemsFrom, parseLinesFrom, if_true, hno, Bool.and_false,
      Bool.false_eq_true, if_false, h1, h2]
    cases st.addGen ⟨some e.rule, sortSide e.reactants, sortSide e.products⟩ with
    | error err => rfl
    | ok st' => exact ih st' (fun e' he' => h e' (List.mem_cons_of_mem _ he'))

theorem parseItemsFrom_suffix (f : StrFlags) (hf : f.includeRule = true) (pf : Bool) (d : String)
    (es : List Rxn) (xs : List (Option String)) (hlen : xs.length = es.length)
    (hpre : pf = true ∨ ∀ x ∈ xs, x = none) :
    ∀ st : PState, (∀ e ∈ es, WfRule e.rule) →
    parseItemsFrom true pf d st ((es.map (fmtLine f)).zip xs) =
      parseLinesFrom true "r" st (es.map (fmtLine f)) := by
  induction es generalizing xs with
  | nil => intro st _; cases xs <;> rfl
  | cons e es ih =>
    intro st h
    cases xs with
    | nil => simp at hlen
    | cons x xs =>
      have hlen' : xs.length = es.length := by simpa using hlen
      have hpre' : pf = true ∨ ∀ x ∈ xs, x = none := by
        rcases hpre with hp | hp
        · exact Or.inl hp
        · exact Or.inr (fun y hy => hp y (List.mem_cons_of_mem _ hy))
      have hsuf := hasRuleSuffix_fmtLine f hf e (h e List.mem_cons_self)
      have hrest := fun st' => ih xs hlen' hpre' st' (fun e' he' => h e' (List.mem_cons_of_mem _ he'))
      cases x with
      | none =>
        simp only [List.map_cons, List.zip_cons_cons, parseItemsFrom, parseLinesFrom, if_true]
        cases parseLine none true (fmtLine f e) with
        | error err => rfl
        | ok pl =>
          simp only []
          cases st.addGen pl with
          | error err => rfl
          | ok st' => exact hrest st'
      | some r =>
        have hp : pf = true := by
          rcases hpre with hp | hp
          · exact hp
          · exact absurd (hp (some r) List.mem_cons_self) (by simp)
        simp only [List.map_cons, List.zip_cons_cons, parseItemsFrom, parseLinesFrom, if_true, hsuf, hp,
          Bool.and_self]
        cases parseLine none true (fmtLine f e) with
        | error err => rfl
        | ok pl =>
          simp only []
          cases st.addGen pl with
          | error err => rfl
          | ok st' => have := hrest st'; rw [hp] at this; exact this

/-! ## The claim condition -/

theorem fmtLines_eq (f : StrFlags) (N : Net) : fmtLines f N = (printedRxns f N).map (fmtLine f) := rfl

theorem mem_printedRxns (f : StrFlags) (N : Net) (e : Rxn) (he : e ∈ printedRxns f N) : e ∈ N.rxns := by
  unfold printedRxns at he
  split at he
  · exact (Str.sortBy_perm _ N.rxns).mem_iff.1 he
  · exact he

theorem printedRxns_perm (f : StrFlags) (N : Net) : (printedRxns f N).Perm N.rxns := by
  unfold printedRxns
  split
  · exact Str.sortBy_perm _ N.rxns
  · exact List.Perm.refl _

theorem zip_map_fst_snd {α β : Type} (l : List (α × β)) : (l.map (·.1)).zip (l.map (·.2)) = l := by
  induction l with
  | nil => rfl
  | cons a l ih => simp [ih]

theorem itemsClaim_parse (f : StrFlags) (ps pf : Bool) (d : String) (N : Net)
    (items : List (List Char × Option String)) (h : itemsClaim f ps pf N items = true) :
    (match parseItemsFrom ps pf d {} items with
      | .ok st => Except.ok st.net
      | .error e => .error e) = parseLines (fmtLines { f with includeRule := true } N) := by
  unfold itemsClaim at h
  simp only [Bool.and_eq_true, Bool.or_eq_true, decide_eq_true_eq, Bool.not_eq_eq_eq_not,
    Bool.not_true, List.all_eq_true, Option.isNone_iff_eq_none] at h
  obtain ⟨⟨hwf, hlines⟩, hcase⟩ := h
  have hN := (wfStrNetB_iff N).1 hwf
  have hitems := zip_map_fst_snd items
  unfold parseLines
  rcases hcase with ⟨⟨hf, hi⟩, hrules⟩ | ⟨⟨hf, hps⟩, hpre⟩
  · have hit : items = (printedRxns f N).map fun e => (fmtLine f e, some e.rule) := by
      rw [← hitems, hlines, hrules, fmtLines_eq, List.zip_map']
    have hpr : printedRxns { f with includeRule := true } N = printedRxns f N := rfl
    rw [hit, fmtLines_eq, hpr,
      parseItemsFrom_explicit f hf hi ps pf d (printedRxns f N) {}
        (fun e he => ⟨hN.sides e (mem_printedRxns f N e he), hN.labels e (mem_printedRxns f N e he),
          hN.rules e (mem_printedRxns f N e he)⟩)]
    rfl
  · have hf' : ({ f with includeRule := true } : StrFlags) = f := by
      cases f; simp only at hf; subst hf; rfl
    subst hps
    rw [hf', ← hitems, hlines, fmtLines_eq,
      parseItemsFrom_suffix f hf pf d (printedRxns f N) (items.map (·.2))
        (by
          have := congrArg List.length hlines
          simpa [fmtLines_eq] using this)
        (by
          rcases hpre with hp | hp
          · exact Or.inl hp
          · refine Or.inr (fun x hx => ?_)
            obtain ⟨p, hp', rfl⟩ := List.mem_map.1 hx
            exact hp p hp')
        {} (fun e he => hN.rules e (mem_printedRxns f N e he))]
    rfl

theorem itemsClaim_roundtrip (f : StrFlags) (ps pf : Bool) (d : String) (N : Net)
    (items : List (List Char × Option String)) (h : itemsClaim f ps pf N items = true) :
    ∃ st', parseItemsFrom ps pf d {} items = .ok st' ∧
      st'.net.rxns.map Rxn.content = (printedRxns f N).map Rxn.sortedContent ∧
      (st'.net.rxns.map Rxn.content).Perm (N.rxns.map Rxn.sortedContent) := by
  have hparse := itemsClaim_parse f ps pf d N items h
  have hwf : wfStrNetB N = true := by
    unfold itemsClaim at h
    simp only [Bool.and_eq_true] at h
    exact h.1.1
  obtain ⟨N', hN', hcont⟩ := Str.strings_roundtrip' { f with includeRule := true } rfl N
    ((wfStrNetB_iff N).1 hwf)
  rw [hN'] at hparse
  cases hst : parseItemsFrom ps pf d {} items with
  | error err => rw [hst] at hparse; cases hparse
  | ok st' =>
    rw [hst] at hparse
    have hnet : st'.net = N' := by injection hparse
    refine ⟨st', rfl, ?_, ?_⟩
    · rw [hnet, hcont]; rfl
    · rw [hnet, hcont]
      exact (printedRxns_perm f N).map _

/-! ## Input forms -/

/-- Local copy of `parseItemsFrom_plain` (`SynKitProofs/ViewsRawLemmas.lean`). -/
theorem parseItemsFrom_noRules (parseSuffix preferSuffix : Bool) (defaultRule : String) (st : PState)
    (ls : List (List Char)) :
    parseItemsFrom parseSuffix preferSuffix defaultRule st (ls.map fun l => (l, none)) =
      parseLinesFrom parseSuffix defaultRule st ls := by
  induction ls generalizing st with
  | nil => rfl
  | cons l ls ih =>
    cases parseSuffix
    · simp only [List.map_cons, parseItemsFrom, parseLinesFrom, Bool.false_eq_true, if_false]
      cases parseLine (some defaultRule) false l with
      | error e => rfl
      | ok pl =>
        simp only []
        cases st.addGen pl with
        | error e => rfl
        | ok st' => exact ih st'
    · simp only [List.map_cons, parseItemsFrom, parseLinesFrom, if_true]
      cases parseLine none true l with
      | error e => rfl
      | ok pl =>
        simp only []
        cases st.addGen pl with
        | error e => rfl
        | ok st' => exact ih st'

theorem parseRxnsInput_forms (ps pf : Bool) (d : String) (xs : List (List Char × Option String)) :
    parseRxnsInput ps pf d (.mapping xs) = parseRxnsInput ps pf d (.tuples xs) ∧
    parseRxnsInput ps pf d (.lines (xs.map (·.1)) (some (xs.map (·.2)))) =
      parseRxnsInput ps pf d (.tuples xs) := by
  refine ⟨rfl, ?_⟩
  unfold parseRxnsInput ItemsInput.pairs
  simp only [List.length_map, if_true, zip_map_fst_snd]

theorem parseRxnsInput_lines_none (ps pf : Bool) (d : String) (ls : List (List Char)) :
    parseRxnsInput ps pf d (.lines ls none) =
      (match parseLinesFrom ps d {} ls with
        | .ok st => .ok st.net
        | .error e => .error e) := by
  unfold parseRxnsInput ItemsInput.pairs
  simp only [parseItemsFrom_noRules]
  rfl

theorem parseRxnsInput_length_mismatch (ps pf : Bool) (d : String) (ls : List (List Char))
    (rs : List (Option String)) (h : ls.length ≠ rs.length) :
    parseRxnsInput ps pf d (.lines ls (some rs)) = .error .valueError := by
  unfold parseRxnsInput ItemsInput.pairs
  simp only [if_neg h]

/-! ## Non-vacuity -/

example :
    itemsClaim { includeRule := false } true false
      { species := ["A", "B"], rxns := [⟨"r_1", "R1", [("A", 2)], [("B", 1)]⟩], mol := [] }
      [("2A >> B".toList, some "R1")] = true ∧
    itemsClaim {} true true
      { species := ["A", "B"], rxns := [⟨"r_1", "R1", [("A", 2)], [("B", 1)]⟩], mol := [] }
      [("2A >> B | rule=R1".toList, some "X")] = true := by
  decide

end SynKit.Views.Raw

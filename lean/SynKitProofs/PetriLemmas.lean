import SynKitModel.Petri
import Mathlib.Data.List.Basic
import Mathlib.Data.List.Perm.Subperm
import Mathlib.Data.List.Nodup
/-!
# Helper lemmas for C20 (property theorems are in `Props/C20.lean`)
-/
namespace SynKit.Petri

/-! ## combinations -/

theorem mem_combos {α : Type} (l : List α) (k : Nat) (X : List α) :
    X ∈ combos l k ↔ X.Sublist l ∧ X.length = k := by
  induction l generalizing k X with
  | nil =>
    cases k with
    | zero => simp [combos]
    | succ k =>
      simp only [combos, List.not_mem_nil, List.sublist_nil, false_iff, not_and]
      rintro rfl; simp
  | cons x xs ih =>
    cases k with
    | zero =>
      simp only [combos, List.mem_singleton, List.length_eq_zero_iff]
      constructor
      · rintro rfl; exact ⟨List.nil_sublist _, rfl⟩
      · exact fun h => h.2
    | succ k =>
      simp only [combos, List.mem_append, List.mem_map, ih]
      constructor
      · rintro (⟨Y, ⟨hs, hl⟩, rfl⟩ | ⟨hs, hl⟩)
        · exact ⟨hs.cons_cons x, by simp [hl]⟩
        · exact ⟨hs.cons x, hl⟩
      · rintro ⟨hs, hl⟩
        cases hs with
        | cons _ h => exact Or.inr ⟨h, hl⟩
        | cons_cons _ h =>
          rename_i Y
          exact Or.inl ⟨Y, ⟨h, by simpa using hl⟩, rfl⟩

/-! ## `_minimal_sets` -/

theorem subsetB_iff (T S : List Nat) : subsetB T S = true ↔ T ⊆ S := by
  simp [subsetB, List.subset_def]

/-- The two facts the scan maintains: kept sets are candidates seen so far and minimal among
them; every candidate seen so far contains a kept set. -/
structure MinInv (seen out : List (List Nat)) : Prop where
  sound : ∀ X ∈ out, X ∈ seen ∧ ∀ Y ∈ seen, Y ⊆ X → X ⊆ Y
  cover : ∀ Y ∈ seen, ∃ T ∈ out, T ⊆ Y

def minStep (out : List (List Nat)) (S : List Nat) : List (List Nat) :=
  if out.any (fun T => subsetB T S) then out
  else (out.filter fun T => !subsetB S T) ++ [S]

theorem minimalSets_eq (cands : List (List Nat)) : minimalSets cands = cands.foldl minStep [] := rfl

theorem minInv_step (seen out : List (List Nat)) (S : List Nat) (h : MinInv seen out) :
    MinInv (seen ++ [S]) (minStep out S) := by
  unfold minStep
  by_cases hc : out.any (fun T => subsetB T S) = true
  · rw [if_pos hc]
    simp only [List.any_eq_true, subsetB_iff] at hc
    obtain ⟨T, hT, hTS⟩ := hc
    constructor
    · intro X hX
      obtain ⟨h1, h2⟩ := h.sound X hX
      refine ⟨List.mem_append_left _ h1, ?_⟩
      intro Y hY hYX
      rcases List.mem_append.1 hY with hY | hY
      · exact h2 Y hY hYX
      · simp only [List.mem_singleton] at hY; subst hY
        have hTX : T ⊆ X := fun a ha => hYX (hTS ha)
        exact fun a ha => hTS (h2 T (h.sound T hT).1 hTX ha)
    · intro Y hY
      rcases List.mem_append.1 hY with hY | hY
      · exact h.cover Y hY
      · simp only [List.mem_singleton] at hY; subst hY; exact ⟨T, hT, hTS⟩
  · rw [if_neg hc]
    have hno : ∀ T ∈ out, ¬ T ⊆ S := by
      intro T hT hTS
      exact hc (List.any_eq_true.2 ⟨T, hT, (subsetB_iff T S).2 hTS⟩)
    constructor
    · intro X hX
      rcases List.mem_append.1 hX with hX | hX
      · obtain ⟨hXo, hSX⟩ := List.mem_filter.1 hX
        have hSX' : ¬ S ⊆ X := by
          intro hh; rw [(subsetB_iff S X).2 hh] at hSX; simp at hSX
        obtain ⟨h1, h2⟩ := h.sound X hXo
        refine ⟨List.mem_append_left _ h1, ?_⟩
        intro Y hY hYX
        rcases List.mem_append.1 hY with hY | hY
        · exact h2 Y hY hYX
        · simp only [List.mem_singleton] at hY; subst hY; exact absurd hYX hSX'
      · simp only [List.mem_singleton] at hX; subst hX
        refine ⟨List.mem_append_right _ (List.mem_singleton.2 rfl), ?_⟩
        intro Y hY hYX
        rcases List.mem_append.1 hY with hY | hY
        · obtain ⟨T, hT, hTY⟩ := h.cover Y hY
          exact absurd (fun a ha => hYX (hTY ha)) (hno T hT)
        · simp only [List.mem_singleton] at hY; subst hY; exact fun a ha => ha
    · intro Y hY
      rcases List.mem_append.1 hY with hY | hY
      · obtain ⟨T, hT, hTY⟩ := h.cover Y hY
        by_cases hST : S ⊆ T
        · exact ⟨S, List.mem_append_right _ (List.mem_singleton.2 rfl), fun a ha => hTY (hST ha)⟩
        · refine ⟨T, List.mem_append_left _ (List.mem_filter.2 ⟨hT, ?_⟩), hTY⟩
          have : subsetB S T = false := by
            cases hb : subsetB S T
            · rfl
            · exact absurd ((subsetB_iff S T).1 hb) hST
          simp [this]
      · simp only [List.mem_singleton] at hY; subst hY
        exact ⟨Y, List.mem_append_right _ (List.mem_singleton.2 rfl), fun a ha => ha⟩

theorem minInv_foldl (cands seen out : List (List Nat)) (h : MinInv seen out) :
    MinInv (seen ++ cands) (cands.foldl minStep out) := by
  induction cands generalizing seen out with
  | nil => simpa using h
  | cons S rest ih =>
    have := ih (seen ++ [S]) (minStep out S) (minInv_step seen out S h)
    simpa [List.append_assoc] using this

theorem minInv_minimalSets (cands : List (List Nat)) : MinInv cands (minimalSets cands) := by
  have h0 : MinInv [] [] := ⟨by simp, by simp⟩
  simpa [minimalSets_eq] using minInv_foldl cands [] [] h0

end SynKit.Petri

namespace SynKit.Petri

/-! ## the candidate loop and the minimal sets among the candidates -/

theorem mem_candidates (pred : List Nat → Bool) (n m : Nat) (X : List Nat) :
    X ∈ candidates pred n m ↔
      X.Sublist (List.range n) ∧ X ≠ [] ∧ X.length ≤ m ∧ pred X = true := by
  simp only [candidates, List.mem_flatMap, List.mem_range, List.mem_filter, mem_combos]
  constructor
  · rintro ⟨k, hk, ⟨hs, hl⟩, hp⟩
    refine ⟨hs, ?_, by omega, hp⟩
    rintro rfl; simp at hl
  · rintro ⟨hs, hne, hl, hp⟩
    have : 0 < X.length := List.length_pos_iff.2 hne
    exact ⟨X.length - 1, by omega, ⟨hs, by omega⟩, hp⟩

theorem sublist_range_ext (n : Nat) (X Y : List Nat) (hX : X.Sublist (List.range n))
    (hY : Y.Sublist (List.range n)) (h1 : X ⊆ Y) (h2 : Y ⊆ X) : X = Y := by
  have hn : (List.range n).Nodup := List.nodup_range
  have hp : X.Perm Y :=
    (List.perm_ext_iff_of_nodup (hn.sublist hX) (hn.sublist hY)).2 fun a => ⟨fun h => h1 h, fun h => h2 h⟩
  exact (List.Nodup.perm_iff_eq_of_sublist hn hX hY).1 hp

theorem length_le_of_subset_sublist (n : Nat) (X Y : List Nat) (hY : Y.Sublist (List.range n))
    (h : Y ⊆ X) : Y.length ≤ X.length :=
  ((List.nodup_range.sublist hY).subperm h).length_le

/-- The canonical (increasing) representative of an index set. -/
def canon (n : Nat) (Y : List Nat) : List Nat := (List.range n).filter fun i => Y.contains i

theorem canon_sublist (n : Nat) (Y : List Nat) : (canon n Y).Sublist (List.range n) :=
  List.filter_sublist

theorem mem_canon (n : Nat) (Y : List Nat) (hY : ∀ i ∈ Y, i < n) (i : Nat) : i ∈ canon n Y ↔ i ∈ Y := by
  simp only [canon, List.mem_filter, List.mem_range, List.contains_iff_mem]
  exact ⟨fun h => h.2, fun h => ⟨hY i h, h⟩⟩

/-- **Main lemma for `find_siphons` / `find_traps`**, generic in the predicate: for a predicate
that only depends on the members of its argument, the reported index sets are exactly the
minimal ones among the sets of at most `max_size` species. -/
theorem mem_findIdx (pred : List Nat → Bool) (P : List Nat → Prop) (n : Nat) (ms : Option Nat)
    (hP : ∀ X, pred X = true ↔ P X) (hne : ∀ X, P X → X ≠ [])
    (hext : ∀ X Y, (∀ i, i ∈ X ↔ i ∈ Y) → (P X ↔ P Y)) (X : List Nat) :
    X ∈ findIdx pred n ms ↔ MinimalWrt P n X ∧ X.length ≤ ms.getD n := by
  have inv := minInv_minimalSets (candidates pred n (ms.getD n))
  unfold findIdx MinimalWrt
  constructor
  · intro hX
    obtain ⟨hc, hmin⟩ := inv.sound X hX
    obtain ⟨hs, _, hl, hp⟩ := (mem_candidates _ _ _ _).1 hc
    refine ⟨⟨hs, (hP X).1 hp, ?_⟩, hl⟩
    intro Y hYn hPY hYX
    -- replace Y by its canonical representative
    have hcs := canon_sublist n Y
    have hmem := mem_canon n Y hYn
    have hPc : P (canon n Y) := (hext _ _ hmem).2 hPY
    have hcX : canon n Y ⊆ X := fun a ha => hYX ((hmem a).1 ha)
    have hlen : (canon n Y).length ≤ ms.getD n :=
      Nat.le_trans (length_le_of_subset_sublist n X _ hcs hcX) hl
    have hcand : canon n Y ∈ candidates pred n (ms.getD n) :=
      (mem_candidates _ _ _ _).2 ⟨hcs, hne _ hPc, hlen, (hP _).2 hPc⟩
    exact fun a ha => (hmem a).1 (hmin _ hcand hcX ha)
  · rintro ⟨⟨hs, hPX, hmin⟩, hl⟩
    have hc : X ∈ candidates pred n (ms.getD n) :=
      (mem_candidates _ _ _ _).2 ⟨hs, hne X hPX, hl, (hP X).2 hPX⟩
    obtain ⟨T, hT, hTX⟩ := inv.cover X hc
    obtain ⟨hTc, _⟩ := inv.sound T hT
    obtain ⟨hTs, _, _, hTp⟩ := (mem_candidates _ _ _ _).1 hTc
    have hTn : ∀ i ∈ T, i < n := fun i hi => List.mem_range.1 (hTs.subset hi)
    have hXT : X ⊆ T := hmin T hTn ((hP T).1 hTp) hTX
    rw [sublist_range_ext n X T hs hTs hXT hTX]; exact hT

/-! ## the coded predicates are the defining ones -/

theorem mem_labelsOf (N : Net) (S : List Nat) (s : String) :
    s ∈ N.labelsOf S ↔ ∃ i ∈ S, N.species[i]? = some s := by
  simp [Net.labelsOf, List.mem_filterMap]

theorem producesAny_iff (N : Net) (r : Rxn) (S : List Nat) :
    r.producesAny (N.labelsOf S) = true ↔ ∃ i ∈ S, Produces N r i := by
  simp only [Rxn.producesAny, List.any_eq_true, Bool.and_eq_true, decide_eq_true_eq, mem_labelsOf,
    Produces]
  constructor
  · rintro ⟨⟨s, c⟩, hm, ⟨i, hi, hs⟩, hc⟩; exact ⟨i, hi, s, c, hs, hm, hc⟩
  · rintro ⟨i, hi, s, c, hs, hm, hc⟩; exact ⟨(s, c), hm, ⟨i, hi, hs⟩, hc⟩

theorem consumesAny_iff (N : Net) (r : Rxn) (S : List Nat) :
    r.consumesAny (N.labelsOf S) = true ↔ ∃ i ∈ S, Consumes N r i := by
  simp only [Rxn.consumesAny, List.any_eq_true, Bool.and_eq_true, decide_eq_true_eq, mem_labelsOf,
    Consumes]
  constructor
  · rintro ⟨⟨s, c⟩, hm, ⟨i, hi, hs⟩, hc⟩; exact ⟨i, hi, s, c, hs, hm, hc⟩
  · rintro ⟨i, hi, s, c, hs, hm, hc⟩; exact ⟨(s, c), hm, ⟨i, hi, hs⟩, hc⟩

theorem isSiphon_iff (N : Net) (S : List Nat) : isSiphon N S = true ↔ IsSiphon N S := by
  simp only [isSiphon, IsSiphon, Bool.and_eq_true, Bool.not_eq_true', List.isEmpty_eq_false_iff,
    List.all_eq_true, Bool.or_eq_true, ← producesAny_iff, ← consumesAny_iff]
  constructor
  · rintro ⟨h1, h2⟩; refine ⟨h1, fun r hr hp => ?_⟩
    rcases h2 r hr with h | h
    · rw [hp] at h; simp at h
    · exact h
  · rintro ⟨h1, h2⟩; refine ⟨h1, fun r hr => ?_⟩
    cases hp : r.producesAny (N.labelsOf S)
    · exact Or.inl rfl
    · exact Or.inr (h2 r hr hp)

theorem isTrap_iff (N : Net) (S : List Nat) : isTrap N S = true ↔ IsTrap N S := by
  simp only [isTrap, IsTrap, Bool.and_eq_true, Bool.not_eq_true', List.isEmpty_eq_false_iff,
    List.all_eq_true, Bool.or_eq_true, ← producesAny_iff, ← consumesAny_iff]
  constructor
  · rintro ⟨h1, h2⟩; refine ⟨h1, fun r hr hp => ?_⟩
    rcases h2 r hr with h | h
    · rw [hp] at h; simp at h
    · exact h
  · rintro ⟨h1, h2⟩; refine ⟨h1, fun r hr => ?_⟩
    cases hp : r.consumesAny (N.labelsOf S)
    · exact Or.inl rfl
    · exact Or.inr (h2 r hr hp)

theorem ne_nil_congr {X Y : List Nat} (h : ∀ i, i ∈ X ↔ i ∈ Y) : X ≠ [] ↔ Y ≠ [] := by
  constructor
  · intro hx hy; subst hy
    cases X with
    | nil => exact hx rfl
    | cons a t => exact absurd ((h a).1 (List.mem_cons_self)) (by simp)
  · intro hy hx; subst hx
    cases Y with
    | nil => exact hy rfl
    | cons a t => exact absurd ((h a).2 (List.mem_cons_self)) (by simp)

theorem IsSiphon_congr (N : Net) (X Y : List Nat) (h : ∀ i, i ∈ X ↔ i ∈ Y) :
    IsSiphon N X ↔ IsSiphon N Y := by
  unfold IsSiphon
  rw [ne_nil_congr h]
  simp only [h]

theorem IsTrap_congr (N : Net) (X Y : List Nat) (h : ∀ i, i ∈ X ↔ i ∈ Y) :
    IsTrap N X ↔ IsTrap N Y := by
  unfold IsTrap
  rw [ne_nil_congr h]
  simp only [h]

end SynKit.Petri

namespace SynKit.Petri

/-! ## dict markings, `enabled`, `fire` -/

section Generic
variable {κ : Type} [DecidableEq κ]

theorem mget_mset_self (m : Marking κ) (p : κ) (v : Int) : mget (mset m p v) p = v := by
  induction m with
  | nil => simp [mset, mget]
  | cons qw rest ih =>
    obtain ⟨q, w⟩ := qw
    simp only [mset]
    by_cases h : q = p
    · simp [h, mget]
    · simp [h, mget, ih]

theorem mget_mset_other (m : Marking κ) (p q : κ) (v : Int) (hq : q ≠ p) :
    mget (mset m p v) q = mget m q := by
  induction m with
  | nil => simp [mset, mget, Ne.symm hq]
  | cons rw rest ih =>
    obtain ⟨r, w⟩ := rw
    simp only [mset]
    by_cases h : r = p
    · subst h; simp [mget, Ne.symm hq]
    · simp only [h, if_false, mget, ih]

theorem mget_foldl_sub (d : List (κ × Int)) (m : Marking κ) (p : κ) :
    mget (d.foldl (fun m pw => mset m pw.1 (mget m pw.1 - pw.2)) m) p = mget m p - weightAt d p := by
  induction d generalizing m with
  | nil => simp [weightAt]
  | cons qw rest ih =>
    obtain ⟨q, w⟩ := qw
    simp only [List.foldl_cons, ih, weightAt]
    by_cases h : q = p
    · subst h; simp [mget_mset_self]; omega
    · simp [h, mget_mset_other _ _ _ _ (Ne.symm h)]

theorem mget_foldl_add (d : List (κ × Int)) (m : Marking κ) (p : κ) :
    mget (d.foldl (fun m pw => mset m pw.1 (mget m pw.1 + pw.2)) m) p = mget m p + weightAt d p := by
  induction d generalizing m with
  | nil => simp [weightAt]
  | cons qw rest ih =>
    obtain ⟨q, w⟩ := qw
    simp only [List.foldl_cons, ih, weightAt]
    by_cases h : q = p
    · subst h; simp [mget_mset_self]; omega
    · simp [h, mget_mset_other _ _ _ _ (Ne.symm h)]

theorem mget_fire (t : Transition κ) (m : Marking κ) (p : κ) :
    mget (fire t m) p = mget m p - weightAt t.pre p + weightAt t.post p := by
  simp [fire, mget_foldl_add, mget_foldl_sub]

theorem enabled_iff (t : Transition κ) (m : Marking κ) :
    enabled t m = true ↔ ∀ pw ∈ t.pre, pw.2 ≤ mget m pw.1 := by
  simp [enabled, List.all_eq_true, Int.not_lt]

theorem weightAt_of_not_mem (d : List (κ × Int)) (p : κ) (h : p ∉ d.map (·.1)) : weightAt d p = 0 := by
  induction d with
  | nil => rfl
  | cons qv rest ih =>
    obtain ⟨q, v⟩ := qv
    simp only [List.map_cons, List.mem_cons, not_or] at h
    simp [weightAt, Ne.symm h.1, ih h.2]

/-- For a weight dict (keys pairwise different) the total weight at `p` is the entry. -/
theorem weightAt_of_mem (d : List (κ × Int)) (hn : (d.map (·.1)).Nodup) (p : κ) (w : Int)
    (h : (p, w) ∈ d) : weightAt d p = w := by
  induction d with
  | nil => simp at h
  | cons qv rest ih =>
    obtain ⟨q, v⟩ := qv
    simp only [List.map_cons, List.nodup_cons] at hn
    simp only [List.mem_cons, Prod.mk.injEq] at h
    rcases h with ⟨rfl, rfl⟩ | h
    · simp [weightAt, weightAt_of_not_mem rest p hn.1]
    · have hq : q ≠ p := by
        intro hh; subst hh; exact hn.1 (List.mem_map.2 ⟨(q, w), h, rfl⟩)
      simp [weightAt, hq, ih hn.2 h]

theorem weightAt_append (d e : List (κ × Int)) (p : κ) :
    weightAt (d ++ e) p = weightAt d p + weightAt e p := by
  induction d with
  | nil => simp [weightAt]
  | cons qv rest ih => obtain ⟨q, v⟩ := qv; simp [weightAt, ih]; omega

/-- Reading a tuple back as a dict and looking up a place of the net gives the dict's value. -/
theorem mget_ofTuple_toTuple (places : List κ) (m : Marking κ) (p : κ) (hp : p ∈ places) :
    mget (ofTuple places (toTuple places m)) p = mget m p := by
  induction places with
  | nil => simp at hp
  | cons q rest ih =>
    simp only [ofTuple, toTuple, List.map_cons, List.zip_cons_cons, mget]
    by_cases h : q = p
    · simp [h]
    · simp only [h, if_false]
      rcases List.mem_cons.1 hp with rfl | hp'
      · exact absurd rfl h
      · exact ih hp'

theorem mget_ofTuple_not_mem (places : List κ) (t : List Int) (p : κ) (hp : p ∉ places) :
    mget (ofTuple places t) p = 0 := by
  induction places generalizing t with
  | nil => simp [ofTuple, mget]
  | cons q rest ih =>
    simp only [List.mem_cons, not_or] at hp
    cases t with
    | nil => simp [ofTuple, mget]
    | cons x xs =>
      simp only [ofTuple, List.zip_cons_cons, mget, Ne.symm hp.1, if_false]
      exact ih xs hp.2

end Generic
end SynKit.Petri

namespace SynKit.Petri

/-! ## the net built from a pathway -/

section Build
variable {κ : Type} [DecidableEq κ]

theorem setTransition_tids (ts : List (Transition κ)) (t : Transition κ) :
    (setTransition ts t).map (·.tid) =
      if t.tid ∈ ts.map (·.tid) then ts.map (·.tid) else ts.map (·.tid) ++ [t.tid] := by
  induction ts with
  | nil => simp [setTransition]
  | cons t' rest ih =>
    simp only [setTransition]
    by_cases h : t'.tid = t.tid
    · simp [h]
    · simp only [h, if_false, List.map_cons, ih, List.mem_cons]
      by_cases h2 : t.tid ∈ rest.map (·.tid)
      · simp [h2]
      · simp [h2, Ne.symm h]

theorem setTransition_nodup (ts : List (Transition κ)) (t : Transition κ)
    (h : (ts.map (·.tid)).Nodup) : ((setTransition ts t).map (·.tid)).Nodup := by
  rw [setTransition_tids]
  split
  · exact h
  · rename_i hn
    exact List.nodup_append.2 ⟨h, by simp, by
      intro a ha b hb; simp only [List.mem_singleton] at hb; subst hb
      intro hab; subst hab; exact hn ha⟩

theorem setTransition_fresh (ts : List (Transition κ)) (t : Transition κ)
    (h : t.tid ∉ ts.map (·.tid)) : setTransition ts t = ts ++ [t] := by
  induction ts with
  | nil => rfl
  | cons t' rest ih =>
    simp only [List.map_cons, List.mem_cons, not_or] at h
    simp [setTransition, Ne.symm h.1, ih h.2]

theorem addPlace_transitions (n : PNet κ) (p : κ) : (n.addPlace p).transitions = n.transitions := by
  unfold PNet.addPlace; split <;> rfl

theorem foldl_addPlace_transitions (ps : List κ) (n : PNet κ) :
    (ps.foldl PNet.addPlace n).transitions = n.transitions := by
  induction ps generalizing n with
  | nil => rfl
  | cons p rest ih => simp [List.foldl_cons, ih, addPlace_transitions]

theorem addTransition_transitions (n : PNet κ) (t : Transition κ) :
    (n.addTransition t).transitions = setTransition n.transitions t := by
  simp [PNet.addTransition, foldl_addPlace_transitions]

theorem mem_addPlace (n : PNet κ) (p q : κ) : q ∈ (n.addPlace p).places ↔ q ∈ n.places ∨ q = p := by
  unfold PNet.addPlace
  split
  · rename_i h
    simp only [List.contains_iff_mem] at h
    constructor
    · exact Or.inl
    · rintro (h1 | rfl)
      · exact h1
      · exact h
  · simp

theorem mem_foldl_addPlace (ps : List κ) (n : PNet κ) (q : κ) :
    q ∈ (ps.foldl PNet.addPlace n).places ↔ q ∈ n.places ∨ q ∈ ps := by
  induction ps generalizing n with
  | nil => simp
  | cons p rest ih =>
    simp only [List.foldl_cons, ih, mem_addPlace, List.mem_cons]
    constructor
    · rintro ((h | h) | h)
      · exact Or.inl h
      · exact Or.inr (Or.inl h)
      · exact Or.inr (Or.inr h)
    · rintro (h | h | h)
      · exact Or.inl (Or.inl h)
      · exact Or.inl (Or.inr h)
      · exact Or.inr h

theorem mem_addTransition_places (n : PNet κ) (t : Transition κ) (q : κ) :
    q ∈ (n.addTransition t).places ↔ q ∈ n.places ∨ q ∈ t.pre.map (·.1) ∨ q ∈ t.post.map (·.1) := by
  simp only [PNet.addTransition, mem_foldl_addPlace, List.mem_append]

end Build

/-- One step of the edge loop of `build_petri_net_from_flow`. -/
def buildStep (n : PNet Place) (r : Rxn) : PNet Place :=
  ((n.addPlace (Place.ext r.id)).addPlace (Place.target r.id)).addTransition (transitionOf r)

theorem buildStep_transitions (n : PNet Place) (r : Rxn) :
    (buildStep n r).transitions = setTransition n.transitions (transitionOf r) := by
  simp [buildStep, addTransition_transitions, addPlace_transitions]

theorem buildNet_eq (P : Pathway) :
    buildNet P = P.edges.foldl buildStep
      (P.vertices.foldl (fun n v => n.addPlace (Place.sp v)) ({} : PNet Place)) := rfl

theorem foldl_buildStep_nodup (es : List Rxn) (n : PNet Place) (h : (n.transitions.map (·.tid)).Nodup) :
    ((es.foldl buildStep n).transitions.map (·.tid)).Nodup := by
  induction es generalizing n with
  | nil => exact h
  | cons r rest ih =>
    apply ih; rw [buildStep_transitions]; exact setTransition_nodup _ _ h

theorem foldl_addPlace_sp_transitions (vs : List String) (n : PNet Place) :
    (vs.foldl (fun n v => n.addPlace (Place.sp v)) n).transitions = n.transitions := by
  induction vs generalizing n with
  | nil => rfl
  | cons v rest ih => simp [List.foldl_cons, ih, addPlace_transitions]

/-- Transition ids of the built net are pairwise different (they are dict keys). -/
theorem buildNet_tids_nodup (P : Pathway) : ((buildNet P).transitions.map (·.tid)).Nodup := by
  rw [buildNet_eq]; apply foldl_buildStep_nodup
  rw [foldl_addPlace_sp_transitions]; simp [PNet.transitions]

theorem foldl_buildStep_transitions (es : List Rxn) (n : PNet Place)
    (h : (n.transitions.map (·.tid) ++ es.map (·.id)).Nodup) :
    (es.foldl buildStep n).transitions = n.transitions ++ es.map transitionOf := by
  induction es generalizing n with
  | nil => simp
  | cons r rest ih =>
    have hfresh : (transitionOf r).tid ∉ n.transitions.map (·.tid) := by
      intro hm
      have := (List.nodup_append.1 h).2.2 _ hm r.id (by simp)
      exact this rfl
    have hs : (buildStep n r).transitions = n.transitions ++ [transitionOf r] := by
      rw [buildStep_transitions, setTransition_fresh _ _ hfresh]
    rw [List.foldl_cons, ih, hs]
    · simp
    · rw [hs]; simpa [transitionOf, List.append_assoc] using h

/-- With pairwise different edge ids (the input is a dict) the transitions are the edges, in order. -/
theorem buildNet_transitions (P : Pathway) (h : (P.edges.map (·.id)).Nodup) :
    (buildNet P).transitions = P.edges.map transitionOf := by
  rw [buildNet_eq, foldl_buildStep_transitions]
  · rw [foldl_addPlace_sp_transitions]; rfl
  · rw [foldl_addPlace_sp_transitions]; simpa [PNet.transitions] using h

end SynKit.Petri

namespace SynKit.Petri

/-! ## replay of firing sequences and soundness of the BFS -/

theorem runT_append (net : PNet Place) (m : Tuple) (a b : List String) :
    runT net m (a ++ b) = (runT net m a).bind fun m' => runT net m' b := by
  induction a generalizing m with
  | nil => simp [runT]
  | cons x rest ih =>
    simp only [List.cons_append, runT]
    cases stepT net m x with
    | none => simp
    | some m' => simp [ih]

theorem find?_of_mem (net : PNet Place) (hn : (net.transitions.map (·.tid)).Nodup)
    (t : Transition Place) (ht : t ∈ net.transitions) : net.find? t.tid = some t := by
  unfold PNet.find?
  generalize net.transitions = ts at hn ht
  induction ts with
  | nil => simp at ht
  | cons t' rest ih =>
    simp only [List.map_cons, List.nodup_cons] at hn
    rcases List.mem_cons.1 ht with rfl | ht'
    · simp
    · have hne : t'.tid ≠ t.tid := by
        intro h; exact hn.1 (h ▸ List.mem_map.2 ⟨t, ht', rfl⟩)
      simp [List.find?_cons, hne, ih hn.2 ht']

/-- Every queue entry is a marking together with a firing sequence that leads to it from `s0`. -/
def QInv (net : PNet Place) (s0 : Tuple) (q : Queue) : Prop :=
  ∀ e ∈ q, runT net s0 e.2 = some e.1

theorem runT_snoc (net : PNet Place) (hn : (net.transitions.map (·.tid)).Nodup) (s0 m : Tuple)
    (seq : List String) (t : Transition Place) (ht : t ∈ net.transitions)
    (hrun : runT net s0 seq = some m) (hen : enabled t (ofTuple net.places m) = true) :
    runT net s0 (seq ++ [t.tid]) = some (toTuple net.places (fire t (ofTuple net.places m))) := by
  rw [runT_append, hrun]
  simp [runT, stepT, find?_of_mem net hn t ht, hen]

theorem expand_sound (net : PNet Place) (hn : (net.transitions.map (·.tid)).Nodup) (s0 target m : Tuple)
    (seq : List String) (hrun : runT net s0 seq = some m) (ts : List (Transition Place))
    (hts : ∀ t ∈ ts, t ∈ net.transitions) (q : Queue) (vis : List Tuple) (hq : QInv net s0 q) :
    match expand net.places target (ofTuple net.places m) seq ts q vis with
    | .found s => runT net s0 s = some target
    | .cont q' _ => QInv net s0 q' := by
  induction ts generalizing q vis with
  | nil => simpa [expand] using hq
  | cons t rest ih =>
    have hrest : ∀ t ∈ rest, t ∈ net.transitions := fun t ht => hts t (List.mem_cons_of_mem _ ht)
    have htn := hts t List.mem_cons_self
    simp only [expand]
    by_cases hen : enabled t (ofTuple net.places m) = true
    · simp only [hen, if_true]
      have hstep := runT_snoc net hn s0 m seq t htn hrun hen
      by_cases heq : toTuple net.places (fire t (ofTuple net.places m)) = target
      · simp only [heq, if_true]; rw [← heq]; exact hstep
      · simp only [heq, if_false]
        by_cases hv : vis.contains (toTuple net.places (fire t (ofTuple net.places m))) = true
        · simp only [hv, if_true]; exact ih hrest q vis hq
        · simp only [hv]
          apply ih hrest
          intro e he
          rcases List.mem_append.1 he with he | he
          · exact hq e he
          · simp only [List.mem_singleton] at he; subst he; exact hstep
    · simp only [hen]
      exact ih hrest q vis hq

theorem bfs_sound (net : PNet Place) (hn : (net.transitions.map (·.tid)).Nodup) (s0 target : Tuple)
    (maxStates maxDepth fuel : Nat) (q : Queue) (vis : List Tuple) (states : Nat) (sk : Bool)
    (hq : QInv net s0 q) (s : List String)
    (h : bfs net target maxStates maxDepth fuel q vis states sk = .found s) :
    runT net s0 s = some target := by
  induction fuel generalizing q vis states sk with
  | zero => simp [bfs] at h
  | succ fuel ih =>
    cases q with
    | nil => simp [bfs] at h
    | cons e rest =>
      obtain ⟨m, seq⟩ := e
      have hrest : QInv net s0 rest := fun e he => hq e (List.mem_cons_of_mem _ he)
      have hrun : runT net s0 seq = some m := hq (m, seq) List.mem_cons_self
      simp only [bfs] at h
      split at h
      · simp at h
      · split at h
        · exact ih rest vis _ _ hrest h
        · have hex := expand_sound net hn s0 target m seq hrun net.transitions (fun t ht => ht) rest vis hrest
          split at h
          · rename_i s' heq
            rw [heq] at hex
            simp only [Result.found.injEq] at h; subst h; exact hex
          · rename_i q' vis' heq
            rw [heq] at hex
            exact ih q' vis' _ _ hex h

/-- The loop stops by itself before the fuel runs out. -/
theorem bfs_fuel (net : PNet Place) (target : Tuple) (maxStates maxDepth fuel : Nat) (q : Queue)
    (vis : List Tuple) (states : Nat) (sk : Bool) (hf : maxStates + 1 < fuel + states)
    (hs : states ≤ maxStates) :
    bfs net target maxStates maxDepth fuel q vis states sk ≠ .fuelOut := by
  induction fuel generalizing q vis states sk with
  | zero => omega
  | succ fuel ih =>
    cases q with
    | nil => simp [bfs]
    | cons e rest =>
      obtain ⟨m, seq⟩ := e
      simp only [bfs]
      split
      · simp
      · rename_i hs
        split
        · exact ih _ _ _ _ (by omega) (by omega)
        · split
          · simp
          · exact ih _ _ _ _ (by omega) (by omega)

theorem mget_of_not_mem_keys {κ : Type} [DecidableEq κ] (m : Marking κ) (p : κ)
    (h : p ∉ m.map (·.1)) : mget m p = 0 := by
  induction m with
  | nil => rfl
  | cons qv rest ih =>
    obtain ⟨q, v⟩ := qv
    simp only [List.map_cons, List.mem_cons, not_or] at h
    simp [mget, Ne.symm h.1, ih h.2]

theorem quickEqual_tuple (places : List Place) (M0 MT : Marking Place) (h : quickEqual M0 MT = true) :
    toTuple places M0 = toTuple places MT := by
  simp only [quickEqual, List.all_eq_true, List.mem_append, beq_iff_eq] at h
  unfold toTuple
  apply List.map_congr_left
  intro p _
  by_cases h1 : p ∈ MT.map (·.1)
  · exact h p (Or.inl h1)
  · by_cases h2 : p ∈ M0.map (·.1)
    · exact h p (Or.inr h2)
    · rw [mget_of_not_mem_keys M0 p h2, mget_of_not_mem_keys MT p h1]

/-- Soundness of `is_realizable` on the extended net: the returned sequence, fired from `M0`,
is enabled at every step and ends exactly in `MT`. -/
theorem isRealizable_sound (P : Pathway) (maxStates maxDepth : Nat) (seq : List String)
    (h : isRealizable P maxStates maxDepth = .found seq) : validCertificate P seq = true := by
  unfold isRealizable at h
  unfold validCertificate
  split at h
  · simp at h
  · simp only at h
    split at h
    · rename_i hq
      simp only [Result.found.injEq] at h; subst h
      simp [runT, quickEqual_tuple _ _ _ hq]
    · have := bfs_sound (buildNet P) (buildNet_tids_nodup P)
        (toTuple (buildNet P).places (initialMarking P)) _ _ _ _ _ _ _ _
        (by intro e he; simp only [List.mem_singleton] at he; subst he; simp [runT]) seq h
      simp [this]

theorem isRealizable_ne_fuelOut (P : Pathway) (maxStates maxDepth : Nat) :
    isRealizable P maxStates maxDepth ≠ .fuelOut := by
  unfold isRealizable
  split
  · simp
  · simp only
    split
    · simp
    · exact bfs_fuel _ _ _ _ _ _ _ _ _ (by omega) (by omega)

end SynKit.Petri

namespace SynKit.Petri

/-! ## what a valid certificate means in terms of counts -/

/-- Token count of place `p` in a tuple-encoded marking of `net`. -/
def valT (net : PNet Place) (m : Tuple) (p : Place) : Int := mget (ofTuple net.places m) p

theorem buildStep_places_mono (n : PNet Place) (r : Rxn) (q : Place) (h : q ∈ n.places) :
    q ∈ (buildStep n r).places := by
  simp only [buildStep, mem_addTransition_places, mem_addPlace]
  exact Or.inl (Or.inl (Or.inl h))

theorem buildStep_places_new (n : PNet Place) (r : Rxn) :
    Place.ext r.id ∈ (buildStep n r).places ∧ Place.target r.id ∈ (buildStep n r).places := by
  simp [buildStep, mem_addTransition_places, mem_addPlace]

theorem foldl_buildStep_places_mono (es : List Rxn) (n : PNet Place) (q : Place) (h : q ∈ n.places) :
    q ∈ (es.foldl buildStep n).places := by
  induction es generalizing n with
  | nil => exact h
  | cons r rest ih => exact ih _ (buildStep_places_mono n r q h)

theorem foldl_buildStep_places_new (es : List Rxn) (n : PNet Place) (r : Rxn) (hr : r ∈ es) :
    Place.ext r.id ∈ (es.foldl buildStep n).places ∧ Place.target r.id ∈ (es.foldl buildStep n).places := by
  induction es generalizing n with
  | nil => simp at hr
  | cons r' rest ih =>
    rw [List.foldl_cons]
    rcases List.mem_cons.1 hr with rfl | hr'
    · exact ⟨foldl_buildStep_places_mono _ _ _ (buildStep_places_new n r).1,
        foldl_buildStep_places_mono _ _ _ (buildStep_places_new n r).2⟩
    · exact ih _ hr'

theorem buildNet_places_edge (P : Pathway) (r : Rxn) (hr : r ∈ P.edges) :
    Place.ext r.id ∈ (buildNet P).places ∧ Place.target r.id ∈ (buildNet P).places := by
  rw [buildNet_eq]; exact foldl_buildStep_places_new _ _ r hr

/-! markings `M0`, `MT` -/

theorem mget_foldl_mset_other {α : Type} (xs : List α) (key : α → Place) (val : α → Int)
    (m : Marking Place) (p : Place) (h : ∀ x ∈ xs, key x ≠ p) :
    mget (xs.foldl (fun m x => mset m (key x) (val x)) m) p = mget m p := by
  induction xs generalizing m with
  | nil => rfl
  | cons x rest ih =>
    rw [List.foldl_cons, ih _ (fun y hy => h y (List.mem_cons_of_mem _ hy)),
      mget_mset_other _ _ _ _ (Ne.symm (h x List.mem_cons_self))]

theorem mget_foldl_mset_mem {α : Type} (xs : List α) (key : α → Place) (val : α → Int)
    (m : Marking Place) (k : Place) (v : Int) (hx : ∃ x ∈ xs, key x = k)
    (hsame : ∀ y ∈ xs, key y = k → val y = v) :
    mget (xs.foldl (fun m x => mset m (key x) (val x)) m) k = v := by
  induction xs generalizing m with
  | nil => simp at hx
  | cons y rest ih =>
    rw [List.foldl_cons]
    by_cases hk : ∃ z ∈ rest, key z = k
    · exact ih _ hk (fun z hz => hsame z (List.mem_cons_of_mem _ hz))
    · obtain ⟨x, hxm, hxk⟩ := hx
      have hxy : x = y := by
        rcases List.mem_cons.1 hxm with h | h
        · exact h
        · exact absurd ⟨x, h, hxk⟩ hk
      subst hxy
      rw [mget_foldl_mset_other _ _ _ _ _ (fun z hz hkz => hk ⟨z, hz, hkz⟩), hxk, mget_mset_self]
      exact hsame x List.mem_cons_self hxk

theorem mget_zero_fold (vs : List String) (p : Place) :
    mget (vs.foldl (fun m v => mset m (Place.sp v) 0) ([] : Marking Place)) p = 0 := by
  have : ∀ (m : Marking Place), mget m p = 0 →
      mget (vs.foldl (fun m v => mset m (Place.sp v) 0) m) p = 0 := by
    induction vs with
    | nil => intro m h; exact h
    | cons v rest ih =>
      intro m h
      rw [List.foldl_cons]; apply ih
      by_cases hp : Place.sp v = p
      · subst hp; exact mget_mset_self _ _ _
      · rw [mget_mset_other _ _ _ _ (Ne.symm hp)]; exact h
  exact this [] rfl

theorem initialMarking_target (P : Pathway) (e : String) : mget (initialMarking P) (Place.target e) = 0 := by
  unfold initialMarking
  rw [mget_foldl_mset_other P.edges (fun r => Place.ext r.id) (fun r => P.flowOf r.id) _ _ (by intro x _; simp)]
  exact mget_zero_fold _ _

theorem targetMarking_target (P : Pathway) (r : Rxn) (hr : r ∈ P.edges) :
    mget (targetMarking P) (Place.target r.id) = P.flowOf r.id := by
  unfold targetMarking
  exact mget_foldl_mset_mem P.edges (fun r => Place.target r.id) (fun r => P.flowOf r.id) _ _ _
    ⟨r, hr, rfl⟩ (by intro y _ h; simp only [Place.target.injEq] at h; simp [h])

theorem targetMarking_sp (P : Pathway) (v : String) : mget (targetMarking P) (Place.sp v) = 0 := by
  unfold targetMarking
  rw [mget_foldl_mset_other P.edges (fun r => Place.target r.id) (fun r => P.flowOf r.id) _ _ (by intro x _; simp)]
  exact mget_zero_fold _ _

theorem initialMarking_sp (P : Pathway) (v : String) : mget (initialMarking P) (Place.sp v) = 0 := by
  unfold initialMarking
  rw [mget_foldl_mset_other P.edges (fun r => Place.ext r.id) (fun r => P.flowOf r.id) _ _ (by intro x _; simp)]
  exact mget_zero_fold _ _

theorem valT_toTuple (net : PNet Place) (m : Marking Place) (p : Place) (hp : p ∈ net.places) :
    valT net (toTuple net.places m) p = mget m p := mget_ofTuple_toTuple _ _ _ hp

/-! one step, semantically -/

theorem find?_some (net : PNet Place) (tid : String) (t : Transition Place) (h : net.find? tid = some t) :
    t ∈ net.transitions ∧ t.tid = tid := by
  unfold PNet.find? at h
  exact ⟨List.mem_of_find?_eq_some h, by simpa using List.find?_some h⟩

theorem stepT_spec (net : PNet Place) (m m' : Tuple) (tid : String) (h : stepT net m tid = some m') :
    ∃ t ∈ net.transitions, t.tid = tid ∧ (∀ pw ∈ t.pre, pw.2 ≤ valT net m pw.1) ∧
      ∀ p ∈ net.places, valT net m' p = valT net m p - weightAt t.pre p + weightAt t.post p := by
  unfold stepT at h
  split at h
  · simp at h
  · rename_i t hf
    obtain ⟨ht, htid⟩ := find?_some net tid t hf
    split at h
    · rename_i hen
      simp only [Option.some.injEq] at h; subst h
      refine ⟨t, ht, htid, (enabled_iff t _).1 hen, ?_⟩
      intro p hp
      rw [valT_toTuple net _ p hp, mget_fire]; rfl
    · simp at h

theorem weightAt_sideWeights_nonsp (d : Dict Nat) (p : Place) (h : ∀ s, p ≠ Place.sp s) :
    weightAt (sideWeights d) p = 0 := by
  apply weightAt_of_not_mem
  simp only [sideWeights, List.map_map, List.mem_map, not_exists, not_and]
  intro kv _ hk; exact h kv.1 hk.symm

theorem transitionOf_target (r : Rxn) (e : String) :
    weightAt (transitionOf r).pre (Place.target e) = 0 ∧
    weightAt (transitionOf r).post (Place.target e) = if r.id = e then 1 else 0 := by
  simp only [transitionOf, weightAt_append, weightAt_sideWeights_nonsp _ (Place.target e) (by intro s; simp),
    weightAt]
  constructor
  · simp
  · by_cases h : r.id = e <;> simp [h]

/-- Along a run the target place of edge `e` counts the firings of `e`. -/
theorem runT_target_count (P : Pathway) (hid : (P.edges.map (·.id)).Nodup) (e : Rxn) (he : e ∈ P.edges)
    (seq : List String) (m m' : Tuple) (h : runT (buildNet P) m seq = some m') :
    valT (buildNet P) m' (Place.target e.id) = valT (buildNet P) m (Place.target e.id) + (seq.count e.id : Int) := by
  induction seq generalizing m with
  | nil => simp only [runT, Option.some.injEq] at h; subst h; simp
  | cons tid rest ih =>
    simp only [runT] at h
    split at h
    · simp at h
    · rename_i m1 hs
      obtain ⟨t, ht, htid, _, hval⟩ := stepT_spec _ _ _ _ hs
      rw [buildNet_transitions P hid] at ht
      obtain ⟨r, hr, rfl⟩ := List.mem_map.1 ht
      have hp := (buildNet_places_edge P e he).2
      rw [ih m1 h, hval _ hp, (transitionOf_target r e.id).1, (transitionOf_target r e.id).2]
      have : (transitionOf r).tid = r.id := rfl
      rw [this] at htid; subst htid
      by_cases hre : r.id = e.id
      · simp [hre, List.count_cons]; omega
      · simp [hre, List.count_cons]

end SynKit.Petri

namespace SynKit.Petri

theorem weightAt_nonneg {κ : Type} [DecidableEq κ] (d : List (κ × Int)) (p : κ) (h : ∀ pw ∈ d, 0 ≤ pw.2) :
    0 ≤ weightAt d p := by
  induction d with
  | nil => simp [weightAt]
  | cons qv rest ih =>
    obtain ⟨q, v⟩ := qv
    have h1 := h (q, v) List.mem_cons_self
    have h2 := ih (fun pw hpw => h pw (List.mem_cons_of_mem _ hpw))
    simp only [weightAt]
    split <;> omega

theorem sideWeights_nonneg (d : Dict Nat) : ∀ pw ∈ sideWeights d, 0 ≤ pw.2 := by
  intro pw h
  simp only [sideWeights, List.mem_map] at h
  obtain ⟨kv, _, rfl⟩ := h
  exact Int.natCast_nonneg _

theorem sideWeights_keys_nodup (d : Dict Nat) (h : d.keys.Nodup) : ((sideWeights d).map (·.1)).Nodup := by
  have h1 : (sideWeights d).map (·.1) = ((d.filter fun kv => decide (0 < kv.2)).map (·.1)).map Place.sp := by
    simp [sideWeights, List.map_map, Function.comp_def]
  rw [h1]
  apply List.Nodup.map (fun a b hab => by simpa using hab)
  exact List.Nodup.sublist (List.filter_sublist.map _) h

theorem valT_of_not_mem (net : PNet Place) (m : Tuple) (p : Place) (h : p ∉ net.places) :
    valT net m p = 0 := mget_ofTuple_not_mem _ _ _ h

theorem stepT_nonneg (P : Pathway) (hid : (P.edges.map (·.id)).Nodup)
    (hkeys : ∀ r ∈ P.edges, r.reactants.keys.Nodup) (m m' : Tuple) (tid : String)
    (h : stepT (buildNet P) m tid = some m') (v : String)
    (h0 : 0 ≤ valT (buildNet P) m (Place.sp v)) : 0 ≤ valT (buildNet P) m' (Place.sp v) := by
  by_cases hp : Place.sp v ∈ (buildNet P).places
  · obtain ⟨t, ht, _, hen, hval⟩ := stepT_spec _ _ _ _ h
    rw [buildNet_transitions P hid] at ht
    obtain ⟨r, hr, rfl⟩ := List.mem_map.1 ht
    rw [hval _ hp]
    have hpost : 0 ≤ weightAt (transitionOf r).post (Place.sp v) := by
      apply weightAt_nonneg
      intro pw hpw
      simp only [transitionOf, List.mem_append, List.mem_singleton] at hpw
      rcases hpw with hpw | rfl
      · exact sideWeights_nonneg _ pw hpw
      · simp
    have hpre : weightAt (transitionOf r).pre (Place.sp v) ≤ valT (buildNet P) m (Place.sp v) := by
      simp only [transitionOf, weightAt_append]
      have hz : weightAt [(Place.ext r.id, (1 : Int))] (Place.sp v) = 0 := by simp [weightAt]
      rw [hz, Int.add_zero]
      by_cases hk : Place.sp v ∈ (sideWeights r.reactants).map (·.1)
      · obtain ⟨pw, hpw, hpk⟩ := List.mem_map.1 hk
        obtain ⟨q, w⟩ := pw
        simp only at hpk; subst hpk
        rw [weightAt_of_mem _ (sideWeights_keys_nodup _ (hkeys r hr)) _ w hpw]
        exact hen (Place.sp v, w) (by simp [transitionOf, hpw])
      · rw [weightAt_of_not_mem _ _ hk]; exact h0
    omega
  · rw [valT_of_not_mem _ _ _ hp]; exact Int.le_refl 0

theorem runT_nonneg (P : Pathway) (hid : (P.edges.map (·.id)).Nodup)
    (hkeys : ∀ r ∈ P.edges, r.reactants.keys.Nodup) (seq : List String) (m m' : Tuple)
    (h : runT (buildNet P) m seq = some m') (h0 : ∀ v, 0 ≤ valT (buildNet P) m (Place.sp v)) :
    ∀ v, 0 ≤ valT (buildNet P) m' (Place.sp v) := by
  induction seq generalizing m with
  | nil => simp only [runT, Option.some.injEq] at h; subst h; exact h0
  | cons tid rest ih =>
    simp only [runT] at h
    split at h
    · simp at h
    · rename_i m1 hs
      exact ih m1 h (fun v => stepT_nonneg P hid hkeys m m1 tid hs v (h0 v))

theorem valT_initial_sp (P : Pathway) (v : String) :
    valT (buildNet P) (toTuple (buildNet P).places (initialMarking P)) (Place.sp v) = 0 := by
  by_cases hp : Place.sp v ∈ (buildNet P).places
  · rw [valT_toTuple _ _ _ hp, initialMarking_sp]
  · exact valT_of_not_mem _ _ _ hp

theorem valT_target_sp (P : Pathway) (v : String) :
    valT (buildNet P) (toTuple (buildNet P).places (targetMarking P)) (Place.sp v) = 0 := by
  by_cases hp : Place.sp v ∈ (buildNet P).places
  · rw [valT_toTuple _ _ _ hp, targetMarking_sp]
  · exact valT_of_not_mem _ _ _ hp

/-- What a valid certificate says about counts. -/
theorem validCertificate_counts (P : Pathway) (hid : (P.edges.map (·.id)).Nodup)
    (hkeys : ∀ r ∈ P.edges, r.reactants.keys.Nodup) (seq : List String)
    (h : validCertificate P seq = true) :
    (∀ r ∈ P.edges, (seq.count r.id : Int) = P.flowOf r.id) ∧
    (∀ k m, runT (buildNet P) (toTuple (buildNet P).places (initialMarking P)) (seq.take k) = some m →
        ∀ v, 0 ≤ valT (buildNet P) m (Place.sp v)) ∧
    (∀ v, valT (buildNet P) (toTuple (buildNet P).places (targetMarking P)) (Place.sp v) = 0) := by
  simp only [validCertificate, beq_iff_eq] at h
  refine ⟨?_, ?_, valT_target_sp P⟩
  · intro r hr
    have hc := runT_target_count P hid r hr seq _ _ h
    have hp := (buildNet_places_edge P r hr).2
    rw [valT_toTuple _ _ _ hp, valT_toTuple _ _ _ hp, targetMarking_target P r hr, initialMarking_target] at hc
    omega
  · intro k m hk
    exact runT_nonneg P hid hkeys _ _ _ hk (fun v => by rw [valT_initial_sp]; exact Int.le_refl 0)

end SynKit.Petri

namespace SynKit.Petri

/-! ## partial completeness of the BFS: an exhausted search that touched no bound is conclusive -/

/-- The successor of `m` by transition `t`, as the BFS computes it. -/
def succT (net : PNet Place) (m : Tuple) (t : Transition Place) : Tuple :=
  toTuple net.places (fire t (ofTuple net.places m))

/-- `m` has been expanded: every enabled transition leads to a visited marking that is not the target. -/
def Expanded (net : PNet Place) (target : Tuple) (vis : List Tuple) (m : Tuple) : Prop :=
  ∀ t ∈ net.transitions, enabled t (ofTuple net.places m) = true →
    succT net m t ≠ target ∧ succT net m t ∈ vis

/-- Every visited marking is still queued or has been expanded. -/
def BInv (net : PNet Place) (target : Tuple) (q : Queue) (vis : List Tuple) : Prop :=
  ∀ x ∈ vis, x ∈ q.map (·.1) ∨ Expanded net target vis x

theorem Expanded.mono {net : PNet Place} {target : Tuple} {vis vis' : List Tuple} {m : Tuple}
    (h : ∀ x ∈ vis, x ∈ vis') (he : Expanded net target vis m) : Expanded net target vis' m :=
  fun t ht hen => ⟨(he t ht hen).1, h _ (he t ht hen).2⟩

theorem expand_cont (net : PNet Place) (target m : Tuple) (seq : List String)
    (ts : List (Transition Place)) (q : Queue) (vis : List Tuple) (q' : Queue) (vis' : List Tuple)
    (h : expand net.places target (ofTuple net.places m) seq ts q vis = .cont q' vis') :
    (∀ x ∈ vis, x ∈ vis') ∧ (∀ e ∈ q, e ∈ q') ∧ (∀ x ∈ vis', x ∈ vis ∨ x ∈ q'.map (·.1)) ∧
    (∀ t ∈ ts, enabled t (ofTuple net.places m) = true → succT net m t ≠ target ∧ succT net m t ∈ vis') := by
  induction ts generalizing q vis with
  | nil =>
    simp only [expand, Expand.cont.injEq] at h
    obtain ⟨rfl, rfl⟩ := h
    exact ⟨fun x hx => hx, fun e he => he, fun x hx => Or.inl hx, by simp⟩
  | cons t rest ih =>
    simp only [expand] at h
    by_cases hen : enabled t (ofTuple net.places m) = true
    · simp only [hen, if_true] at h
      by_cases heq : toTuple net.places (fire t (ofTuple net.places m)) = target
      · simp [heq] at h
      · simp only [heq, if_false] at h
        by_cases hv : vis.contains (toTuple net.places (fire t (ofTuple net.places m))) = true
        · simp only [hv, if_true] at h
          obtain ⟨i1, i2, i3, i4⟩ := ih q vis h
          refine ⟨i1, i2, i3, ?_⟩
          intro t' ht' hen'
          rcases List.mem_cons.1 ht' with rfl | ht'
          · exact ⟨heq, i1 _ (by have hv' := hv; simp only [List.contains_iff_mem] at hv'; exact hv')⟩
          · exact i4 t' ht' hen'
        · simp only [hv] at h
          obtain ⟨i1, i2, i3, i4⟩ := ih _ _ h
          refine ⟨fun x hx => i1 x (List.mem_append_left _ hx), fun e he => i2 e (List.mem_append_left _ he), ?_, ?_⟩
          · intro x hx
            rcases i3 x hx with hx' | hx'
            · rcases List.mem_append.1 hx' with hx' | hx'
              · exact Or.inl hx'
              · simp only [List.mem_singleton] at hx'
                right
                exact List.mem_map.2 ⟨_, i2 _ (List.mem_append_right _ (List.mem_singleton.2 rfl)), hx'.symm⟩
            · exact Or.inr hx'
          · intro t' ht' hen'
            rcases List.mem_cons.1 ht' with rfl | ht'
            · exact ⟨heq, i1 _ (List.mem_append_right _ (List.mem_singleton.2 rfl))⟩
            · exact i4 t' ht' hen'
    · simp only [hen] at h
      obtain ⟨i1, i2, i3, i4⟩ := ih q vis h
      refine ⟨i1, i2, i3, ?_⟩
      intro t' ht' hen'
      rcases List.mem_cons.1 ht' with rfl | ht'
      · exact absurd hen' hen
      · exact i4 t' ht' hen'

/-- Once an entry has been skipped for depth the flag stays set. -/
theorem bfs_skipped_sticky (net : PNet Place) (target : Tuple) (maxStates maxDepth fuel : Nat) (q : Queue)
    (vis : List Tuple) (states : Nat) (a : Bool) :
    bfs net target maxStates maxDepth fuel q vis states true ≠ .notFound a false := by
  induction fuel generalizing q vis states with
  | zero => simp [bfs]
  | succ fuel ih =>
    cases q with
    | nil => simp [bfs]
    | cons e rest =>
      obtain ⟨m, seq⟩ := e
      simp only [bfs]
      split
      · simp
      · split
        · exact ih _ _ _
        · split
          · simp
          · exact ih _ _ _

theorem bfs_exhausted (net : PNet Place) (target : Tuple) (maxStates maxDepth fuel : Nat) (q : Queue)
    (vis : List Tuple) (states : Nat) (sk : Bool) (hinv : BInv net target q vis)
    (h : bfs net target maxStates maxDepth fuel q vis states sk = .notFound false false) :
    ∃ V : List Tuple, (∀ x ∈ vis, x ∈ V) ∧ ∀ x ∈ V, Expanded net target V x := by
  induction fuel generalizing q vis states sk with
  | zero => simp [bfs] at h
  | succ fuel ih =>
    cases q with
    | nil =>
      refine ⟨vis, fun x hx => hx, fun x hx => ?_⟩
      rcases hinv x hx with h' | h'
      · simp at h'
      · exact h'
    | cons e rest =>
      obtain ⟨m, seq⟩ := e
      simp only [bfs] at h
      split at h
      · simp at h
      · split at h
        · exact absurd h (bfs_skipped_sticky _ _ _ _ _ _ _ _ _)
        · split at h
          · simp at h
          · rename_i q' vis' heq
            obtain ⟨i1, i2, i3, i4⟩ := expand_cont net target m seq net.transitions rest vis q' vis' heq
            have hinv' : BInv net target q' vis' := by
              intro x hx
              rcases i3 x hx with hx' | hx'
              · rcases hinv x hx' with hq | he
                · simp only [List.map_cons, List.mem_cons] at hq
                  rcases hq with rfl | hq
                  · exact Or.inr (fun t ht hen => i4 t ht hen)
                  · obtain ⟨e, he, rfl⟩ := List.mem_map.1 hq
                    exact Or.inl (List.mem_map.2 ⟨e, i2 e he, rfl⟩)
                · exact Or.inr (he.mono i1)
              · exact Or.inl hx'
            obtain ⟨V, hV1, hV2⟩ := ih q' vis' _ _ hinv' h
            exact ⟨V, fun x hx => hV1 x (i1 x hx), hV2⟩

theorem closed_unreachable (net : PNet Place) (target : Tuple) (V : List Tuple)
    (hV : ∀ x ∈ V, Expanded net target V x) (seq : List String) (s m : Tuple) (hs : s ∈ V)
    (h : runT net s seq = some m) : m ∈ V ∧ (seq ≠ [] → m ≠ target) := by
  induction seq generalizing s with
  | nil => simp only [runT, Option.some.injEq] at h; subst h; exact ⟨hs, fun h => absurd rfl h⟩
  | cons tid rest ih =>
    simp only [runT] at h
    split at h
    · simp at h
    · rename_i s1 hstep
      unfold stepT at hstep
      split at hstep
      · simp at hstep
      · rename_i t hf
        obtain ⟨ht, _⟩ := find?_some net tid t hf
        split at hstep
        · rename_i hen
          simp only [Option.some.injEq] at hstep; subst hstep
          obtain ⟨h1, h2⟩ := hV s hs t ht hen
          obtain ⟨j1, j2⟩ := ih _ h2 h
          refine ⟨j1, fun _ => ?_⟩
          by_cases hr : rest = []
          · subst hr; simp only [runT, Option.some.injEq] at h; subst h; exact h1
          · exact j2 hr
        · simp at hstep

/-! `M0 ≠ MT` as tuples when the quick test fails -/

theorem keys_mset {κ : Type} [DecidableEq κ] (m : Marking κ) (p q : κ) (v : Int)
    (h : q ∈ (mset m p v).map (·.1)) : q ∈ m.map (·.1) ∨ q = p := by
  induction m with
  | nil => simp [mset] at h; exact Or.inr h
  | cons rw rest ih =>
    obtain ⟨r, w⟩ := rw
    simp only [mset] at h
    by_cases hrp : r = p
    · simp only [hrp, if_true, List.map_cons, List.mem_cons] at h
      rcases h with h | h
      · exact Or.inr h
      · exact Or.inl (by simp [h])
    · simp only [hrp, if_false, List.map_cons, List.mem_cons] at h
      rcases h with h | h
      · exact Or.inl (by simp [h])
      · rcases ih h with h' | h'
        · exact Or.inl (by simp [h'])
        · exact Or.inr h'

theorem keys_foldl_mset {α : Type} (xs : List α) (key : α → Place) (val : α → Int) (m : Marking Place)
    (q : Place) (h : q ∈ (xs.foldl (fun m x => mset m (key x) (val x)) m).map (·.1)) :
    q ∈ m.map (·.1) ∨ ∃ x ∈ xs, key x = q := by
  induction xs generalizing m with
  | nil => exact Or.inl h
  | cons x rest ih =>
    rcases ih _ h with h' | ⟨y, hy, hk⟩
    · rcases keys_mset _ _ _ _ h' with h'' | h''
      · exact Or.inl h''
      · exact Or.inr ⟨x, List.mem_cons_self, h''.symm⟩
    · exact Or.inr ⟨y, List.mem_cons_of_mem _ hy, hk⟩

theorem buildNet_places_vertex (P : Pathway) (v : String) (hv : v ∈ P.vertices) :
    Place.sp v ∈ (buildNet P).places := by
  rw [buildNet_eq]
  apply foldl_buildStep_places_mono
  have : ∀ (vs : List String) (n : PNet Place), (Place.sp v ∈ n.places ∨ v ∈ vs) →
      Place.sp v ∈ (vs.foldl (fun n v => n.addPlace (Place.sp v)) n).places := by
    intro vs
    induction vs with
    | nil => intro n h; rcases h with h | h; exact h; simp at h
    | cons w rest ih =>
      intro n h
      rw [List.foldl_cons]; apply ih
      rcases h with h | h
      · exact Or.inl ((mem_addPlace _ _ _).2 (Or.inl h))
      · rcases List.mem_cons.1 h with rfl | h
        · exact Or.inl ((mem_addPlace _ _ _).2 (Or.inr rfl))
        · exact Or.inr h
  exact this _ _ (Or.inr hv)

theorem marking_keys_places (P : Pathway) (q : Place)
    (h : q ∈ (targetMarking P).map (·.1) ∨ q ∈ (initialMarking P).map (·.1)) : q ∈ (buildNet P).places := by
  have base : ∀ q, q ∈ (P.vertices.foldl (fun m v => mset m (Place.sp v) 0) ([] : Marking Place)).map (·.1) →
      q ∈ (buildNet P).places := by
    intro q hq
    rcases keys_foldl_mset P.vertices (fun v => Place.sp v) (fun _ => 0) [] q hq with h' | ⟨v, hv, rfl⟩
    · simp at h'
    · exact buildNet_places_vertex P v hv
  rcases h with h | h
  · unfold targetMarking at h
    rcases keys_foldl_mset P.edges (fun r => Place.target r.id) (fun r => P.flowOf r.id) _ q h with h' | ⟨r, hr, rfl⟩
    · exact base q h'
    · exact (buildNet_places_edge P r hr).2
  · unfold initialMarking at h
    rcases keys_foldl_mset P.edges (fun r => Place.ext r.id) (fun r => P.flowOf r.id) _ q h with h' | ⟨r, hr, rfl⟩
    · exact base q h'
    · exact (buildNet_places_edge P r hr).1

theorem tuples_ne_of_not_quickEqual (P : Pathway) (h : quickEqual (initialMarking P) (targetMarking P) = false) :
    toTuple (buildNet P).places (initialMarking P) ≠ toTuple (buildNet P).places (targetMarking P) := by
  intro heq
  have hne : ¬ quickEqual (initialMarking P) (targetMarking P) = true := by simp [h]
  apply hne
  simp only [quickEqual, List.all_eq_true, List.mem_append, beq_iff_eq]
  intro p hp
  have hpl := marking_keys_places P p hp
  unfold toTuple at heq
  exact (List.map_inj_left.1 heq) p hpl

/-- **Partial completeness.** If `is_realizable` answers "not found" and neither bound was touched
(no `states > max_states` break, no entry skipped for `len(seq) > max_depth`), then NO firing
sequence of the extended net leads from `M0` to `MT`. -/
theorem isRealizable_exhausted (P : Pathway) (maxStates maxDepth : Nat)
    (h : isRealizable P maxStates maxDepth = .notFound false false) (seq : List String) :
    validCertificate P seq = false := by
  unfold isRealizable at h
  split at h
  · simp at h
  · simp only at h
    split at h
    · simp at h
    · rename_i hq
      have hq' : quickEqual (initialMarking P) (targetMarking P) = false := by simpa using hq
      have hne := tuples_ne_of_not_quickEqual P hq'
      have hinv : BInv (buildNet P) (toTuple (buildNet P).places (targetMarking P))
          [(toTuple (buildNet P).places (initialMarking P), [])] [toTuple (buildNet P).places (initialMarking P)] := by
        intro x hx; left; simpa using hx
      obtain ⟨V, hV1, hV2⟩ := bfs_exhausted _ _ _ _ _ _ _ _ _ hinv h
      have hs : toTuple (buildNet P).places (initialMarking P) ∈ V := hV1 _ (by simp)
      unfold validCertificate
      simp only [beq_eq_false_iff_ne, ne_eq]
      intro hrun
      obtain ⟨_, h2⟩ := closed_unreachable _ _ V hV2 seq _ _ hs hrun
      by_cases hnil : seq = []
      · subst hnil
        simp only [runT, Option.some.injEq] at hrun
        exact hne hrun
      · exact h2 hnil rfl

end SynKit.Petri

import Mathlib.Data.List.Perm.Subperm
import Mathlib.Data.List.Nodup
import SynKitModel.Automorphism
import SynKitProofs.Match
/-! Helper lemmas for C11 (automorphism analysis, WL estimate, de-duplication). -/
namespace SynKit.Aut
open SynKit SynKit.Match

/-! ## list-as-set helpers -/

theorem mem_insertSorted (a x : Nat) (l : List Nat) : x ∈ insertSorted a l ↔ x = a ∨ x ∈ l := by
  induction l with
  | nil => simp [insertSorted]
  | cons y ys ih =>
    simp only [insertSorted]
    split
    · simp
    · split
      · rename_i h1 h2; subst h2; simp
      · simp only [List.mem_cons, ih]
        constructor
        · rintro (h | h | h) <;> simp [h]
        · rintro (h | h | h) <;> simp [h]

theorem mem_sortDedup (x : Nat) (l : List Nat) : x ∈ sortDedup l ↔ x ∈ l := by
  induction l with
  | nil => simp [sortDedup]
  | cons y ys ih =>
    have : sortDedup (y :: ys) = insertSorted y (sortDedup ys) := rfl
    rw [this, mem_insertSorted, ih]; simp

theorem mem_dedupR {α : Type} [DecidableEq α] (l : List α) : ∀ x : α, x ∈ dedupR l ↔ x ∈ l := by
  induction l with
  | nil => simp [dedupR]
  | cons y ys ih =>
    intro x
    simp only [dedupR]
    split
    · rename_i h
      rw [ih] at h
      rw [ih]
      constructor
      · exact fun hx => List.mem_cons_of_mem _ hx
      · intro hx
        rcases List.mem_cons.1 hx with rfl | hx
        · exact h
        · exact hx
    · simp [ih]

theorem mem_addAll (acc xs : List Nat) (x : Nat) : x ∈ addAll acc xs ↔ x ∈ acc ∨ x ∈ xs := by
  unfold addAll
  induction xs generalizing acc with
  | nil => simp
  | cons y ys ih =>
    simp only [List.foldl_cons, List.mem_cons]
    rw [ih]
    by_cases h : y ∈ acc
    · simp only [h, if_true]
      constructor
      · rintro (h1 | h1)
        · exact Or.inl h1
        · exact Or.inr (Or.inr h1)
      · rintro (h1 | rfl | h1)
        · exact Or.inl h1
        · exact Or.inl h
        · exact Or.inr h1
    · simp only [h, if_false, List.mem_append, List.mem_singleton]
      constructor
      · rintro ((h1 | h1) | h1)
        · exact Or.inl h1
        · exact Or.inr (Or.inl h1)
        · exact Or.inr (Or.inr h1)
      · rintro (h1 | h1 | h1)
        · exact Or.inl (Or.inl h1)
        · exact Or.inl (Or.inr h1)
        · exact Or.inr h1

/-! ## de-duplication -/

theorem dedupLoop_sublist (sig : Mapping → Except Err Sig) (ms : List Mapping) :
    ∀ (seen : List Sig) (r : List Mapping), dedupLoop sig ms seen = .ok r → List.Sublist r ms := by
  induction ms with
  | nil => intro seen r h; simp [dedupLoop] at h; subst h; exact List.Sublist.slnil
  | cons m ms ih =>
    intro seen r h
    simp only [dedupLoop] at h
    split at h
    · cases h
    · rename_i s hs
      split at h
      · exact (ih _ _ h).cons _
      · split at h
        · cases h
        · rename_i r' hr'
          cases h
          exact (ih _ _ hr').cons_cons _

/-- every kept match has a signature, the signature is new w.r.t. `seen`, and kept matches have
pairwise different signatures -/
theorem dedupLoop_nodup (sig : Mapping → Except Err Sig) (ms : List Mapping) :
    ∀ (seen : List Sig) (r : List Mapping), dedupLoop sig ms seen = .ok r →
      (∀ m ∈ r, ∃ s, sig m = .ok s ∧ s ∉ seen) ∧ r.Pairwise (fun a b => sig a ≠ sig b) := by
  induction ms with
  | nil => intro seen r h; simp [dedupLoop] at h; subst h; simp
  | cons m ms ih =>
    intro seen r h
    simp only [dedupLoop] at h
    split at h
    · cases h
    · rename_i s hs
      split at h
      · exact ih _ _ h
      · rename_i hnot
        split at h
        · cases h
        · rename_i r' hr'
          cases h
          obtain ⟨h1, h2⟩ := ih _ _ hr'
          refine ⟨?_, ?_⟩
          · intro x hx
            rcases List.mem_cons.1 hx with rfl | hx
            · exact ⟨s, hs, hnot⟩
            · obtain ⟨t, ht, htn⟩ := h1 x hx
              exact ⟨t, ht, fun hh => htn (List.mem_cons_of_mem _ hh)⟩
          · refine List.Pairwise.cons ?_ h2
            intro x hx hEq
            obtain ⟨t, ht, htn⟩ := h1 x hx
            rw [hs] at hEq
            rw [← hEq] at ht
            cases ht
            exact htn (List.mem_cons_self ..)

/-- no signature class is lost: every input match has its signature either in `seen` or on a kept
match -/
theorem dedupLoop_complete (sig : Mapping → Except Err Sig) (ms : List Mapping) :
    ∀ (seen : List Sig) (r : List Mapping), dedupLoop sig ms seen = .ok r →
      ∀ m ∈ ms, ∃ s, sig m = .ok s ∧ (s ∈ seen ∨ ∃ m' ∈ r, sig m' = .ok s) := by
  induction ms with
  | nil => intro seen r _ m hm; cases hm
  | cons m0 ms ih =>
    intro seen r h m hm
    simp only [dedupLoop] at h
    split at h
    · cases h
    · rename_i s hs
      split at h
      · rename_i hin
        rcases List.mem_cons.1 hm with rfl | hm
        · exact ⟨s, hs, Or.inl hin⟩
        · exact ih _ _ h m hm
      · split at h
        · cases h
        · rename_i r' hr'
          cases h
          rcases List.mem_cons.1 hm with rfl | hm
          · exact ⟨s, hs, Or.inr ⟨m, List.mem_cons_self .., hs⟩⟩
          · obtain ⟨t, ht, hcase⟩ := ih _ _ hr' m hm
            refine ⟨t, ht, ?_⟩
            rcases hcase with hc | ⟨m', hm', hs'⟩
            · rcases List.mem_cons.1 hc with rfl | hc
              · exact Or.inr ⟨m0, List.mem_cons_self .., hs⟩
              · exact Or.inl hc
            · exact Or.inr ⟨m', List.mem_cons_of_mem _ hm', hs'⟩

end SynKit.Aut

import SynKitModel.NautyIR
import SynKitProofs.NautyIRWf
import SynKitProofs.NautyIRSearch
/-!
# Adequacy of the fuel of the individualisation–refinement model (C08)

The model recurses on fuel where the code has a `while changed` loop (`_refine`) and an unbounded
recursion (`_search`).  With the fuel the model uses, neither runs out: the refinement loop ends in
a partition that a further pass leaves unchanged, and the search tree is the same for every larger
depth bound.
-/
set_option linter.unusedSimpArgs false
set_option linter.unusedVariables false
namespace SynKit.Canon
open SynKit

/-! ## One pass -/

/-- a cell that contributes exactly one cell contributes itself -/
theorem irRefineCell_eq_singleton_of_length (G : LGraph) (P : List (List Nat)) (c : List Nat)
    (h : (irRefineCell G P c).length = 1) : irRefineCell G P c = [c] := by
  unfold irRefineCell at h ⊢
  split
  · rfl
  · rename_i h1
    simp only [h1, if_false] at h ⊢
    split
    · rename_i h2
      simp only [h2, if_true] at h
      omega
    · rfl

theorem flatMap_irRefineCell_eq_self_of_length (G : LGraph) (Q : List (List Nat)) (l : List (List Nat))
    (h : (l.flatMap (irRefineCell G Q)).length = l.length) : l.flatMap (irRefineCell G Q) = l := by
  induction l with
  | nil => rfl
  | cons c l ih =>
    simp only [List.flatMap_cons, List.length_append, List.length_cons] at h ⊢
    have h1 := irRefineCell_length_pos G Q c
    have h2 := length_le_flatMap (irRefineCell G Q) l fun d _ => irRefineCell_length_pos G Q d
    have e1 : (irRefineCell G Q c).length = 1 := by omega
    have e2 : (l.flatMap (irRefineCell G Q)).length = l.length := by omega
    rw [irRefineCell_eq_singleton_of_length G Q c e1, ih e2]
    rfl

/-- a pass that does not increase the number of cells changes nothing -/
theorem irRefineStep_eq_self_of_length (G : LGraph) (P : List (List Nat)) (h : (irRefineStep G P).length = P.length) :
    irRefineStep G P = P :=
  flatMap_irRefineCell_eq_self_of_length G P P h

/-! ## The refinement loop -/

theorem irRefineLoop_succ (G : LGraph) (k : Nat) (P : List (List Nat)) :
    irRefineLoop G (k + 1) P =
      if (irRefineStep G P).length = P.length then irRefineStep G P
      else irRefineLoop G k (irRefineStep G P) := rfl

/-- with enough fuel the loop ends in a partition that a further pass leaves unchanged -/
theorem irRefineLoop_stable (G : LGraph) {ids : List Nat} (k : Nat) (P : List (List Nat)) (hok : IRPartOK ids P)
    (hk : ids.length < k + P.length) : irRefineStep G (irRefineLoop G k P) = irRefineLoop G k P := by
  induction k generalizing P with
  | zero =>
    have := hok.length_le
    omega
  | succ k ih =>
    rw [irRefineLoop_succ]
    split
    · rename_i h
      have e := irRefineStep_eq_self_of_length G P h
      rw [e]
      exact e
    · rename_i h
      have hle := irRefineStep_length_le G P
      exact ih _ (irRefineStep_ok G ids P hok) (by omega)

theorem LGraph_ids_length (G : LGraph) : G.ids.length = G.nodes.length := by
  unfold LGraph.ids
  simp

/-- `_refine` returns a stable partition (the `while changed` loop has terminated), for partitions of the node list -/
theorem irRefine_stable (G : LGraph) (P : List (List Nat)) (hok : IRPartOK G.ids P) :
    irRefineStep G (irRefine G P) = irRefine G P := by
  unfold irRefine
  apply irRefineLoop_stable G _ P hok
  have := LGraph_ids_length G
  omega

/-- more fuel does not change the loop once it has enough -/
theorem irRefineLoop_fuel_succ (G : LGraph) {ids : List Nat} (k : Nat) (P : List (List Nat)) (hok : IRPartOK ids P)
    (hk : ids.length < k + P.length) : irRefineLoop G (k + 1) P = irRefineLoop G k P := by
  induction k generalizing P with
  | zero =>
    have := hok.length_le
    omega
  | succ k ih =>
    rw [irRefineLoop_succ G (k + 1) P, irRefineLoop_succ G k P]
    split
    · rfl
    · rename_i h
      have hle := irRefineStep_length_le G P
      exact ih _ (irRefineStep_ok G ids P hok) (by omega)

theorem irRefineLoop_fuel_add (G : LGraph) {ids : List Nat} (k : Nat) (P : List (List Nat)) (hok : IRPartOK ids P)
    (hk : ids.length < k + P.length) (d : Nat) : irRefineLoop G (k + d) P = irRefineLoop G k P := by
  induction d with
  | zero => rfl
  | succ d ih =>
    rw [← Nat.add_assoc, irRefineLoop_fuel_succ G (k + d) P hok (by omega), ih]

/-- a stable partition is a fixed point of the loop for every fuel -/
theorem irRefineLoop_of_stable (G : LGraph) (k : Nat) (P : List (List Nat)) (h : irRefineStep G P = P) :
    irRefineLoop G k P = P := by
  cases k with
  | zero => rfl
  | succ k => rw [irRefineLoop_succ, h]; simp

/-- `_refine` is idempotent on partitions of the node list -/
theorem irRefine_idem (G : LGraph) (P : List (List Nat)) (hok : IRPartOK G.ids P) :
    irRefine G (irRefine G P) = irRefine G P :=
  irRefineLoop_of_stable G _ _ (irRefine_stable G P hok)

/-! ## The search tree -/

theorem irLeaves_succ (G : LGraph) (fuel : Nat) (P : List (List Nat)) (pfx : List Nat) :
    irLeaves G (fuel + 1) P pfx =
      if irIsDiscrete (irRefine G P) then [(pfx, (irRefine G P).flatten)]
      else
        match irTargetCell (irRefine G P) with
        | none => []
        | some (pre, c, post) =>
          (irChildren G c).flatMap fun v => irLeaves G fuel (irIndividualise pre c post v) (pfx ++ [v]) := rfl

/-- the search tree is complete: with `ids.length < fuel + P.length` no branch runs out of fuel, one more unit of fuel gives the same leaves -/
theorem irLeaves_fuel_succ (G : LGraph) {ids : List Nat} (hn : ids.Nodup) (fuel : Nat) (P : List (List Nat)) (pfx : List Nat)
    (hok : IRPartOK ids P) (hf : ids.length < fuel + P.length) :
    irLeaves G (fuel + 1) P pfx = irLeaves G fuel P pfx := by
  induction fuel generalizing P pfx with
  | zero =>
    have := hok.length_le
    omega
  | succ fuel ih =>
    have hr := irRefine_ok G ids P hok
    have hlen := irRefine_length_le G P
    rw [irLeaves_succ G (fuel + 1) P pfx, irLeaves_succ G fuel P pfx]
    split
    · rfl
    · cases ht : irTargetCell (irRefine G P) with
      | none => rfl
      | some t =>
        obtain ⟨pre, c, post⟩ := t
        obtain ⟨hP, hc⟩ := irTargetCell_some ht
        rw [hP] at hr
        simp only
        apply List.flatMap_congr
        intro v hv
        have hv' : v ∈ c := by
          unfold irChildren at hv
          exact (mem_sortBy _ _ _).1 hv
        obtain ⟨hok', hlen'⟩ := irIndividualise_ok hn hr hv' hc
        exact ih _ _ hok' (by rw [hlen', ← hP]; omega)

theorem irLeaves_fuel_add (G : LGraph) {ids : List Nat} (hn : ids.Nodup) (fuel : Nat) (P : List (List Nat)) (pfx : List Nat)
    (hok : IRPartOK ids P) (hf : ids.length < fuel + P.length) (d : Nat) :
    irLeaves G (fuel + d) P pfx = irLeaves G fuel P pfx := by
  induction d with
  | zero => rfl
  | succ d ih =>
    rw [← Nat.add_assoc, irLeaves_fuel_succ G hn (fuel + d) P pfx hok (by omega), ih]

/-- at the root: any larger depth bound gives the same search tree -/
theorem irLeaves_root_fuel (G : LGraph) (hn : G.ids.Nodup) (d : Nat) :
    irLeaves G (G.nodes.length + 1 + d) (irInitialPartition G) [] = irLeaves G (G.nodes.length + 1) (irInitialPartition G) [] := by
  apply irLeaves_fuel_add G hn _ _ _ (irInitialPartition_ok G)
  have := LGraph_ids_length G
  omega

/-! ## The search itself -/

/-- without pruning the search does not depend on the depth bound once it is large enough -/
theorem irSearch_noprune_fuel_add (lt : IRLabel → IRLabel → Bool) (pgt : List (List Val) → IRLabel → Bool)
    (G : LGraph) {ids : List Nat} (hn : ids.Nodup) (fuel : Nat) (P : List (List Nat)) (pfx : List Nat) (best : IRBest)
    (hok : IRPartOK ids P) (hf : ids.length < fuel + P.length) (d : Nat) :
    irSearch lt pgt false G (fuel + d) P pfx best = irSearch lt pgt false G fuel P pfx best := by
  rw [irSearch_noprune_eq_fold, irSearch_noprune_eq_fold, irLeaves_fuel_add G hn fuel P pfx hok hf d]

/-- the search as the code runs it (with or without pruning) does not depend on the depth bound once
it is large enough, for every strict total label order and every sound pruning test -/
theorem irSearch_fuel_add (lt : IRLabel → IRLabel → Bool) (pgt : List (List Val) → IRLabel → Bool)
    (hlt : StrictTotal lt) (hp : IRPruneSound lt pgt) (prune : Bool)
    (G : LGraph) {ids : List Nat} (hn : ids.Nodup) (fuel : Nat) (P : List (List Nat)) (pfx : List Nat) (best : IRBest)
    (hok : IRPartOK ids P) (hf : ids.length < fuel + P.length) (d : Nat) :
    irSearch lt pgt prune G (fuel + d) P pfx best = irSearch lt pgt prune G fuel P pfx best := by
  cases prune with
  | false => exact irSearch_noprune_fuel_add lt pgt G hn fuel P pfx best hok hf d
  | true =>
    rw [irSearch_prune_eq_noprune lt pgt hlt hp, irSearch_prune_eq_noprune lt pgt hlt hp]
    exact irSearch_noprune_fuel_add lt pgt G hn fuel P pfx best hok hf d

/-- at the root: `canonical_form` with any larger depth bound returns the same `best` -/
theorem irCanonWith_fuel (lt : IRLabel → IRLabel → Bool) (pgt : List (List Val) → IRLabel → Bool)
    (hlt : StrictTotal lt) (hp : IRPruneSound lt pgt) (prune : Bool) (G : LGraph) (hn : G.ids.Nodup) (d : Nat) :
    irSearch lt pgt prune G (G.nodes.length + 1 + d) (irInitialPartition G) [] none = irCanonWith lt pgt prune G := by
  unfold irCanonWith
  apply irSearch_fuel_add lt pgt hlt hp prune G hn _ _ _ _ (irInitialPartition_ok G)
  have := LGraph_ids_length G
  omega

end SynKit.Canon

import SynKitModel.BipGraph
import SynKitProofs.StoichLemmas
/-!
# The graph entry path agrees with the network-level model (C17; used by C19 / C20)

Helper lemmas and the main theorems about `SynKitModel/BipGraph.lean`; the property-level
statements are restated in `Props/C17.lean`.
-/
open SynKit SynKit.Store SynKit.Stoich

namespace SynKit.BipGraph

/-! ## 1. `strLt` is a strict total order (Python's `str.__lt__`) -/

theorem codesLt_irrefl (a : List Nat) : codesLt a a = false := by
  induction a with
  | nil => rfl
  | cons x xs ih => simp [codesLt, ih]

theorem codesLt_trans : ∀ (a b c : List Nat), codesLt a b = true → codesLt b c = true → codesLt a c = true
  | _, [], _, h, _ => by cases ‹List Nat› <;> simp [codesLt] at h
  | _, _ :: _, [], _, h => by simp [codesLt] at h
  | [], _ :: _, _ :: _, _, _ => by simp [codesLt]
  | x :: xs, y :: ys, z :: zs, h1, h2 => by
    simp only [codesLt] at h1 h2 ⊢
    by_cases hxy : x < y
    · by_cases hyz : y < z
      · have : x < z := by omega
        simp [this]
      · by_cases hzy : z < y
        · simp [hyz, hzy] at h2
        · have : y = z := by omega
          subst this; simp [hxy]
    · by_cases hyx : y < x
      · simp [hxy, hyx] at h1
      · have : x = y := by omega
        subst this
        simp only [hxy, if_false] at h1
        by_cases hxz : x < z
        · simp [hxz]
        · by_cases hzx : z < x
          · simp [hxz, hzx] at h2
          · simp only [hxz, hzx, if_false] at h2 ⊢
            exact codesLt_trans xs ys zs h1 h2

theorem codesLt_tri : ∀ (a b : List Nat), codesLt a b = false → codesLt b a = false → a = b
  | [], [], _, _ => rfl
  | [], _ :: _, h, _ => by simp [codesLt] at h
  | _ :: _, [], _, h => by simp [codesLt] at h
  | x :: xs, y :: ys, h1, h2 => by
    simp only [codesLt] at h1 h2
    by_cases hxy : x < y
    · simp [hxy] at h1
    · by_cases hyx : y < x
      · simp [hyx] at h2
      · have : x = y := by omega
        subst this
        simp only [hxy, if_false] at h1 h2
        rw [codesLt_tri xs ys h1 h2]

def codes (s : String) : List Nat := s.toList.map Char.toNat

theorem codes_inj {a b : String} (h : codes a = codes b) : a = b := by
  apply String.toList_injective
  exact List.map_injective_iff.2 (fun c d h => Char.toNat_inj.1 h) h

theorem strLt_irrefl (a : String) : strLt a a = false := codesLt_irrefl _

theorem strLt_trans (a b c : String) (h1 : strLt a b = true) (h2 : strLt b c = true) : strLt a c = true :=
  codesLt_trans _ _ _ h1 h2

theorem strLt_tri (a b : String) (h1 : strLt a b = false) (h2 : strLt b a = false) : a = b :=
  codes_inj (codesLt_tri _ _ h1 h2)

/-- `a ≤ b` in Python's string order. -/
def strLe (a b : String) : Prop := strLt b a = false

theorem strLe_trans {a b c : String} (h1 : strLe a b) (h2 : strLe b c) : strLe a c := by
  unfold strLe at *
  cases hca : strLt c a with
  | false => rfl
  | true =>
    exfalso
    cases hcb : strLt c b with
    | true => rw [hcb] at h2; cases h2
    | false =>
      have : b = c := strLt_tri b c (by
        cases hbc : strLt b c with
        | false => rfl
        | true => rw [strLt_trans b c a hbc hca] at h1; cases h1) hcb
      subst this; rw [hca] at h1; cases h1

theorem strLe_of_lt {a b : String} (h : strLt a b = true) : strLe a b := by
  unfold strLe
  cases hba : strLt b a with
  | false => rfl
  | true => have := strLt_trans a b a h hba; rw [strLt_irrefl] at this; cases this

/-! ## 2. `sortBy` -/

theorem insertBy_map {α β : Type} (f : α → β) (key : β → String) (x : α) (l : List α) :
    insertBy key (f x) (l.map f) = (insertBy (fun a => key (f a)) x l).map f := by
  induction l with
  | nil => rfl
  | cons y ys ih =>
    simp only [List.map_cons, insertBy]
    split
    · rw [ih]; rfl
    · rfl

theorem sortBy_map {α β : Type} (f : α → β) (key : β → String) (l : List α) :
    sortBy key (l.map f) = (sortBy (fun a => key (f a)) l).map f := by
  induction l with
  | nil => rfl
  | cons x xs ih => simp only [List.map_cons, sortBy]; rw [ih, insertBy_map]

def KeyLe {α : Type} (key : α → String) (a b : α) : Prop := strLe (key a) (key b)

theorem insertBy_sorted {α : Type} (key : α → String) (x : α) (l : List α)
    (h : l.Pairwise (KeyLe key)) : (insertBy key x l).Pairwise (KeyLe key) := by
  induction l with
  | nil => simp [insertBy]
  | cons y ys ih =>
    rw [List.pairwise_cons] at h
    simp only [insertBy]
    cases hlt : strLt (key y) (key x) with
    | true =>
      simp only [if_true]
      rw [List.pairwise_cons]
      refine ⟨fun z hz => ?_, ih h.2⟩
      rcases List.mem_cons.1 ((insertBy_perm key x ys).mem_iff.1 hz) with rfl | hz
      · exact strLe_of_lt hlt
      · exact h.1 z hz
    | false =>
      simp only [Bool.false_eq_true, if_false]
      rw [List.pairwise_cons, List.pairwise_cons]
      refine ⟨fun z hz => ?_, h⟩
      rcases List.mem_cons.1 hz with rfl | hz
      · exact hlt
      · exact strLe_trans (a := key x) (b := key y) hlt (h.1 z hz)

theorem sortBy_sorted {α : Type} (key : α → String) (l : List α) :
    (sortBy key l).Pairwise (KeyLe key) := by
  induction l with
  | nil => simp [sortBy]
  | cons x xs ih => exact insertBy_sorted key x _ ih

/-- With pairwise distinct keys the result of the sort does not depend on the input order. -/
theorem sortBy_eq_of_perm {α : Type} (key : α → String) (l₁ l₂ : List α) (hp : l₁.Perm l₂)
    (hk : (l₁.map key).Nodup) : sortBy key l₁ = sortBy key l₂ := by
  refine List.Perm.eq_of_pairwise (le := KeyLe key) ?_ (sortBy_sorted key l₁) (sortBy_sorted key l₂)
    ((sortBy_perm key l₁).trans (hp.trans (sortBy_perm key l₂).symm))
  intro a b ha hb hab hba
  have ha' : a ∈ l₁ := (sortBy_perm key l₁).mem_iff.1 ha
  have hb' : b ∈ l₁ := hp.mem_iff.2 ((sortBy_perm key l₂).mem_iff.1 hb)
  exact List.inj_on_of_nodup_map hk ha' hb' (strLt_tri _ _ hba hab)

/-! ## 3. `arcSum` -/

theorem arcSum_aux (role s r : String) (arcs : List BArc) (acc : Int) :
    arcs.foldl (fun acc a => acc + arcCoeff role s r a) acc = acc + arcSum role s r arcs := by
  induction arcs generalizing acc with
  | nil => simp [arcSum]
  | cons a rest ih =>
    simp only [arcSum, List.foldl_cons]
    rw [ih, ih (0 + arcCoeff role s r a)]
    simp only [arcSum]; omega

@[simp] theorem arcSum_nil (role s r : String) : arcSum role s r [] = 0 := rfl

theorem arcSum_cons (role s r : String) (a : BArc) (l : List BArc) :
    arcSum role s r (a :: l) = arcCoeff role s r a + arcSum role s r l := by
  unfold arcSum; rw [List.foldl_cons, arcSum_aux]; simp [arcSum]

theorem arcSum_append (role s r : String) (l₁ l₂ : List BArc) :
    arcSum role s r (l₁ ++ l₂) = arcSum role s r l₁ + arcSum role s r l₂ := by
  induction l₁ with
  | nil => simp
  | cons a l ih => simp only [List.cons_append, arcSum_cons, ih]; omega

theorem arcSum_eq_zero (role s r : String) (l : List BArc)
    (h : ∀ a ∈ l, arcCoeff role s r a = 0) : arcSum role s r l = 0 := by
  induction l with
  | nil => rfl
  | cons a l ih =>
    rw [arcSum_cons, h a List.mem_cons_self, ih (fun b hb => h b (List.mem_cons_of_mem _ hb))]; rfl

theorem arcSum_flatMap (role s r : String) (f : BArc → List BArc) (l : List BArc)
    (h : ∀ a ∈ l, arcSum role s r (f a) = arcCoeff role s r a) :
    arcSum role s r (l.flatMap f) = arcSum role s r l := by
  induction l with
  | nil => rfl
  | cons a l ih =>
    rw [List.flatMap_cons, arcSum_append, arcSum_cons, h a List.mem_cons_self,
      ih (fun b hb => h b (List.mem_cons_of_mem _ hb))]

theorem arcSum_forall₂ (role s r : String) (l l' : List BArc)
    (h : List.Forall₂ (fun a b => arcCoeff role s r a = arcCoeff role s r b) l l') :
    arcSum role s r l = arcSum role s r l' := by
  induction h with
  | nil => rfl
  | cons hab _ ih => rw [arcSum_cons, arcSum_cons, hab, ih]

theorem arcSum_nonneg (role s r : String) (l : List BArc)
    (h : ∀ a ∈ l, 0 ≤ a.stoich.getD 1) : 0 ≤ arcSum role s r l := by
  induction l with
  | nil => simp
  | cons a l ih =>
    rw [arcSum_cons]
    have h1 : 0 ≤ arcCoeff role s r a := by
      unfold arcCoeff; split
      · exact h a List.mem_cons_self
      · exact Int.le_refl 0
    have := ih (fun b hb => h b (List.mem_cons_of_mem _ hb))
    omega

theorem arcJoins_rev (role s r : String) (a : BArc) : arcJoins role s r a.rev = arcJoins role s r a := by
  simp only [arcJoins, BArc.rev]
  cases a.role == some role <;> cases a.dst == s <;> cases a.src == r <;> cases a.dst == r <;>
    cases a.src == s <;> rfl

theorem arcCoeff_rev (role s r : String) (a : BArc) : arcCoeff role s r a.rev = arcCoeff role s r a := by
  unfold arcCoeff; rw [arcJoins_rev]; rfl

/-! ## 4. What NetworkX stores -/

theorem upsert_of_new (d : Bool) (acc : List BArc) (a : BArc)
    (h : ∀ b ∈ acc, sameKey d b a = false) : upsert d acc a = acc ++ [a] := by
  induction acc with
  | nil => rfl
  | cons b rest ih =>
    simp only [upsert, h b List.mem_cons_self, Bool.false_eq_true, if_false, List.cons_append]
    rw [ih (fun c hc => h c (List.mem_cons_of_mem _ hc))]

theorem foldl_upsert_simple (d : Bool) (arcs acc : List BArc)
    (h : (acc ++ arcs).Pairwise (fun a b => sameKey d a b = false)) :
    arcs.foldl (upsert d) acc = acc ++ arcs := by
  induction arcs generalizing acc with
  | nil => simp
  | cons a rest ih =>
    rw [List.foldl_cons]
    have h1 : upsert d acc a = acc ++ [a] := by
      apply upsert_of_new
      intro b hb
      rw [List.pairwise_append] at h
      exact h.2.2 b hb a List.mem_cons_self
    rw [h1, ih (acc ++ [a]) (by simpa using h)]
    simp

/-- Nothing is overwritten: on a multigraph, or when no two `add_edge` calls address the same
stored edge, the object holds exactly the edges that were added. -/
theorem effArcs_eq_arcs (g : BipGraph) (h : g.multi = true ∨ ArcsSimple g) : effArcs g = g.arcs := by
  unfold effArcs
  by_cases hm : g.multi = true
  · simp [hm]
  · rcases h with h | h
    · exact absurd h hm
    · simp only [hm, Bool.false_eq_true, if_false]
      simpa using foldl_upsert_simple g.directed g.arcs [] (by simpa [ArcsSimple] using h)

theorem upsert_all (P : BArc → Prop) (hm : ∀ a b, P a → P b → P (mergeArc a b)) (d : Bool)
    (acc : List BArc) (a : BArc) (hacc : ∀ b ∈ acc, P b) (ha : P a) : ∀ b ∈ upsert d acc a, P b := by
  induction acc with
  | nil => intro b hb; simp only [upsert, List.mem_singleton] at hb; subst hb; exact ha
  | cons c rest ih =>
    intro b hb
    simp only [upsert] at hb
    split at hb
    · rcases List.mem_cons.1 hb with rfl | hb
      · exact hm _ _ (hacc c List.mem_cons_self) ha
      · exact hacc b (List.mem_cons_of_mem _ hb)
    · rcases List.mem_cons.1 hb with rfl | hb
      · exact hacc _ List.mem_cons_self
      · exact ih (fun x hx => hacc x (List.mem_cons_of_mem _ hx)) b hb

theorem foldl_upsert_all (P : BArc → Prop) (hm : ∀ a b, P a → P b → P (mergeArc a b)) (d : Bool)
    (arcs acc : List BArc) (hacc : ∀ b ∈ acc, P b) (ha : ∀ b ∈ arcs, P b) :
    ∀ b ∈ arcs.foldl (upsert d) acc, P b := by
  induction arcs generalizing acc with
  | nil => simpa using hacc
  | cons a rest ih =>
    rw [List.foldl_cons]
    exact ih _ (upsert_all P hm d acc a hacc (ha a List.mem_cons_self))
      (fun b hb => ha b (List.mem_cons_of_mem _ hb))

/-- A property of all added edges that survives the attribute update holds for all stored edges. -/
theorem effArcs_all (P : BArc → Prop) (hm : ∀ a b, P a → P b → P (mergeArc a b)) (g : BipGraph)
    (h : ∀ a ∈ g.arcs, P a) : ∀ a ∈ effArcs g, P a := by
  unfold effArcs
  split
  · exact h
  · exact foldl_upsert_all P hm g.directed g.arcs [] (by simp) h

theorem effArcs_nonneg (g : BipGraph) (h : ∀ a ∈ g.arcs, 0 ≤ a.stoich.getD 1) :
    ∀ a ∈ effArcs g, 0 ≤ a.stoich.getD 1 := by
  refine effArcs_all (fun a => 0 ≤ a.stoich.getD 1) ?_ g h
  intro a b ha hb
  simp only [mergeArc]
  cases hbs : b.stoich with
  | some c => simpa [hbs] using hb
  | none => simpa using ha

/-! ## 5. `_as_bipartite` on an undirected graph counts every edge once -/

theorem find_id (l : List BNode) (h : (l.map (·.id)).Nodup) (n : BNode) (hn : n ∈ l) :
    l.find? (fun m => m.id == n.id) = some n := by
  induction l with
  | nil => cases hn
  | cons m rest ih =>
    simp only [List.map_cons, List.nodup_cons] at h
    rcases List.mem_cons.1 hn with rfl | hn
    · simp
    · have hne : (m.id == n.id) = false := by
        apply beq_false_of_ne
        intro heq
        exact h.1 (heq ▸ List.mem_map_of_mem (f := (·.id)) hn)
      simp only [List.find?_cons, hne]
      exact ih h.2 hn

theorem lookup_of_mem (g : BipGraph) (hd : IdsDistinct g) (n : BNode) (hn : n ∈ g.nodes) :
    lookup g n.id = some n := find_id g.nodes hd n hn

theorem species_not_reaction (n : BNode) (h : nodeIsSpecies n = true) : nodeIsReaction n = false := by
  unfold nodeIsSpecies at h; unfold nodeIsReaction
  cases hk : n.kind with
  | some k =>
    simp only [hk, beq_iff_eq] at h
    simp [h]
  | none =>
    simp only [hk, beq_iff_eq] at h
    simp [h]

theorem reaction_not_species (n : BNode) (h : nodeIsReaction n = true) : nodeIsSpecies n = false := by
  cases hs : nodeIsSpecies n with
  | false => rfl
  | true => rw [species_not_reaction n hs] at h; cases h

/-- The typing facts about a species node `s` and a reaction node `r` of a graph with distinct
node ids, as `_as_bipartite` sees them through `G.nodes[u]`. -/
theorem typing_facts (g : BipGraph) (hd : IdsDistinct g) (s r : BNode)
    (hs : s ∈ speciesNodes g) (hr : r ∈ reactionNodes g) :
    idIsSpecies g s.id = true ∧ idIsReaction g s.id = false ∧
    idIsReaction g r.id = true ∧ idIsSpecies g r.id = false ∧ s.id ≠ r.id := by
  obtain ⟨hs1, hs2⟩ := List.mem_filter.1 hs
  obtain ⟨hr1, hr2⟩ := List.mem_filter.1 hr
  have ls := lookup_of_mem g hd s hs1
  have lr := lookup_of_mem g hd r hr1
  refine ⟨by simp [idIsSpecies, ls, hs2], by simp [idIsReaction, ls, species_not_reaction s hs2],
    by simp [idIsReaction, lr, hr2], by simp [idIsSpecies, lr, reaction_not_species r hr2], ?_⟩
  intro heq
  rw [heq, lr] at ls
  injection ls with h
  rw [h, species_not_reaction s hs2] at hr2; cases hr2

/-- One undirected edge: of the two arcs of the directed copy, `_as_bipartite` keeps exactly what
`build_S_minus_plus` needs to count the edge once. -/
theorem bothWays_kept (g : BipGraph) (hd : IdsDistinct g) (s r : BNode)
    (hs : s ∈ speciesNodes g) (hr : r ∈ reactionNodes g) (role : String)
    (hrole : role = "reactant" ∨ role = "product") (a : BArc) :
    arcSum role s.id r.id ((bothWays a).filter (fun b => !dropArc g b)) = arcCoeff role s.id r.id a := by
  obtain ⟨f1, f2, f3, f4, f5⟩ := typing_facts g hd s r hs hr
  cases hj : arcJoins role s.id r.id a with
  | false =>
    have hz : arcCoeff role s.id r.id a = 0 := by simp [arcCoeff, hj]
    rw [hz]
    apply arcSum_eq_zero
    intro b hb
    have hb' := (List.mem_filter.1 hb).1
    unfold bothWays at hb'
    split at hb'
    · simp only [List.mem_singleton] at hb'; subst hb'; exact hz
    · simp only [List.mem_cons, List.not_mem_nil, or_false] at hb'
      rcases hb' with rfl | rfl
      · exact hz
      · rw [arcCoeff_rev]; exact hz
  | true =>
    have hc : arcCoeff role s.id r.id a = a.stoich.getD 1 := by simp [arcCoeff, hj]
    have hc' : arcCoeff role s.id r.id a.rev = a.stoich.getD 1 := by rw [arcCoeff_rev]; exact hc
    simp only [arcJoins, Bool.and_eq_true, Bool.or_eq_true, beq_iff_eq] at hj
    obtain ⟨hro, hends⟩ := hj
    have hne : (a.src == a.dst) = false := by
      apply beq_false_of_ne
      rcases hends with ⟨h1, h2⟩ | ⟨h1, h2⟩
      · rw [h1, h2]; exact f5
      · rw [h1, h2]; exact fun h => f5 h.symm
    have hrr : a.rev.role = some role := hro
    rcases hends with ⟨h1, h2⟩ | ⟨h1, h2⟩ <;> rcases hrole with rfl | rfl
    · have d1 : dropArc g a = false := by simp [dropArc, hro, h1, f2]
      have d2 : dropArc g a.rev = true := by simp [dropArc, BArc.rev, hro, h2, f3]
      simp [bothWays, hne, d1, d2, arcSum_cons, hc]
    · have d1 : dropArc g a = true := by simp [dropArc, hro, h1, f1]
      have d2 : dropArc g a.rev = false := by simp [dropArc, BArc.rev, hro, h2, f4]
      simp [bothWays, hne, d1, d2, arcSum_cons, hc, hc']
    · have d1 : dropArc g a = true := by simp [dropArc, hro, h1, f3]
      have d2 : dropArc g a.rev = false := by simp [dropArc, BArc.rev, hro, h2, f2]
      simp [bothWays, hne, d1, d2, arcSum_cons, hc, hc']
    · have d1 : dropArc g a = false := by simp [dropArc, hro, h1, f4]
      have d2 : dropArc g a.rev = true := by simp [dropArc, BArc.rev, hro, h2, f1]
      simp [bothWays, hne, d1, d2, arcSum_cons, hc]

/-- **The code path reads the stored edges.** Whatever the class of the graph, the arcs
`_as_bipartite` hands to `build_S_minus_plus` contribute to the entry (species node `s`,
reaction node `r`) exactly what the stored edges do — each undirected edge once. -/
theorem arcSum_asBipartite (g : BipGraph) (hd : IdsDistinct g) (s r : BNode)
    (hs : s ∈ speciesNodes g) (hr : r ∈ reactionNodes g) (role : String)
    (hrole : role = "reactant" ∨ role = "product") :
    arcSum role s.id r.id (asBipartite g) = arcSum role s.id r.id (effArcs g) := by
  unfold asBipartite
  split
  · rfl
  · rw [List.filter_flatMap]
    exact arcSum_flatMap role s.id r.id _ _ (fun a _ => bothWays_kept g hd s r hs hr role hrole a)

/-! ## 6. The graph reading is `build_S` of the described network -/

theorem foldl_setAdd_of_subset (xs acc : List String) (h : ∀ x ∈ xs, x ∈ acc) :
    xs.foldl setAdd acc = acc := by
  induction xs with
  | nil => rfl
  | cons x xs ih =>
    rw [List.foldl_cons]
    have : setAdd acc x = acc := by simp [setAdd, h x List.mem_cons_self]
    rw [this]; exact ih (fun y hy => h y (List.mem_cons_of_mem _ hy))

theorem sideOf_keys_subset (g : BipGraph) (role : String) (r : BNode) :
    ∀ x ∈ (sideOf g role r).keys, x ∈ (speciesNodes g).map nodeKey := by
  intro x hx
  simp only [sideOf, Dict.keys, List.mem_map, List.mem_filterMap] at hx
  obtain ⟨kv, ⟨s, hs, hkv⟩, rfl⟩ := hx
  split at hkv
  · cases hkv; exact List.mem_map_of_mem hs
  · cases hkv

theorem speciesSet_netOfGraph (g : BipGraph) :
    speciesSet (netOfGraph g) = (speciesNodes g).map nodeKey := by
  unfold speciesSet
  have key : ∀ (es : List Edge) (acc : List String),
      (∀ e ∈ es, ∀ x ∈ e.speciesOf, x ∈ acc) →
      es.foldl (fun acc e => e.speciesOf.foldl setAdd acc) acc = acc := by
    intro es
    induction es with
    | nil => intros; rfl
    | cons e es ih =>
      intro acc h
      rw [List.foldl_cons, foldl_setAdd_of_subset _ _ (h e List.mem_cons_self)]
      exact ih acc (fun e' he' => h e' (List.mem_cons_of_mem _ he'))
  apply key
  intro e he x hx
  simp only [netOfGraph, List.mem_map] at he
  obtain ⟨r, _, rfl⟩ := he
  simp only [Edge.speciesOf, edgeOfNode, List.mem_append] at hx
  rcases hx with hx | hx <;> exact sideOf_keys_subset g _ r x hx

/-- Rows: the species order of the described network is the label list `build_S(G)` returns. -/
theorem speciesOrder_netOfGraph (g : BipGraph) : speciesOrder (netOfGraph g) = rowLabels g := by
  unfold speciesOrder rowLabels speciesRows
  rw [speciesSet_netOfGraph, sortBy_map]
  rfl

/-- Columns: with pairwise distinct reaction labels, the column order of the described network
(reactions by id, then stably by rule) is the column order of the graph reading (reaction nodes
in `G.nodes` order, stably by label). -/
theorem rxnOrder_netOfGraph (g : BipGraph) (hr : ((reactionNodes g).map nodeKey).Nodup) :
    rxnOrder (netOfGraph g) = (reactionCols g).map (edgeOfNode g) := by
  unfold rxnOrder viewOrder reactionCols
  simp only [netOfGraph]
  rw [sortBy_map, sortBy_map]
  congr 1
  exact sortBy_eq_of_perm nodeKey _ _ (sortBy_perm _ _) ((sortBy_perm _ _).map nodeKey |>.nodup_iff.2 hr)

theorem sumCoeff_cons (kv : String × Nat) (rest : Side) (x : String) :
    sumCoeff (kv :: rest) x = (if kv.1 = x then (kv.2 : Int) else 0) + sumCoeff rest x := by
  unfold sumCoeff
  rw [List.foldl_cons, sumCoeff_aux]
  split <;> simp [sumCoeff]

theorem sumCoeff_filterMap (l : List BNode) (hk : (l.map nodeKey).Nodup) (p : BNode → Bool)
    (c : BNode → Nat) (x : String) :
    sumCoeff (l.filterMap fun t => if p t then some (nodeKey t, c t) else none) x =
      match l.find? (fun t => nodeKey t == x) with
      | some t => if p t then (c t : Int) else 0
      | none => 0 := by
  induction l with
  | nil => simp [sumCoeff]
  | cons t rest ih =>
    simp only [List.map_cons, List.nodup_cons] at hk
    have ih' := ih hk.2
    by_cases hx : nodeKey t = x
    · -- nothing further down carries the same label
      have hnone : rest.find? (fun u => nodeKey u == x) = none := by
        rw [List.find?_eq_none]
        intro u hu hux
        simp only [beq_iff_eq] at hux
        exact hk.1 (by rw [hx, ← hux]; exact List.mem_map_of_mem hu)
      rw [hnone] at ih'
      simp only [List.find?_cons, hx, beq_self_eq_true]
      cases hp : p t with
      | true =>
        simp only [List.filterMap_cons, hp, if_true]
        rw [sumCoeff_cons, ih']; simp [hx]
      | false =>
        simp only [List.filterMap_cons, hp]
        simpa using ih'
    · have hne : (nodeKey t == x) = false := beq_false_of_ne hx
      simp only [List.find?_cons, hne]
      cases hp : p t with
      | true =>
        simp only [List.filterMap_cons, hp, if_true]
        rw [sumCoeff_cons, ih']; simp [hx]
      | false =>
        simp only [List.filterMap_cons, hp]
        simpa using ih'

theorem find_key (l : List BNode) (h : (l.map nodeKey).Nodup) (n : BNode) (hn : n ∈ l) :
    l.find? (fun m => nodeKey m == nodeKey n) = some n := by
  induction l with
  | nil => cases hn
  | cons m rest ih =>
    simp only [List.map_cons, List.nodup_cons] at h
    rcases List.mem_cons.1 hn with rfl | hn
    · simp
    · have hne : (nodeKey m == nodeKey n) = false := by
        apply beq_false_of_ne
        intro heq
        exact h.1 (heq ▸ List.mem_map_of_mem hn)
      simp only [List.find?_cons, hne]
      exact ih h.2 hn

/-- Entries: the coefficient of species `s` on one side of the reaction of node `r` in the
described network is what the stored edges of that role between `s` and `r` add up to. -/
theorem sumCoeff_sideOf (g : BipGraph) (hsp : ((speciesNodes g).map nodeKey).Nodup)
    (hnn : ∀ a ∈ g.arcs, 0 ≤ a.stoich.getD 1) (role : String) (r s : BNode)
    (hs : s ∈ speciesNodes g) :
    sumCoeff (sideOf g role r) (nodeKey s) = arcSum role s.id r.id (effArcs g) := by
  unfold sideOf
  rw [sumCoeff_filterMap (speciesNodes g) hsp
    (fun t => (effArcs g).any (arcJoins role t.id r.id))
    (fun t => (arcSum role t.id r.id (effArcs g)).toNat) (nodeKey s), find_key _ hsp s hs]
  simp only
  cases hany : (effArcs g).any (arcJoins role s.id r.id) with
  | true =>
    simp only [if_true]
    exact Int.toNat_of_nonneg (arcSum_nonneg role s.id r.id _ (effArcs_nonneg g hnn))
  | false =>
    simp only [Bool.false_eq_true, if_false]
    symm
    apply arcSum_eq_zero
    intro a ha
    have := List.any_eq_false.1 hany a ha
    simp [arcCoeff, this]

/-! ## 7. Main theorems -/

theorem mem_speciesRows (g : BipGraph) (s : BNode) : s ∈ speciesRows g ↔ s ∈ speciesNodes g :=
  (sortBy_perm _ _).mem_iff

theorem mem_reactionCols (g : BipGraph) (r : BNode) : r ∈ reactionCols g ↔ r ∈ reactionNodes g :=
  (sortBy_perm _ _).mem_iff

/-- The matrix of one role, written over the described network with the graph's own column
order. No hypothesis on reaction labels. -/
theorem graphMat_eq_sides (g : BipGraph) (wf : WF g) (role : String)
    (hrole : role = "reactant" ∨ role = "product") (side : Edge → Side)
    (hside : ∀ r, side (edgeOfNode g r) = sideOf g role r) :
    graphMat role g = (speciesOrder (netOfGraph g)).map fun x =>
      ((reactionCols g).map (edgeOfNode g)).map fun e => sumCoeff (side e) x := by
  rw [speciesOrder_netOfGraph]
  unfold graphMat rowLabels
  rw [List.map_map]
  apply List.map_congr_left
  intro s hs
  rw [mem_speciesRows] at hs
  simp only [Function.comp, List.map_map]
  apply List.map_congr_left
  intro r hr
  rw [mem_reactionCols] at hr
  simp only [Function.comp]
  rw [hside, sumCoeff_sideOf g wf.speciesLabels wf.coeffs role r s hs,
    arcSum_asBipartite g wf.ids s r hs hr role hrole]

theorem colLabels_eq (g : BipGraph) :
    colLabels g = ((reactionCols g).map (edgeOfNode g)).map (·.rule) := by
  simp [colLabels, List.map_map, Function.comp, edgeOfNode]

/-- **(a), tie-tolerant form.** For a well-formed graph (distinct node ids, distinct species
labels, non-negative coefficients) `S⁻`, `S⁺` of the graph reading are the matrices of the
described network `netOfGraph g` with rows in the network's species order and columns in the order
`cols` of the graph's reaction nodes; `cols` is a permutation of the network's column order
carrying the same sequence of rule labels — i.e. the two column orders can differ only in how
equally labelled reactions are arranged among themselves. -/
theorem graphS_eq_buildS_upto_ties' (g : BipGraph) (wf : WF g) :
    let N := netOfGraph g
    let cols := (reactionCols g).map (edgeOfNode g)
    rowLabels g = speciesOrder N ∧
    cols.Perm (rxnOrder N) ∧ cols.map (·.rule) = (rxnOrder N).map (·.rule) ∧
    colLabels g = (rxnOrder N).map (·.rule) ∧
    graphSMinus g = ((speciesOrder N).map fun x => cols.map fun e => sumCoeff e.reactants x) ∧
    graphSPlus g = ((speciesOrder N).map fun x => cols.map fun e => sumCoeff e.products x) := by
  intro N cols
  have hperm : cols.Perm (rxnOrder N) := by
    have h1 : cols.Perm ((reactionNodes g).map (edgeOfNode g)) := (sortBy_perm _ _).map _
    have h2 : (rxnOrder N).Perm N.edges := (sortBy_perm _ _).trans (sortBy_perm _ _)
    exact h1.trans h2.symm
  have hrules : cols.map (·.rule) = (rxnOrder N).map (·.rule) := by
    have s1 : (cols.map (·.rule)).Pairwise strLe := by
      rw [List.pairwise_map, List.pairwise_map]
      exact sortBy_sorted nodeKey _
    have s2 : ((rxnOrder N).map (·.rule)).Pairwise strLe := by
      rw [List.pairwise_map]
      exact sortBy_sorted (fun e : Edge => e.rule) _
    exact List.Perm.eq_of_pairwise (le := strLe) (fun a b _ _ hab hba => strLt_tri a b hba hab) s1 s2
      (hperm.map _)
  refine ⟨(speciesOrder_netOfGraph g).symm, hperm, hrules, (colLabels_eq g).trans hrules, ?_, ?_⟩
  · exact graphMat_eq_sides g wf "reactant" (Or.inl rfl) (·.reactants) (fun _ => rfl)
  · exact graphMat_eq_sides g wf "product" (Or.inr rfl) (·.products) (fun _ => rfl)

/-- **(a)** For a well-formed graph whose reaction labels are pairwise distinct, the graph
reading IS the network-level model on the described network: same `S⁻`, same `S⁺`, same result
of `build_S` (labels, matrix, and the `ValueError` branch), rows and columns in the same order. -/
theorem graphS_eq_buildS' (g : BipGraph) (wf : WF g) (hr : ReactionLabelsDistinct g) :
    graphSMinus g = buildSMinus (netOfGraph g) ∧ graphSPlus g = buildSPlus (netOfGraph g) ∧
    graphS g = matSub (buildSPlus (netOfGraph g)) (buildSMinus (netOfGraph g)) ∧
    graphBuildS g = buildS (netOfGraph g) := by
  obtain ⟨h1, _, _, h4, h5, h6⟩ := graphS_eq_buildS_upto_ties' g wf
  have hcols := rxnOrder_netOfGraph g hr
  have hm : graphSMinus g = buildSMinus (netOfGraph g) := by rw [h5, buildSMinus, hcols]
  have hp : graphSPlus g = buildSPlus (netOfGraph g) := by rw [h6, buildSPlus, hcols]
  have hS : graphS g = matSub (buildSPlus (netOfGraph g)) (buildSMinus (netOfGraph g)) := by
    rw [graphS, hm, hp]
  refine ⟨hm, hp, hS, ?_⟩
  unfold graphBuildS buildS
  rw [speciesSet_netOfGraph, hS, h1, h4]
  simp [netOfGraph]

/-! ### (b)–(d): the ways of writing the same graph -/

theorem graphMat_congr (role : String) (g g' : BipGraph) (hn : g'.nodes = g.nodes)
    (h : ∀ s ∈ speciesNodes g, ∀ r ∈ reactionNodes g,
      arcSum role s.id r.id (asBipartite g') = arcSum role s.id r.id (asBipartite g)) :
    graphMat role g' = graphMat role g := by
  have hsr : speciesRows g' = speciesRows g := by simp [speciesRows, speciesNodes, hn]
  have hrc : reactionCols g' = reactionCols g := by simp [reactionCols, reactionNodes, hn]
  unfold graphMat
  rw [hsr, hrc]
  apply List.map_congr_left
  intro s hs
  apply List.map_congr_left
  intro r hr
  exact h s ((mem_speciesRows g s).1 hs) r ((mem_reactionCols g r).1 hr)

/-- Everything `build_S` returns follows from the two role matrices and the nodes. -/
theorem results_congr (g g' : BipGraph) (hn : g'.nodes = g.nodes)
    (h : ∀ role, role = "reactant" ∨ role = "product" → graphMat role g' = graphMat role g) :
    graphSMinus g' = graphSMinus g ∧ graphSPlus g' = graphSPlus g ∧ graphS g' = graphS g ∧
    graphBuildS g' = graphBuildS g := by
  have hm : graphSMinus g' = graphSMinus g := h _ (Or.inl rfl)
  have hp : graphSPlus g' = graphSPlus g := h _ (Or.inr rfl)
  have hS : graphS g' = graphS g := by rw [graphS, graphS, hm, hp]
  refine ⟨hm, hp, hS, ?_⟩
  simp [graphBuildS, rowLabels, colLabels, speciesRows, reactionCols, speciesNodes, reactionNodes, hn, hS]

theorem arcSum_reoriented (role s r : String) (l l' : List BArc) (h : Reoriented l l') :
    arcSum role s r l' = arcSum role s r l := by
  induction h with
  | nil => rfl
  | keep a _ ih => rw [arcSum_cons, arcSum_cons, ih]
  | flip a _ ih => rw [arcSum_cons, arcSum_cons, ih, arcCoeff_rev]

/-- **(b)** Reversing any subset of the arcs of a directed graph changes nothing `build_S`
returns — provided the reversal does not make two arcs of a non-multi `DiGraph` collide (a
`DiGraph` keeps one arc per ordered pair: `A → R` (reactant) and `R → A` (product) of a catalyst
are two arcs, but after reversing one of them the later overwrites the earlier). -/
theorem graphS_orientation_invariant' (g g' : BipGraph) (hn : g'.nodes = g.nodes)
    (hd : g.directed = true) (hd' : g'.directed = true) (hm : g'.multi = g.multi)
    (ha : Reoriented g.arcs g'.arcs) (hs : g.multi = true ∨ (ArcsSimple g ∧ ArcsSimple g')) :
    graphSMinus g' = graphSMinus g ∧ graphSPlus g' = graphSPlus g ∧ graphS g' = graphS g ∧
    graphBuildS g' = graphBuildS g := by
  apply results_congr g g' hn
  intro role _
  apply graphMat_congr role g g' hn
  intro s _ r _
  have e : effArcs g = g.arcs := effArcs_eq_arcs g (hs.imp id (·.1))
  have e' : effArcs g' = g'.arcs := effArcs_eq_arcs g' (hs.imp (fun h => hm.trans h) (·.2))
  simp only [asBipartite, hd, hd', if_true, e, e']
  exact arcSum_reoriented role s.id r.id _ _ ha

theorem reoriented_mem (l l' : List BArc) (h : Reoriented l l') (b' : BArc) (hb : b' ∈ l') :
    ∃ b ∈ l, b' = b ∨ b' = b.rev := by
  induction h with
  | nil => cases hb
  | keep a _ ih =>
    rcases List.mem_cons.1 hb with rfl | hb
    · exact ⟨_, List.mem_cons_self, Or.inl rfl⟩
    · obtain ⟨b, hb1, hb2⟩ := ih hb; exact ⟨b, List.mem_cons_of_mem _ hb1, hb2⟩
  | flip a _ ih =>
    rcases List.mem_cons.1 hb with rfl | hb
    · exact ⟨_, List.mem_cons_self, Or.inr rfl⟩
    · obtain ⟨b, hb1, hb2⟩ := ih hb; exact ⟨b, List.mem_cons_of_mem _ hb1, hb2⟩

theorem sameKey_reoriented (a b a' b' : BArc) (h : sameKey false a b = false)
    (ha : a' = a ∨ a' = a.rev) (hb : b' = b ∨ b' = b.rev) : sameKey true a' b' = false := by
  simp only [sameKey, Bool.not_false, Bool.true_and, Bool.or_eq_false_iff, Bool.and_eq_false_iff,
    beq_eq_false_iff_ne, ne_eq] at h
  simp only [sameKey, Bool.not_true, Bool.false_and, Bool.or_false, Bool.and_eq_false_iff,
    beq_eq_false_iff_ne, ne_eq]
  rcases ha with rfl | rfl <;> rcases hb with rfl | rfl <;> try simp only [BArc.rev]
  · exact h.1
  · exact h.2
  · exact h.2.symm
  · exact h.1.symm

/-- One edge per unordered pair stays one arc per ordered pair, however the edges are oriented. -/
theorem simple_of_reoriented (l l' : List BArc) (h : Reoriented l l')
    (hs : l.Pairwise (fun a b => sameKey false a b = false)) :
    l'.Pairwise (fun a b => sameKey true a b = false) := by
  induction h with
  | nil => exact List.Pairwise.nil
  | @keep a l l' hr ih =>
    rw [List.pairwise_cons] at hs ⊢
    refine ⟨fun b' hb' => ?_, ih hs.2⟩
    obtain ⟨b, hb1, hb2⟩ := reoriented_mem l l' hr b' hb'
    exact sameKey_reoriented a b a b' (hs.1 b hb1) (Or.inl rfl) hb2
  | @flip a l l' hr ih =>
    rw [List.pairwise_cons] at hs ⊢
    refine ⟨fun b' hb' => ?_, ih hs.2⟩
    obtain ⟨b, hb1, hb2⟩ := reoriented_mem l l' hr b' hb'
    exact sameKey_reoriented a b a.rev b' (hs.1 b hb1) (Or.inr rfl) hb2

/-- **(c)** An undirected graph (`Graph` / `MultiGraph`) and the directed graph (`DiGraph` /
`MultiDiGraph`) holding the same edges, each written in an arbitrary direction, give the same
`S⁻`, `S⁺`, `S` and `build_S` result: every undirected edge counts exactly once (the repaired
F27 / F28 / F37 behaviour). For a non-multi `Graph` the edges must be one per pair of nodes
(a `Graph` cannot hold more; a later `add_edge` would overwrite). -/
theorem graphS_undirected_eq_directed' (g g' : BipGraph) (hid : IdsDistinct g) (hn : g'.nodes = g.nodes)
    (hd : g.directed = false) (hd' : g'.directed = true) (hm : g'.multi = g.multi)
    (ha : Reoriented g.arcs g'.arcs) (hs : g.multi = true ∨ ArcsSimple g) :
    graphSMinus g' = graphSMinus g ∧ graphSPlus g' = graphSPlus g ∧ graphS g' = graphS g ∧
    graphBuildS g' = graphBuildS g := by
  apply results_congr g g' hn
  intro role hrole
  apply graphMat_congr role g g' hn
  intro s hs' r hr'
  rw [arcSum_asBipartite g hid s r hs' hr' role hrole, effArcs_eq_arcs g hs]
  have hs2 : g'.multi = true ∨ ArcsSimple g' := by
    rcases hs with h | h
    · exact Or.inl (hm.trans h)
    · right
      unfold ArcsSimple at h ⊢
      rw [hd] at h; rw [hd']
      exact simple_of_reoriented _ _ ha h
  simp only [asBipartite, hd', if_true, effArcs_eq_arcs g' hs2]
  exact arcSum_reoriented role s.id r.id _ _ ha

theorem arcCoeff_fill (role s r : String) (a : BArc) :
    arcCoeff role s r a.fillStoich = arcCoeff role s r a := by
  rfl

theorem arcSum_map_fill (role s r : String) (l : List BArc) :
    arcSum role s r (l.map BArc.fillStoich) = arcSum role s r l := by
  induction l with
  | nil => rfl
  | cons a l ih => rw [List.map_cons, arcSum_cons, arcSum_cons, ih, arcCoeff_fill]

theorem bothWays_fill (a : BArc) : bothWays a.fillStoich = (bothWays a).map BArc.fillStoich := by
  have h1 : a.fillStoich.src = a.src := rfl
  have h2 : a.fillStoich.dst = a.dst := rfl
  have h3 : a.fillStoich.rev = a.rev.fillStoich := rfl
  unfold bothWays
  rw [h1, h2]
  split <;> simp [h3]

/-- **(d)** A missing `stoich` reads as 1: spelling the default out on every edge changes nothing
`build_S` returns (on a multigraph, or when no `add_edge` call overwrites an earlier one — on a
non-multi graph a second `add_edge(u, v)` *without* `stoich` keeps the stored coefficient, one
*with* `stoich=1` replaces it). -/
theorem graphS_missing_stoich' (g g' : BipGraph) (hn : g'.nodes = g.nodes) (hd : g'.directed = g.directed)
    (hm : g'.multi = g.multi) (ha : g'.arcs = g.arcs.map BArc.fillStoich)
    (hs : g.multi = true ∨ ArcsSimple g) :
    graphSMinus g' = graphSMinus g ∧ graphSPlus g' = graphSPlus g ∧ graphS g' = graphS g ∧
    graphBuildS g' = graphBuildS g := by
  apply results_congr g g' hn
  intro role _
  apply graphMat_congr role g g' hn
  intro s _ r _
  have hs2 : g'.multi = true ∨ ArcsSimple g' := by
    rcases hs with h | h
    · exact Or.inl (hm.trans h)
    · right
      unfold ArcsSimple at h ⊢
      rw [ha, hd, List.pairwise_map]
      exact h
  have hb : asBipartite g' = (asBipartite g).map BArc.fillStoich := by
    have hdrop : ∀ a : BArc, dropArc g' a.fillStoich = dropArc g a := by
      intro a; simp [dropArc, idIsReaction, idIsSpecies, lookup, hn, BArc.fillStoich]
    unfold asBipartite
    rw [effArcs_eq_arcs g' hs2, effArcs_eq_arcs g hs, ha, hd]
    split
    · rfl
    · rw [List.flatMap_map, List.filter_flatMap, List.filter_flatMap, List.map_flatMap]
      apply List.flatMap_congr
      intro a _
      rw [bothWays_fill, List.filter_map]
      congr 1
      apply List.filter_congr
      intro b _
      simp [Function.comp, hdrop]
  rw [hb, arcSum_map_fill]

/-- The executable well-formedness test decides the hypotheses of `graphS_eq_buildS`. -/
theorem wf_of_wfB (g : BipGraph) (h : wfB g = true) : WF g ∧ ReactionLabelsDistinct g := by
  simp only [wfB, Bool.and_eq_true, decide_eq_true_eq, List.all_eq_true] at h
  obtain ⟨⟨⟨h1, h2⟩, h3⟩, h4⟩ := h
  exact ⟨⟨h1, h2, h4⟩, h3⟩

end SynKit.BipGraph

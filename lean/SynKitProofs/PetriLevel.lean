import SynKitModel.Petri
import SynKitProofs.PetriLemmas
import Mathlib.Data.List.Induction
/-!
# C20 — the breadth-first level invariant of `is_realizable`

Helper lemmas for the last clause of C20 ("no pathway that has such an ordering within the search
bounds is reported unrealizable").  The property theorems are in `Props/C20.lean`.

The argument is the standard one for breadth-first search, with a ghost level function
`lev : Tuple → Nat` (the length of the sequence with which a marking was first enqueued):

* the queue holds sequences of non-decreasing length, all within one of the head (`LInv.sorted`,
  `LInv.band`);
* every visited marking is reachable, the visited list has no duplicates and
  `states + len(queue) = len(visited)`, so the pop counter never exceeds the number of reachable
  markings (`bfs_level`, first conjunct);
* every visited marking that has left the queue with level `≤ max_depth` has been expanded: each
  enabled successor is visited, is not the target and has level at most one more (`ProcL`);
* hence on exit every marking reachable by a sequence of length `k ≤ max_depth + 1` is visited with
  level `≤ k` and, for `k ≥ 1`, is not the target (`closed_level`).
-/
namespace SynKit.Petri

/-- `m` is reachable from `s0` on `net` by a firing sequence (fired the way the BFS fires: on
place-indexed tuples). -/
def Reach (net : PNet Place) (s0 m : Tuple) : Prop := ∃ σ : List String, runT net s0 σ = some m

/-- `x` has left the queue: its level is at most the length of every queued sequence, and if its
level is `≤ maxDepth` it was expanded — every enabled successor is visited, is not the target and
has level at most `lev x + 1`. -/
def ProcL (net : PNet Place) (target : Tuple) (maxDepth : Nat) (q : Queue) (vis : List Tuple)
    (lev : Tuple → Nat) (x : Tuple) : Prop :=
  (∀ e ∈ q, lev x ≤ e.2.length) ∧
  (lev x ≤ maxDepth → ∀ t ∈ net.transitions, enabled t (ofTuple net.places x) = true →
    succT net x t ≠ target ∧ succT net x t ∈ vis ∧ lev (succT net x t) ≤ lev x + 1)

/-- The breadth-first level invariant of the `while q:` loop. -/
structure LInv (net : PNet Place) (s0 target : Tuple) (maxDepth : Nat) (q : Queue)
    (vis : List Tuple) (lev : Tuple → Nat) : Prop where
  start : s0 ∈ vis ∧ lev s0 = 0
  nodup : vis.Nodup
  reach : ∀ x ∈ vis, Reach net s0 x
  entry : ∀ e ∈ q, runT net s0 e.2 = some e.1 ∧ e.1 ∈ vis ∧ lev e.1 = e.2.length
  sorted : q.Pairwise (fun a b => a.2.length ≤ b.2.length)
  band : ∀ a ∈ q, ∀ b ∈ q, b.2.length ≤ a.2.length + 1
  proc : ∀ x ∈ vis, x ∈ q.map (·.1) ∨ ProcL net target maxDepth q vis lev x

/-- Ghost update of the level function when a new marking is enqueued. -/
def levUpd (lev : Tuple → Nat) (a : Tuple) (k : Nat) : Tuple → Nat := fun x => if x = a then k else lev x

theorem levUpd_self (lev : Tuple → Nat) (a : Tuple) (k : Nat) : levUpd lev a k a = k := by simp [levUpd]

theorem levUpd_of_ne (lev : Tuple → Nat) (a : Tuple) (k : Nat) (x : Tuple) (h : x ≠ a) :
    levUpd lev a k x = lev x := by simp [levUpd, h]

/-- The invariant holds when the loop is entered. -/
theorem LInv.init (net : PNet Place) (s0 target : Tuple) (maxDepth : Nat) :
    LInv net s0 target maxDepth [(s0, [])] [s0] (fun _ => 0) where
  start := ⟨by simp, rfl⟩
  nodup := by simp
  reach := by
    intro x hx
    simp only [List.mem_singleton] at hx; subst hx
    exact ⟨[], rfl⟩
  entry := by
    intro e he
    simp only [List.mem_singleton] at he; subst he
    exact ⟨rfl, by simp, rfl⟩
  sorted := by simp
  band := by
    intro a ha b hb
    simp only [List.mem_singleton] at ha hb; subst ha; subst hb; simp
  proc := by
    intro x hx
    left; simpa using hx

/-- One `visited.add(new_tuple); q.append((new_tuple, seq + [tid]))` while `(m, seq)` is being
expanded (the popped entry is kept at the head of the ghost queue). -/
theorem LInv.push {net : PNet Place} (hn : (net.transitions.map (·.tid)).Nodup) {s0 target : Tuple}
    {maxDepth : Nat} {m : Tuple} {seq : List String} {q : Queue} {vis : List Tuple} {lev : Tuple → Nat}
    (h : LInv net s0 target maxDepth ((m, seq) :: q) vis lev) (t : Transition Place)
    (ht : t ∈ net.transitions) (hen : enabled t (ofTuple net.places m) = true)
    (hnv : succT net m t ∉ vis) :
    LInv net s0 target maxDepth ((m, seq) :: (q ++ [(succT net m t, seq ++ [t.tid])]))
      (vis ++ [succT net m t]) (levUpd lev (succT net m t) (seq.length + 1)) := by
  have hhead := h.entry (m, seq) List.mem_cons_self
  have hrun : runT net s0 (seq ++ [t.tid]) = some (succT net m t) :=
    runT_snoc net hn s0 m seq t ht hhead.1 hen
  have hagree : ∀ x ∈ vis, levUpd lev (succT net m t) (seq.length + 1) x = lev x :=
    fun x hx => levUpd_of_ne _ _ _ _ (fun heq => hnv (heq ▸ hx))
  have hmem : ∀ e : Tuple × List String, e ∈ (m, seq) :: (q ++ [(succT net m t, seq ++ [t.tid])]) ↔
      e ∈ (m, seq) :: q ∨ e = (succT net m t, seq ++ [t.tid]) := by
    intro e; simp [or_assoc]
  have hlow : ∀ e ∈ (m, seq) :: q, seq.length ≤ e.2.length := by
    intro e he
    rcases List.mem_cons.1 he with rfl | he
    · exact Nat.le_refl _
    · exact (List.pairwise_cons.1 h.sorted).1 e he
  have hhigh : ∀ e ∈ (m, seq) :: q, e.2.length ≤ seq.length + 1 :=
    fun e he => h.band (m, seq) List.mem_cons_self e he
  refine ⟨⟨List.mem_append_left _ h.start.1, ?_⟩, ?_, ?_, ?_, ?_, ?_, ?_⟩
  · rw [hagree s0 h.start.1]; exact h.start.2
  · refine List.nodup_append.2 ⟨h.nodup, by simp, ?_⟩
    intro a ha b hb
    simp only [List.mem_singleton] at hb; subst hb
    exact fun heq => hnv (heq ▸ ha)
  · intro x hx
    rcases List.mem_append.1 hx with hx | hx
    · exact h.reach x hx
    · simp only [List.mem_singleton] at hx; subst hx; exact ⟨_, hrun⟩
  · intro e he
    rcases (hmem e).1 he with he | rfl
    · obtain ⟨e1, e2, e3⟩ := h.entry e he
      exact ⟨e1, List.mem_append_left _ e2, by rw [hagree _ e2]; exact e3⟩
    · exact ⟨hrun, List.mem_append_right _ (List.mem_singleton.2 rfl), by simp [levUpd_self]⟩
  · show List.Pairwise _ (((m, seq) :: q) ++ [(succT net m t, seq ++ [t.tid])])
    refine List.pairwise_append.2 ⟨h.sorted, by simp, ?_⟩
    intro a ha b hb
    simp only [List.mem_singleton] at hb; subst hb
    simpa using hhigh a ha
  · intro a ha b hb
    rcases (hmem a).1 ha with ha | rfl <;> rcases (hmem b).1 hb with hb | rfl
    · exact h.band a ha b hb
    · have := hlow a ha
      simp only [List.length_append, List.length_singleton]; omega
    · have := hhigh b hb
      simp only [List.length_append, List.length_singleton]; omega
    · omega
  · intro x hx
    rcases List.mem_append.1 hx with hx | hx
    · rcases h.proc x hx with hq | ⟨p1, p2⟩
      · left
        obtain ⟨e, he, rfl⟩ := List.mem_map.1 hq
        exact List.mem_map.2 ⟨e, (hmem e).2 (Or.inl he), rfl⟩
      · right
        refine ⟨?_, ?_⟩
        · intro e he
          rw [hagree x hx]
          rcases (hmem e).1 he with he | rfl
          · exact p1 e he
          · have := p1 (m, seq) List.mem_cons_self
            simp only [List.length_append, List.length_singleton]
            exact Nat.le_succ_of_le this
        · rw [hagree x hx]
          intro hd t' ht' hen'
          obtain ⟨s1, s2, s3⟩ := p2 hd t' ht' hen'
          exact ⟨s1, List.mem_append_left _ s2, by rw [hagree _ s2]; exact s3⟩
    · left
      simp only [List.mem_singleton] at hx; subst hx
      exact List.mem_map.2 ⟨_, (hmem _).2 (Or.inr rfl), rfl⟩

/-- `popleft()` once the entry is dealt with: either it was skipped for depth (`hexp` is void) or
all its enabled successors have been looked at. -/
theorem LInv.pop {net : PNet Place} {s0 target : Tuple} {maxDepth : Nat} {m : Tuple}
    {seq : List String} {q : Queue} {vis : List Tuple} {lev : Tuple → Nat}
    (h : LInv net s0 target maxDepth ((m, seq) :: q) vis lev)
    (hexp : seq.length ≤ maxDepth → ∀ t ∈ net.transitions, enabled t (ofTuple net.places m) = true →
      succT net m t ≠ target ∧ succT net m t ∈ vis ∧ lev (succT net m t) ≤ seq.length + 1) :
    LInv net s0 target maxDepth q vis lev := by
  have hhead := h.entry (m, seq) List.mem_cons_self
  refine ⟨h.start, h.nodup, h.reach, fun e he => h.entry e (List.mem_cons_of_mem _ he),
    (List.pairwise_cons.1 h.sorted).2,
    fun a ha b hb => h.band a (List.mem_cons_of_mem _ ha) b (List.mem_cons_of_mem _ hb), ?_⟩
  intro x hx
  rcases h.proc x hx with hq | ⟨p1, p2⟩
  · simp only [List.map_cons, List.mem_cons] at hq
    rcases hq with rfl | hq
    · right
      refine ⟨?_, ?_⟩
      · intro e he
        rw [hhead.2.2]
        exact (List.pairwise_cons.1 h.sorted).1 e he
      · rw [hhead.2.2]; exact hexp
    · exact Or.inl hq
  · exact Or.inr ⟨fun e he => p1 e (List.mem_cons_of_mem _ he), p2⟩

/-- The inner `for tid in net.transitions` loop keeps the invariant (with the popped entry still at
the head of the ghost queue), adds as many queue entries as visited markings, and leaves every
enabled successor of the popped marking visited, different from the target and of level at most
`len(seq) + 1`. -/
theorem expand_level (net : PNet Place) (hn : (net.transitions.map (·.tid)).Nodup) (s0 target : Tuple)
    (maxDepth : Nat) (m : Tuple) (seq : List String) (ts : List (Transition Place))
    (hts : ∀ t ∈ ts, t ∈ net.transitions) (q : Queue) (vis : List Tuple) (lev : Tuple → Nat)
    (hinv : LInv net s0 target maxDepth ((m, seq) :: q) vis lev) (q' : Queue) (vis' : List Tuple)
    (h : expand net.places target (ofTuple net.places m) seq ts q vis = .cont q' vis') :
    ∃ lev' : Tuple → Nat, LInv net s0 target maxDepth ((m, seq) :: q') vis' lev' ∧
      (∀ x ∈ vis, x ∈ vis' ∧ lev' x = lev x) ∧
      vis'.length + q.length = vis.length + q'.length ∧
      (∀ t ∈ ts, enabled t (ofTuple net.places m) = true →
        succT net m t ≠ target ∧ succT net m t ∈ vis' ∧ lev' (succT net m t) ≤ seq.length + 1) := by
  induction ts generalizing q vis lev with
  | nil =>
    simp only [expand, Expand.cont.injEq] at h
    obtain ⟨rfl, rfl⟩ := h
    exact ⟨lev, hinv, fun x hx => ⟨hx, rfl⟩, rfl, by simp⟩
  | cons t rest ih =>
    have hrest : ∀ t ∈ rest, t ∈ net.transitions := fun t ht => hts t (List.mem_cons_of_mem _ ht)
    have htn := hts t List.mem_cons_self
    simp only [expand] at h
    by_cases hen : enabled t (ofTuple net.places m) = true
    · simp only [hen, if_true] at h
      by_cases heq : toTuple net.places (fire t (ofTuple net.places m)) = target
      · simp [heq] at h
      · simp only [heq, if_false] at h
        by_cases hv : vis.contains (toTuple net.places (fire t (ofTuple net.places m))) = true
        · simp only [hv, if_true] at h
          have hv' : succT net m t ∈ vis := by
            have := hv; simp only [List.contains_iff_mem] at this; exact this
          obtain ⟨lev', i1, i2, i3, i4⟩ := ih hrest q vis lev hinv h
          refine ⟨lev', i1, i2, i3, ?_⟩
          intro t' ht' hen'
          rcases List.mem_cons.1 ht' with rfl | ht'
          · refine ⟨heq, (i2 _ hv').1, ?_⟩
            rw [(i2 _ hv').2]
            rcases hinv.proc _ hv' with hq | ⟨p1, _⟩
            · obtain ⟨e, he, he1⟩ := List.mem_map.1 hq
              have hb := hinv.band (m, seq) List.mem_cons_self e he
              have hl := (hinv.entry e he).2.2
              rw [← he1, hl]; exact hb
            · exact Nat.le_succ_of_le (p1 (m, seq) List.mem_cons_self)
          · exact i4 t' ht' hen'
        · simp only [hv] at h
          have hv' : succT net m t ∉ vis := by
            intro hc; apply hv; simp only [List.contains_iff_mem]; exact hc
          have hpush := LInv.push hn hinv t htn hen hv'
          obtain ⟨lev', i1, i2, i3, i4⟩ := ih hrest _ _ _ hpush h
          refine ⟨lev', i1, ?_, ?_, ?_⟩
          · intro x hx
            obtain ⟨j1, j2⟩ := i2 x (List.mem_append_left _ hx)
            refine ⟨j1, ?_⟩
            rw [j2]
            exact levUpd_of_ne _ _ _ _ (fun hc => hv' (hc ▸ hx))
          · simp only [List.length_append, List.length_singleton] at i3
            omega
          · intro t' ht' hen'
            rcases List.mem_cons.1 ht' with rfl | ht'
            · obtain ⟨j1, j2⟩ := i2 _ (List.mem_append_right _ (List.mem_singleton.2 rfl))
              refine ⟨heq, j1, ?_⟩
              rw [j2, levUpd_self]; exact Nat.le_refl _
            · exact i4 t' ht' hen'
    · simp only [hen] at h
      obtain ⟨lev', i1, i2, i3, i4⟩ := ih hrest q vis lev hinv h
      refine ⟨lev', i1, i2, i3, ?_⟩
      intro t' ht' hen'
      rcases List.mem_cons.1 ht' with rfl | ht'
      · exact absurd hen' hen
      · exact i4 t' ht' hen'

/-- A visited list without duplicates that contains only markings of `R` is no longer than `R`. -/
theorem length_le_of_nodup_subset (vis R : List Tuple) (hn : vis.Nodup) (hs : ∀ x ∈ vis, x ∈ R) :
    vis.length ≤ R.length :=
  (List.Nodup.subperm hn hs).length_le

/-- What the level invariant gives when the loop ends without a certificate. -/
def ClosedL (net : PNet Place) (s0 target : Tuple) (maxDepth : Nat) (vis : List Tuple)
    (lev : Tuple → Nat) : Prop :=
  (s0 ∈ vis ∧ lev s0 = 0) ∧
  ∀ x ∈ vis, lev x ≤ maxDepth → ∀ t ∈ net.transitions, enabled t (ofTuple net.places x) = true →
    succT net x t ≠ target ∧ succT net x t ∈ vis ∧ lev (succT net x t) ≤ lev x + 1

/-- **The loop, with the level invariant.**  If all reachable markings lie in a list `R` of at most
`max_states` entries, then the `states > max_states` break is never taken, and a loop that ends
without a certificate has closed every level `≤ max_depth`. -/
theorem bfs_level (net : PNet Place) (hn : (net.transitions.map (·.tid)).Nodup) (s0 target : Tuple)
    (maxStates maxDepth : Nat) (R : List Tuple) (hR : ∀ x, Reach net s0 x → x ∈ R)
    (hcard : R.length ≤ maxStates) (fuel : Nat) (q : Queue) (vis : List Tuple) (states : Nat)
    (sk : Bool) (lev : Tuple → Nat) (hinv : LInv net s0 target maxDepth q vis lev)
    (hcnt : states + q.length = vis.length) (a b : Bool)
    (h : bfs net target maxStates maxDepth fuel q vis states sk = .notFound a b) :
    a = false ∧ ∃ (V : List Tuple) (lev' : Tuple → Nat), ClosedL net s0 target maxDepth V lev' := by
  induction fuel generalizing q vis states sk lev with
  | zero => simp [bfs] at h
  | succ fuel ih =>
    cases q with
    | nil =>
      simp only [bfs, Result.notFound.injEq] at h
      refine ⟨h.1.symm, vis, lev, hinv.start, ?_⟩
      intro x hx hd
      rcases hinv.proc x hx with h' | h'
      · simp at h'
      · exact h'.2 hd
    | cons e rest =>
      obtain ⟨m, seq⟩ := e
      have hvl : vis.length ≤ maxStates :=
        Nat.le_trans (length_le_of_nodup_subset vis R hinv.nodup (fun x hx => hR x (hinv.reach x hx))) hcard
      simp only [List.length_cons] at hcnt
      simp only [bfs] at h
      split at h
      · omega
      · split at h
        · rename_i hdepth
          have hpop := LInv.pop hinv (fun hle => absurd hle (by omega))
          exact ih rest vis _ _ lev hpop (by omega) h
        · rename_i hdepth
          split at h
          · simp at h
          · rename_i q' vis' heq
            obtain ⟨lev', i1, _, i3, i4⟩ :=
              expand_level net hn s0 target maxDepth m seq net.transitions (fun t ht => ht) rest vis lev
                hinv q' vis' heq
            have hpop := LInv.pop i1 (fun _ => i4)
            exact ih q' vis' _ _ lev' hpop (by omega) h

/-- In a closed search every marking reached by a firing sequence of length `k ≤ max_depth + 1` is
visited with level `≤ k`, and for `k ≥ 1` it is not the target. -/
theorem closed_level (net : PNet Place) (s0 target : Tuple) (maxDepth : Nat) (V : List Tuple)
    (lev : Tuple → Nat) (hc : ClosedL net s0 target maxDepth V lev) (σ : List String) (m : Tuple)
    (hlen : σ.length ≤ maxDepth + 1) (hrun : runT net s0 σ = some m) :
    m ∈ V ∧ lev m ≤ σ.length ∧ (σ ≠ [] → m ≠ target) := by
  induction σ using List.reverseRecOn generalizing m with
  | nil =>
    simp only [runT, Option.some.injEq] at hrun; subst hrun
    exact ⟨hc.1.1, by simp [hc.1.2], fun h => absurd rfl h⟩
  | append_singleton σ' tid ih =>
    rw [runT_append] at hrun
    cases hr : runT net s0 σ' with
    | none => simp [hr] at hrun
    | some m' =>
      simp only [hr, Option.bind_some, runT] at hrun
      simp only [List.length_append, List.length_singleton] at hlen ⊢
      obtain ⟨j1, j2, _⟩ := ih m' (by omega) hr
      cases hst : stepT net m' tid with
      | none => simp [hst] at hrun
      | some m1 =>
        simp only [hst, Option.some.injEq] at hrun; subst hrun
        unfold stepT at hst
        split at hst
        · simp at hst
        · rename_i t hf
          obtain ⟨ht, _⟩ := find?_some net tid t hf
          split at hst
          · rename_i hen
            simp only [Option.some.injEq] at hst; subst hst
            obtain ⟨s1, s2, s3⟩ := hc.2 m' j1 (by omega) t ht hen
            exact ⟨s2, by unfold succT at s3; omega, fun _ => s1⟩
          · simp at hst

/-- The bounded BFS from the start marking: with all reachable markings inside a list of at most
`max_states` entries, an answer "not found" never comes from the `max_states` break, and then no
firing sequence of length `1 … max_depth + 1` leads to the target. -/
theorem bfs_start_level (net : PNet Place) (hn : (net.transitions.map (·.tid)).Nodup) (s0 target : Tuple)
    (maxStates maxDepth : Nat) (R : List Tuple) (hR : ∀ x, Reach net s0 x → x ∈ R)
    (hcard : R.length ≤ maxStates) (fuel : Nat) (a b : Bool)
    (h : bfs net target maxStates maxDepth fuel [(s0, [])] [s0] 0 false = .notFound a b) :
    a = false ∧ ∀ σ : List String, σ ≠ [] → σ.length ≤ maxDepth + 1 → runT net s0 σ ≠ some target := by
  obtain ⟨ha, V, lev, hc⟩ := bfs_level net hn s0 target maxStates maxDepth R hR hcard fuel _ _ _ _ _
    (LInv.init net s0 target maxDepth) (by simp) a b h
  refine ⟨ha, fun σ hne hlen hrun => ?_⟩
  exact (closed_level net s0 target maxDepth V lev hc σ target hlen hrun).2.2 hne rfl

/-- The loop never answers with the `RuntimeError` outcome. -/
theorem bfs_ne_noEdges (net : PNet Place) (target : Tuple) (maxStates maxDepth fuel : Nat) (q : Queue)
    (vis : List Tuple) (states : Nat) (sk : Bool) :
    bfs net target maxStates maxDepth fuel q vis states sk ≠ .noEdges := by
  induction fuel generalizing q vis states sk with
  | zero => simp [bfs]
  | succ fuel ih =>
    cases q with
    | nil => simp [bfs]
    | cons e rest =>
      obtain ⟨m, seq⟩ := e
      simp only [bfs]
      split
      · simp
      · split
        · exact ih _ _ _ _
        · split
          · simp
          · exact ih _ _ _ _

/-! ## from the loop to `is_realizable` -/

/-- The start marking of the search, as a tuple. -/
def startT (P : Pathway) : Tuple := toTuple (buildNet P).places (initialMarking P)

/-- **Level invariant, packaged for `is_realizable`.**  If every marking reachable from `M0` on the
extended net lies in a list of at most `max_states` markings, then an answer "not found" never comes
from the `states > max_states` break, and no firing sequence of length `≤ max_depth + 1` leads from
`M0` to `MT`. -/
theorem isRealizable_notFound_level (P : Pathway) (maxStates maxDepth : Nat) (R : List Tuple)
    (hR : ∀ m, Reach (buildNet P) (startT P) m → m ∈ R) (hcard : R.length ≤ maxStates) (a b : Bool)
    (h : isRealizable P maxStates maxDepth = .notFound a b) :
    a = false ∧ ∀ seq : List String, seq.length ≤ maxDepth + 1 → validCertificate P seq = false := by
  unfold isRealizable at h
  split at h
  · simp at h
  · simp only at h
    split at h
    · simp at h
    · rename_i hq
      have hq' : quickEqual (initialMarking P) (targetMarking P) = false := by simpa using hq
      have hne := tuples_ne_of_not_quickEqual P hq'
      obtain ⟨ha, hno⟩ := bfs_start_level (buildNet P) (buildNet_tids_nodup P) (startT P) _ maxStates
        maxDepth R hR hcard _ a b h
      refine ⟨ha, fun seq hlen => ?_⟩
      unfold validCertificate
      simp only [beq_eq_false_iff_ne, ne_eq]
      by_cases hnil : seq = []
      · subst hnil
        simp only [runT, Option.some.injEq]
        exact hne
      · exact hno seq hnil hlen

theorem isRealizable_ne_noEdges (P : Pathway) (maxStates maxDepth : Nat) (hne : P.edges.isEmpty = false) :
    isRealizable P maxStates maxDepth ≠ .noEdges := by
  unfold isRealizable
  simp only [hne, Bool.false_eq_true, if_false]
  split
  · simp
  · exact bfs_ne_noEdges _ _ _ _ _ _ _ _ _

theorem isRealizable_noEdges (P : Pathway) (maxStates maxDepth : Nat) (he : P.edges.isEmpty = true) :
    isRealizable P maxStates maxDepth = .noEdges := by
  unfold isRealizable
  simp [he]

/-- A list that contains the start marking and is closed under firing contains every reachable
marking. -/
theorem reach_subset_of_closed (net : PNet Place) (s0 : Tuple) (R : List Tuple) (h0 : s0 ∈ R)
    (hcl : ∀ x ∈ R, ∀ t ∈ net.transitions, enabled t (ofTuple net.places x) = true → succT net x t ∈ R)
    (m : Tuple) (hm : Reach net s0 m) : m ∈ R := by
  obtain ⟨σ, hσ⟩ := hm
  induction σ generalizing s0 with
  | nil => simp only [runT, Option.some.injEq] at hσ; subst hσ; exact h0
  | cons tid rest ih =>
    simp only [runT] at hσ
    split at hσ
    · simp at hσ
    · rename_i s1 hstep
      unfold stepT at hstep
      split at hstep
      · simp at hstep
      · rename_i t hf
        obtain ⟨ht, _⟩ := find?_some net tid t hf
        split at hstep
        · rename_i hen
          simp only [Option.some.injEq] at hstep; subst hstep
          exact ih _ (hcl s0 h0 t ht hen) hσ
        · simp at hstep

/-- Executable form of "contains the start and is closed under firing" (used for the worked example). -/
def closedUnderB (net : PNet Place) (s0 : Tuple) (R : List Tuple) : Bool :=
  R.contains s0 && R.all fun x => net.transitions.all fun t =>
    !enabled t (ofTuple net.places x) || R.contains (succT net x t)

theorem reach_subset_of_closedUnderB (net : PNet Place) (s0 : Tuple) (R : List Tuple)
    (h : closedUnderB net s0 R = true) (m : Tuple) (hm : Reach net s0 m) : m ∈ R := by
  simp only [closedUnderB, Bool.and_eq_true, List.contains_iff_mem, List.all_eq_true, Bool.or_eq_true,
    Bool.not_eq_true'] at h
  refine reach_subset_of_closed net s0 R h.1 ?_ m hm
  intro x hx t ht hen
  rcases h.2 x hx t ht with h' | h'
  · rw [hen] at h'; simp at h'
  · exact h'

/-- The four markings reachable in `exPath` (places `A, B, __ext__r_1, __target__r_1, …`). -/
def exPathReach : List Tuple :=
  [[0, 0, 1, 0, 1, 0, 1, 0], [1, 0, 0, 1, 1, 0, 1, 0], [0, 1, 0, 1, 0, 1, 1, 0], [0, 0, 0, 1, 0, 1, 0, 1]]

theorem exPathReach_closed : closedUnderB (buildNet exPath) (startT exPath) exPathReach = true := by decide

end SynKit.Petri

import SynKitModel.ReactorInv
import Mathlib.Data.List.Nodup
/-!
# Lemmas for C04 / C05: relabelling commutes with the enumerator, identity embeddings,
set-equality modulo an equivalence, pruning by rule automorphisms.
-/
namespace SynKit.ReactorInv
open SynKit SynKit.Match

/-! ## Relabelling a graph by an injective map -/

theorem relabel_ids (g : LGraph) (f : Nat → Nat) : (g.relabel f).ids = g.ids.map f := by
  simp [LGraph.relabel, LGraph.ids, List.map_map, Function.comp_def]

theorem flatMap_congr' {α β : Type} {l : List α} {f g : α → List β} (h : ∀ a ∈ l, f a = g a) :
    l.flatMap f = l.flatMap g := by
  induction l with
  | nil => rfl
  | cons a rest ih =>
    rw [List.flatMap_cons, List.flatMap_cons, h a (List.mem_cons_self ..),
      ih (fun x hx => h x (List.mem_cons_of_mem _ hx))]

theorem find_node_relabel {f : Nat → Nat} (hf : Function.Injective f) (ns : List (Nat × Attrs)) (v : Nat) :
    (ns.map fun p => (f p.1, p.2)).find? (fun p => decide (p.1 = f v)) =
      (ns.find? (fun p => decide (p.1 = v))).map fun p => (f p.1, p.2) := by
  induction ns with
  | nil => rfl
  | cons a rest ih =>
    rw [List.map_cons, List.find?_cons, List.find?_cons]
    by_cases h : a.1 = v
    · have d1 : decide (a.1 = v) = true := decide_eq_true h
      have d2 : decide ((f a.1, a.2).1 = f v) = true := decide_eq_true (by show f a.1 = f v; rw [h])
      rw [d1, d2]; rfl
    · have d1 : decide (a.1 = v) = false := decide_eq_false h
      have d2 : decide ((f a.1, a.2).1 = f v) = false := decide_eq_false (fun e => h (hf e))
      rw [d1, d2]; exact ih

theorem relabel_attrs {f : Nat → Nat} (hf : Function.Injective f) (g : LGraph) (v : Nat) :
    (g.relabel f).attrs (f v) = g.attrs v := by
  unfold LGraph.attrs LGraph.relabel
  simp only [find_node_relabel hf]
  cases g.nodes.find? (fun p => decide (p.1 = v)) <;> rfl

theorem find_edge_relabel {f : Nat → Nat} (hf : Function.Injective f) (es : List (Nat × Nat × Attrs)) (u v : Nat) :
    (es.map fun e => (f e.1, f e.2.1, e.2.2)).find?
        (fun e => decide ((e.1 = f u ∧ e.2.1 = f v) ∨ (e.1 = f v ∧ e.2.1 = f u))) =
      (es.find? (fun e => decide ((e.1 = u ∧ e.2.1 = v) ∨ (e.1 = v ∧ e.2.1 = u)))).map
        fun e => (f e.1, f e.2.1, e.2.2) := by
  induction es with
  | nil => rfl
  | cons a rest ih =>
    rw [List.map_cons, List.find?_cons, List.find?_cons]
    have key : ((f a.1 = f u ∧ f a.2.1 = f v) ∨ (f a.1 = f v ∧ f a.2.1 = f u)) ↔
        ((a.1 = u ∧ a.2.1 = v) ∨ (a.1 = v ∧ a.2.1 = u)) := by
      constructor
      · rintro (⟨h1, h2⟩ | ⟨h1, h2⟩)
        · exact Or.inl ⟨hf h1, hf h2⟩
        · exact Or.inr ⟨hf h1, hf h2⟩
      · rintro (⟨h1, h2⟩ | ⟨h1, h2⟩)
        · exact Or.inl ⟨by rw [h1], by rw [h2]⟩
        · exact Or.inr ⟨by rw [h1], by rw [h2]⟩
    by_cases h : (a.1 = u ∧ a.2.1 = v) ∨ (a.1 = v ∧ a.2.1 = u)
    · have d1 := decide_eq_true h
      have d2 : decide (((f a.1, f a.2.1, a.2.2).1 = f u ∧ (f a.1, f a.2.1, a.2.2).2.1 = f v) ∨
          ((f a.1, f a.2.1, a.2.2).1 = f v ∧ (f a.1, f a.2.1, a.2.2).2.1 = f u)) = true := decide_eq_true (key.2 h)
      rw [d1, d2]; rfl
    · have d1 := decide_eq_false h
      have d2 : decide (((f a.1, f a.2.1, a.2.2).1 = f u ∧ (f a.1, f a.2.1, a.2.2).2.1 = f v) ∨
          ((f a.1, f a.2.1, a.2.2).1 = f v ∧ (f a.1, f a.2.1, a.2.2).2.1 = f u)) = false :=
        decide_eq_false (fun e => h (key.1 e))
      rw [d1, d2]; exact ih

theorem relabel_edge? {f : Nat → Nat} (hf : Function.Injective f) (g : LGraph) (u v : Nat) :
    (g.relabel f).edge? (f u) (f v) = g.edge? u v := by
  unfold LGraph.edge? LGraph.relabel
  simp only [find_edge_relabel hf]
  cases es : g.edges.find? (fun e => decide ((e.1 = u ∧ e.2.1 = v) ∨ (e.1 = v ∧ e.2.1 = u))) <;> rfl

theorem relabel_hasEdge {f : Nat → Nat} (hf : Function.Injective f) (g : LGraph) (u v : Nat) :
    (g.relabel f).hasEdge (f u) (f v) = g.hasEdge u v := by
  unfold LGraph.hasEdge; rw [relabel_edge? hf]

/-! ## The enumerator commutes with relabelling (list level: even the order is preserved) -/

theorem extendOk_relabel_host {f : Nat → Nat} (hf : Function.Injective f) (sel : Sel) (ind : Bool)
    (H P : LGraph) (acc : Mapping) (p h : Nat) :
    extendOk sel ind (H.relabel f) P (relabelHost f acc) p (f h) = extendOk sel ind H P acc p h := by
  unfold extendOk relabelHost
  rw [relabel_attrs hf, List.any_map, List.all_map]
  have h1 : (acc.any ((fun x => decide (x.2 = f h)) ∘ fun ph => (ph.1, f ph.2))) = acc.any (fun x => decide (x.2 = h)) := by
    apply congrArg (fun q => List.any acc q)
    funext x
    simp only [Function.comp]
    by_cases e : x.2 = h
    · simp [e]
    · have e' : ¬ f x.2 = f h := fun c => e (hf c)
      simp [e, e']
  rw [h1, relabel_hasEdge hf]
  congr 1
  apply congrArg (fun q => List.all acc q)
  funext qh
  simp only [Function.comp]
  rw [relabel_edge? hf, relabel_hasEdge hf]

theorem extend_relabel_host {f : Nat → Nat} (hf : Function.Injective f) (sel : Sel) (ind : Bool)
    (H P : LGraph) (ps : List Nat) (acc : Mapping) :
    extend sel ind (H.relabel f) P ps (relabelHost f acc) = (extend sel ind H P ps acc).map (relabelHost f) := by
  induction ps generalizing acc with
  | nil => simp [extend, relabelHost, List.map_reverse]
  | cons p ps ih =>
    simp only [extend, relabel_ids, List.flatMap_map, List.map_flatMap]
    apply flatMap_congr'
    intro h _
    rw [extendOk_relabel_host hf]
    by_cases c : extendOk sel ind H P acc p h = true
    · simp only [c, if_true]
      exact ih ((p, h) :: acc)
    · simp [c]

/-- Host relabelling: the match list of the relabelled host is the image of the match list,
in the same order. -/
theorem allMonos_relabel_host_list {f : Nat → Nat} (hf : Function.Injective f) (sel : Sel) (H P : LGraph) :
    allMonos sel (H.relabel f) P = (allMonos sel H P).map (relabelHost f) := by
  unfold allMonos
  exact extend_relabel_host hf sel false H P P.ids []

theorem extendOk_relabel_pat {π : Nat → Nat} (hπ : Function.Injective π) (sel : Sel) (ind : Bool)
    (H P : LGraph) (acc : Mapping) (p h : Nat) :
    extendOk sel ind H (P.relabel π) (relabelPat π acc) (π p) h = extendOk sel ind H P acc p h := by
  unfold extendOk relabelPat
  rw [relabel_attrs hπ, List.any_map, List.all_map]
  congr 1
  apply congrArg (fun q => List.all acc q)
  funext qh
  simp only [Function.comp]
  rw [relabel_edge? hπ]

theorem extend_relabel_pat {π : Nat → Nat} (hπ : Function.Injective π) (sel : Sel) (ind : Bool)
    (H P : LGraph) (ps : List Nat) (acc : Mapping) :
    extend sel ind H (P.relabel π) (ps.map π) (relabelPat π acc) = (extend sel ind H P ps acc).map (relabelPat π) := by
  induction ps generalizing acc with
  | nil => simp [extend, relabelPat, List.map_reverse]
  | cons p ps ih =>
    simp only [List.map_cons, extend, List.map_flatMap]
    apply flatMap_congr'
    intro h _
    rw [extendOk_relabel_pat hπ]
    by_cases c : extendOk sel ind H P acc p h = true
    · simp only [c, if_true]
      exact ih ((p, h) :: acc)
    · simp [c]

/-- Pattern relabelling: likewise. -/
theorem allMonos_relabel_pattern_list {π : Nat → Nat} (hπ : Function.Injective π) (sel : Sel) (H P : LGraph) :
    allMonos sel H (P.relabel π) = (allMonos sel H P).map (relabelPat π) := by
  unfold allMonos
  rw [relabel_ids]
  exact extend_relabel_pat hπ sel false H P P.ids []

/-! ## Identity embedding of a sub-pattern -/

theorem idMap_get? (ids : List Nat) (v : Nat) (hv : v ∈ ids) :
    Mapping.get? (ids.map fun x => (x, x)) v = some v := by
  unfold Mapping.get?
  induction ids with
  | nil => cases hv
  | cons a rest ih =>
    rw [List.map_cons, List.find?_cons]
    by_cases h : a = v
    · have d : decide ((a, a).1 = v) = true := decide_eq_true h
      rw [d]; show some a = some v; rw [h]
    · have d : decide ((a, a).1 = v) = false := decide_eq_false h
      have hv' : v ∈ rest := by
        cases hv with
        | head => exact absurd rfl h
        | tail _ h' => exact h'
      rw [d]; exact ih hv'

theorem edge?_comm (g : LGraph) (u v : Nat) : g.edge? u v = g.edge? v u := by
  unfold LGraph.edge?
  have : (fun e : Nat × Nat × Attrs => decide ((e.1 = u ∧ e.2.1 = v) ∨ (e.1 = v ∧ e.2.1 = u))) =
      (fun e : Nat × Nat × Attrs => decide ((e.1 = v ∧ e.2.1 = u) ∨ (e.1 = u ∧ e.2.1 = v))) := by
    funext e; exact decide_eq_decide.2 Or.comm
  rw [this]

theorem edge?_some_mem (g : LGraph) (u v : Nat) (a : Attrs) (h : g.edge? u v = some a) :
    ∃ e ∈ g.edges, ((e.1 = u ∧ e.2.1 = v) ∨ (e.1 = v ∧ e.2.1 = u)) ∧ e.2.2 = a := by
  unfold LGraph.edge? at h
  cases hf : g.edges.find? (fun e => decide ((e.1 = u ∧ e.2.1 = v) ∨ (e.1 = v ∧ e.2.1 = u))) with
  | none => rw [hf] at h; cases h
  | some e =>
    rw [hf] at h
    simp only [Option.map_some, Option.some.injEq] at h
    have h1 := List.find?_some hf
    exact ⟨e, List.mem_of_find?_eq_some hf, of_decide_eq_true h1, h⟩

/-- The identity assignment survives every step of the back-tracking enumerator (direct proof,
independent of the enumerator's soundness/completeness theorem). -/
theorem id_mem_extend (sel : Sel) (H P : LGraph) (hsub : SubPattern sel H P) (pre ps : List Nat)
    (hnd : (pre ++ ps).Nodup) (hids : ∀ v ∈ ps, v ∈ P.ids) :
    ((pre ++ ps).map fun v => (v, v)) ∈ extend sel false H P ps ((pre.map fun v => (v, v)).reverse) := by
  induction ps generalizing pre with
  | nil => simp [extend]
  | cons p ps ih =>
    have hpP : p ∈ P.ids := hids p (List.mem_cons_self ..)
    obtain ⟨hpH, hnode⟩ := hsub.1 p hpP
    have hp_notin : p ∉ pre := by
      intro hin
      have := List.nodup_append.1 hnd
      exact this.2.2 p hin p (List.mem_cons_self ..) rfl
    have hok : extendOk sel false H P ((pre.map fun v => (v, v)).reverse) p p = true := by
      unfold extendOk
      rw [Bool.and_eq_true, Bool.and_eq_true, Bool.and_eq_true]
      refine ⟨⟨⟨?_, hnode⟩, by simp⟩, ?_⟩
      · rw [Bool.not_eq_true', List.any_eq_false]
        intro x hx
        simp only [List.mem_reverse, List.mem_map] at hx
        obtain ⟨v, hv, rfl⟩ := hx
        simp only [decide_eq_true_eq]
        intro e; exact hp_notin (e ▸ hv)
      · rw [List.all_eq_true]
        intro x hx
        simp only [List.mem_reverse, List.mem_map] at hx
        obtain ⟨q, _, rfl⟩ := hx
        cases hpe : P.edge? p q with
        | none => simp
        | some pa =>
          obtain ⟨e, he, hor, hattr⟩ := edge?_some_mem P p q pa hpe
          obtain ⟨ea, hea, hedge⟩ := hsub.2 e he
          have hH : H.edge? p q = some ea := by
            rcases hor with ⟨h1, h2⟩ | ⟨h1, h2⟩
            · rw [← h1, ← h2]; exact hea
            · rw [edge?_comm, ← h1, ← h2]; exact hea
          simp only [hH]
          rw [← hattr]; exact hedge
    have hrec := ih (pre ++ [p]) (by rw [List.append_assoc]; exact hnd)
      (fun v hv => hids v (List.mem_cons_of_mem _ hv))
    simp only [List.append_assoc, List.singleton_append, List.map_append, List.map_cons, List.map_nil,
      List.reverse_append, List.reverse_cons, List.reverse_nil, List.nil_append] at hrec
    simp only [extend]
    refine List.mem_flatMap.2 ⟨p, hpH, ?_⟩
    rw [if_pos hok]
    simpa using hrec

/-! ## Sub-patterns obtained by restriction -/

theorem nodeOk_set_hcount (sel : Sel) (a : Attrs) (n : Int) (hk : "hcount" ∉ sel.nodeKeys) (hn : n ≤ hcountOf a) :
    nodeOk sel a (Dict.set a "hcount" (Val.num n)) = true := by
  unfold nodeOk
  rw [Bool.and_eq_true]
  constructor
  · rw [List.all_eq_true]
    intro k hk'
    have hne : k ≠ "hcount" := fun e => hk (e ▸ hk')
    simp only [Attrs.get, Dict.getD, Dict.get?_set_other _ _ _ _ hne, decide_eq_true_eq]
  · have : hcountOf (Dict.set a "hcount" (Val.num n)) = n := by
      simp [hcountOf, Attrs.get, Dict.getD, Dict.get?_set_self]
    rw [this]
    simp [hn]

theorem edgeOk_refl (sel : Sel) (a : Attrs) : edgeOk sel a a = true := by
  simp [edgeOk]

theorem find_filter_id (ns : List (Nat × Attrs)) (keep : Nat → Bool) (v : Nat) (hv : keep v = true) :
    (ns.filter fun p => keep p.1).find? (fun p => decide (p.1 = v)) = ns.find? (fun p => decide (p.1 = v)) := by
  induction ns with
  | nil => rfl
  | cons a rest ih =>
    by_cases h : a.1 = v
    · have hk : keep a.1 = true := by rw [h]; exact hv
      rw [List.filter_cons_of_pos (by simpa using hk), List.find?_cons, List.find?_cons]
      simp [h]
    · by_cases hk : keep a.1 = true
      · rw [List.filter_cons_of_pos (by simpa using hk), List.find?_cons, List.find?_cons]
        simp [h, ih]
      · rw [List.filter_cons_of_neg (by simpa using hk), List.find?_cons]
        simp [h, ih]

theorem find_map_id (ns : List (Nat × Attrs)) (g : Nat × Attrs → Attrs) (v : Nat) :
    (ns.map fun p => (p.1, g p)).find? (fun p => decide (p.1 = v)) =
      (ns.find? (fun p => decide (p.1 = v))).map fun p => (p.1, g p) := by
  induction ns with
  | nil => rfl
  | cons a rest ih =>
    rw [List.map_cons, List.find?_cons, List.find?_cons]
    by_cases h : a.1 = v
    · simp [h]
    · simp [h, ih]

theorem mem_find_node (ns : List (Nat × Attrs)) (v : Nat) (hv : v ∈ ns.map (·.1)) :
    ∃ a, ns.find? (fun p => decide (p.1 = v)) = some (v, a) := by
  induction ns with
  | nil => cases hv
  | cons x rest ih =>
    rw [List.find?_cons]
    by_cases h : x.1 = v
    · refine ⟨x.2, ?_⟩
      have d : decide (x.1 = v) = true := decide_eq_true h
      rw [d]; show some x = some (v, x.2); rw [← h]
    · have hv' : v ∈ rest.map (·.1) := by
        rw [List.map_cons] at hv
        cases hv with
        | head => exact absurd rfl h
        | tail _ h' => exact h'
      obtain ⟨a, ha⟩ := ih hv'
      have d : decide (x.1 = v) = false := decide_eq_false h
      exact ⟨a, by rw [d]; exact ha⟩

theorem mem_ids_find (g : LGraph) (v : Nat) (hv : v ∈ g.ids) :
    ∃ a, g.nodes.find? (fun p => decide (p.1 = v)) = some (v, a) := mem_find_node g.nodes v hv

/-- In a well-formed graph the edge found between the ends of an edge is that edge. -/
theorem edge?_of_mem (g : LGraph) (hg : g.WF) (e : Nat × Nat × Attrs) (he : e ∈ g.edges) :
    g.edge? e.1 e.2.1 = some e.2.2 := by
  unfold LGraph.edge?
  cases hf : g.edges.find? (fun x => decide ((x.1 = e.1 ∧ x.2.1 = e.2.1) ∨ (x.1 = e.2.1 ∧ x.2.1 = e.1))) with
  | none =>
    have := List.find?_eq_none.1 hf e he
    simp at this
  | some x =>
    have hx := List.mem_of_find?_eq_some hf
    have hp : (x.1 = e.1 ∧ x.2.1 = e.2.1) ∨ (x.1 = e.2.1 ∧ x.2.1 = e.1) := by
      have := List.find?_some hf
      exact of_decide_eq_true this
    have hkey : (fun e : Nat × Nat × Attrs => (min e.1 e.2.1, max e.1 e.2.1)) x =
        (fun e : Nat × Nat × Attrs => (min e.1 e.2.1, max e.1 e.2.1)) e := by
      rcases hp with ⟨h1, h2⟩ | ⟨h1, h2⟩
      · simp only [h1, h2]
      · simp only [h1, h2, Nat.min_comm, Nat.max_comm]
    have := List.inj_on_of_nodup_map hg.2.2 hx he hkey
    rw [this]; rfl

theorem subPatternOf_ids_nodup (G : LGraph) (hG : G.ids.Nodup) (keep : Nat → Bool) (keepE : Nat → Nat → Bool)
    (capH : Nat → Int) : (subPatternOf G keep keepE capH).ids.Nodup := by
  have : (subPatternOf G keep keepE capH).ids = (G.nodes.filter fun p => keep p.1).map (·.1) := by
    simp [subPatternOf, LGraph.ids, List.map_map, Function.comp_def]
  rw [this]
  exact List.Nodup.sublist (List.Sublist.map _ List.filter_sublist) hG

/-! ## Sets of results modulo an equivalence -/

section SetMod
variable {R : Type} {E : R → R → Prop}

theorem SubsetMod.refl (hE : Equivalence E) (xs : List R) : SubsetMod E xs xs :=
  fun x hx => ⟨x, hx, hE.refl x⟩

theorem SubsetMod.trans (hE : Equivalence E) {xs ys zs : List R}
    (h1 : SubsetMod E xs ys) (h2 : SubsetMod E ys zs) : SubsetMod E xs zs := by
  intro x hx
  obtain ⟨y, hy, exy⟩ := h1 x hx
  obtain ⟨z, hz, eyz⟩ := h2 y hy
  exact ⟨z, hz, hE.trans exy eyz⟩

theorem SubsetMod.of_subset (hE : Equivalence E) {xs ys : List R} (h : ∀ x ∈ xs, x ∈ ys) : SubsetMod E xs ys :=
  fun x hx => ⟨x, h x hx, hE.refl x⟩

theorem SetEqMod.refl (hE : Equivalence E) (xs : List R) : SetEqMod E xs xs :=
  ⟨SubsetMod.refl hE xs, SubsetMod.refl hE xs⟩

theorem SetEqMod.symm {xs ys : List R} (h : SetEqMod E xs ys) : SetEqMod E ys xs := ⟨h.2, h.1⟩

theorem SetEqMod.trans (hE : Equivalence E) {xs ys zs : List R}
    (h1 : SetEqMod E xs ys) (h2 : SetEqMod E ys zs) : SetEqMod E xs zs :=
  ⟨SubsetMod.trans hE h1.1 h2.1, SubsetMod.trans hE h2.2 h1.2⟩

theorem SubsetMod.nil_right {xs : List R} (h : SubsetMod E xs []) : xs = [] := by
  cases xs with
  | nil => rfl
  | cons x rest =>
    obtain ⟨y, hy, _⟩ := h x (List.mem_cons_self ..)
    cases hy

/-- Congruence of `flatMap`: if every `m ∈ ms` has a partner `m' ∈ ms'` whose results cover those of `m`. -/
theorem SubsetMod.flatMap {α β : Type} {ms : List α} {ms' : List β} {g : α → List R} {g' : β → List R}
    (h : ∀ m ∈ ms, ∃ m' ∈ ms', SubsetMod E (g m) (g' m')) :
    SubsetMod E (ms.flatMap g) (ms'.flatMap g') := by
  intro x hx
  obtain ⟨m, hm, hxm⟩ := List.mem_flatMap.1 hx
  obtain ⟨m', hm', hsub⟩ := h m hm
  obtain ⟨y, hy, exy⟩ := hsub x hxm
  exact ⟨y, List.mem_flatMap.2 ⟨m', hm', hy⟩, exy⟩

end SetMod

/-! ## Equivariance of searches -/

/-- The match set of the relabelled pair is the relabelled match set. -/
def SearchEquivariant (srch : LGraph → LGraph → List Mapping) : Prop :=
  ∀ (H P : LGraph) (f π : Nat → Nat), Function.Injective f → Function.Injective π →
    ∀ m, m ∈ srch (H.relabel f) (P.relabel π) ↔ ∃ m₀ ∈ srch H P, m = relabelHost f (relabelPat π m₀)

theorem allMonos_searchEquivariant (sel : Sel) : SearchEquivariant (allMonos sel) := by
  intro H P f π hf hπ m
  rw [allMonos_relabel_host_list hf, allMonos_relabel_pattern_list hπ, List.map_map, List.mem_map]
  constructor
  · rintro ⟨m₀, h, rfl⟩; exact ⟨m₀, h, rfl⟩
  · rintro ⟨m₀, h, rfl⟩; exact ⟨m₀, h, rfl⟩

theorem searchEquivariant_isEmpty {srch : LGraph → LGraph → List Mapping} (h : SearchEquivariant srch)
    (H P : LGraph) (f π : Nat → Nat) (hf : Function.Injective f) (hπ : Function.Injective π) :
    (srch (H.relabel f) (P.relabel π)).isEmpty = (srch H P).isEmpty := by
  cases h1 : srch H P with
  | nil =>
    cases h2 : srch (H.relabel f) (P.relabel π) with
    | nil => rfl
    | cons m rest =>
      have : m ∈ srch (H.relabel f) (P.relabel π) := by rw [h2]; exact List.mem_cons_self ..
      obtain ⟨m₀, hm₀, _⟩ := (h H P f π hf hπ m).1 this
      rw [h1] at hm₀; cases hm₀
  | cons m₀ rest =>
    cases h2 : srch (H.relabel f) (P.relabel π) with
    | nil =>
      have : relabelHost f (relabelPat π m₀) ∈ srch (H.relabel f) (P.relabel π) :=
        (h H P f π hf hπ _).2 ⟨m₀, by rw [h1]; exact List.mem_cons_self .., rfl⟩
      rw [h2] at this; cases this
    | cons _ _ => rfl

/-- The fallback strategy inherits equivariance from the two searches it chooses between. -/
theorem searchBt_equivariant {comp all : LGraph → LGraph → List Mapping}
    (hc : SearchEquivariant comp) (ha : SearchEquivariant all) :
    SearchEquivariant (fun H P => searchBt (comp H P) (all H P)) := by
  intro H P f π hf hπ m
  simp only [searchBt]
  rw [searchEquivariant_isEmpty hc H P f π hf hπ]
  by_cases c : (comp H P).isEmpty = true
  · simp only [c, if_true]; exact ha H P f π hf hπ m
  · simp only [c]; exact hc H P f π hf hπ m

/-! ## Pruning -/

theorem mapOpt_some_mem {α β : Type} (f : α → Option β) (l : List α) (r : List β) (h : mapOpt f l = some r) :
    ∀ x ∈ r, ∃ a ∈ l, f a = some x := by
  induction l generalizing r with
  | nil =>
    simp only [mapOpt, Option.some.injEq] at h
    subst h; intro x hx; cases hx
  | cons a rest ih =>
    simp only [mapOpt] at h
    cases hfa : f a with
    | none => rw [hfa] at h; cases h
    | some b =>
      cases hr : mapOpt f rest with
      | none => rw [hfa, hr] at h; cases h
      | some bs =>
        rw [hfa, hr] at h
        simp only [Option.some.injEq] at h
        subst h
        intro x hx
        cases hx with
        | head => exact ⟨a, List.mem_cons_self .., hfa⟩
        | tail _ hx' =>
          obtain ⟨a', ha', e⟩ := ih bs hr x hx'
          exact ⟨a', List.mem_cons_of_mem _ ha', e⟩

theorem pickMin_mem (d : Mapping) (l : List Mapping) (hl : l ≠ []) : pickMin d l ∈ l := by
  induction l with
  | nil => exact absurd rfl hl
  | cons x xs ih =>
    simp only [pickMin]
    cases xs with
    | nil => simp
    | cons y ys =>
      have hm := ih (by simp)
      simp only [List.isEmpty_cons]
      by_cases c : lexLt (pickMin d (y :: ys)) x = true
      · simp only [c, if_true]; exact List.mem_cons_of_mem _ hm
      · simp only [c]; exact List.mem_cons_self ..

/-- The pruning key of a match is one of its images under the group. -/
theorem pruneKey_mem_orbit (keep : List Nat) (group : List Mapping) (m k : Mapping)
    (h : pruneKey keep group m = some k) : ∃ σ ∈ group, composeOn keep m σ = some k := by
  unfold pruneKey at h
  cases hr : mapOpt (composeOn keep m) group with
  | none => rw [hr] at h; cases h
  | some imgs =>
    rw [hr] at h
    cases imgs with
    | nil => cases h
    | cons i is =>
      simp only [Option.some.injEq] at h
      have hmem : pickMin i (i :: is) ∈ i :: is := pickMin_mem i (i :: is) (by simp)
      rw [h] at hmem
      exact mapOpt_some_mem _ _ _ hr k hmem

theorem dedupKey_sublist (key : Mapping → Option Mapping) (seen ms : List Mapping) :
    (dedupKey key seen ms).Sublist ms := by
  induction ms generalizing seen with
  | nil => exact List.Sublist.slnil
  | cons m ms ih =>
    simp only [dedupKey]
    cases hk : key m with
    | none => exact (ih seen).cons_cons m
    | some k =>
      simp only
      by_cases c : seen.contains k = true
      · simp only [c, if_true]; exact (ih seen).cons m
      · simp only [c]; exact (ih (k :: seen)).cons_cons m

/-- Every match is kept, or a kept (or earlier) match has the same key. -/
theorem dedupKey_covers (key : Mapping → Option Mapping) (seen ms : List Mapping) :
    ∀ m ∈ ms, m ∈ dedupKey key seen ms ∨
      ∃ k, key m = some k ∧ (k ∈ seen ∨ ∃ m' ∈ dedupKey key seen ms, key m' = some k) := by
  induction ms generalizing seen with
  | nil => intro m hm; cases hm
  | cons a ms ih =>
    intro m hm
    simp only [dedupKey]
    cases hk : key a with
    | none =>
      simp only
      cases hm with
      | head => exact Or.inl (List.mem_cons_self ..)
      | tail _ hm' =>
        rcases ih seen m hm' with h | ⟨k, hkm, h | ⟨m', hm'', hk'⟩⟩
        · exact Or.inl (List.mem_cons_of_mem _ h)
        · exact Or.inr ⟨k, hkm, Or.inl h⟩
        · exact Or.inr ⟨k, hkm, Or.inr ⟨m', List.mem_cons_of_mem _ hm'', hk'⟩⟩
    | some k =>
      simp only
      by_cases c : seen.contains k = true
      · simp only [c, if_true]
        cases hm with
        | head => exact Or.inr ⟨k, hk, Or.inl (List.contains_iff_mem.1 c)⟩
        | tail _ hm' => exact ih seen m hm'
      · simp only [c]
        cases hm with
        | head => exact Or.inl (List.mem_cons_self ..)
        | tail _ hm' =>
          rcases ih (k :: seen) m hm' with h | ⟨k', hkm, h | ⟨m', hm'', hk'⟩⟩
          · exact Or.inl (List.mem_cons_of_mem _ h)
          · cases h with
            | head => exact Or.inr ⟨k, hkm, Or.inr ⟨a, List.mem_cons_self .., hk⟩⟩
            | tail _ h' => exact Or.inr ⟨k', hkm, Or.inl h'⟩
          · exact Or.inr ⟨k', hkm, Or.inr ⟨m', List.mem_cons_of_mem _ hm'', hk'⟩⟩

theorem pruneByAut_sublist (mg : Nat) (keep : List Nat) (group ms : List Mapping) :
    (pruneByAut mg keep group ms).Sublist ms := by
  unfold pruneByAut
  split
  · exact List.Sublist.refl _
  · split
    · exact List.Sublist.refl _
    · exact dedupKey_sublist _ _ _

/-- Every raw match is kept or shares its pruning key with a kept match. -/
theorem pruneByAut_covers (mg : Nat) (keep : List Nat) (group ms : List Mapping) :
    ∀ m ∈ ms, m ∈ pruneByAut mg keep group ms ∨
      ∃ k m', m' ∈ pruneByAut mg keep group ms ∧ pruneKey keep group m = some k ∧ pruneKey keep group m' = some k := by
  intro m hm
  unfold pruneByAut
  split
  · exact Or.inl hm
  · split
    · exact Or.inl hm
    · rcases dedupKey_covers (pruneKey keep group) [] ms m hm with h | ⟨k, hk, h | ⟨m', hm', hk'⟩⟩
      · exact Or.inl h
      · cases h
      · exact Or.inr ⟨k, m', hm', hk, hk'⟩

end SynKit.ReactorInv

import SynKitProofs.AutomorphismOrbits
/-! The WL-1 colour refinement is invariant under automorphisms at every round (C11). -/
namespace SynKit.Aut
open SynKit SynKit.Match

/-! ## the palette loop numbers labels by equivalence class -/

structure EqvOk {L : Type} (eqv : L → L → Bool) : Prop where
  refl : ∀ a, eqv a a = true
  symm : ∀ a b, eqv a b = true → eqv b a = true
  trans : ∀ a b c, eqv a b = true → eqv b c = true → eqv a c = true

def PalOk {L : Type} (eqv : L → L → Bool) (pal : List L) : Prop :=
  ∀ i j (hi : i < pal.length) (hj : j < pal.length), eqv pal[i] pal[j] = true → i = j

theorem assign_keys {L : Type} (eqv : L → L → Bool) (items : List (Nat × L)) :
    ∀ pal, (assign eqv items pal).map (·.1) = items.map (·.1) := by
  induction items with
  | nil => intro pal; rfl
  | cons it rest ih =>
    intro pal
    obtain ⟨v, l⟩ := it
    simp only [assign]
    split <;> simp [ih]

theorem colorOf_cons_self (v c : Nat) (rest : Colors) : colorOf ((v, c) :: rest) v = c := by
  simp [colorOf]

theorem colorOf_cons_ne {v u c : Nat} (h : u ≠ v) (rest : Colors) : colorOf ((u, c) :: rest) v = colorOf rest v := by
  simp [colorOf, h]

theorem assign_spec {L : Type} {eqv : L → L → Bool} (he : EqvOk eqv) (items : List (Nat × L)) :
    ∀ pal, PalOk eqv pal → (items.map (·.1)).Nodup →
      ∃ pal', PalOk eqv pal' ∧ (∃ t, pal' = pal ++ t) ∧
        ∀ v l, (v, l) ∈ items → ∃ i, ∃ hi : i < pal'.length, eqv pal'[i] l = true ∧
          colorOf (assign eqv items pal) v = i := by
  induction items with
  | nil => intro pal hp _; exact ⟨pal, hp, ⟨[], by simp⟩, fun _ _ h => by cases h⟩
  | cons it rest ih =>
    intro pal hp hn
    obtain ⟨v0, l0⟩ := it
    have hn' := List.nodup_cons.1 (by simpa only [List.map_cons] using hn)
    have hne : ∀ v l, (v, l) ∈ rest → v0 ≠ v := by
      intro v l hvl e
      exact hn'.1 (e ▸ List.mem_map.2 ⟨(v, l), hvl, rfl⟩)
    simp only [assign]
    cases hf : pal.findIdx? (fun q => eqv q l0) with
    | some i =>
      obtain ⟨hi, hpi, _⟩ := List.findIdx?_eq_some_iff_getElem.1 hf
      obtain ⟨pal', hp', ⟨t, ht⟩, hall⟩ := ih pal hp hn'.2
      refine ⟨pal', hp', ⟨t, ht⟩, ?_⟩
      intro v l hvl
      rcases List.mem_cons.1 hvl with heq | hvl
      · cases heq
        have hi' : i < pal'.length := by rw [ht, List.length_append]; omega
        refine ⟨i, hi', ?_, colorOf_cons_self _ _ _⟩
        have : pal'[i] = pal[i] := by simp only [ht]; rw [List.getElem_append_left hi]
        rw [this]; exact hpi
      · obtain ⟨j, hj, h1, h2⟩ := hall v l hvl
        exact ⟨j, hj, h1, by rw [colorOf_cons_ne (hne v l hvl)]; exact h2⟩
    | none =>
      have hnone := List.findIdx?_eq_none_iff.1 hf
      have hp2 : PalOk eqv (pal ++ [l0]) := by
        intro i j hi hj hij
        simp only [List.length_append, List.length_singleton] at hi hj
        by_cases h1 : i < pal.length
        · by_cases h2 : j < pal.length
          · rw [List.getElem_append_left h1, List.getElem_append_left h2] at hij
            exact hp i j h1 h2 hij
          · have hj' : j = pal.length := by omega
            subst hj'
            rw [List.getElem_append_left h1, List.getElem_append_right (by omega)] at hij
            simp only [Nat.sub_self, List.getElem_singleton] at hij
            have := hnone pal[i] (List.getElem_mem h1)
            rw [hij] at this; cases this
        · have hi' : i = pal.length := by omega
          subst hi'
          by_cases h2 : j < pal.length
          · rw [List.getElem_append_right (by omega), List.getElem_append_left h2] at hij
            simp only [Nat.sub_self, List.getElem_singleton] at hij
            have := hnone pal[j] (List.getElem_mem h2)
            rw [he.symm _ _ hij] at this; cases this
          · omega
      obtain ⟨pal', hp', ⟨t, ht⟩, hall⟩ := ih (pal ++ [l0]) hp2 hn'.2
      refine ⟨pal', hp', ⟨[l0] ++ t, by rw [ht]; simp⟩, ?_⟩
      intro v l hvl
      rcases List.mem_cons.1 hvl with heq | hvl
      · cases heq
        have hi' : pal.length < pal'.length := by rw [ht]; simp
        refine ⟨pal.length, hi', ?_, colorOf_cons_self _ _ _⟩
        have : pal'[pal.length] = l0 := by
          simp only [ht]
          rw [List.getElem_append_left (by simp)]
          rw [List.getElem_append_right (by omega)]
          simp
        rw [this]; exact he.refl _
      · obtain ⟨j, hj, h1, h2⟩ := hall v l hvl
        exact ⟨j, hj, h1, by rw [colorOf_cons_ne (hne v l hvl)]; exact h2⟩

/-- two items get the same colour exactly when their labels are equivalent -/
theorem assign_color_eq_iff {L : Type} {eqv : L → L → Bool} (he : EqvOk eqv) {items : List (Nat × L)}
    (hn : (items.map (·.1)).Nodup) {u v : Nat} {lu lv : L} (hu : (u, lu) ∈ items) (hv : (v, lv) ∈ items) :
    colorOf (assign eqv items []) u = colorOf (assign eqv items []) v ↔ eqv lu lv = true := by
  obtain ⟨pal', hp', _, hall⟩ := assign_spec he items [] (by intro i j hi; simp at hi) hn
  obtain ⟨i, hi, hi1, hi2⟩ := hall u lu hu
  obtain ⟨j, hj, hj1, hj2⟩ := hall v lv hv
  rw [hi2, hj2]
  constructor
  · intro h; subst h
    exact he.trans _ _ _ (he.symm _ _ hi1) hj1
  · intro h
    exact hp' i j hi hj (he.trans _ _ _ (he.trans _ _ _ hi1 h) (he.symm _ _ hj1))

/-! ## invariance of every round -/

theorem eqvOk_eq {L : Type} [DecidableEq L] : EqvOk (fun a b : L => decide (a = b)) :=
  ⟨by simp, by intro a b h; simp at h; simp [h], by intro a b c h1 h2; simp at h1 h2; simp [h1, h2]⟩

theorem eqvOk_label : EqvOk labelEqv := by
  refine ⟨?_, ?_, ?_⟩
  · intro a; simp [labelEqv, List.isPerm_iff]
  · intro a b h
    simp only [labelEqv, Bool.and_eq_true, beq_iff_eq, List.isPerm_iff] at h ⊢
    exact ⟨h.1.symm, h.2.symm⟩
  · intro a b c h1 h2
    simp only [labelEqv, Bool.and_eq_true, beq_iff_eq, List.isPerm_iff] at h1 h2 ⊢
    exact ⟨h1.1.trans h2.1, h1.2.trans h2.2⟩

/-- an automorphism permutes neighbourhoods -/
theorem neighbors_perm {sel : Sel} {G : LGraph} (hwf : G.WF) {f : Nat → Nat} (hf : IsAutFn sel G f)
    {v : Nat} (hv : v ∈ G.ids) : (G.neighbors (f v)).Perm ((G.neighbors v).map f) := by
  have hn2 : ((G.neighbors v).map f).Nodup :=
    List.Nodup.map_on (fun x hx y hy h => hf.inj x (neighbors_subset_ids hwf hx) y (neighbors_subset_ids hwf hy) h)
      (neighbors_nodup hwf v)
  rw [List.perm_ext_iff_of_nodup (neighbors_nodup hwf _) hn2]
  intro w
  rw [mem_neighbors_iff, List.mem_map]
  constructor
  · intro h
    obtain ⟨a, ha⟩ := Option.isSome_iff_exists.1 h
    obtain ⟨w', hw', rfl⟩ := hf.surj hwf w (edge?_some_ids hwf ha).2.1
    refine ⟨w', ?_, rfl⟩
    rw [mem_neighbors_iff]
    cases hE : G.edge? v w' with
    | some _ => rfl
    | none => rw [hf.nonedge v hv w' hw' hE] at ha; cases ha
  · rintro ⟨w', hw', rfl⟩
    rw [mem_neighbors_iff] at hw'
    obtain ⟨a, ha⟩ := Option.isSome_iff_exists.1 hw'
    obtain ⟨b, hb, _⟩ := hf.edge v hv w' (edge?_some_ids hwf ha).2.1 a ha
    simp [hb]

/-- all colours of `col` are invariant under `f` -/
def ColInv (G : LGraph) (col : Colors) (f : Nat → Nat) : Prop := ∀ v ∈ G.ids, colorOf col (f v) = colorOf col v

theorem items_mem {L : Type} {G : LGraph} {lab : Nat → L} {v : Nat} (hv : v ∈ G.ids) :
    (v, lab v) ∈ G.ids.map (fun v => (v, lab v)) := List.mem_map.2 ⟨v, hv, rfl⟩

theorem items_keys {L : Type} (G : LGraph) (lab : Nat → L) :
    ((G.ids.map fun v => (v, lab v)).map (·.1)) = G.ids := by
  rw [List.map_map]
  exact (List.map_congr_left (fun _ _ => rfl)).trans (List.map_id _)

theorem init_inv (c : EstCfg) {G : LGraph} (hwf : G.WF) {f : Nat → Nat} (hf : IsAutFn c.sel G f) :
    ColInv G (initColors c G) f := by
  intro v hv
  unfold initColors
  rw [assign_color_eq_iff eqvOk_eq (by rw [items_keys]; exact hwf.1) (items_mem (hf.maps v hv)) (items_mem hv)]
  simp only [decide_eq_true_eq, initialLabel, Prod.mk.injEq]
  refine ⟨?_, ?_⟩
  · rw [(neighbors_perm hwf hf hv).length_eq, List.length_map]
  · apply List.map_congr_left
    intro k hk
    exact (nodeOk_iff rfl _ _).1 (hf.node v hv) k hk

theorem sweep_inv (c : EstCfg) {G : LGraph} (hwf : G.WF) {f : Nat → Nat} (hf : IsAutFn c.sel G f)
    {col : Colors} (hc : ColInv G col f) : ColInv G (sweep c G col) f := by
  intro v hv
  unfold sweep
  rw [assign_color_eq_iff eqvOk_label (by rw [items_keys]; exact hwf.1) (items_mem (hf.maps v hv)) (items_mem hv)]
  simp only [labelEqv, refinedLabel, Bool.and_eq_true, beq_iff_eq, List.isPerm_iff]
  refine ⟨hc v hv, ?_⟩
  have h1 := (neighbors_perm hwf hf hv).map (sigOf c G col (f v))
  refine h1.trans ?_
  rw [List.map_map]
  apply List.Perm.of_eq
  apply List.map_congr_left
  intro w hw
  have hwids := neighbors_subset_ids hwf hw
  rw [mem_neighbors_iff] at hw
  obtain ⟨a, ha⟩ := Option.isSome_iff_exists.1 hw
  obtain ⟨b, hb1, hb2⟩ := hf.edge v hv w hwids a ha
  simp only [Function.comp, sigOf, Prod.mk.injEq, hb1, ha, Option.getD_some]
  refine ⟨hc w hwids, ?_⟩
  apply List.map_congr_left
  intro k hk
  exact (edgeOk_iff _ _).1 hb2 k hk

theorem colorsAt_inv (c : EstCfg) {G : LGraph} (hwf : G.WF) {f : Nat → Nat} (hf : IsAutFn c.sel G f) :
    ∀ k, ColInv G (colorsAt c G k) f
  | 0 => init_inv c hwf hf
  | k + 1 => sweep_inv c hwf hf (colorsAt_inv c hwf hf k)

/-- the early-stopping loop ends with the colours of some round -/
theorem refine_eq_colorsAt (c : EstCfg) (G : LGraph) : ∀ fuel i, ∃ j, refine c G fuel (colorsAt c G i) = colorsAt c G (i + j) := by
  intro fuel
  induction fuel with
  | zero => intro i; exact ⟨0, rfl⟩
  | succ n ih =>
    intro i
    have hstep : refine c G (n + 1) (colorsAt c G i) =
        if (refineOnce c G (colorsAt c G i)).2 = true then refine c G n (refineOnce c G (colorsAt c G i)).1
        else (refineOnce c G (colorsAt c G i)).1 := rfl
    have hsw : (refineOnce c G (colorsAt c G i)).1 = colorsAt c G (i + 1) := rfl
    rw [hstep, hsw]
    by_cases hch : (refineOnce c G (colorsAt c G i)).2 = true
    · rw [if_pos hch]
      obtain ⟨j, hj⟩ := ih (i + 1)
      exact ⟨j + 1, by rw [hj]; congr 1; omega⟩
    · rw [if_neg hch]; exact ⟨1, rfl⟩

theorem finalColors_eq (c : EstCfg) (G : LGraph) : ∃ j, finalColors c G = colorsAt c G j := by
  obtain ⟨j, hj⟩ := refine_eq_colorsAt c G c.maxIter 0
  exact ⟨0 + j, hj⟩

theorem colorsAt_keys (c : EstCfg) (G : LGraph) : ∀ k, (colorsAt c G k).map (·.1) = G.ids
  | 0 => by simp only [colorsAt, initColors]; rw [assign_keys, items_keys]
  | k + 1 => by simp only [colorsAt, sweep]; rw [assign_keys, items_keys]

/-- nodes of equal colour share a class of `orbitsOfColors` -/
theorem sameClass_of_color_eq {col : Colors} (hn : (col.map (·.1)).Nodup) {u v : Nat}
    (hu : u ∈ col.map (·.1)) (hv : v ∈ col.map (·.1)) (h : colorOf col u = colorOf col v) :
    SameClass (orbitsOfColors col) u v := by
  obtain ⟨⟨u', cu⟩, hpu, rfl⟩ := List.mem_map.1 hu
  obtain ⟨⟨v', cv⟩, hpv, rfl⟩ := List.mem_map.1 hv
  have e1 : colorOf col u' = cu := by
    unfold colorOf; rw [find?_fst_of_nodup hn hpu]; rfl
  have e2 : colorOf col v' = cv := by
    unfold colorOf; rw [find?_fst_of_nodup hn hpv]; rfl
  simp only at h
  rw [e1, e2] at h
  subst h
  refine ⟨_, (mem_dedupR _ _).2 (List.mem_map.2 ⟨(u', cu), hpu, rfl⟩), ?_, ?_⟩
  · rw [mem_sortDedup]; exact List.mem_map.2 ⟨(u', cu), List.mem_filter.2 ⟨hpu, by simp⟩, rfl⟩
  · rw [mem_sortDedup]; exact List.mem_map.2 ⟨(v', cu), List.mem_filter.2 ⟨hpv, by simp⟩, rfl⟩

end SynKit.Aut

import SynKitModel.Match
import Mathlib.Data.List.Basic
import Mathlib.Data.List.Nodup
import Mathlib.Data.List.Pairwise
import Mathlib.Data.List.Perm.Subperm
import Mathlib.Logic.Function.Basic
/-! Soundness and completeness of the back-tracking enumerator (shared engine). -/
namespace SynKit.Match

/-! ## Graph look-up lemmas -/

theorem edge?_comm (G : LGraph) (u v : Nat) : G.edge? u v = G.edge? v u := by
  unfold LGraph.edge?
  congr 2
  funext e
  simp only [decide_eq_decide]
  exact Or.comm

theorem hasEdge_comm (G : LGraph) (u v : Nat) : G.hasEdge u v = G.hasEdge v u := by
  unfold LGraph.hasEdge; rw [edge?_comm]

/-- An edge found by `edge?` is an edge of the graph joining the two nodes. -/
theorem edge?_some_mem (G : LGraph) (u v : Nat) (a : Attrs) (h : G.edge? u v = some a) :
    ∃ e ∈ G.edges, e.2.2 = a ∧ ((e.1 = u ∧ e.2.1 = v) ∨ (e.1 = v ∧ e.2.1 = u)) := by
  unfold LGraph.edge? at h
  rw [Option.map_eq_some_iff] at h
  obtain ⟨e, he, rfl⟩ := h
  refine ⟨e, List.mem_of_find?_eq_some he, rfl, ?_⟩
  have := List.find?_some he
  simpa using this

theorem edge?_isSome_of_mem (G : LGraph) (e : Nat × Nat × Attrs) (he : e ∈ G.edges) :
    (G.edge? e.1 e.2.1).isSome = true := by
  unfold LGraph.edge?
  rw [Option.isSome_map, List.find?_isSome]
  exact ⟨e, he, by simp⟩

/-- In a graph without parallel edges the look-up of an edge returns that edge's attributes. -/
theorem edge?_of_mem (G : LGraph) (hG : G.WF) (e : Nat × Nat × Attrs) (he : e ∈ G.edges) :
    G.edge? e.1 e.2.1 = some e.2.2 := by
  obtain ⟨-, -, hnd⟩ := hG
  unfold LGraph.edge?
  generalize G.edges = es at he hnd
  induction es with
  | nil => simp at he
  | cons x xs ih =>
    simp only [List.map_cons, List.nodup_cons] at hnd
    rw [List.find?_cons]
    by_cases hx : (decide ((x.1 = e.1 ∧ x.2.1 = e.2.1) ∨ (x.1 = e.2.1 ∧ x.2.1 = e.1))) = true
    · rw [hx]
      simp only [Option.map_some, Option.some.injEq]
      rcases List.mem_cons.1 he with rfl | hmem
      · rfl
      · exfalso
        apply hnd.1
        simp only [decide_eq_true_eq] at hx
        refine List.mem_map.2 ⟨e, hmem, ?_⟩
        rcases hx with ⟨h1, h2⟩ | ⟨h1, h2⟩
        · rw [h1, h2]
        · rw [h1, h2, Nat.min_comm, Nat.max_comm]
    · simp only [Bool.not_eq_true] at hx
      rw [hx]
      rcases List.mem_cons.1 he with rfl | hmem
      · simp at hx
      · exact ih hmem hnd.2

theorem hasEdge_self_false (G : LGraph) (hG : G.WF) (v : Nat) : G.hasEdge v v = false := by
  unfold LGraph.hasEdge
  cases h : G.edge? v v with
  | none => rfl
  | some a =>
    obtain ⟨e, he, -, hh⟩ := edge?_some_mem G v v a h
    exfalso
    have := (hG.2.1 e he).2.2
    rcases hh with ⟨h1, h2⟩ | ⟨h1, h2⟩ <;> exact this (h1.trans h2.symm)

/-! ## Mapping look-up lemmas -/

theorem get?_of_mem (m : Mapping) (hn : (m.map (·.1)).Nodup) (p h : Nat) (hm : (p, h) ∈ m) :
    m.get? p = some h := by
  unfold Mapping.get?
  induction m with
  | nil => simp at hm
  | cons x xs ih =>
    simp only [List.map_cons, List.nodup_cons] at hn
    rw [List.find?_cons]
    rcases List.mem_cons.1 hm with rfl | hmem
    · simp
    · have : x.1 ≠ p := by
        rintro rfl; exact hn.1 (List.mem_map.2 ⟨(x.1, h), hmem, rfl⟩)
      simp only [this, decide_false]
      exact ih hn.2 hmem

theorem mem_of_get? (m : Mapping) (p h : Nat) (hm : m.get? p = some h) : (p, h) ∈ m := by
  unfold Mapping.get? at hm
  rw [Option.map_eq_some_iff] at hm
  obtain ⟨x, hx, rfl⟩ := hm
  have h1 := List.mem_of_find?_eq_some hx
  have h2 := List.find?_some hx
  simp only [decide_eq_true_eq] at h2
  rw [← h2]; exact h1

theorem get?_isSome_of_mem_fst (m : Mapping) (p : Nat) (hp : p ∈ m.map (·.1)) :
    ∃ h, m.get? p = some h ∧ (p, h) ∈ m := by
  cases hg : m.get? p with
  | some h => exact ⟨h, rfl, mem_of_get? m p h hg⟩
  | none =>
    exfalso
    unfold Mapping.get? at hg
    rw [Option.map_eq_none_iff, List.find?_eq_none] at hg
    obtain ⟨x, hx, rfl⟩ := List.mem_map.1 hp
    exact hg x hx (by simp)

/-! ## The enumerator -/

section Engine
variable (sel : Sel) (induced : Bool) (H P : LGraph)

/-- `new` (most recent first) is a chain of accepted extensions on top of `acc`. -/
def ValidExt (acc : Mapping) : Mapping → Prop
  | [] => True
  | (p, h) :: rest => ValidExt acc rest ∧ h ∈ H.ids ∧ extendOk sel induced H P (rest ++ acc) p h = true

theorem validExt_snoc (acc new : Mapping) (p h : Nat) :
    ValidExt sel induced H P acc (new ++ [(p, h)]) ↔
      (h ∈ H.ids ∧ extendOk sel induced H P acc p h = true) ∧ ValidExt sel induced H P ((p, h) :: acc) new := by
  induction new with
  | nil => simp [ValidExt]
  | cons x xs ih =>
    obtain ⟨q, g⟩ := x
    simp only [List.cons_append, ValidExt, ih, List.append_assoc]
    constructor
    · rintro ⟨⟨a, b⟩, c, d⟩; exact ⟨a, b, c, d⟩
    · rintro ⟨a, b, c, d⟩; exact ⟨⟨a, b⟩, c, d⟩

theorem mem_extend (ps : List Nat) (acc m : Mapping) :
    m ∈ extend sel induced H P ps acc ↔
      ∃ new, m = (new ++ acc).reverse ∧ new.map Prod.fst = ps.reverse ∧ ValidExt sel induced H P acc new := by
  induction ps generalizing acc m with
  | nil =>
    simp only [extend, List.mem_singleton, List.reverse_nil, List.map_eq_nil_iff]
    constructor
    · intro h; exact ⟨[], by simp [h], rfl, trivial⟩
    · rintro ⟨new, rfl, rfl, -⟩; rfl
  | cons p ps ih =>
    simp only [extend, List.mem_flatMap]
    constructor
    · rintro ⟨h, hh, hm⟩
      split at hm
      · next hok =>
        obtain ⟨new, rfl, hfst, hv⟩ := (ih _ _).1 hm
        exact ⟨new ++ [(p, h)], by simp, by simp [hfst],
          (validExt_snoc sel induced H P acc new p h).2 ⟨⟨hh, hok⟩, hv⟩⟩
      · simp at hm
    · rintro ⟨new, rfl, hfst, hv⟩
      rw [List.reverse_cons] at hfst
      obtain ⟨init, ⟨q, h⟩, rfl⟩ : ∃ init x, new = init ++ [x] := by
        cases hne : new.reverse with
        | nil => simp_all
        | cons x xs => exact ⟨xs.reverse, x, by simpa using congrArg List.reverse hne⟩
      simp only [List.map_append, List.map_cons, List.map_nil] at hfst
      obtain ⟨h1, h2⟩ := List.append_inj' hfst rfl
      simp only [List.cons.injEq, and_true] at h2
      subst h2
      obtain ⟨⟨hh, hok⟩, hv'⟩ := (validExt_snoc sel induced H P acc init q h).1 hv
      refine ⟨h, hh, ?_⟩
      rw [if_pos hok]
      exact (ih _ _).2 ⟨init, by simp, h1, hv'⟩

/-- Compatibility of two assigned pairs: a pattern edge needs a host edge with matching
attributes; with `induced` a pattern non-edge needs a host non-edge. -/
def pairOk (x y : Nat × Nat) : Bool :=
  match P.edge? x.1 y.1 with
  | some pa => (match H.edge? x.2 y.2 with
      | some ea => edgeOk sel ea pa
      | none => false)
  | none => !induced || !(H.hasEdge x.2 y.2)

theorem pairOk_comm (x y : Nat × Nat) : pairOk sel induced H P x y = pairOk sel induced H P y x := by
  unfold pairOk
  rw [edge?_comm P, edge?_comm H, hasEdge_comm H]

/-- The relation that has to hold between any two assigned pairs. -/
def PairRel (x y : Nat × Nat) : Prop := x.2 ≠ y.2 ∧ pairOk sel induced H P x y = true

theorem pairRel_symm : ∀ x y, PairRel sel induced H P x y → PairRel sel induced H P y x := by
  rintro x y ⟨h1, h2⟩
  exact ⟨Ne.symm h1, by rw [pairOk_comm]; exact h2⟩

/-- What has to hold of every assigned pair on its own. -/
def NodeCond (x : Nat × Nat) : Prop :=
  x.2 ∈ H.ids ∧ nodeOk sel (H.attrs x.2) (P.attrs x.1) = true ∧ (induced = true → H.hasEdge x.2 x.2 = false)

theorem extendOk_iff (acc : Mapping) (p h : Nat) :
    extendOk sel induced H P acc p h = true ↔
      (∀ y ∈ acc, PairRel sel induced H P (p, h) y) ∧
      nodeOk sel (H.attrs h) (P.attrs p) = true ∧ (induced = true → H.hasEdge h h = false) := by
  unfold extendOk PairRel pairOk
  simp only [Bool.and_eq_true, Bool.not_eq_true', List.any_eq_false, decide_eq_true_eq, List.all_eq_true,
    Bool.or_eq_true, Bool.not_eq_true']
  constructor
  · rintro ⟨⟨⟨h1, h2⟩, h3⟩, h4⟩
    refine ⟨fun y hy => ⟨fun e => h1 y hy e.symm, h4 y hy⟩, h2, ?_⟩
    intro hi; rcases h3 with h3 | h3
    · rw [hi] at h3; cases h3
    · exact h3
  · rintro ⟨h1, h2, h3⟩
    refine ⟨⟨⟨fun y hy e => (h1 y hy).1 e.symm, h2⟩, ?_⟩, fun y hy => (h1 y hy).2⟩
    cases induced with
    | false => exact Or.inl rfl
    | true => exact Or.inr (h3 rfl)

theorem validExt_nil_iff (l : Mapping) :
    ValidExt sel induced H P [] l ↔
      l.Pairwise (PairRel sel induced H P) ∧ ∀ x ∈ l, NodeCond sel induced H P x := by
  induction l with
  | nil => simp [ValidExt]
  | cons x xs ih =>
    obtain ⟨p, h⟩ := x
    simp only [ValidExt, List.append_nil, ih, List.pairwise_cons, List.forall_mem_cons, extendOk_iff, NodeCond]
    constructor
    · rintro ⟨⟨a, b⟩, c, d, e, f⟩; exact ⟨⟨d, a⟩, ⟨c, e, f⟩, b⟩
    · rintro ⟨⟨d, a⟩, ⟨c, e, f⟩, b⟩; exact ⟨⟨a, b⟩, c, d, e, f⟩

/-- Characterisation of the enumerator's output in the pattern's node order. -/
theorem mem_extend_nil (m : Mapping) :
    m ∈ extend sel induced H P P.ids [] ↔
      m.map Prod.fst = P.ids ∧ m.Pairwise (PairRel sel induced H P) ∧ ∀ x ∈ m, NodeCond sel induced H P x := by
  rw [mem_extend]
  constructor
  · rintro ⟨new, rfl, hfst, hv⟩
    rw [validExt_nil_iff] at hv
    refine ⟨?_, ?_, ?_⟩
    · rw [List.append_nil, List.map_reverse, hfst, List.reverse_reverse]
    · rw [List.append_nil, List.pairwise_reverse]
      exact hv.1.imp (fun {a b} hab => pairRel_symm sel induced H P a b hab)
    · intro x hx; rw [List.append_nil, List.mem_reverse] at hx; exact hv.2 x hx
  · rintro ⟨hfst, hp, hn⟩
    refine ⟨m.reverse, by simp, by rw [List.map_reverse, hfst], ?_⟩
    rw [validExt_nil_iff]
    refine ⟨?_, fun x hx => hn x (List.mem_reverse.1 hx)⟩
    rw [List.pairwise_reverse]
    exact hp.imp (fun {a b} hab => pairRel_symm sel induced H P a b hab)


/-- The specification the enumerator meets, uniformly in the `induced` flag. -/
def GenSpec (m : Mapping) : Prop :=
  IsMono sel H P m ∧
  (induced = true → ∀ p q hp hq, m.get? p = some hp → m.get? q = some hq →
      P.hasEdge p q = false → H.hasEdge hp hq = false)

theorem genSpec_iff (hP : P.WF) (m : Mapping) :
    GenSpec sel induced H P m ↔
      m.map Prod.fst = P.ids ∧ m.Pairwise (PairRel sel induced H P) ∧ ∀ x ∈ m, NodeCond sel induced H P x := by
  constructor
  · rintro ⟨⟨hfst, hnd, hnode, hedge⟩, hind⟩
    have hfn : (m.map (·.1)).Nodup := by
      have : m.map (·.1) = P.ids := hfst
      rw [this]; exact hP.1
    refine ⟨hfst, ?_, ?_⟩
    · have hmn : m.Nodup := List.Nodup.of_map _ hfn
      refine hmn.pairwise_of_forall_ne ?_
      rintro ⟨p, h⟩ ha ⟨q, g⟩ hb hne
      have hgp := get?_of_mem m hfn p h ha
      have hgq := get?_of_mem m hfn q g hb
      have hpq : p ≠ q := by
        rintro rfl
        rw [hgp] at hgq
        exact hne (by rw [Option.some.inj hgq])
      refine ⟨?_, ?_⟩
      · intro e
        exact hne (List.inj_on_of_nodup_map hnd ha hb e)
      · unfold pairOk
        cases hpe : P.edge? p q with
        | none =>
          simp only
          cases hi : induced with
          | false => rfl
          | true =>
            have : P.hasEdge p q = false := by unfold LGraph.hasEdge; rw [hpe]; rfl
            simp [hind hi p q h g hgp hgq this]
        | some pa =>
          simp only
          obtain ⟨e, he, rfl, hends⟩ := edge?_some_mem P p q pa hpe
          obtain ⟨hu, hv, ea, h1, h2, h3, h4⟩ := hedge e he
          rcases hends with ⟨e1, e2⟩ | ⟨e1, e2⟩
          · rw [e1, hgp] at h1; rw [e2, hgq] at h2
            cases h1; cases h2
            rw [h3]; exact h4
          · rw [e1, hgq] at h1; rw [e2, hgp] at h2
            cases h1; cases h2
            rw [edge?_comm, h3]; exact h4
    · rintro ⟨p, h⟩ hx
      refine ⟨(hnode _ hx).1, (hnode _ hx).2, ?_⟩
      intro hi
      have hgp := get?_of_mem m hfn p h hx
      exact hind hi p p h h hgp hgp (hasEdge_self_false P hP p)
  · rintro ⟨hfst, hpw, hnc⟩
    have hfn : (m.map (·.1)).Nodup := by
      have : m.map (·.1) = P.ids := hfst
      rw [this]; exact hP.1
    have hsymm : Std.Symm (PairRel sel induced H P) := ⟨fun x y => pairRel_symm sel induced H P x y⟩
    refine ⟨⟨hfst, ?_, fun x hx => ⟨(hnc x hx).1, (hnc x hx).2.1⟩, ?_⟩, ?_⟩
    · rw [List.Nodup, List.pairwise_map]
      exact hpw.imp (fun {a b} hab => hab.1)
    · intro e he
      obtain ⟨h1, h2, h3⟩ := hP.2.1 e he
      have h1' : e.1 ∈ m.map (·.1) := by
        have : m.map (·.1) = P.ids := hfst
        rw [this]; exact h1
      have h2' : e.2.1 ∈ m.map (·.1) := by
        have : m.map (·.1) = P.ids := hfst
        rw [this]; exact h2
      obtain ⟨hu, hgu, hmu⟩ := get?_isSome_of_mem_fst m e.1 h1'
      obtain ⟨hv, hgv, hmv⟩ := get?_isSome_of_mem_fst m e.2.1 h2'
      have hne : ((e.1, hu) : Nat × Nat) ≠ (e.2.1, hv) := fun hh => h3 (congrArg Prod.fst hh)
      have hr := (hpw.forall hmu hmv hne).2
      unfold pairOk at hr
      simp only [edge?_of_mem P hP e he] at hr
      cases hhe : H.edge? hu hv with
      | none => rw [hhe] at hr; cases hr
      | some ea => rw [hhe] at hr; exact ⟨hu, hv, ea, hgu, hgv, hhe, hr⟩
    · intro hi p q hp hq hgp hgq hpe
      have hmp := mem_of_get? m p hp hgp
      have hmq := mem_of_get? m q hq hgq
      by_cases hpq : p = q
      · subst hpq
        rw [hgp] at hgq; cases hgq
        exact (hnc _ hmp).2.2 hi
      · have hne : ((p, hp) : Nat × Nat) ≠ (q, hq) := fun hh => hpq (congrArg Prod.fst hh)
        have hr := (hpw.forall hmp hmq hne).2
        unfold pairOk at hr
        have : P.edge? p q = none := by
          unfold LGraph.hasEdge at hpe
          cases hh : P.edge? p q with
          | none => rfl
          | some a => rw [hh] at hpe; cases hpe
        simp only [this, hi] at hr
        simpa using hr

end Engine

/-! ## The five engine theorems -/

theorem mem_allMonos (sel : Sel) (H P : LGraph) (hP : P.WF) (m : Mapping) :
    m ∈ allMonos sel H P ↔ IsMono sel H P m := by
  unfold allMonos
  rw [mem_extend_nil, ← genSpec_iff sel false H P hP m]
  unfold GenSpec
  simp

theorem mem_allInduced (sel : Sel) (H P : LGraph) (hP : P.WF) (m : Mapping) :
    m ∈ allInduced sel H P ↔ IsInduced sel H P m := by
  unfold allInduced
  rw [mem_extend_nil, ← genSpec_iff sel true H P hP m]
  unfold GenSpec IsInduced
  simp

/-- Every output of `extend` starts with the assignment made so far. -/
theorem prefix_of_mem_extend (sel : Sel) (induced : Bool) (H P : LGraph) (ps : List Nat) (acc m : Mapping)
    (h : m ∈ extend sel induced H P ps acc) : acc.reverse <+: m := by
  obtain ⟨new, rfl, -, -⟩ := (mem_extend sel induced H P ps acc m).1 h
  rw [List.reverse_append]
  exact List.prefix_append _ _

theorem extend_nodup (sel : Sel) (induced : Bool) (H P : LGraph) (hH : H.ids.Nodup) (ps : List Nat) (acc : Mapping) :
    (extend sel induced H P ps acc).Nodup := by
  induction ps generalizing acc with
  | nil => simp [extend]
  | cons p ps ih =>
    simp only [extend]
    rw [List.nodup_flatMap]
    refine ⟨?_, ?_⟩
    · intro h _
      split
      · exact ih _
      · exact List.nodup_nil
    · refine hH.pairwise_of_forall_ne ?_
      intro h _ h' _ hne
      show List.Disjoint _ _
      intro m hm hm'
      simp only at hm hm'
      split at hm
      · split at hm'
        · have p1 := prefix_of_mem_extend sel induced H P ps _ m hm
          have p2 := prefix_of_mem_extend sel induced H P ps _ m hm'
          have := List.prefix_of_prefix_length_le p1 p2 (by simp)
          have := this.eq_of_length (by simp)
          simp only [List.reverse_cons, List.append_cancel_left_eq, List.cons.injEq, Prod.mk.injEq, true_and,
            and_true] at this
          exact hne this
        · simp at hm'
      · simp at hm

theorem allMonos_nodup (sel : Sel) (H P : LGraph) (hH : H.ids.Nodup) : (allMonos sel H P).Nodup :=
  extend_nodup sel false H P hH P.ids []

theorem allInduced_nodup (sel : Sel) (H P : LGraph) (hH : H.ids.Nodup) : (allInduced sel H P).Nodup :=
  extend_nodup sel true H P hH P.ids []

theorem isoDecide_iff (sel : Sel) (H P : LGraph) (hP : P.WF) :
    isoDecide sel H P = true ↔ ∃ m, IsIso sel H P m := by
  unfold isoDecide IsIso
  simp only [Bool.and_eq_true, decide_eq_true_eq, Bool.not_eq_true', List.isEmpty_eq_false_iff]
  constructor
  · rintro ⟨hlen, hne⟩
    obtain ⟨m, hm⟩ := List.exists_mem_of_ne_nil _ hne
    exact ⟨m, (mem_allInduced sel H P hP m).1 hm, hlen⟩
  · rintro ⟨m, hm, hlen⟩
    exact ⟨hlen, List.ne_nil_of_mem ((mem_allInduced sel H P hP m).2 hm)⟩



/-! ## Isomorphism is an equivalence; relabelling invariance -/

theorem edgeOk_comm (sel : Sel) (a b : Attrs) : edgeOk sel a b = edgeOk sel b a := by
  unfold edgeOk
  congr 1
  funext k
  exact decide_eq_decide.2 eq_comm

/-- The inverse assignment of `m`, listed in `H`'s node order. -/
def invMapping (H : LGraph) (m : Mapping) : Mapping :=
  H.ids.map fun h => (h, ((m.find? (·.2 = h)).map (·.1)).getD 0)

/-- A mapping between graphs with equally many nodes that is injective into `H` is onto `H`. -/
theorem iso_surj (sel : Sel) (H P : LGraph) (m : Mapping) (hm : IsIso sel H P m) :
    ∀ h ∈ H.ids, ∃ p, (p, h) ∈ m := by
  obtain ⟨⟨⟨hfst, hnd, hnode, -⟩, -⟩, hlen⟩ := hm
  have hsub : m.map (·.2) ⊆ H.ids := by
    intro h hh
    obtain ⟨x, hx, rfl⟩ := List.mem_map.1 hh
    exact (hnode x hx).1
  have hsp := List.subperm_of_subset hnd hsub
  have hl : H.ids.length ≤ (m.map (·.2)).length := by
    have : (m.map (·.1)).length = P.ids.length := by
      have e : m.map (·.1) = P.ids := hfst
      rw [e]
    simp only [List.length_map, LGraph.ids] at this ⊢
    omega
  have hp := hsp.perm_of_length_le hl
  intro h hh
  have := hp.mem_iff.2 hh
  obtain ⟨x, hx, rfl⟩ := List.mem_map.1 this
  exact ⟨x.1, hx⟩

theorem invMapping_spec (H : LGraph) (m : Mapping) (hs : ∀ h ∈ H.ids, ∃ p, (p, h) ∈ m) :
    ∀ x ∈ invMapping H m, (x.2, x.1) ∈ m := by
  intro x hx
  unfold invMapping at hx
  obtain ⟨h, hh, rfl⟩ := List.mem_map.1 hx
  obtain ⟨p, hp⟩ := hs h hh
  simp only
  cases hf : m.find? (·.2 = h) with
  | none =>
    rw [List.find?_eq_none] at hf
    exact absurd (by simp) (hf (p, h) hp)
  | some y =>
    have h1 := List.mem_of_find?_eq_some hf
    have h2 := List.find?_some hf
    simp only [decide_eq_true_eq] at h2
    simp only [Option.map_some, Option.getD_some]
    rw [← h2]; exact h1

theorem invMapping_fst (H : LGraph) (m : Mapping) : (invMapping H m).map (·.1) = H.ids := by
  unfold invMapping
  rw [List.map_map]
  exact List.map_id' _

/-- **Isomorphism is symmetric** as soon as the node closure is (e.g. hydrogen rule off, or equal
hydrogen counts): the inverse assignment is an isomorphism in the other direction. -/
theorem isIso_symm (sel : Sel) (H P : LGraph) (m : Mapping) (hH : H.WF) (hP : P.WF) (hm : IsIso sel H P m)
    (hsym : ∀ x ∈ m, nodeOk sel (H.attrs x.2) (P.attrs x.1) = true → nodeOk sel (P.attrs x.1) (H.attrs x.2) = true) :
    IsIso sel P H (invMapping H m) := by
  have hsurj := iso_surj sel H P m hm
  have hspec := invMapping_spec H m hsurj
  have hifst := invMapping_fst H m
  obtain ⟨⟨⟨hfst, hnd, hnode, hedge⟩, hind⟩, hlen⟩ := hm
  have hmfn : (m.map (·.1)).Nodup := by
    have e : m.map (·.1) = P.ids := hfst
    rw [e]; exact hP.1
  have hifn : ((invMapping H m).map (·.1)).Nodup := by rw [hifst]; exact hH.1
  -- `get?` of the inverse versus `get?` of `m`
  have hget : ∀ h p, (invMapping H m).get? h = some p → m.get? p = some h := by
    intro h p hg
    exact get?_of_mem m hmfn p h (hspec _ (mem_of_get? _ _ _ hg))
  have hget' : ∀ h ∈ H.ids, ∃ p, (invMapping H m).get? h = some p ∧ m.get? p = some h := by
    intro h hh
    have : h ∈ (invMapping H m).map (·.1) := by rw [hifst]; exact hh
    obtain ⟨p, hp, -⟩ := get?_isSome_of_mem_fst _ h this
    exact ⟨p, hp, hget h p hp⟩
  refine ⟨⟨⟨hifst, ?_, ?_, ?_⟩, ?_⟩, hlen.symm⟩
  · -- injective
    refine List.Nodup.map_on ?_ (List.Nodup.of_map _ hifn)
    intro x hx y hy e
    have h1 := hspec x hx
    have h2 := hspec y hy
    rw [e] at h1
    have := List.inj_on_of_nodup_map hmfn h1 h2 rfl
    exact Prod.ext (Prod.mk.inj this).2 e
  · intro x hx
    have h1 := hspec x hx
    have h2 := hnode _ h1
    refine ⟨?_, hsym _ h1 h2.2⟩
    have : x.2 ∈ m.map (·.1) := List.mem_map.2 ⟨_, h1, rfl⟩
    have e : m.map (·.1) = P.ids := hfst
    rw [e] at this; exact this
  · -- every host edge comes from a pattern edge
    intro e he
    obtain ⟨a, b, hne⟩ := hH.2.1 e he
    obtain ⟨pu, g1, g1'⟩ := hget' e.1 a
    obtain ⟨pv, g2, g2'⟩ := hget' e.2.1 b
    have hHe : H.hasEdge e.1 e.2.1 = true := by
      unfold LGraph.hasEdge; rw [edge?_of_mem H hH e he]; rfl
    have hPe : P.hasEdge pu pv = true := by
      cases hh : P.hasEdge pu pv with
      | true => rfl
      | false => rw [hind pu pv e.1 e.2.1 g1' g2' hh] at hHe; cases hHe
    unfold LGraph.hasEdge at hPe
    cases hpe : P.edge? pu pv with
    | none => rw [hpe] at hPe; cases hPe
    | some pa =>
      obtain ⟨pe, hpe1, hpe2, hends⟩ := edge?_some_mem P pu pv pa hpe
      obtain ⟨hu, hv, ea, k1, k2, k3, k4⟩ := hedge pe hpe1
      refine ⟨pu, pv, pa, g1, g2, hpe, ?_⟩
      have hea : ea = e.2.2 := by
        have h0 := edge?_of_mem H hH e he
        rcases hends with ⟨e1, e2⟩ | ⟨e1, e2⟩
        · rw [e1, g1'] at k1; rw [e2, g2'] at k2; cases k1; cases k2
          rw [h0] at k3; exact (Option.some.inj k3).symm
        · rw [e1, g2'] at k1; rw [e2, g1'] at k2; cases k1; cases k2
          rw [edge?_comm, h0] at k3; exact (Option.some.inj k3).symm
      rw [edgeOk_comm, ← hpe2, ← hea]; exact k4
  · -- pattern edges go to host edges, so host non-edges come from pattern non-edges
    intro h h' p p' g1 g2 hne
    have g1' := hget h p g1
    have g2' := hget h' p' g2
    cases hh : P.hasEdge p p' with
    | false => rfl
    | true =>
      exfalso
      unfold LGraph.hasEdge at hh
      cases hpe : P.edge? p p' with
      | none => rw [hpe] at hh; cases hh
      | some pa =>
        obtain ⟨pe, hpe1, -, hends⟩ := edge?_some_mem P p p' pa hpe
        obtain ⟨hu, hv, ea, k1, k2, k3, -⟩ := hedge pe hpe1
        have : H.hasEdge h h' = true := by
          unfold LGraph.hasEdge
          rcases hends with ⟨e1, e2⟩ | ⟨e1, e2⟩
          · rw [e1, g1'] at k1; rw [e2, g2'] at k2; cases k1; cases k2; rw [k3]; rfl
          · rw [e1, g2'] at k1; rw [e2, g1'] at k2; cases k1; cases k2; rw [edge?_comm, k3]; rfl
        rw [this] at hne; cases hne


/-! ### relabelling -/

theorem relabel_ids (G : LGraph) (f : Nat → Nat) : (G.relabel f).ids = G.ids.map f := by
  unfold LGraph.relabel LGraph.ids; simp

theorem relabel_attrs (G : LGraph) (f : Nat → Nat) (hf : Function.Injective f) (v : Nat) :
    (G.relabel f).attrs (f v) = G.attrs v := by
  unfold LGraph.attrs LGraph.relabel
  simp only [List.find?_map]
  have : ((fun p : Nat × Attrs => decide (p.1 = f v)) ∘ fun p : Nat × Attrs => (f p.1, p.2)) =
      fun p : Nat × Attrs => decide (p.1 = v) := by
    funext p; simp only [Function.comp]; exact decide_eq_decide.2 hf.eq_iff
  rw [this]
  cases G.nodes.find? (fun p => decide (p.1 = v)) <;> rfl

theorem relabel_edge? (G : LGraph) (f : Nat → Nat) (hf : Function.Injective f) (u v : Nat) :
    (G.relabel f).edge? (f u) (f v) = G.edge? u v := by
  unfold LGraph.edge? LGraph.relabel
  simp only [List.find?_map]
  have : ((fun e : Nat × Nat × Attrs => decide ((e.1 = f u ∧ e.2.1 = f v) ∨ (e.1 = f v ∧ e.2.1 = f u))) ∘
      fun e : Nat × Nat × Attrs => (f e.1, f e.2.1, e.2.2)) =
      fun e : Nat × Nat × Attrs => decide ((e.1 = u ∧ e.2.1 = v) ∨ (e.1 = v ∧ e.2.1 = u)) := by
    funext e; simp only [Function.comp]; exact decide_eq_decide.2 (by simp only [hf.eq_iff])
  rw [this]
  cases G.edges.find? _ <;> rfl

theorem relabel_hasEdge (G : LGraph) (f : Nat → Nat) (hf : Function.Injective f) (u v : Nat) :
    (G.relabel f).hasEdge (f u) (f v) = G.hasEdge u v := by
  unfold LGraph.hasEdge; rw [relabel_edge? G f hf]

theorem relabel_relabel_cancel (G : LGraph) (f g : Nat → Nat) (h : ∀ x, g (f x) = x) :
    (G.relabel f).relabel g = G := by
  cases G with
  | mk nodes edges =>
    unfold LGraph.relabel
    simp only [List.map_map, LGraph.mk.injEq]
    constructor
    · conv_rhs => rw [← List.map_id nodes]
      apply List.map_congr_left; intro p _; simp [h]
    · conv_rhs => rw [← List.map_id edges]
      apply List.map_congr_left; intro e _; simp [h]

theorem find?_congr_mem {α : Type} (l : List α) (p q : α → Bool) (h : ∀ x ∈ l, p x = q x) : l.find? p = l.find? q := by
  induction l with
  | nil => rfl
  | cons x xs ih =>
    rw [List.find?_cons, List.find?_cons, h x List.mem_cons_self, ih (fun y hy => h y (List.mem_cons_of_mem _ hy))]

/-- `f` is injective on the nodes of `G`. -/
def InjOnIds (G : LGraph) (f : Nat → Nat) : Prop := ∀ a ∈ G.ids, ∀ b ∈ G.ids, f a = f b → a = b

theorem relabel_attrs_on (G : LGraph) (f : Nat → Nat) (hf : InjOnIds G f) (v : Nat) (hv : v ∈ G.ids) :
    (G.relabel f).attrs (f v) = G.attrs v := by
  unfold LGraph.attrs LGraph.relabel
  simp only [List.find?_map]
  rw [find?_congr_mem G.nodes _ (fun p : Nat × Attrs => decide (p.1 = v))]
  · cases G.nodes.find? (fun p => decide (p.1 = v)) <;> rfl
  · intro p hp
    simp only [Function.comp]
    refine decide_eq_decide.2 ⟨fun e => hf _ (List.mem_map.2 ⟨p, hp, rfl⟩) _ hv e, fun e => by rw [e]⟩

theorem relabel_edge?_on (G : LGraph) (hG : G.WF) (f : Nat → Nat) (hf : InjOnIds G f) (u v : Nat)
    (hu : u ∈ G.ids) (hv : v ∈ G.ids) : (G.relabel f).edge? (f u) (f v) = G.edge? u v := by
  unfold LGraph.edge? LGraph.relabel
  simp only [List.find?_map]
  rw [find?_congr_mem G.edges _ (fun e : Nat × Nat × Attrs => decide ((e.1 = u ∧ e.2.1 = v) ∨ (e.1 = v ∧ e.2.1 = u)))]
  · cases G.edges.find? _ <;> rfl
  · intro e he
    obtain ⟨a, b, -⟩ := hG.2.1 e he
    simp only [Function.comp]
    refine decide_eq_decide.2 ?_
    constructor
    · rintro (⟨h1, h2⟩ | ⟨h1, h2⟩)
      · exact Or.inl ⟨hf _ a _ hu h1, hf _ b _ hv h2⟩
      · exact Or.inr ⟨hf _ a _ hv h1, hf _ b _ hu h2⟩
    · rintro (⟨h1, h2⟩ | ⟨h1, h2⟩)
      · exact Or.inl ⟨by rw [h1], by rw [h2]⟩
      · exact Or.inr ⟨by rw [h1], by rw [h2]⟩

theorem get?_map_snd (m : Mapping) (f : Nat → Nat) (p : Nat) :
    Mapping.get? (m.map fun x => (x.1, f x.2)) p = (m.get? p).map f := by
  unfold Mapping.get?
  rw [List.find?_map]
  have : ((fun x : Nat × Nat => decide (x.1 = p)) ∘ fun x : Nat × Nat => (x.1, f x.2)) = fun x => decide (x.1 = p) := rfl
  rw [this]
  cases m.find? _ <;> rfl

theorem get?_map_fst (m : Mapping) (f : Nat → Nat) (hf : Function.Injective f) (p : Nat) :
    Mapping.get? (m.map fun x => (f x.1, x.2)) (f p) = m.get? p := by
  unfold Mapping.get?
  rw [List.find?_map]
  have : ((fun x : Nat × Nat => decide (x.1 = f p)) ∘ fun x : Nat × Nat => (f x.1, x.2)) = fun x => decide (x.1 = p) := by
    funext x; simp only [Function.comp]; exact decide_eq_decide.2 hf.eq_iff
  rw [this]
  cases m.find? _ <;> rfl

/-- Relabelling the host along an `f` that is injective on its nodes carries isomorphisms along. -/
theorem isIso_relabel_host (sel : Sel) (H P : LGraph) (hH : H.WF) (m : Mapping) (f : Nat → Nat) (hf : InjOnIds H f)
    (hm : IsIso sel H P m) : IsIso sel (H.relabel f) P (m.map fun x => (x.1, f x.2)) := by
  obtain ⟨⟨⟨hfst, hnd, hnode, hedge⟩, hind⟩, hlen⟩ := hm
  have hval : ∀ p h, m.get? p = some h → h ∈ H.ids := fun p h hg => (hnode _ (mem_of_get? m p h hg)).1
  refine ⟨⟨⟨?_, ?_, ?_, ?_⟩, ?_⟩, ?_⟩
  · rw [List.map_map]; exact hfst
  · rw [List.map_map]
    have : ((fun x : Nat × Nat => x.2) ∘ fun x : Nat × Nat => (x.1, f x.2)) = f ∘ (fun x => x.2) := rfl
    rw [this, ← List.map_map]
    refine List.Nodup.map_on ?_ hnd
    intro a ha b hb e
    obtain ⟨x, hx, rfl⟩ := List.mem_map.1 ha
    obtain ⟨y, hy, rfl⟩ := List.mem_map.1 hb
    exact hf _ (hnode x hx).1 _ (hnode y hy).1 e
  · intro ph hph
    obtain ⟨x, hx, rfl⟩ := List.mem_map.1 hph
    simp only
    rw [relabel_ids, relabel_attrs_on H f hf _ (hnode x hx).1]
    exact ⟨List.mem_map.2 ⟨x.2, (hnode x hx).1, rfl⟩, (hnode x hx).2⟩
  · intro e he
    obtain ⟨hu, hv, ea, g1, g2, g3, g4⟩ := hedge e he
    refine ⟨f hu, f hv, ea, ?_, ?_, ?_, g4⟩
    · rw [get?_map_snd, g1]; rfl
    · rw [get?_map_snd, g2]; rfl
    · rw [relabel_edge?_on H hH f hf _ _ (hval _ _ g1) (hval _ _ g2)]; exact g3
  · intro p q hp hq g1 g2 hne
    rw [get?_map_snd] at g1 g2
    cases h1 : m.get? p with
    | none => rw [h1] at g1; cases g1
    | some a =>
      cases h2 : m.get? q with
      | none => rw [h2] at g2; cases g2
      | some b =>
        rw [h1] at g1; rw [h2] at g2
        cases g1; cases g2
        unfold LGraph.hasEdge
        rw [relabel_edge?_on H hH f hf _ _ (hval _ _ h1) (hval _ _ h2)]
        exact hind p q a b h1 h2 hne
  · simp only [LGraph.relabel, List.length_map]; exact hlen

theorem get?_map_fst_on (m : Mapping) (f : Nat → Nat) (p : Nat)
    (hf : ∀ x ∈ m, f x.1 = f p → x.1 = p) :
    Mapping.get? (m.map fun x => (f x.1, x.2)) (f p) = m.get? p := by
  unfold Mapping.get?
  rw [List.find?_map, find?_congr_mem m _ (fun x => decide (x.1 = p))]
  · cases m.find? _ <;> rfl
  · intro x hx
    simp only [Function.comp]
    exact decide_eq_decide.2 ⟨hf x hx, fun e => by rw [e]⟩

/-- Relabelling the pattern along an `f` that is injective on its nodes carries isomorphisms along. -/
theorem isIso_relabel_pattern_on (sel : Sel) (H P : LGraph) (hP : P.WF) (m : Mapping) (f : Nat → Nat)
    (hf : InjOnIds P f) (hm : IsIso sel H P m) :
    IsIso sel H (P.relabel f) (m.map fun x => (f x.1, x.2)) := by
  obtain ⟨⟨⟨hfst, hnd, hnode, hedge⟩, hind⟩, hlen⟩ := hm
  have hfst' : m.map (·.1) = P.ids := hfst
  have hmfn : (m.map (·.1)).Nodup := by rw [hfst']; exact hP.1
  have hkey : ∀ x ∈ m, x.1 ∈ P.ids := fun x hx => hfst' ▸ List.mem_map.2 ⟨x, hx, rfl⟩
  refine ⟨⟨⟨?_, ?_, ?_, ?_⟩, ?_⟩, ?_⟩
  · rw [relabel_ids, List.map_map]
    have : ((fun x : Nat × Nat => x.1) ∘ fun x : Nat × Nat => (f x.1, x.2)) = f ∘ (fun x => x.1) := rfl
    rw [this, ← List.map_map]
    congr 1
  · rw [List.map_map]; exact hnd
  · intro ph hph
    obtain ⟨x, hx, rfl⟩ := List.mem_map.1 hph
    simp only
    rw [relabel_attrs_on P f hf _ (hkey x hx)]
    exact hnode x hx
  · intro e' he'
    unfold LGraph.relabel at he'
    obtain ⟨e, he, rfl⟩ := List.mem_map.1 he'
    obtain ⟨a, b, -⟩ := hP.2.1 e he
    obtain ⟨hu, hv, ea, g1, g2, g3, g4⟩ := hedge e he
    refine ⟨hu, hv, ea, ?_, ?_, g3, g4⟩
    · rw [get?_map_fst_on m f e.1 (fun x hx ee => hf _ (hkey x hx) _ a ee)]; exact g1
    · rw [get?_map_fst_on m f e.2.1 (fun x hx ee => hf _ (hkey x hx) _ b ee)]; exact g2
  · intro p' q' hp hq g1 g2 hne
    obtain ⟨x, hx, hxe⟩ := List.mem_map.1 (mem_of_get? _ _ _ g1)
    obtain ⟨y, hy, hye⟩ := List.mem_map.1 (mem_of_get? _ _ _ g2)
    obtain ⟨rfl, rfl⟩ := Prod.mk.inj hxe
    obtain ⟨rfl, rfl⟩ := Prod.mk.inj hye
    unfold LGraph.hasEdge at hne
    rw [relabel_edge?_on P hP f hf _ _ (hkey x hx) (hkey y hy)] at hne
    exact hind x.1 y.1 x.2 y.2 (get?_of_mem m hmfn _ _ hx) (get?_of_mem m hmfn _ _ hy) hne
  · simp only [LGraph.relabel, List.length_map]; exact hlen

theorem relabel_WF (G : LGraph) (hG : G.WF) (f : Nat → Nat) (hf : Function.Injective f) : (G.relabel f).WF := by
  obtain ⟨h1, h2, h3⟩ := hG
  refine ⟨?_, ?_, ?_⟩
  · rw [relabel_ids]; exact h1.map hf
  · intro e' he'
    unfold LGraph.relabel at he'
    obtain ⟨e, he, rfl⟩ := List.mem_map.1 he'
    obtain ⟨a, b, c⟩ := h2 e he
    rw [relabel_ids]
    exact ⟨List.mem_map.2 ⟨_, a, rfl⟩, List.mem_map.2 ⟨_, b, rfl⟩, fun hh => c (hf hh)⟩
  · unfold LGraph.relabel
    simp only [List.map_map]
    have hE : G.edges.Nodup := List.Nodup.of_map _ h3
    refine List.Nodup.map_on ?_ hE
    intro x hx y hy e
    simp only [Function.comp] at e
    refine List.inj_on_of_nodup_map h3 hx hy ?_
    obtain ⟨e1, e2⟩ := Prod.mk.inj e
    -- {f a, f b} = {f c, f d} as (min, max) pairs ⇒ {a, b} = {c, d}
    have key : (x.1 = y.1 ∧ x.2.1 = y.2.1) ∨ (x.1 = y.2.1 ∧ x.2.1 = y.1) := by
      rcases Nat.le_total (f x.1) (f x.2.1) with h | h <;> rcases Nat.le_total (f y.1) (f y.2.1) with h' | h'
      · rw [Nat.min_eq_left h, Nat.min_eq_left h'] at e1; rw [Nat.max_eq_right h, Nat.max_eq_right h'] at e2
        exact Or.inl ⟨hf e1, hf e2⟩
      · rw [Nat.min_eq_left h, Nat.min_eq_right h'] at e1; rw [Nat.max_eq_right h, Nat.max_eq_left h'] at e2
        exact Or.inr ⟨hf e1, hf e2⟩
      · rw [Nat.min_eq_right h, Nat.min_eq_left h'] at e1; rw [Nat.max_eq_left h, Nat.max_eq_right h'] at e2
        exact Or.inr ⟨hf e2, hf e1⟩
      · rw [Nat.min_eq_right h, Nat.min_eq_right h'] at e1; rw [Nat.max_eq_left h, Nat.max_eq_left h'] at e2
        exact Or.inl ⟨hf e2, hf e1⟩
    rcases key with ⟨k1, k2⟩ | ⟨k1, k2⟩
    · simp only [k1, k2]
    · simp only [k1, k2, Nat.min_comm, Nat.max_comm]

/-- **Relabelling invariance of the verdict (host side).** -/
theorem isoDecide_relabel_host (sel : Sel) (H P : LGraph) (hH : H.WF) (hP : P.WF) (f : Nat → Nat)
    (hf : Function.Injective f) : isoDecide sel (H.relabel f) P = isoDecide sel H P := by
  rw [Bool.eq_iff_iff, isoDecide_iff sel _ P hP, isoDecide_iff sel H P hP]
  constructor
  · rintro ⟨m, hm⟩
    obtain ⟨g, hg⟩ := hf.hasLeftInverse
    have hgi : InjOnIds (H.relabel f) g := by
      intro a ha b hb e
      rw [relabel_ids] at ha hb
      obtain ⟨a', -, rfl⟩ := List.mem_map.1 ha
      obtain ⟨b', -, rfl⟩ := List.mem_map.1 hb
      rw [hg, hg] at e; rw [e]
    have := isIso_relabel_host sel (H.relabel f) P (relabel_WF H hH f hf) m g hgi hm
    rw [relabel_relabel_cancel H f g hg] at this
    exact ⟨_, this⟩
  · rintro ⟨m, hm⟩
    exact ⟨_, isIso_relabel_host sel H P hH m f (fun a _ b _ e => hf e) hm⟩

/-- **Relabelling invariance of the verdict (pattern side).** -/
theorem isoDecide_relabel_pattern (sel : Sel) (H P : LGraph) (hP : P.WF) (f : Nat → Nat)
    (hf : Function.Injective f) : isoDecide sel H (P.relabel f) = isoDecide sel H P := by
  have hP' := relabel_WF P hP f hf
  rw [Bool.eq_iff_iff, isoDecide_iff sel H _ hP', isoDecide_iff sel H P hP]
  constructor
  · rintro ⟨m, hm⟩
    obtain ⟨g, hg⟩ := hf.hasLeftInverse
    -- `g` is injective on the relabelled pattern's nodes; move the pattern back
    have hgi : ∀ a ∈ (P.relabel f).ids, ∀ b ∈ (P.relabel f).ids, g a = g b → a = b := by
      intro a ha b hb e
      rw [relabel_ids] at ha hb
      obtain ⟨a', -, rfl⟩ := List.mem_map.1 ha
      obtain ⟨b', -, rfl⟩ := List.mem_map.1 hb
      rw [hg, hg] at e; rw [e]
    have := isIso_relabel_pattern_on sel H (P.relabel f) hP' m g hgi hm
    rw [relabel_relabel_cancel P f g hg] at this
    exact ⟨_, this⟩
  · rintro ⟨m, hm⟩
    exact ⟨_, isIso_relabel_pattern_on sel H P hP m f (fun a _ b _ e => hf e) hm⟩


theorem attrs_of_mem (G : LGraph) (hn : G.ids.Nodup) (n : Nat × Attrs) (h : n ∈ G.nodes) : G.attrs n.1 = n.2 := by
  unfold LGraph.attrs
  unfold LGraph.ids at hn
  generalize G.nodes = l at h hn
  induction l with
  | nil => cases h
  | cons x xs ih =>
    simp only [List.map_cons, List.nodup_cons] at hn
    rw [List.find?_cons]
    rcases List.mem_cons.1 h with rfl | hm
    · simp
    · have : x.1 ≠ n.1 := fun e => hn.1 (List.mem_map.2 ⟨n, hm, e.symm⟩)
      simp only [this, decide_false]
      exact ih hm hn.2

theorem node_of_id (G : LGraph) (v : Nat) (h : v ∈ G.ids) : ∃ n ∈ G.nodes, n.1 = v := by
  obtain ⟨n, hn, rfl⟩ := List.mem_map.1 h; exact ⟨n, hn, rfl⟩

/-- **Isomorphism is reflexive** (identity assignment). -/
theorem isIso_refl (sel : Sel) (G : LGraph) (hG : G.WF) : IsIso sel G G (G.ids.map fun v => (v, v)) := by
  have hf : (G.ids.map fun v => (v, v)).map (·.1) = G.ids := by rw [List.map_map]; exact List.map_id' _
  have hs : (G.ids.map fun v => (v, v)).map (·.2) = G.ids := by rw [List.map_map]; exact List.map_id' _
  have hfn : ((G.ids.map fun v => (v, v)).map (·.1)).Nodup := by rw [hf]; exact hG.1
  have hget : ∀ v ∈ G.ids, Mapping.get? (G.ids.map fun v => (v, v)) v = some v :=
    fun v hv => get?_of_mem _ hfn v v (List.mem_map.2 ⟨v, hv, rfl⟩)
  refine ⟨⟨⟨hf, by rw [hs]; exact hG.1, ?_, ?_⟩, ?_⟩, rfl⟩
  · intro ph hph
    obtain ⟨v, hv, rfl⟩ := List.mem_map.1 hph
    refine ⟨hv, ?_⟩
    unfold nodeOk
    simp
  · intro e he
    obtain ⟨a, b, -⟩ := hG.2.1 e he
    refine ⟨e.1, e.2.1, e.2.2, hget _ a, hget _ b, edge?_of_mem G hG e he, ?_⟩
    unfold edgeOk; simp
  · intro p q hp hq g1 g2 hne
    obtain ⟨v, -, hv⟩ := List.mem_map.1 (mem_of_get? _ _ _ g1)
    obtain ⟨w, -, hw⟩ := List.mem_map.1 (mem_of_get? _ _ _ g2)
    obtain ⟨rfl, rfl⟩ := Prod.mk.inj hv
    obtain ⟨rfl, rfl⟩ := Prod.mk.inj hw
    exact hne

theorem isoDecide_refl (sel : Sel) (G : LGraph) (hG : G.WF) : isoDecide sel G G = true :=
  (isoDecide_iff sel G G hG).2 ⟨_, isIso_refl sel G hG⟩

/-- The node closure is symmetric when the hydrogen rule is off. -/
theorem nodeOk_symm_of_noH (sel : Sel) (h : sel.hcountRule = false) (a b : Attrs) (hab : nodeOk sel a b = true) :
    nodeOk sel b a = true := by
  unfold nodeOk at hab ⊢
  simp only [h, Bool.not_false, Bool.true_or, Bool.and_true, List.all_eq_true, decide_eq_true_eq] at hab ⊢
  exact fun k hk => (hab k hk).symm

/-- The node closure is symmetric between nodes with equal hydrogen counts. -/
theorem nodeOk_symm_of_eqH (sel : Sel) (a b : Attrs) (he : hcountOf a = hcountOf b) (hab : nodeOk sel a b = true) :
    nodeOk sel b a = true := by
  unfold nodeOk at hab ⊢
  simp only [Bool.and_eq_true, List.all_eq_true, decide_eq_true_eq, Bool.or_eq_true, Bool.not_eq_true'] at hab ⊢
  refine ⟨fun k hk => (hab.1 k hk).symm, ?_⟩
  rcases hab.2 with h | h
  · exact Or.inl h
  · exact Or.inr (by omega)

/-- Hydrogen counts cannot break symmetry: the rule is off, or all annotated counts of the two graphs
agree (in particular when none is annotated: absent reads as 0). -/
def NoHcountGap (sel : Sel) (G₁ G₂ : LGraph) : Prop :=
  sel.hcountRule = false ∨ ∀ a ∈ G₁.nodes, ∀ b ∈ G₂.nodes, hcountOf a.2 = hcountOf b.2

theorem isoDecide_symm_aux (sel : Sel) (A B : LGraph) (hA : A.WF) (hB : B.WF) (hc : NoHcountGap sel A B)
    (hab : isoDecide sel A B = true) : isoDecide sel B A = true := by
  obtain ⟨m, hm⟩ := (isoDecide_iff sel A B hB).1 hab
  refine (isoDecide_iff sel B A hA).2 ⟨_, isIso_symm sel A B m hA hB hm ?_⟩
  intro x hx hok
  rcases hc with hc | hc
  · exact nodeOk_symm_of_noH sel hc _ _ hok
  · have hxa := (hm.1.1.2.2.1 x hx).1
    have hxb : x.1 ∈ B.ids := by
      have e : m.map (·.1) = B.ids := hm.1.1.1
      rw [← e]; exact List.mem_map.2 ⟨x, hx, rfl⟩
    obtain ⟨na, hna, ea⟩ := node_of_id A x.2 hxa
    obtain ⟨nb, hnb, eb⟩ := node_of_id B x.1 hxb
    have ha : A.attrs x.2 = na.2 := by rw [← ea]; exact attrs_of_mem A hA.1 na hna
    have hb : B.attrs x.1 = nb.2 := by rw [← eb]; exact attrs_of_mem B hB.1 nb hnb
    exact nodeOk_symm_of_eqH sel _ _ (by rw [ha, hb]; exact hc na hna nb hnb) hok

/-- **Symmetry of the verdict** for graphs with equal or absent hydrogen counts (or rule off). -/
theorem isoDecide_symm (sel : Sel) (G₁ G₂ : LGraph) (h1 : G₁.WF) (h2 : G₂.WF) (hh : NoHcountGap sel G₁ G₂) :
    isoDecide sel G₁ G₂ = isoDecide sel G₂ G₁ := by
  rw [Bool.eq_iff_iff]
  refine ⟨isoDecide_symm_aux sel G₁ G₂ h1 h2 hh, isoDecide_symm_aux sel G₂ G₁ h2 h1 ?_⟩
  rcases hh with h | h
  · exact Or.inl h
  · exact Or.inr (fun a ha b hb => (h b hb a ha).symm)


/-! ## Isomorphism is transitive -/

/-- The node closure composes (keys: equality is transitive; hydrogen rule: `≥` is transitive). -/
theorem nodeOk_trans (sel : Sel) (a b c : Attrs) (hab : nodeOk sel a b = true) (hbc : nodeOk sel b c = true) :
    nodeOk sel a c = true := by
  unfold nodeOk at hab hbc ⊢
  simp only [Bool.and_eq_true, List.all_eq_true, decide_eq_true_eq, Bool.or_eq_true, Bool.not_eq_true'] at hab hbc ⊢
  refine ⟨fun k hk => (hab.1 k hk).trans (hbc.1 k hk), ?_⟩
  rcases hab.2 with h | h
  · exact Or.inl h
  · rcases hbc.2 with h' | h'
    · exact Or.inl h'
    · exact Or.inr (by omega)

/-- The edge closure composes. -/
theorem edgeOk_trans (sel : Sel) (a b c : Attrs) (hab : edgeOk sel a b = true) (hbc : edgeOk sel b c = true) :
    edgeOk sel a c = true := by
  unfold edgeOk at hab hbc ⊢
  simp only [List.all_eq_true, decide_eq_true_eq] at hab hbc ⊢
  exact fun k hk => (hab k hk).trans (hbc k hk)

/-- Composite assignment: pattern node of `m₂` ↦ image under `m₁` of its image under `m₂`. -/
def compMapping (m₁ m₂ : Mapping) : Mapping := m₂.map fun x => (x.1, (m₁.get? x.2).getD 0)

theorem compMapping_get? (m₁ m₂ : Mapping) (p : Nat) :
    (compMapping m₁ m₂).get? p = (m₂.get? p).map fun b => (m₁.get? b).getD 0 :=
  get?_map_snd m₂ (fun b => (m₁.get? b).getD 0) p

theorem compMapping_get?_of (m₁ m₂ : Mapping) (p b a : Nat) (h₂ : m₂.get? p = some b) (h₁ : m₁.get? b = some a) :
    (compMapping m₁ m₂).get? p = some a := by
  rw [compMapping_get?, h₂, Option.map_some, h₁, Option.getD_some]

/-- **Isomorphism is transitive**: the composite of an isomorphism `C → B` and an isomorphism `B → A`
is an isomorphism `C → A` (the hydrogen rule composes: `hcount A ≥ hcount B ≥ hcount C`). -/
theorem isIso_trans (sel : Sel) (A B C : LGraph) (m₁ m₂ : Mapping)
    (h₁ : IsIso sel A B m₁) (h₂ : IsIso sel B C m₂) : IsIso sel A C (compMapping m₁ m₂) := by
  obtain ⟨⟨⟨hfst₁, hnd₁, hnode₁, hedge₁⟩, hind₁⟩, hlen₁⟩ := h₁
  obtain ⟨⟨⟨hfst₂, hnd₂, hnode₂, hedge₂⟩, hind₂⟩, hlen₂⟩ := h₂
  have hfst₁' : m₁.map (·.1) = B.ids := hfst₁
  -- every node of `B` has an image under `m₁`
  have himg : ∀ b ∈ B.ids, ∃ a, m₁.get? b = some a ∧ (b, a) ∈ m₁ := by
    intro b hb
    exact get?_isSome_of_mem_fst m₁ b (by rw [hfst₁']; exact hb)
  -- values of `m₂` are nodes of `B`
  have hval₂ : ∀ p b, m₂.get? p = some b → b ∈ B.ids := fun p b hg => (hnode₂ _ (mem_of_get? m₂ p b hg)).1
  -- a look-up in the composite factors through `B`
  have hfac : ∀ p a, (compMapping m₁ m₂).get? p = some a → ∃ b, m₂.get? p = some b ∧ m₁.get? b = some a := by
    intro p a hg
    rw [compMapping_get?] at hg
    cases hb : m₂.get? p with
    | none => rw [hb] at hg; cases hg
    | some b =>
      rw [hb, Option.map_some] at hg
      obtain ⟨a', ha', -⟩ := himg b (hval₂ p b hb)
      rw [ha', Option.getD_some] at hg
      exact ⟨b, rfl, by rw [ha', ← Option.some.inj hg]⟩
  refine ⟨⟨⟨?_, ?_, ?_, ?_⟩, ?_⟩, hlen₁.trans hlen₂⟩
  · unfold compMapping
    rw [List.map_map]; exact hfst₂
  · -- injective: `m₂` is injective into `B.ids`, on which `m₁` is injective
    unfold compMapping
    rw [List.map_map]
    have : ((fun x : Nat × Nat => x.2) ∘ fun x : Nat × Nat => (x.1, (m₁.get? x.2).getD 0)) =
        (fun b => (m₁.get? b).getD 0) ∘ (fun x => x.2) := rfl
    rw [this, ← List.map_map]
    refine List.Nodup.map_on ?_ hnd₂
    intro b hb b' hb' e
    obtain ⟨x, hx, rfl⟩ := List.mem_map.1 hb
    obtain ⟨y, hy, rfl⟩ := List.mem_map.1 hb'
    obtain ⟨a, ha, hma⟩ := himg x.2 (hnode₂ x hx).1
    obtain ⟨a', ha', hma'⟩ := himg y.2 (hnode₂ y hy).1
    simp only [ha, ha', Option.getD_some] at e
    subst e
    have := List.inj_on_of_nodup_map hnd₁ hma hma' rfl
    exact (Prod.mk.inj this).1
  · intro ph hph
    unfold compMapping at hph
    obtain ⟨x, hx, rfl⟩ := List.mem_map.1 hph
    obtain ⟨a, ha, hma⟩ := himg x.2 (hnode₂ x hx).1
    simp only [ha, Option.getD_some]
    exact ⟨(hnode₁ _ hma).1, nodeOk_trans sel _ _ _ (hnode₁ _ hma).2 (hnode₂ x hx).2⟩
  · -- a `C` edge goes to a `B` edge, which is an element of `B.edges`, which goes to an `A` edge
    intro e he
    obtain ⟨bu, bv, ea, g1, g2, g3, g4⟩ := hedge₂ e he
    obtain ⟨be, hbe, hbea, hends⟩ := edge?_some_mem B bu bv ea g3
    obtain ⟨au, av, ea', k1, k2, k3, k4⟩ := hedge₁ be hbe
    rw [hbea] at k4
    have hok := edgeOk_trans sel _ _ _ k4 g4
    rcases hends with ⟨e1, e2⟩ | ⟨e1, e2⟩
    · rw [e1] at k1; rw [e2] at k2
      exact ⟨au, av, ea', compMapping_get?_of m₁ m₂ _ _ _ g1 k1, compMapping_get?_of m₁ m₂ _ _ _ g2 k2, k3, hok⟩
    · rw [e1] at k1; rw [e2] at k2
      refine ⟨av, au, ea', compMapping_get?_of m₁ m₂ _ _ _ g1 k2, compMapping_get?_of m₁ m₂ _ _ _ g2 k1, ?_, hok⟩
      rw [edge?_comm]; exact k3
  · intro p q hp hq g1 g2 hne
    obtain ⟨b, gb, ga⟩ := hfac p hp g1
    obtain ⟨b', gb', ga'⟩ := hfac q hq g2
    exact hind₁ b b' hp hq ga ga' (hind₂ p q b b' gb gb' hne)

/-- **Transitivity of the verdict** (host-≥-pattern hydrogen rule composes). -/
theorem isoDecide_trans (sel : Sel) (A B C : LGraph) (hB : B.WF) (hC : C.WF)
    (hab : isoDecide sel A B = true) (hbc : isoDecide sel B C = true) : isoDecide sel A C = true := by
  obtain ⟨m₁, hm₁⟩ := (isoDecide_iff sel A B hB).1 hab
  obtain ⟨m₂, hm₂⟩ := (isoDecide_iff sel B C hC).1 hbc
  exact (isoDecide_iff sel A C hC).2 ⟨_, isIso_trans sel A B C m₁ m₂ hm₁ hm₂⟩

/-- Non-vacuity: three relabelled labelled graphs with decreasing hydrogen counts; the hypotheses of
`isoDecide_trans` hold (and the reverse direction fails, so the hydrogen rule is really exercised). -/
example :
    let sel : Sel := { nodeKeys := ["element"], edgeKeys := ["order"] }
    let A : LGraph := { nodes := [(1, [("element", .str "C"), ("hcount", .num 6)]), (2, [("element", .str "O"), ("hcount", .num 2)])],
                        edges := [(1, 2, [("order", .num 2)])] }
    let B : LGraph := { nodes := [(7, [("element", .str "O"), ("hcount", .num 2)]), (5, [("element", .str "C"), ("hcount", .num 4)])],
                        edges := [(7, 5, [("order", .num 2)])] }
    let C : LGraph := { nodes := [(3, [("element", .str "C")]), (4, [("element", .str "O")])],
                        edges := [(4, 3, [("order", .num 2)])] }
    B.WF ∧ C.WF ∧ isoDecide sel A B = true ∧ isoDecide sel B C = true ∧ isoDecide sel A C = true ∧
      isoDecide sel C A = false := by
  decide

end SynKit.Match

import SynKitModel.Match
/-! Soundness and completeness of the back-tracking enumerator (shared engine). -/
namespace SynKit.Match

theorem mem_allMonos (sel : Sel) (H P : LGraph) (hP : P.WF) (m : Mapping) :
    m ∈ allMonos sel H P ↔ IsMono sel H P m := by sorry

theorem mem_allInduced (sel : Sel) (H P : LGraph) (hP : P.WF) (m : Mapping) :
    m ∈ allInduced sel H P ↔ IsInduced sel H P m := by sorry

theorem allMonos_nodup (sel : Sel) (H P : LGraph) (hH : H.ids.Nodup) : (allMonos sel H P).Nodup := by sorry

theorem allInduced_nodup (sel : Sel) (H P : LGraph) (hH : H.ids.Nodup) : (allInduced sel H P).Nodup := by sorry

theorem isoDecide_iff (sel : Sel) (H P : LGraph) (hP : P.WF) :
    isoDecide sel H P = true ↔ ∃ m, IsIso sel H P m := by sorry

end SynKit.Match

import SynKitModel.Match
import Mathlib.Data.List.Basic
import Mathlib.Data.List.Nodup
import Mathlib.Data.List.Pairwise
/-! Soundness and completeness of the back-tracking enumerator (shared engine). -/
namespace SynKit.Match

/-! ## Graph look-up lemmas -/

theorem edge?_comm (G : LGraph) (u v : Nat) : G.edge? u v = G.edge? v u := by
  unfold LGraph.edge?
  congr 2
  funext e
  simp only [decide_eq_decide]
  exact Or.comm

theorem hasEdge_comm (G : LGraph) (u v : Nat) : G.hasEdge u v = G.hasEdge v u := by
  unfold LGraph.hasEdge; rw [edge?_comm]

/-- An edge found by `edge?` is an edge of the graph joining the two nodes. -/
theorem edge?_some_mem (G : LGraph) (u v : Nat) (a : Attrs) (h : G.edge? u v = some a) :
    ∃ e ∈ G.edges, e.2.2 = a ∧ ((e.1 = u ∧ e.2.1 = v) ∨ (e.1 = v ∧ e.2.1 = u)) := by
  unfold LGraph.edge? at h
  rw [Option.map_eq_some_iff] at h
  obtain ⟨e, he, rfl⟩ := h
  refine ⟨e, List.mem_of_find?_eq_some he, rfl, ?_⟩
  have := List.find?_some he
  simpa using this

theorem edge?_isSome_of_mem (G : LGraph) (e : Nat × Nat × Attrs) (he : e ∈ G.edges) :
    (G.edge? e.1 e.2.1).isSome = true := by
  unfold LGraph.edge?
  rw [Option.isSome_map, List.find?_isSome]
  exact ⟨e, he, by simp⟩

/-- In a graph without parallel edges the look-up of an edge returns that edge's attributes. -/
theorem edge?_of_mem (G : LGraph) (hG : G.WF) (e : Nat × Nat × Attrs) (he : e ∈ G.edges) :
    G.edge? e.1 e.2.1 = some e.2.2 := by
  obtain ⟨-, -, hnd⟩ := hG
  unfold LGraph.edge?
  generalize G.edges = es at he hnd
  induction es with
  | nil => simp at he
  | cons x xs ih =>
    simp only [List.map_cons, List.nodup_cons] at hnd
    rw [List.find?_cons]
    by_cases hx : (decide ((x.1 = e.1 ∧ x.2.1 = e.2.1) ∨ (x.1 = e.2.1 ∧ x.2.1 = e.1))) = true
    · rw [hx]
      simp only [Option.map_some, Option.some.injEq]
      rcases List.mem_cons.1 he with rfl | hmem
      · rfl
      · exfalso
        apply hnd.1
        simp only [decide_eq_true_eq] at hx
        refine List.mem_map.2 ⟨e, hmem, ?_⟩
        rcases hx with ⟨h1, h2⟩ | ⟨h1, h2⟩
        · rw [h1, h2]
        · rw [h1, h2, Nat.min_comm, Nat.max_comm]
    · simp only [Bool.not_eq_true] at hx
      rw [hx]
      rcases List.mem_cons.1 he with rfl | hmem
      · simp at hx
      · exact ih hmem hnd.2

theorem hasEdge_self_false (G : LGraph) (hG : G.WF) (v : Nat) : G.hasEdge v v = false := by
  unfold LGraph.hasEdge
  cases h : G.edge? v v with
  | none => rfl
  | some a =>
    obtain ⟨e, he, -, hh⟩ := edge?_some_mem G v v a h
    exfalso
    have := (hG.2.1 e he).2.2
    rcases hh with ⟨h1, h2⟩ | ⟨h1, h2⟩ <;> exact this (h1.trans h2.symm)

/-! ## Mapping look-up lemmas -/

theorem get?_of_mem (m : Mapping) (hn : (m.map (·.1)).Nodup) (p h : Nat) (hm : (p, h) ∈ m) :
    m.get? p = some h := by
  unfold Mapping.get?
  induction m with
  | nil => simp at hm
  | cons x xs ih =>
    simp only [List.map_cons, List.nodup_cons] at hn
    rw [List.find?_cons]
    rcases List.mem_cons.1 hm with rfl | hmem
    · simp
    · have : x.1 ≠ p := by
        rintro rfl; exact hn.1 (List.mem_map.2 ⟨(x.1, h), hmem, rfl⟩)
      simp only [this, decide_false]
      exact ih hn.2 hmem

theorem mem_of_get? (m : Mapping) (p h : Nat) (hm : m.get? p = some h) : (p, h) ∈ m := by
  unfold Mapping.get? at hm
  rw [Option.map_eq_some_iff] at hm
  obtain ⟨x, hx, rfl⟩ := hm
  have h1 := List.mem_of_find?_eq_some hx
  have h2 := List.find?_some hx
  simp only [decide_eq_true_eq] at h2
  rw [← h2]; exact h1

theorem get?_isSome_of_mem_fst (m : Mapping) (p : Nat) (hp : p ∈ m.map (·.1)) :
    ∃ h, m.get? p = some h ∧ (p, h) ∈ m := by
  cases hg : m.get? p with
  | some h => exact ⟨h, rfl, mem_of_get? m p h hg⟩
  | none =>
    exfalso
    unfold Mapping.get? at hg
    rw [Option.map_eq_none_iff, List.find?_eq_none] at hg
    obtain ⟨x, hx, rfl⟩ := List.mem_map.1 hp
    exact hg x hx (by simp)

/-! ## The enumerator -/

section Engine
variable (sel : Sel) (induced : Bool) (H P : LGraph)

/-- `new` (most recent first) is a chain of accepted extensions on top of `acc`. -/
def ValidExt (acc : Mapping) : Mapping → Prop
  | [] => True
  | (p, h) :: rest => ValidExt acc rest ∧ h ∈ H.ids ∧ extendOk sel induced H P (rest ++ acc) p h = true

theorem validExt_snoc (acc new : Mapping) (p h : Nat) :
    ValidExt sel induced H P acc (new ++ [(p, h)]) ↔
      (h ∈ H.ids ∧ extendOk sel induced H P acc p h = true) ∧ ValidExt sel induced H P ((p, h) :: acc) new := by
  induction new with
  | nil => simp [ValidExt]
  | cons x xs ih =>
    obtain ⟨q, g⟩ := x
    simp only [List.cons_append, ValidExt, ih, List.append_assoc]
    constructor
    · rintro ⟨⟨a, b⟩, c, d⟩; exact ⟨a, b, c, d⟩
    · rintro ⟨a, b, c, d⟩; exact ⟨⟨a, b⟩, c, d⟩

theorem mem_extend (ps : List Nat) (acc m : Mapping) :
    m ∈ extend sel induced H P ps acc ↔
      ∃ new, m = (new ++ acc).reverse ∧ new.map Prod.fst = ps.reverse ∧ ValidExt sel induced H P acc new := by
  induction ps generalizing acc m with
  | nil =>
    simp only [extend, List.mem_singleton, List.reverse_nil, List.map_eq_nil_iff]
    constructor
    · intro h; exact ⟨[], by simp [h], rfl, trivial⟩
    · rintro ⟨new, rfl, rfl, -⟩; rfl
  | cons p ps ih =>
    simp only [extend, List.mem_flatMap]
    constructor
    · rintro ⟨h, hh, hm⟩
      split at hm
      · next hok =>
        obtain ⟨new, rfl, hfst, hv⟩ := (ih _ _).1 hm
        exact ⟨new ++ [(p, h)], by simp, by simp [hfst],
          (validExt_snoc sel induced H P acc new p h).2 ⟨⟨hh, hok⟩, hv⟩⟩
      · simp at hm
    · rintro ⟨new, rfl, hfst, hv⟩
      rw [List.reverse_cons] at hfst
      obtain ⟨init, ⟨q, h⟩, rfl⟩ : ∃ init x, new = init ++ [x] := by
        cases hne : new.reverse with
        | nil => simp_all
        | cons x xs => exact ⟨xs.reverse, x, by simpa using congrArg List.reverse hne⟩
      simp only [List.map_append, List.map_cons, List.map_nil] at hfst
      obtain ⟨h1, h2⟩ := List.append_inj' hfst rfl
      simp only [List.cons.injEq, and_true] at h2
      subst h2
      obtain ⟨⟨hh, hok⟩, hv'⟩ := (validExt_snoc sel induced H P acc init q h).1 hv
      refine ⟨h, hh, ?_⟩
      rw [if_pos hok]
      exact (ih _ _).2 ⟨init, by simp, h1, hv'⟩

/-- Compatibility of two assigned pairs: a pattern edge needs a host edge with matching
attributes; with `induced` a pattern non-edge needs a host non-edge. -/
def pairOk (x y : Nat × Nat) : Bool :=
  match P.edge? x.1 y.1 with
  | some pa => (match H.edge? x.2 y.2 with
      | some ea => edgeOk sel ea pa
      | none => false)
  | none => !induced || !(H.hasEdge x.2 y.2)

theorem pairOk_comm (x y : Nat × Nat) : pairOk sel induced H P x y = pairOk sel induced H P y x := by
  unfold pairOk
  rw [edge?_comm P, edge?_comm H, hasEdge_comm H]

/-- The relation that has to hold between any two assigned pairs. -/
def PairRel (x y : Nat × Nat) : Prop := x.2 ≠ y.2 ∧ pairOk sel induced H P x y = true

theorem pairRel_symm : ∀ x y, PairRel sel induced H P x y → PairRel sel induced H P y x := by
  rintro x y ⟨h1, h2⟩
  exact ⟨Ne.symm h1, by rw [pairOk_comm]; exact h2⟩

/-- What has to hold of every assigned pair on its own. -/
def NodeCond (x : Nat × Nat) : Prop :=
  x.2 ∈ H.ids ∧ nodeOk sel (H.attrs x.2) (P.attrs x.1) = true ∧ (induced = true → H.hasEdge x.2 x.2 = false)

theorem extendOk_iff (acc : Mapping) (p h : Nat) :
    extendOk sel induced H P acc p h = true ↔
      (∀ y ∈ acc, PairRel sel induced H P (p, h) y) ∧
      nodeOk sel (H.attrs h) (P.attrs p) = true ∧ (induced = true → H.hasEdge h h = false) := by
  unfold extendOk PairRel pairOk
  simp only [Bool.and_eq_true, Bool.not_eq_true', List.any_eq_false, decide_eq_true_eq, List.all_eq_true,
    Bool.or_eq_true, Bool.not_eq_true']
  constructor
  · rintro ⟨⟨⟨h1, h2⟩, h3⟩, h4⟩
    refine ⟨fun y hy => ⟨fun e => h1 y hy e.symm, h4 y hy⟩, h2, ?_⟩
    intro hi; rcases h3 with h3 | h3
    · rw [hi] at h3; cases h3
    · exact h3
  · rintro ⟨h1, h2, h3⟩
    refine ⟨⟨⟨fun y hy e => (h1 y hy).1 e.symm, h2⟩, ?_⟩, fun y hy => (h1 y hy).2⟩
    cases induced with
    | false => exact Or.inl rfl
    | true => exact Or.inr (h3 rfl)

theorem validExt_nil_iff (l : Mapping) :
    ValidExt sel induced H P [] l ↔
      l.Pairwise (PairRel sel induced H P) ∧ ∀ x ∈ l, NodeCond sel induced H P x := by
  induction l with
  | nil => simp [ValidExt]
  | cons x xs ih =>
    obtain ⟨p, h⟩ := x
    simp only [ValidExt, List.append_nil, ih, List.pairwise_cons, List.forall_mem_cons, extendOk_iff, NodeCond]
    constructor
    · rintro ⟨⟨a, b⟩, c, d, e, f⟩; exact ⟨⟨d, a⟩, ⟨c, e, f⟩, b⟩
    · rintro ⟨⟨d, a⟩, ⟨c, e, f⟩, b⟩; exact ⟨⟨a, b⟩, c, d, e, f⟩

/-- Characterisation of the enumerator's output in the pattern's node order. -/
theorem mem_extend_nil (m : Mapping) :
    m ∈ extend sel induced H P P.ids [] ↔
      m.map Prod.fst = P.ids ∧ m.Pairwise (PairRel sel induced H P) ∧ ∀ x ∈ m, NodeCond sel induced H P x := by
  rw [mem_extend]
  constructor
  · rintro ⟨new, rfl, hfst, hv⟩
    rw [validExt_nil_iff] at hv
    refine ⟨?_, ?_, ?_⟩
    · rw [List.append_nil, List.map_reverse, hfst, List.reverse_reverse]
    · rw [List.append_nil, List.pairwise_reverse]
      exact hv.1.imp (fun {a b} hab => pairRel_symm sel induced H P a b hab)
    · intro x hx; rw [List.append_nil, List.mem_reverse] at hx; exact hv.2 x hx
  · rintro ⟨hfst, hp, hn⟩
    refine ⟨m.reverse, by simp, by rw [List.map_reverse, hfst], ?_⟩
    rw [validExt_nil_iff]
    refine ⟨?_, fun x hx => hn x (List.mem_reverse.1 hx)⟩
    rw [List.pairwise_reverse]
    exact hp.imp (fun {a b} hab => pairRel_symm sel induced H P a b hab)


/-- The specification the enumerator meets, uniformly in the `induced` flag. -/
def GenSpec (m : Mapping) : Prop :=
  IsMono sel H P m ∧
  (induced = true → ∀ p q hp hq, m.get? p = some hp → m.get? q = some hq →
      P.hasEdge p q = false → H.hasEdge hp hq = false)

theorem genSpec_iff (hP : P.WF) (m : Mapping) :
    GenSpec sel induced H P m ↔
      m.map Prod.fst = P.ids ∧ m.Pairwise (PairRel sel induced H P) ∧ ∀ x ∈ m, NodeCond sel induced H P x := by
  constructor
  · rintro ⟨⟨hfst, hnd, hnode, hedge⟩, hind⟩
    have hfn : (m.map (·.1)).Nodup := by
      have : m.map (·.1) = P.ids := hfst
      rw [this]; exact hP.1
    refine ⟨hfst, ?_, ?_⟩
    · have hmn : m.Nodup := List.Nodup.of_map _ hfn
      refine hmn.pairwise_of_forall_ne ?_
      rintro ⟨p, h⟩ ha ⟨q, g⟩ hb hne
      have hgp := get?_of_mem m hfn p h ha
      have hgq := get?_of_mem m hfn q g hb
      have hpq : p ≠ q := by
        rintro rfl
        rw [hgp] at hgq
        exact hne (by rw [Option.some.inj hgq])
      refine ⟨?_, ?_⟩
      · intro e
        exact hne (List.inj_on_of_nodup_map hnd ha hb e)
      · unfold pairOk
        cases hpe : P.edge? p q with
        | none =>
          simp only
          cases hi : induced with
          | false => rfl
          | true =>
            have : P.hasEdge p q = false := by unfold LGraph.hasEdge; rw [hpe]; rfl
            simp [hind hi p q h g hgp hgq this]
        | some pa =>
          simp only
          obtain ⟨e, he, rfl, hends⟩ := edge?_some_mem P p q pa hpe
          obtain ⟨hu, hv, ea, h1, h2, h3, h4⟩ := hedge e he
          rcases hends with ⟨e1, e2⟩ | ⟨e1, e2⟩
          · rw [e1, hgp] at h1; rw [e2, hgq] at h2
            cases h1; cases h2
            rw [h3]; exact h4
          · rw [e1, hgq] at h1; rw [e2, hgp] at h2
            cases h1; cases h2
            rw [edge?_comm, h3]; exact h4
    · rintro ⟨p, h⟩ hx
      refine ⟨(hnode _ hx).1, (hnode _ hx).2, ?_⟩
      intro hi
      have hgp := get?_of_mem m hfn p h hx
      exact hind hi p p h h hgp hgp (hasEdge_self_false P hP p)
  · rintro ⟨hfst, hpw, hnc⟩
    have hfn : (m.map (·.1)).Nodup := by
      have : m.map (·.1) = P.ids := hfst
      rw [this]; exact hP.1
    have hsymm : Std.Symm (PairRel sel induced H P) := ⟨fun x y => pairRel_symm sel induced H P x y⟩
    refine ⟨⟨hfst, ?_, fun x hx => ⟨(hnc x hx).1, (hnc x hx).2.1⟩, ?_⟩, ?_⟩
    · rw [List.Nodup, List.pairwise_map]
      exact hpw.imp (fun {a b} hab => hab.1)
    · intro e he
      obtain ⟨h1, h2, h3⟩ := hP.2.1 e he
      have h1' : e.1 ∈ m.map (·.1) := by
        have : m.map (·.1) = P.ids := hfst
        rw [this]; exact h1
      have h2' : e.2.1 ∈ m.map (·.1) := by
        have : m.map (·.1) = P.ids := hfst
        rw [this]; exact h2
      obtain ⟨hu, hgu, hmu⟩ := get?_isSome_of_mem_fst m e.1 h1'
      obtain ⟨hv, hgv, hmv⟩ := get?_isSome_of_mem_fst m e.2.1 h2'
      have hne : ((e.1, hu) : Nat × Nat) ≠ (e.2.1, hv) := fun hh => h3 (congrArg Prod.fst hh)
      have hr := (hpw.forall hmu hmv hne).2
      unfold pairOk at hr
      simp only [edge?_of_mem P hP e he] at hr
      cases hhe : H.edge? hu hv with
      | none => rw [hhe] at hr; cases hr
      | some ea => rw [hhe] at hr; exact ⟨hu, hv, ea, hgu, hgv, hhe, hr⟩
    · intro hi p q hp hq hgp hgq hpe
      have hmp := mem_of_get? m p hp hgp
      have hmq := mem_of_get? m q hq hgq
      by_cases hpq : p = q
      · subst hpq
        rw [hgp] at hgq; cases hgq
        exact (hnc _ hmp).2.2 hi
      · have hne : ((p, hp) : Nat × Nat) ≠ (q, hq) := fun hh => hpq (congrArg Prod.fst hh)
        have hr := (hpw.forall hmp hmq hne).2
        unfold pairOk at hr
        have : P.edge? p q = none := by
          unfold LGraph.hasEdge at hpe
          cases hh : P.edge? p q with
          | none => rfl
          | some a => rw [hh] at hpe; cases hpe
        simp only [this, hi] at hr
        simpa using hr

end Engine

/-! ## The five engine theorems -/

theorem mem_allMonos (sel : Sel) (H P : LGraph) (hP : P.WF) (m : Mapping) :
    m ∈ allMonos sel H P ↔ IsMono sel H P m := by
  unfold allMonos
  rw [mem_extend_nil, ← genSpec_iff sel false H P hP m]
  unfold GenSpec
  simp

theorem mem_allInduced (sel : Sel) (H P : LGraph) (hP : P.WF) (m : Mapping) :
    m ∈ allInduced sel H P ↔ IsInduced sel H P m := by
  unfold allInduced
  rw [mem_extend_nil, ← genSpec_iff sel true H P hP m]
  unfold GenSpec IsInduced
  simp

/-- Every output of `extend` starts with the assignment made so far. -/
theorem prefix_of_mem_extend (sel : Sel) (induced : Bool) (H P : LGraph) (ps : List Nat) (acc m : Mapping)
    (h : m ∈ extend sel induced H P ps acc) : acc.reverse <+: m := by
  obtain ⟨new, rfl, -, -⟩ := (mem_extend sel induced H P ps acc m).1 h
  rw [List.reverse_append]
  exact List.prefix_append _ _

theorem extend_nodup (sel : Sel) (induced : Bool) (H P : LGraph) (hH : H.ids.Nodup) (ps : List Nat) (acc : Mapping) :
    (extend sel induced H P ps acc).Nodup := by
  induction ps generalizing acc with
  | nil => simp [extend]
  | cons p ps ih =>
    simp only [extend]
    rw [List.nodup_flatMap]
    refine ⟨?_, ?_⟩
    · intro h _
      split
      · exact ih _
      · exact List.nodup_nil
    · refine hH.pairwise_of_forall_ne ?_
      intro h _ h' _ hne
      show List.Disjoint _ _
      intro m hm hm'
      simp only at hm hm'
      split at hm
      · split at hm'
        · have p1 := prefix_of_mem_extend sel induced H P ps _ m hm
          have p2 := prefix_of_mem_extend sel induced H P ps _ m hm'
          have := List.prefix_of_prefix_length_le p1 p2 (by simp)
          have := this.eq_of_length (by simp)
          simp only [List.reverse_cons, List.append_cancel_left_eq, List.cons.injEq, Prod.mk.injEq, true_and,
            and_true] at this
          exact hne this
        · simp at hm'
      · simp at hm

theorem allMonos_nodup (sel : Sel) (H P : LGraph) (hH : H.ids.Nodup) : (allMonos sel H P).Nodup :=
  extend_nodup sel false H P hH P.ids []

theorem allInduced_nodup (sel : Sel) (H P : LGraph) (hH : H.ids.Nodup) : (allInduced sel H P).Nodup :=
  extend_nodup sel true H P hH P.ids []

theorem isoDecide_iff (sel : Sel) (H P : LGraph) (hP : P.WF) :
    isoDecide sel H P = true ↔ ∃ m, IsIso sel H P m := by
  unfold isoDecide IsIso
  simp only [Bool.and_eq_true, decide_eq_true_eq, Bool.not_eq_true', List.isEmpty_eq_false_iff]
  constructor
  · rintro ⟨hlen, hne⟩
    obtain ⟨m, hm⟩ := List.exists_mem_of_ne_nil _ hne
    exact ⟨m, (mem_allInduced sel H P hP m).1 hm, hlen⟩
  · rintro ⟨m, hm, hlen⟩
    exact ⟨hlen, List.ne_nil_of_mem ((mem_allInduced sel H P hP m).2 hm)⟩

end SynKit.Match

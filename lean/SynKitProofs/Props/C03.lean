import SynKitModel.Reactor
import SynKitProofs.ReactorLemmas
import SynKitProofs.ReactorHydrogen
import SynKitProofs.ReactorIso
import SynKitProofs.ReactorExplicit
import SynKitProofs.Match
/-!
# C03 — every reaction proposed by rule application is a genuine instance of the rule

Property theorems only; helper lemmas live in `SynKitProofs/ReactorLemmas.lean`.

Setting (implicit path of `SynReactor`, i.e. `pattern_has_explicit_H = False`): `host` is the
substrate graph (`WFHost`), `T` the template `rule.rc.raw` (`WFTemplate`), `m` a match of the
template's reactant side `left T` into the substrate on element, charge and bond order with the
"host hcount ≥ pattern hcount" rule (`IsMono monoSel host (left T) m`), and `glue host T m` the ITS
that `_glue_graph` returns for `m`.  Orientation (`invert`) is handled by `invert_swaps_sides`:
a backward application is a forward application of `invert T`.
The explicit re-match path (`pattern_has_explicit_H = True`) is treated in the section "The
explicit-hydrogen re-match path" below (`explicit_*`, `fullStatement_explicit_partial`).
-/
namespace SynKit.Reactor
open SynKit.Match

/-- The property at full strength, at graph level (the SMILES rendering of each ITS by RDKit is
trusted).  `results` stands for the list of ITS graphs `SynReactor.its_list` returns for a
substrate and an oriented template.  (a) reactant side = substrate after hydrogen normalisation,
(b) hydrogen, charge and element balance, (c) labelled changed-bond graph isomorphic to the
template's; that no other bond is altered is part of (c) by the definition of `labelledChanges`
(a bond outside it has equal orders on both sides) together with (a). -/
def C03.FullStatement (results : LGraph → LGraph → List LGraph) : Prop :=
  ∀ host T : LGraph, WFHost host → WFTemplate T →
    ∀ its ∈ results host T,
      specA host its = true ∧ specB its = true ∧ specC its T = true

/-- **C03 (a)** — the substrate is unchanged on its side: decomposing the glued ITS gives back, on
the reactant side, exactly the substrate (same atoms with element, aromaticity, hydrogen count and
charge, same bonds with the same orders; nothing added, nothing dropped). -/
theorem glue_left_unchanged (host T : LGraph) (m : Mapping) (hH : WFHost host) (hT : WFTemplate T)
    (hm : IsMono monoSel host (left T) m) :
    left (glue host T m) = hostProj host := by
  have h1 := glue_left_nodes host T m hH hT hm
  have h2 := glue_left_edges host T m hH hT hm
  cases hL : left (glue host T m) with
  | mk ns es =>
    rw [hL] at h1 h2
    simp only at h1 h2
    rw [h1, h2]

/-- Corollary of (a) in the form the harness evaluates on the implementation's outputs. -/
theorem glue_specA (host T : LGraph) (m : Mapping) (hH : WFHost host) (hT : WFTemplate T)
    (hm : IsMono monoSel host (left T) m) :
    normH (left (glue host T m)) = normH (hostProj host) := by
  rw [glue_left_unchanged host T m hH hT hm]

/-- **C03 (b)** — the result is exactly as (un)balanced as the template: total hydrogen-count
change and total charge change of the glued ITS equal those of the template, and every atom keeps
its element.  In particular a template that conserves hydrogens and charge yields a balanced
reaction (`glue_balanced`); a reaction-centre template in which an atom changes charge or hydrogen
count without a changed bond is itself unbalanced (finding F10) and passes its imbalance on. -/
theorem glue_balance (host T : LGraph) (m : Mapping) (hH : WFHost host) (hT : WFTemplate T)
    (hm : IsMono monoSel host (left T) m) :
    (imbalance (glue host T m)).1 = (imbalance T).1 ∧
    (imbalance (glue host T m)).2.1 = (imbalance T).2.1 ∧
    (imbalance (glue host T m)).2.2 = true := by
  refine ⟨?_, ?_, ?_⟩
  · -- hydrogens
    have := glue_sum host T m hH hT hm
      (fun tg => numOf (tupGet (tupGet tg 1) 2) - numOf (tupGet (tupGet tg 0) 2))
      (by intro a; simp [defaultTg, tupGet, tupList])
      (by
        intro q h hqh
        rw [glue_tg_matched host T m hH hT hm q h hqh]
        show (numOf (pyGet (host.attrs h) "hcount" (.num 0)) -
            (numOf (tgField (T.attrs q) 0 2) - numOf (tgField (T.attrs q) 1 2))) -
            numOf (pyGet (host.attrs h) "hcount" (.num 0)) =
          numOf (tgField (T.attrs q) 1 2) - numOf (tgField (T.attrs q) 0 2)
        ring)
    exact this
  · -- charge
    have := glue_sum host T m hH hT hm
      (fun tg => numOf (tupGet (tupGet tg 1) 3) - numOf (tupGet (tupGet tg 0) 3))
      (by intro a; simp [defaultTg, tupGet, tupList])
      (by
        intro q h hqh
        rw [glue_tg_matched host T m hH hT hm q h hqh]
        have hc := (mono_node host T m hT hm q h hqh).2
        have : numOf (pyGet (host.attrs h) "charge" (.num 0)) = numOf (tgField (T.attrs q) 0 3) := by
          rw [numOf_pyGet_zero, hc]
        show numOf (tgField (T.attrs q) 1 3) - numOf (pyGet (host.attrs h) "charge" (.num 0)) =
          numOf (tgField (T.attrs q) 1 3) - numOf (tgField (T.attrs q) 0 3)
        rw [this])
    exact this
  · -- elements
    unfold imbalance
    simp only [List.all_eq_true, decide_eq_true_eq]
    intro p hp
    obtain ⟨hid, hat⟩ := glue_nodes_attrs host T m hH p hp
    rw [hat]
    cases hpre : preimage m p.1 with
    | none =>
      unfold tgField
      rw [glue_tg_unmatched host T m hH p.1 hid hpre]
      simp [defaultTg, tupGet, tupList]
    | some q =>
      unfold tgField
      rw [glue_tg_matched host T m hH hT hm q p.1 (preimage_mem m p.1 q hpre)]
      simp [tupGet, tupList]

/-- (b) as a verdict: a balanced template gives balanced results. -/
theorem glue_balanced (host T : LGraph) (m : Mapping) (hH : WFHost host) (hT : WFTemplate T)
    (hm : IsMono monoSel host (left T) m) (hb : (imbalance T).1 = 0 ∧ (imbalance T).2.1 = 0) :
    specB (glue host T m) = true := by
  obtain ⟨h1, h2, h3⟩ := glue_balance host T m hH hT hm
  unfold specB
  rw [decide_eq_true_eq]
  rw [hb.1] at h1; rw [hb.2] at h2
  exact Prod.ext h1 (Prod.ext h2 h3)

/-- **C03 (c)** — the changed bonds of the result are the `m`-image of the template's.
1. every template bond has an image bond in the result with the same order change;
2. every bond of the result is either such an image (same order change) or a substrate bond that
   is the image of no template bond and keeps its order `(o, o)` — no other bond is altered;
3. a matched atom has the template atom's element and the template atom's hydrogen-count change;
4. an atom outside the match keeps its hydrogen count.
`RoundExact` says Python's `round` loses nothing where the template creates a bond between two
atoms the substrate already bonds (always true when such a clash does not occur). -/
theorem glue_rc_image (host T : LGraph) (m : Mapping) (hH : WFHost host) (hT : WFTemplate T)
    (hm : IsMono monoSel host (left T) m) (hr : RoundExact host T m) :
    (∀ te ∈ T.edges, ∃ e ∈ (glue host T m).edges, landsOn m te e.1 e.2.1 = true ∧ delta e.2.2 = delta te.2.2) ∧
    (∀ e ∈ (glue host T m).edges,
      (∃ te ∈ T.edges, landsOn m te e.1 e.2.1 = true ∧ delta e.2.2 = delta te.2.2) ∨
      (delta e.2.2 = 0 ∧ ordAt e.2.2 0 = ordAt e.2.2 1 ∧ ∀ te ∈ T.edges, landsOn m te e.1 e.2.1 = false)) ∧
    (∀ q h, (q, h) ∈ m →
      tgField ((glue host T m).attrs h) 0 0 = tgField (T.attrs q) 0 0 ∧
      hR ((glue host T m).attrs h) - hL ((glue host T m).attrs h) = hR (T.attrs q) - hL (T.attrs q)) ∧
    (∀ h ∈ host.ids, preimage m h = none →
      hR ((glue host T m).attrs h) = hL ((glue host T m).attrs h)) := by
  refine ⟨glue_edge_image host T m hT hm hr, glue_edges_classified host T m hT hr, ?_, ?_⟩
  · intro q h hqh
    have hq : q ∈ T.ids := by
      rw [← left_ids T hT, ← hm.1]; exact List.mem_map.2 ⟨(q, h), hqh, rfl⟩
    have hqa := hT.2.1 (q, T.attrs q) (attrs_mem T q hq)
    have hel := (mono_node host T m hT hm q h hqh).1
    have e := glue_tg_matched host T m hH hT hm q h hqh
    have hL' : hL ((glue host T m).attrs h) = numOf (pyGet (host.attrs h) "hcount" (.num 0)) := by
      unfold hL tgField; rw [e]; rfl
    have hR' : hR ((glue host T m).attrs h) = numOf (pyGet (host.attrs h) "hcount" (.num 0)) -
        (numOf (tgField (T.attrs q) 0 2) - numOf (tgField (T.attrs q) 1 2)) := by
      unfold hR tgField; rw [e]; rfl
    have hE : tgField ((glue host T m).attrs h) 0 0 = pyGet (host.attrs h) "element" (.str "*") := by
      unfold tgField; rw [e]; rfl
    constructor
    · rw [hE]
      have hne : Attrs.get (host.attrs h) "element" ≠ Val.none := by
        rw [hel]; intro e
        have := hqa.2.2.2
        rw [e] at this; exact Bool.noConfusion this
      rw [pyGet_of_get_ne_none _ _ _ hne, hel]
    · rw [hL', hR']; unfold hR hL; ring
  · intro h hh hpre
    unfold hR hL tgField
    rw [glue_tg_unmatched host T m hH h hh hpre]
    simp [defaultTg, tupGet, tupList]

/-- **C03 (c), in the form of the specification** — the labelled graph of changed bonds of the result
(end atoms labelled with element and hydrogen-count change, bonds with the amount by which their
order changes) is isomorphic to that of the template; the isomorphism is the match itself. -/
theorem glue_rc_iso (host T : LGraph) (m : Mapping) (hH : WFHost host) (hT : WFTemplate T)
    (hm : IsMono monoSel host (left T) m) (hr : RoundExact host T m) :
    ∃ m', IsIso chgSel (labelledChanges (glue host T m)) (labelledChanges T) m' :=
  glue_lc_iso host T m hH hT hm hr

/-- The three clauses as the verdicts `reactor.spec` computes on an output, for the model's own
output: (a) and (b) unconditionally (for a balanced template), (c) given the matching engine's
theorem `isoDecide_iff` (hypothesis `hengine`; see `glue_specC_of_engine`). -/
theorem glue_meets_spec
    (hengine : ∀ H P : LGraph, P.WF → (isoDecide chgSel H P = true ↔ ∃ m, IsIso chgSel H P m))
    (host T : LGraph) (m : Mapping) (hH : WFHost host) (hT : WFTemplate T)
    (hm : IsMono monoSel host (left T) m) (hr : RoundExact host T m)
    (hb : (imbalance T).1 = 0 ∧ (imbalance T).2.1 = 0) :
    normH (left (glue host T m)) = normH (hostProj host) ∧ specB (glue host T m) = true ∧
    specC (glue host T m) T = true :=
  ⟨glue_specA host T m hH hT hm, glue_balanced host T m hH hT hm hb,
   glue_specC_of_engine hengine host T m hH hT hm hr⟩

/-- **C03 (a)+(b)+(c) as the verdicts of `reactor.spec`, unconditionally on the engine**: the engine
hypothesis of `glue_meets_spec` is discharged by `SynKit.Match.isoDecide_iff`. -/
theorem glue_meets_spec_full (host T : LGraph) (m : Mapping) (hH : WFHost host) (hT : WFTemplate T)
    (hm : IsMono monoSel host (left T) m) (hr : RoundExact host T m)
    (hb : (imbalance T).1 = 0 ∧ (imbalance T).2.1 = 0) :
    normH (left (glue host T m)) = normH (hostProj host) ∧ specB (glue host T m) = true ∧
    specC (glue host T m) T = true :=
  glue_meets_spec (fun H P hP => isoDecide_iff chgSel H P hP) host T m hH hT hm hr hb

/-- **C03 for the implicit path (`_partial`)** — `C03.FullStatement` holds of the model's implicit
path: for a well-formed substrate and template, a hydrogen- and charge-balanced template and exact
rounding, every ITS glued along any list of matches drawn from the exhaustive enumeration (strategy
`all` uses all of them, `comp`/`bt` sub-lists) meets the three verdicts (a), (b), (c) that
`reactor.spec` evaluates.  Missing for the full statement: the explicit re-matching path
(`pattern_has_explicit_H`), which is proved separately under a guard (`fullStatement_explicit_partial`
below) — the pinned code does *not* meet (b) there in general (`explicit_guard_needed_witness`; see
also the F20-family probe in `harness/props/c03.py`) —
and the composition with `_explicit_h` (proved separately, under its pairing hypothesis, as
`explicitH_balance`); templates that are themselves unbalanced pass their imbalance on
(`glue_balance`, finding F10). -/
theorem fullStatement_implicit_partial :
    ∀ host T : LGraph, WFHost host → WFTemplate T →
      ((imbalance T).1 = 0 ∧ (imbalance T).2.1 = 0) →
      ∀ ms : List Mapping, (∀ m ∈ ms, m ∈ allMonos monoSel host (left T) ∧ RoundExact host T m) →
        ∀ its ∈ implicitResults host T ms,
          specA host its = true ∧ specB its = true ∧ specC its T = true := by
  intro host T hH hT hb ms hms its hits
  obtain ⟨m, hmem, rfl⟩ := List.mem_map.1 hits
  obtain ⟨hall, hr⟩ := hms m hmem
  have hm := (mem_allMonos monoSel host (left T) (left_wf T hT) m).1 hall
  have h3 := glue_meets_spec_full host T m hH hT hm hr hb
  exact ⟨glue_specA_verdict host T m hH hT hm, h3.2.1, h3.2.2⟩

/-- **Orientation.** Applying a template backwards is applying `invert T` forwards:
`_invert_template` swaps the two sides of the template (as `its_decompose` reads them). -/
theorem invert_swaps_sides (T : LGraph) (hT : NumericOrders T) :
    left (invert T) = right T ∧ right (invert T) = left T := by
  constructor
  · have h1 := invert_left_nodes T
    have h2 := invert_left_edges T hT
    cases hL : left (invert T) with
    | mk ns es => rw [hL] at h1 h2; simp only at h1 h2; rw [h1, h2]
  · have h1 := invert_right_nodes T
    have h2 := invert_right_edges T hT
    cases hL : right (invert T) with
    | mk ns es => rw [hL] at h1 h2; simp only at h1 h2; rw [h1, h2]

/-- `_invert_template` is an involution on what the reactor reads from a template (its two
sides). -/
theorem invert_involutive (T : LGraph) (hT : NumericOrders T) :
    left (invert (invert T)) = left T ∧ right (invert (invert T)) = right T := by
  have h1 := invert_swaps_sides (invert T) (invert_numeric T)
  have h2 := invert_swaps_sides T hT
  exact ⟨by rw [h1.1, h2.2], by rw [h1.2, h2.1]⟩

/-! ### Non-vacuity: a concrete substitution (amine + bromide → C–N bond, HBr), all hypotheses hold -/

/-- Substrate `C–Br . N` (ids 1, 2, 3; CH3, Br, NH2). -/
def exHost : LGraph :=
  { nodes := [(1, [("element", .str "C"), ("hcount", .num 6), ("charge", .num 0)]),
              (2, [("element", .str "Br"), ("hcount", .num 0), ("charge", .num 0)]),
              (3, [("element", .str "N"), ("hcount", .num 4), ("charge", .num 0)])]
    edges := [(1, 2, [("order", .num 2)])] }

/-- Template: N(10) loses a hydrogen and bonds to C(11); C(11)–Br(12) breaks; Br gains the hydrogen. -/
def exT : LGraph :=
  { nodes := [(10, [("typesGH", .tup [.tup [.str "N", .bool false, .num 2, .num 0, .tup []],
                                       .tup [.str "N", .bool false, .num 0, .num 0, .tup []]])]),
              (11, [("typesGH", .tup [.tup [.str "C", .bool false, .num 0, .num 0, .tup []],
                                       .tup [.str "C", .bool false, .num 0, .num 0, .tup []]])]),
              (12, [("typesGH", .tup [.tup [.str "Br", .bool false, .num 0, .num 0, .tup []],
                                       .tup [.str "Br", .bool false, .num 2, .num 0, .tup []]])])]
    edges := [(10, 11, [("order", .tup [.num 0, .num 2]), ("standard_order", .num (-2))]),
              (11, 12, [("order", .tup [.num 2, .num 0]), ("standard_order", .num 2)])] }

def exM : Mapping := [(10, 3), (11, 1), (12, 2)]

example : WFHost exHost := by decide
example : WFTemplate exT := by decide
example : RoundExact exHost exT exM := by decide
example : NumericOrders exT := by
  intro e he
  simp only [exT, List.mem_cons, List.mem_nil_iff, or_false] at he
  rcases he with rfl | rfl <;> decide

theorem exMono : IsMono monoSel exHost (left exT) exM := by
  refine ⟨by decide, by decide, ?_, ?_⟩
  · intro ph hph
    simp only [exM, List.mem_cons, List.mem_nil_iff, or_false] at hph
    rcases hph with rfl | rfl | rfl <;> decide
  · intro e he
    have : (left exT).edges = [(11, 12, [("order", Val.num 2)])] := by decide
    rw [this] at he
    simp only [List.mem_cons, List.mem_nil_iff, or_false] at he
    subst he
    exact ⟨1, 2, [("order", .num 2)], by decide, by decide, by decide, by decide⟩

/-- The example is not trivial: two bonds change, the template is balanced, the result is
balanced, its reactant side is the substrate and its changed-bond graph is isomorphic to the
template's — all by evaluation of the model. -/
example : (labelledChanges (glue exHost exT exM)).edges.length = 2 ∧ imbalance exT = (0, 0, true) ∧
    specA exHost (glue exHost exT exM) = true ∧ specB (glue exHost exT exM) = true ∧
    specC (glue exHost exT exM) exT = true := by decide

/-- The exhaustive enumeration finds exactly the example match, so the implicit path returns exactly
one ITS and `fullStatement_implicit_partial` is not vacuous. -/
example : implicitResults exHost exT (allMonos monoSel exHost (left exT)) = [glue exHost exT exM] := by decide

example : left (glue exHost exT exM) = hostProj exHost :=
  glue_left_unchanged exHost exT exM (by decide) (by decide) exMono

/-! ### `_explicit_h` -/

/-- **C03, `_explicit_h`** — it moves hydrogens and never creates or destroys them, *provided* every
atom that carries hydrogen-pair ids carries exactly as many as its hydrogen count changes (`hcons`)
and every pair component gives as many hydrogens as it takes (`hbal`) — which is what
`SynRule._strip_explicit_h` produces whenever no explicit hydrogen stays on its atom and no atom
both gives and receives one.  For every atom `n` of the input ITS, with `ms` the list of
(donor, receiver) migrations: the reactant-side count of `n` drops by exactly the number of new
hydrogen atoms bonded to `n` on the reactant side, the product-side count by the number bonded to
`n` on the product side; the only new atoms are those hydrogens.  Hence the reactant side is
unchanged up to making hydrogens explicit, and the hydrogen balance of the ITS is untouched. -/
theorem explicitH_balance (I I' : LGraph) (h : explicitH I = some I')
    (hw : ∀ n ∈ affected I, TgWF (I.attrs n))
    (hcons : ∀ n ∈ affected I, 2 * ((affected I).count n : Int) = |dOf I n|)
    (hbal : componentsBalanced I = true) :
    ∃ ms, migrations I = some ms ∧
      I'.ids = I.ids ++ (newHNodes (nextId I) ms).map (·.1) ∧
      ∀ n ∈ I.ids,
        hL (I'.attrs n) + 2 * cntSrc ms n = hL (I.attrs n) ∧
        hR (I'.attrs n) + 2 * cntDst ms n = hR (I.attrs n) :=
  explicitH_conserves I I' h hw hcons hbal

/-- Non-vacuity: the glued ITS of the example after `SynRule`-style pairing (N gives the hydrogen
that Br receives) satisfies the hypotheses, and one hydrogen atom is created. -/
def exPaired : LGraph :=
  { nodes := [(1, [("typesGH", .tup [.tup [.str "C", .bool false, .num 6, .num 0, .tup []],
                                      .tup [.str "C", .bool false, .num 6, .num 0, .tup []]])]),
              (2, [("typesGH", .tup [.tup [.str "Br", .bool false, .num 0, .num 0, .tup []],
                                      .tup [.str "Br", .bool false, .num 2, .num 0, .tup []]]),
                   ("h_pairs", .tup [.num 2])]),
              (3, [("typesGH", .tup [.tup [.str "N", .bool false, .num 4, .num 0, .tup []],
                                      .tup [.str "N", .bool false, .num 2, .num 0, .tup []]]),
                   ("h_pairs", .tup [.num 2])])]
    edges := [(1, 2, [("order", .tup [.num 2, .num 0])]), (3, 1, [("order", .tup [.num 0, .num 2])])] }

example : migrations exPaired = some [(3, 2)] ∧ componentsBalanced exPaired = true ∧ affected exPaired = [2, 3] ∧
    (explicitH exPaired).map (·.ids) = some [1, 2, 3, 4] := by decide

example : ∀ n ∈ affected exPaired, TgWF (exPaired.attrs n) ∧ 2 * ((affected exPaired).count n : Int) = |dOf exPaired n| := by
  have : affected exPaired = [2, 3] := by decide
  rw [this]
  intro n hn
  simp only [List.mem_cons, List.mem_nil_iff, or_false] at hn
  rcases hn with rfl | rfl
  · exact ⟨by unfold TgWF; decide, by decide⟩
  · exact ⟨by unfold TgWF; decide, by decide⟩

/-- The pairing hypothesis cannot be dropped (a defect of `_explicit_h` on templates outside the
corpus): an atom whose explicit hydrogen stays on it (a spectator hydrogen: pair id present, no
change of count) loses that hydrogen on the reactant side although no hydrogen atom is created. -/
def exSpectator : LGraph :=
  { nodes := [(1, [("typesGH", .tup [.tup [.str "N", .bool false, .num 2, .num 0, .tup []],
                                      .tup [.str "N", .bool false, .num 2, .num 0, .tup []]]),
                   ("h_pairs", .tup [.num 2])])]
    edges := [] }

theorem explicitH_spectator_witness :
    migrations exSpectator = some [] ∧
    (explicitH exSpectator).map (fun I' => (I'.ids, hL (I'.attrs 1), hR (I'.attrs 1))) = some ([1], 0, 2) ∧
    hL (exSpectator.attrs 1) = 2 := by decide

/-! ### The explicit-hydrogen re-match path (`pattern_has_explicit_H = True`)

Setting.  The pattern `left T` contains hydrogen atoms bonded to heavy atoms.  `SynReactor.mappings`
matches the *folded* pattern `hToImplicit (left T)` into the substrate; `nodes` is the list of images
of such a first match (`[v for _, v in mapping.items()]`).  `_get_explicit_map` makes every hydrogen
of those atoms an atom (`explicitHost host nodes` = `h_to_explicit` after the `typesGH` defaults) and
matches the explicit pattern `left T` into that graph again; `m` is any such re-match
(`IsMono monoSel (explicitHost host nodes) (left T) m`, i.e. any member of the exhaustive
enumeration by `explicit_rematch_sound`); `glue (explicitHost host nodes) T m` is the ITS
`_glue_graph` returns for it.

Outcome.  Clauses (a') and (c') hold for *every* re-match.  Clause (b') holds under the decidable
guard `RematchCovers (explicitHost host nodes) m` — every atom whose hydrogens were expanded is
matched again — and fails without it (`explicit_guard_needed_witness`,
`explicit_guard_needed_witness_sites`): an expanded atom the re-match leaves aside keeps the
substrate's hydrogen count on its product side *and* the explicit hydrogen atoms (findings F20 /
NEW-B).  The guard is about the re-match, not only about the template: a template atom with a
positive folded hydrogen count can never be matched back onto its own expanded image (its count
there is 0), so it is either not re-matched at all (F20: no output) or re-matched elsewhere
(NEW-B: unbalanced output); but an atom with hydrogen count 0 in the pattern can wander to an
equivalent site as well. -/

/-- **Explicit path, stage 1** — what `_glue_graph` hands to the re-match is a well-formed graph
with consistent labels: distinct ids (the new hydrogen ids are fresh), bonds between distinct existing
atoms, no parallel bonds, positive orders, and on every atom a `typesGH` whose reactant side is the
atom's own label. -/
theorem explicit_host_prepared (host : LGraph) (nodes : List Nat) (hH : WFHost host) :
    HostX (explicitHost host nodes) :=
  explicitHost_hostX host nodes hH

/-- **Explicit path, stage 2** — the re-matches the exhaustive strategy enumerates are exactly the
monomorphisms of the explicit pattern into the explicit host (element, charge, bond order, and
"host hcount ≥ pattern hcount"). -/
theorem explicit_rematch_sound (host T : LGraph) (nodes : List Nat) (hT : WFTemplate T) (m : Mapping) :
    m ∈ allMonos monoSel (explicitHost host nodes) (left T) ↔ IsMono monoSel (explicitHost host nodes) (left T) m :=
  mem_allMonos monoSel _ (left T) (left_wf T hT) m

/-- **C03 (a'), explicit path** — the reactant side of the result is the substrate *up to making the
expanded hydrogens explicit*: decomposing the glued ITS gives back exactly `h_to_explicit(substrate,
matched atoms)` (same atoms with element, aromaticity, hydrogen count and charge, same bonds with the
same orders; the only additions are the hydrogen atoms `h_to_explicit` creates, each taken off its
heavy atom's count).  No guard. -/
theorem explicit_left_unchanged (host T : LGraph) (nodes : List Nat) (m : Mapping) (hH : WFHost host)
    (hT : WFTemplate T) (hm : IsMono monoSel (explicitHost host nodes) (left T) m) :
    left (glue (explicitHost host nodes) T m) = hostProj (hToExplicit host nodes) := by
  rw [glue_left_X _ T m (explicitHost_hostX host nodes hH) hT hm, hostProj_explicitHost]

/-- **C03 (b'), explicit path** — under the guard (every expanded atom is matched again) the result
is exactly as (un)balanced as the template: total hydrogen-count change and total charge change of
the glued ITS equal those of the template (the explicit hydrogen atoms are atoms on both sides and
count 0), every atom keeps its element. -/
theorem explicit_balance (host T : LGraph) (nodes : List Nat) (m : Mapping) (hH : WFHost host)
    (hT : WFTemplate T) (hm : IsMono monoSel (explicitHost host nodes) (left T) m)
    (hc : RematchCovers (explicitHost host nodes) m) :
    (imbalance (glue (explicitHost host nodes) T m)).1 = (imbalance T).1 ∧
    (imbalance (glue (explicitHost host nodes) T m)).2.1 = (imbalance T).2.1 ∧
    (imbalance (glue (explicitHost host nodes) T m)).2.2 = true := by
  have hX := explicitHost_hostX host nodes hH
  generalize explicitHost host nodes = E at *
  refine ⟨?_, ?_, ?_⟩
  · have := glue_sum_X E T m hX hT hm hc
      (fun tg => numOf (tupGet (tupGet tg 1) 2) - numOf (tupGet (tupGet tg 0) 2))
      (by intro a; simp [defaultTg, tupGet, tupList])
      (by
        intro q h hqh
        rw [glue_tg_matched_X E T m hX hT hm q h hqh]
        show (numOf (pyGet (E.attrs h) "hcount" (.num 0)) -
            (numOf (tgField (T.attrs q) 0 2) - numOf (tgField (T.attrs q) 1 2))) -
            numOf (pyGet (E.attrs h) "hcount" (.num 0)) =
          numOf (tgField (T.attrs q) 1 2) - numOf (tgField (T.attrs q) 0 2)
        ring)
    exact this
  · have := glue_sum_X E T m hX hT hm hc
      (fun tg => numOf (tupGet (tupGet tg 1) 3) - numOf (tupGet (tupGet tg 0) 3))
      (by intro a; simp [defaultTg, tupGet, tupList])
      (by
        intro q h hqh
        rw [glue_tg_matched_X E T m hX hT hm q h hqh]
        have hc' := (mono_node E T m hT hm q h hqh).2
        have : numOf (pyGet (E.attrs h) "charge" (.num 0)) = numOf (tgField (T.attrs q) 0 3) := by
          rw [numOf_pyGet_zero, hc']
        show numOf (tgField (T.attrs q) 1 3) - numOf (pyGet (E.attrs h) "charge" (.num 0)) =
          numOf (tgField (T.attrs q) 1 3) - numOf (tgField (T.attrs q) 0 3)
        rw [this])
    exact this
  · unfold imbalance
    simp only [List.all_eq_true, decide_eq_true_eq]
    intro p hp
    obtain ⟨hid, hat⟩ := glue_nodes_attrs_X E T m hX.1.1 p hp
    rw [hat]
    cases hpre : preimage m p.1 with
    | none =>
      have hpn : (p.1, E.attrs p.1) ∈ E.nodes := attrs_mem E p.1 hid
      unfold tgField
      rw [glue_tg_unmatched_X E T m p.1 hid hpre (hc _ hpn hpre)]
      simp [defaultTg, tupGet, tupList]
    | some q =>
      unfold tgField
      rw [glue_tg_matched_X E T m hX hT hm q p.1 (preimage_mem m p.1 q hpre)]
      simp [tupGet, tupList]

/-- (b') as a verdict: a balanced template gives balanced results on the explicit path, under the
guard. -/
theorem explicit_balanced (host T : LGraph) (nodes : List Nat) (m : Mapping) (hH : WFHost host)
    (hT : WFTemplate T) (hm : IsMono monoSel (explicitHost host nodes) (left T) m)
    (hc : RematchCovers (explicitHost host nodes) m) (hb : (imbalance T).1 = 0 ∧ (imbalance T).2.1 = 0) :
    specB (glue (explicitHost host nodes) T m) = true := by
  obtain ⟨h1, h2, h3⟩ := explicit_balance host T nodes m hH hT hm hc
  unfold specB
  rw [decide_eq_true_eq]
  rw [hb.1] at h1; rw [hb.2] at h2
  exact Prod.ext h1 (Prod.ext h2 h3)

/-- **C03 (c'), explicit path** — the changed bonds of the result are the `m`-image of the
template's (an explicit hydrogen atom of the template is an atom like any other):
1. every template bond has an image bond in the result with the same order change;
2. every bond of the result is such an image or a bond of the explicit host (a substrate bond or a
   bond to an expanded hydrogen) that is the image of no template bond and keeps its order;
3. a matched atom has the template atom's element and hydrogen-count change;
4. under the guard, an atom outside the re-match keeps its hydrogen count.
Clauses 1–3 need no guard. -/
theorem explicit_rc_image (host T : LGraph) (nodes : List Nat) (m : Mapping) (hH : WFHost host)
    (hT : WFTemplate T) (hm : IsMono monoSel (explicitHost host nodes) (left T) m)
    (hr : RoundExact (explicitHost host nodes) T m) :
    (∀ te ∈ T.edges, ∃ e ∈ (glue (explicitHost host nodes) T m).edges,
      landsOn m te e.1 e.2.1 = true ∧ delta e.2.2 = delta te.2.2) ∧
    (∀ e ∈ (glue (explicitHost host nodes) T m).edges,
      (∃ te ∈ T.edges, landsOn m te e.1 e.2.1 = true ∧ delta e.2.2 = delta te.2.2) ∨
      (delta e.2.2 = 0 ∧ ordAt e.2.2 0 = ordAt e.2.2 1 ∧ ∀ te ∈ T.edges, landsOn m te e.1 e.2.1 = false)) ∧
    (∀ q h, (q, h) ∈ m →
      tgField ((glue (explicitHost host nodes) T m).attrs h) 0 0 = tgField (T.attrs q) 0 0 ∧
      hR ((glue (explicitHost host nodes) T m).attrs h) - hL ((glue (explicitHost host nodes) T m).attrs h) =
        hR (T.attrs q) - hL (T.attrs q)) ∧
    (RematchCovers (explicitHost host nodes) m →
      ∀ h ∈ (explicitHost host nodes).ids, preimage m h = none →
        hR ((glue (explicitHost host nodes) T m).attrs h) = hL ((glue (explicitHost host nodes) T m).attrs h)) := by
  have hX := explicitHost_hostX host nodes hH
  generalize explicitHost host nodes = E at *
  refine ⟨glue_edge_image E T m hT hm hr, glue_edges_classified E T m hT hr,
    fun q h hqh => glue_node_labels_X E T m hX hT hm q h hqh, ?_⟩
  intro hc h hh hpre
  unfold hR hL tgField
  rw [glue_tg_unmatched_X E T m h hh hpre (hc _ (attrs_mem E h hh) hpre)]
  simp [defaultTg, tupGet, tupList]

/-- **C03 (c'), explicit path, in the form of the specification** — the labelled graph of changed
bonds of the result is isomorphic to that of the template; the isomorphism is the re-match.  No
guard: every end atom of a changed bond is matched. -/
theorem explicit_rc_iso (host T : LGraph) (nodes : List Nat) (m : Mapping) (hH : WFHost host)
    (hT : WFTemplate T) (hm : IsMono monoSel (explicitHost host nodes) (left T) m)
    (hr : RoundExact (explicitHost host nodes) T m) :
    ∃ m', IsIso chgSel (labelledChanges (glue (explicitHost host nodes) T m)) (labelledChanges T) m' :=
  glue_lc_iso_X _ T m (explicitHost_hostX host nodes hH) hT hm hr

/-- (c') as the verdict `specC` of `reactor.spec`. -/
theorem explicit_specC (host T : LGraph) (nodes : List Nat) (m : Mapping) (hH : WFHost host)
    (hT : WFTemplate T) (hm : IsMono monoSel (explicitHost host nodes) (left T) m)
    (hr : RoundExact (explicitHost host nodes) T m) :
    specC (glue (explicitHost host nodes) T m) T = true := by
  unfold specC
  exact (isoDecide_iff chgSel _ _ (lc_wf T hT.1)).2 (explicit_rc_iso host T nodes m hH hT hm hr)

/-- **C03 (a'), explicit path, as the verdict `specA` of `reactor.spec`** — after hydrogen
normalisation (hydrogen atoms with a heavy neighbour folded into its count) the reactant side of the
result *is* the substrate: `h_to_explicit` preserves the total hydrogen content of every heavy atom and
the heavy-atom structure.  `WholeH`: the substrate's hydrogen counts are whole numbers and its
hydrogen atoms carry none (true of every `smiles_to_graph` output).  No guard on the re-match. -/
theorem explicit_specA_verdict (host T : LGraph) (nodes : List Nat) (m : Mapping) (hH : WFHost host)
    (hw : WholeH host) (hT : WFTemplate T) (hm : IsMono monoSel (explicitHost host nodes) (left T) m) :
    specA host (glue (explicitHost host nodes) T m) = true := by
  unfold specA
  rw [glue_left_X _ T m (explicitHost_hostX host nodes hH) hT hm, normH_hostProj,
    normH_explicitHost host nodes hH hw]
  exact sameLabelled_refl _

/-- **Why a folded hydrogen count in an explicit pattern defeats the re-match (F20).**  In the
explicit host every atom of the first match has hydrogen count 0 (all its hydrogens are atoms), so a
re-match can send a template atom `q` onto an atom `v` of the first match only if `q` carries no
positive folded count.  A template atom that has explicit hydrogen neighbours *and* a positive count
(or any positive count, in a pattern with explicit hydrogens) is therefore never matched back onto its
own image: it is not re-matched at all (no output, F20) or re-matched onto an unexpanded atom
(unbalanced output, NEW-B, `explicit_guard_needed_witness`). -/
theorem explicit_folded_count_not_rematched (host T : LGraph) (nodes : List Nat) (m : Mapping)
    (hH : WFHost host) (hT : WFTemplate T) (hm : IsMono monoSel (explicitHost host nodes) (left T) m)
    (q v : Nat) (hqv : (q, v) ∈ m) (hv : v ∈ nodes) :
    numOf (tgField (T.attrs q) 0 2) ≤ 0 := by
  have hq : q ∈ T.ids := by
    rw [← left_ids T hT, ← hm.1]; exact List.mem_map.2 ⟨(q, v), hqv, rfl⟩
  obtain ⟨hvE, hok⟩ := hm.2.2.1 (q, v) hqv
  have hz := explicitHost_count_zero host nodes hH _ (attrs_mem _ v hvE) hv
  simp only [nodeOk, monoSel, Bool.not_true, Bool.false_or, Bool.and_eq_true, decide_eq_true_eq] at hok
  have h2 := hok.2
  rw [hcountOf_eq, hcountOf_eq, left_attrs_hcount T hT q hq] at h2
  rw [numOf_pyGet_zero] at hz
  simp only at hz
  omega

/-- **The guard read on the substrate**: it holds as soon as every atom of the first match that
carries hydrogens in the substrate is in the image of the re-match — in particular whenever the
re-match extends the first match. -/
theorem explicit_guard_from_substrate (host : LGraph) (nodes : List Nat) (m : Mapping) (hH : WFHost host)
    (h : ∀ v ∈ nodes, 0 < numOf (pyGet (host.attrs v) "hcount" (.num 0)) → v ∈ m.map (·.2)) :
    RematchCovers (explicitHost host nodes) m :=
  rematchCovers_of_expanded_matched host nodes m hH h

/-- **C03 (b'), explicit path followed by `_explicit_h`** (a template whose un-removable hydrogens
stay atoms while others are folded with pair ids, `explicit_h=True`): the glued ITS has the template's
balance (`explicit_balance`), and `_explicit_h` then only moves hydrogens between counts and new
hydrogen atoms (`explicitH_balance`, under its pairing hypotheses on the glued ITS). -/
theorem explicit_balance_explicitH (host T : LGraph) (nodes : List Nat) (m : Mapping) (hH : WFHost host)
    (hT : WFTemplate T) (hm : IsMono monoSel (explicitHost host nodes) (left T) m)
    (hc : RematchCovers (explicitHost host nodes) m) (I' : LGraph)
    (h : explicitH (glue (explicitHost host nodes) T m) = some I')
    (hw : ∀ n ∈ affected (glue (explicitHost host nodes) T m), TgWF ((glue (explicitHost host nodes) T m).attrs n))
    (hcons : ∀ n ∈ affected (glue (explicitHost host nodes) T m),
      2 * ((affected (glue (explicitHost host nodes) T m)).count n : Int) = |dOf (glue (explicitHost host nodes) T m) n|)
    (hbal : componentsBalanced (glue (explicitHost host nodes) T m) = true) :
    ((imbalance (glue (explicitHost host nodes) T m)).1 = (imbalance T).1 ∧
     (imbalance (glue (explicitHost host nodes) T m)).2.1 = (imbalance T).2.1 ∧
     (imbalance (glue (explicitHost host nodes) T m)).2.2 = true) ∧
    ∃ ms, migrations (glue (explicitHost host nodes) T m) = some ms ∧
      I'.ids = (glue (explicitHost host nodes) T m).ids ++
        (newHNodes (nextId (glue (explicitHost host nodes) T m)) ms).map (·.1) ∧
      ∀ n ∈ (glue (explicitHost host nodes) T m).ids,
        hL (I'.attrs n) + 2 * cntSrc ms n = hL ((glue (explicitHost host nodes) T m).attrs n) ∧
        hR (I'.attrs n) + 2 * cntDst ms n = hR ((glue (explicitHost host nodes) T m).attrs n) :=
  ⟨explicit_balance host T nodes m hH hT hm hc, explicitH_balance _ I' h hw hcons hbal⟩

/-- **C03 for the explicit re-match path (`_partial`)** — `C03.FullStatement` holds of the model's
explicit path under a decidable guard: for a well-formed substrate with whole hydrogen counts, a
well-formed hydrogen- and charge-balanced template, any list `nodes` of first-match images and any list
of re-matches drawn from the exhaustive enumeration on `explicitHost host nodes` that satisfy exact
rounding and the guard `RematchCovers` (every expanded atom is matched again), every ITS
`_glue_graph` returns meets the three verdicts (a), (b), (c) of `reactor.spec`.  What is missing for
the full statement: the guard is necessary for (b) (`explicit_guard_needed_witness`,
`explicit_guard_needed_witness_sites`: on the pinned code the re-match does leave expanded atoms
aside — findings F20/NEW-B — and those outputs are unbalanced); (a) and (c) hold without it
(`explicit_specA_verdict`, `explicit_specC`); unbalanced templates pass their imbalance on
(`explicit_balance`, F10); the composition with `_explicit_h` is per stage
(`explicit_balance_explicitH`). -/
theorem fullStatement_explicit_partial :
    ∀ host T : LGraph, WFHost host → WholeH host → WFTemplate T →
      ((imbalance T).1 = 0 ∧ (imbalance T).2.1 = 0) →
      ∀ (nodes : List Nat) (ms : List Mapping),
        (∀ m ∈ ms, m ∈ allMonos monoSel (explicitHost host nodes) (left T) ∧
          RoundExact (explicitHost host nodes) T m ∧ RematchCovers (explicitHost host nodes) m) →
        ∀ its ∈ explicitResults host T nodes ms,
          specA host its = true ∧ specB its = true ∧ specC its T = true := by
  intro host T hH hw hT hb nodes ms hms its hits
  obtain ⟨m, hmem, rfl⟩ := List.mem_map.1 hits
  obtain ⟨hall, hr, hc⟩ := hms m hmem
  have hm := (explicit_rematch_sound host T nodes hT m).1 hall
  exact ⟨explicit_specA_verdict host T nodes m hH hw hT hm,
    explicit_balanced host T nodes m hH hT hm hc hb,
    explicit_specC host T nodes m hH hT hm hr⟩

/-! ### Non-vacuity on the explicit path: the substitution of the implicit example with the migrating
hydrogen written as an atom (N–H + C–Br → N–C + H–Br) -/

/-- Template: N(10)–H(13) breaks, N(10)–C(11) forms, C(11)–Br(12) breaks, Br(12)–H(13) forms; no
hydrogen is folded into a count. -/
def exTX : LGraph :=
  { nodes := [(10, [("typesGH", .tup [.tup [.str "N", .bool false, .num 0, .num 0, .tup []],
                                       .tup [.str "N", .bool false, .num 0, .num 0, .tup []]])]),
              (11, [("typesGH", .tup [.tup [.str "C", .bool false, .num 0, .num 0, .tup []],
                                       .tup [.str "C", .bool false, .num 0, .num 0, .tup []]])]),
              (12, [("typesGH", .tup [.tup [.str "Br", .bool false, .num 0, .num 0, .tup []],
                                       .tup [.str "Br", .bool false, .num 0, .num 0, .tup []]])]),
              (13, [("typesGH", .tup [.tup [.str "H", .bool false, .num 0, .num 0, .tup []],
                                       .tup [.str "H", .bool false, .num 0, .num 0, .tup []]])])]
    edges := [(10, 13, [("order", .tup [.num 2, .num 0]), ("standard_order", .num 2)]),
              (10, 11, [("order", .tup [.num 0, .num 2]), ("standard_order", .num (-2))]),
              (11, 12, [("order", .tup [.num 2, .num 0]), ("standard_order", .num 2)]),
              (12, 13, [("order", .tup [.num 0, .num 2]), ("standard_order", .num (-2))])] }

/-- Images of the first match (N, C, Br of `exHost`), in the order of the folded pattern. -/
def exNodes : List Nat := [3, 1, 2]

/-- The re-match: N, C, Br as before, the template's hydrogen onto the first expanded hydrogen of N. -/
def exMX : Mapping := [(10, 3), (11, 1), (12, 2), (13, 4)]

example : WFTemplate exTX := by decide

/-- The pattern has an explicit X–H bond, the folded pattern has exactly one match in `exHost`, and
its images are `exNodes`. -/
example : hasXH (left exTX) = true ∧
    allMonos monoSel exHost (hToImplicit (left exTX)) = [[(10, 3), (11, 1), (12, 2)]] := by decide

/-- The explicit host: the five hydrogens of N and C have become the atoms 4–8. -/
example : (explicitHost exHost exNodes).ids = [1, 2, 3, 4, 5, 6, 7, 8] ∧
    (explicitHost exHost exNodes).edges.map (fun e => (e.1, e.2.1)) = [(1, 2), (3, 4), (3, 5), (1, 6), (1, 7), (1, 8)] := by
  decide

theorem exMonoX : IsMono monoSel (explicitHost exHost exNodes) (left exTX) exMX :=
  (isMonoB_iff _ _ _ _).1 (by decide)

example : RematchCovers (explicitHost exHost exNodes) exMX := by decide
example : RoundExact (explicitHost exHost exNodes) exTX exMX := by decide

/-- All hypotheses of the explicit-path theorems hold on the example, four bonds change, and the
verdicts of the specification are met — by evaluation of the model. -/
example : (labelledChanges (glue (explicitHost exHost exNodes) exTX exMX)).edges.length = 4 ∧
    imbalance exTX = (0, 0, true) ∧
    specA exHost (glue (explicitHost exHost exNodes) exTX exMX) = true ∧
    specB (glue (explicitHost exHost exNodes) exTX exMX) = true ∧
    specC (glue (explicitHost exHost exNodes) exTX exMX) exTX = true := by decide

example : left (glue (explicitHost exHost exNodes) exTX exMX) = hostProj (hToExplicit exHost exNodes) :=
  explicit_left_unchanged exHost exTX exNodes exMX (by decide) (by decide) exMonoX

example : specB (glue (explicitHost exHost exNodes) exTX exMX) = true :=
  explicit_balanced exHost exTX exNodes exMX (by decide) (by decide) exMonoX (by decide) (by decide)

/-- `fullStatement_explicit_partial` is not vacuous: on the example the exhaustive re-match returns two
embeddings (the template's hydrogen onto either hydrogen of N), both satisfy the guard and exact
rounding, and the substrate has whole hydrogen counts. -/
example : WholeH exHost ∧
    allMonos monoSel (explicitHost exHost exNodes) (left exTX) = [exMX, [(10, 3), (11, 1), (12, 2), (13, 5)]] ∧
    (∀ m ∈ allMonos monoSel (explicitHost exHost exNodes) (left exTX),
      RoundExact (explicitHost exHost exNodes) exTX m ∧ RematchCovers (explicitHost exHost exNodes) m) ∧
    (explicitResults exHost exTX exNodes (allMonos monoSel (explicitHost exHost exNodes) (left exTX))).length = 2 := by
  decide

example : numOf (tgField (exTX.attrs 10) 0 2) ≤ 0 :=
  explicit_folded_count_not_rematched exHost exTX exNodes exMX (by decide) (by decide) exMonoX 10 3 (by decide) (by decide)

/-! ### The guard cannot be dropped -/

/-- Two bromomethanes (C1–Br2, C4–Br5) and one amine (N3). -/
def exHost2 : LGraph :=
  { nodes := [(1, [("element", .str "C"), ("hcount", .num 6), ("charge", .num 0)]),
              (2, [("element", .str "Br"), ("hcount", .num 0), ("charge", .num 0)]),
              (3, [("element", .str "N"), ("hcount", .num 4), ("charge", .num 0)]),
              (4, [("element", .str "C"), ("hcount", .num 6), ("charge", .num 0)]),
              (5, [("element", .str "Br"), ("hcount", .num 0), ("charge", .num 0)])]
    edges := [(1, 2, [("order", .num 2)]), (4, 5, [("order", .num 2)])] }

/-- A re-match that moves to the second bromomethane although the first one was expanded. -/
def exMW : Mapping := [(10, 3), (11, 4), (12, 5), (13, 6)]

/-- **The guard of (b') cannot be dropped (NEW-B)**, even for a template without any folded hydrogen:
the first match `N3, C1, Br2` expands C1; the exhaustive re-match also returns the embedding onto the
*other* bromomethane; C1 then keeps `typesGH = (0 | 3 H)` and its three explicit hydrogens, so the
result gains three hydrogens (6 half-units) although the template is balanced.  Clauses (a') and (c')
still hold, as proved. -/
theorem explicit_guard_needed_witness_sites :
    WFHost exHost2 ∧ WFTemplate exTX ∧ imbalance exTX = (0, 0, true) ∧
    [(10, 3), (11, 1), (12, 2)] ∈ allMonos monoSel exHost2 (hToImplicit (left exTX)) ∧
    exMW ∈ allMonos monoSel (explicitHost exHost2 exNodes) (left exTX) ∧
    ¬ RematchCovers (explicitHost exHost2 exNodes) exMW ∧
    imbalance (glue (explicitHost exHost2 exNodes) exTX exMW) = (6, 0, true) ∧
    specB (glue (explicitHost exHost2 exNodes) exTX exMW) = false ∧
    specA exHost2 (glue (explicitHost exHost2 exNodes) exTX exMW) = true ∧
    specC (glue (explicitHost exHost2 exNodes) exTX exMW) exTX = true := by decide

/-- `exTX` plus a spectator water O(14) whose two hydrogens are folded into its count (the F20
shape: a pattern with explicit hydrogens in which an atom also carries a positive folded count). -/
def exTW : LGraph :=
  { exTX with nodes := exTX.nodes ++
      [(14, [("typesGH", .tup [.tup [.str "O", .bool false, .num 4, .num 0, .tup []],
                                .tup [.str "O", .bool false, .num 4, .num 0, .tup []]])])] }

/-- Bromomethane, amine and two waters (O4, O5). -/
def exHost3 : LGraph :=
  { nodes := [(1, [("element", .str "C"), ("hcount", .num 6), ("charge", .num 0)]),
              (2, [("element", .str "Br"), ("hcount", .num 0), ("charge", .num 0)]),
              (3, [("element", .str "N"), ("hcount", .num 4), ("charge", .num 0)]),
              (4, [("element", .str "O"), ("hcount", .num 4), ("charge", .num 0)]),
              (5, [("element", .str "O"), ("hcount", .num 4), ("charge", .num 0)])]
    edges := [(1, 2, [("order", .num 2)])] }

/-- **The guard cannot be dropped (F20 family)**: the first match sends the water of the pattern to
O4; all hydrogens of O4 are expanded, so O4 no longer passes "host hcount ≥ 2 H" and *every*
re-match goes to the other water O5; O4 keeps `typesGH = (0 | 2 H)` plus two explicit hydrogens and
each result of this first match gains two hydrogens (4 half-units). -/
theorem explicit_guard_needed_witness :
    WFHost exHost3 ∧ WFTemplate exTW ∧ imbalance exTW = (0, 0, true) ∧
    [(10, 3), (11, 1), (12, 2), (14, 4)] ∈ allMonos monoSel exHost3 (hToImplicit (left exTW)) ∧
    allMonos monoSel (explicitHost exHost3 [3, 1, 2, 4]) (left exTW) =
      [[(10, 3), (11, 1), (12, 2), (13, 6), (14, 5)], [(10, 3), (11, 1), (12, 2), (13, 7), (14, 5)]] ∧
    (∀ m ∈ allMonos monoSel (explicitHost exHost3 [3, 1, 2, 4]) (left exTW),
      ¬ RematchCovers (explicitHost exHost3 [3, 1, 2, 4]) m ∧
      imbalance (glue (explicitHost exHost3 [3, 1, 2, 4]) exTW m) = (4, 0, true) ∧
      specB (glue (explicitHost exHost3 [3, 1, 2, 4]) exTW m) = false) := by decide

end SynKit.Reactor

import SynKitModel.Reactor
import SynKitProofs.ReactorLemmas
import SynKitProofs.ReactorHydrogen
import SynKitProofs.ReactorIso
import SynKitProofs.Match
/-!
# C03 — every reaction proposed by rule application is a genuine instance of the rule

Property theorems only; helper lemmas live in `SynKitProofs/ReactorLemmas.lean`.

Setting (implicit path of `SynReactor`, i.e. `pattern_has_explicit_H = False`): `host` is the
substrate graph (`WFHost`), `T` the template `rule.rc.raw` (`WFTemplate`), `m` a match of the
template's reactant side `left T` into the substrate on element, charge and bond order with the
"host hcount ≥ pattern hcount" rule (`IsMono monoSel host (left T) m`), and `glue host T m` the ITS
that `_glue_graph` returns for `m`.  Orientation (`invert`) is handled by `invert_swaps_sides`:
a backward application is a forward application of `invert T`.
-/
namespace SynKit.Reactor
open SynKit.Match

/-- The property at full strength, at graph level (the SMILES rendering of each ITS by RDKit is
trusted).  `results` stands for the list of ITS graphs `SynReactor.its_list` returns for a
substrate and an oriented template.  (a) reactant side = substrate after hydrogen normalisation,
(b) hydrogen, charge and element balance, (c) labelled changed-bond graph isomorphic to the
template's; that no other bond is altered is part of (c) by the definition of `labelledChanges`
(a bond outside it has equal orders on both sides) together with (a). -/
def C03.FullStatement (results : LGraph → LGraph → List LGraph) : Prop :=
  ∀ host T : LGraph, WFHost host → WFTemplate T →
    ∀ its ∈ results host T,
      specA host its = true ∧ specB its = true ∧ specC its T = true

/-- **C03 (a)** — the substrate is unchanged on its side: decomposing the glued ITS gives back, on
the reactant side, exactly the substrate (same atoms with element, aromaticity, hydrogen count and
charge, same bonds with the same orders; nothing added, nothing dropped). -/
theorem glue_left_unchanged (host T : LGraph) (m : Mapping) (hH : WFHost host) (hT : WFTemplate T)
    (hm : IsMono monoSel host (left T) m) :
    left (glue host T m) = hostProj host := by
  have h1 := glue_left_nodes host T m hH hT hm
  have h2 := glue_left_edges host T m hH hT hm
  cases hL : left (glue host T m) with
  | mk ns es =>
    rw [hL] at h1 h2
    simp only at h1 h2
    rw [h1, h2]

/-- Corollary of (a) in the form the harness evaluates on the implementation's outputs. -/
theorem glue_specA (host T : LGraph) (m : Mapping) (hH : WFHost host) (hT : WFTemplate T)
    (hm : IsMono monoSel host (left T) m) :
    normH (left (glue host T m)) = normH (hostProj host) := by
  rw [glue_left_unchanged host T m hH hT hm]

/-- **C03 (b)** — the result is exactly as (un)balanced as the template: total hydrogen-count
change and total charge change of the glued ITS equal those of the template, and every atom keeps
its element.  In particular a template that conserves hydrogens and charge yields a balanced
reaction (`glue_balanced`); a reaction-centre template in which an atom changes charge or hydrogen
count without a changed bond is itself unbalanced (finding F10) and passes its imbalance on. -/
theorem glue_balance (host T : LGraph) (m : Mapping) (hH : WFHost host) (hT : WFTemplate T)
    (hm : IsMono monoSel host (left T) m) :
    (imbalance (glue host T m)).1 = (imbalance T).1 ∧
    (imbalance (glue host T m)).2.1 = (imbalance T).2.1 ∧
    (imbalance (glue host T m)).2.2 = true := by
  refine ⟨?_, ?_, ?_⟩
  · -- hydrogens
    have := glue_sum host T m hH hT hm
      (fun tg => numOf (tupGet (tupGet tg 1) 2) - numOf (tupGet (tupGet tg 0) 2))
      (by intro a; simp [defaultTg, tupGet, tupList])
      (by
        intro q h hqh
        rw [glue_tg_matched host T m hH hT hm q h hqh]
        show (numOf (pyGet (host.attrs h) "hcount" (.num 0)) -
            (numOf (tgField (T.attrs q) 0 2) - numOf (tgField (T.attrs q) 1 2))) -
            numOf (pyGet (host.attrs h) "hcount" (.num 0)) =
          numOf (tgField (T.attrs q) 1 2) - numOf (tgField (T.attrs q) 0 2)
        ring)
    exact this
  · -- charge
    have := glue_sum host T m hH hT hm
      (fun tg => numOf (tupGet (tupGet tg 1) 3) - numOf (tupGet (tupGet tg 0) 3))
      (by intro a; simp [defaultTg, tupGet, tupList])
      (by
        intro q h hqh
        rw [glue_tg_matched host T m hH hT hm q h hqh]
        have hc := (mono_node host T m hT hm q h hqh).2
        have : numOf (pyGet (host.attrs h) "charge" (.num 0)) = numOf (tgField (T.attrs q) 0 3) := by
          rw [numOf_pyGet_zero, hc]
        show numOf (tgField (T.attrs q) 1 3) - numOf (pyGet (host.attrs h) "charge" (.num 0)) =
          numOf (tgField (T.attrs q) 1 3) - numOf (tgField (T.attrs q) 0 3)
        rw [this])
    exact this
  · -- elements
    unfold imbalance
    simp only [List.all_eq_true, decide_eq_true_eq]
    intro p hp
    obtain ⟨hid, hat⟩ := glue_nodes_attrs host T m hH p hp
    rw [hat]
    cases hpre : preimage m p.1 with
    | none =>
      unfold tgField
      rw [glue_tg_unmatched host T m hH p.1 hid hpre]
      simp [defaultTg, tupGet, tupList]
    | some q =>
      unfold tgField
      rw [glue_tg_matched host T m hH hT hm q p.1 (preimage_mem m p.1 q hpre)]
      simp [tupGet, tupList]

/-- (b) as a verdict: a balanced template gives balanced results. -/
theorem glue_balanced (host T : LGraph) (m : Mapping) (hH : WFHost host) (hT : WFTemplate T)
    (hm : IsMono monoSel host (left T) m) (hb : (imbalance T).1 = 0 ∧ (imbalance T).2.1 = 0) :
    specB (glue host T m) = true := by
  obtain ⟨h1, h2, h3⟩ := glue_balance host T m hH hT hm
  unfold specB
  rw [decide_eq_true_eq]
  rw [hb.1] at h1; rw [hb.2] at h2
  exact Prod.ext h1 (Prod.ext h2 h3)

/-- **C03 (c)** — the changed bonds of the result are the `m`-image of the template's.
1. every template bond has an image bond in the result with the same order change;
2. every bond of the result is either such an image (same order change) or a substrate bond that
   is the image of no template bond and keeps its order `(o, o)` — no other bond is altered;
3. a matched atom has the template atom's element and the template atom's hydrogen-count change;
4. an atom outside the match keeps its hydrogen count.
`RoundExact` says Python's `round` loses nothing where the template creates a bond between two
atoms the substrate already bonds (always true when such a clash does not occur). -/
theorem glue_rc_image (host T : LGraph) (m : Mapping) (hH : WFHost host) (hT : WFTemplate T)
    (hm : IsMono monoSel host (left T) m) (hr : RoundExact host T m) :
    (∀ te ∈ T.edges, ∃ e ∈ (glue host T m).edges, landsOn m te e.1 e.2.1 = true ∧ delta e.2.2 = delta te.2.2) ∧
    (∀ e ∈ (glue host T m).edges,
      (∃ te ∈ T.edges, landsOn m te e.1 e.2.1 = true ∧ delta e.2.2 = delta te.2.2) ∨
      (delta e.2.2 = 0 ∧ ordAt e.2.2 0 = ordAt e.2.2 1 ∧ ∀ te ∈ T.edges, landsOn m te e.1 e.2.1 = false)) ∧
    (∀ q h, (q, h) ∈ m →
      tgField ((glue host T m).attrs h) 0 0 = tgField (T.attrs q) 0 0 ∧
      hR ((glue host T m).attrs h) - hL ((glue host T m).attrs h) = hR (T.attrs q) - hL (T.attrs q)) ∧
    (∀ h ∈ host.ids, preimage m h = none →
      hR ((glue host T m).attrs h) = hL ((glue host T m).attrs h)) := by
  refine ⟨glue_edge_image host T m hT hm hr, glue_edges_classified host T m hT hr, ?_, ?_⟩
  · intro q h hqh
    have hq : q ∈ T.ids := by
      rw [← left_ids T hT, ← hm.1]; exact List.mem_map.2 ⟨(q, h), hqh, rfl⟩
    have hqa := hT.2.1 (q, T.attrs q) (attrs_mem T q hq)
    have hel := (mono_node host T m hT hm q h hqh).1
    have e := glue_tg_matched host T m hH hT hm q h hqh
    have hL' : hL ((glue host T m).attrs h) = numOf (pyGet (host.attrs h) "hcount" (.num 0)) := by
      unfold hL tgField; rw [e]; rfl
    have hR' : hR ((glue host T m).attrs h) = numOf (pyGet (host.attrs h) "hcount" (.num 0)) -
        (numOf (tgField (T.attrs q) 0 2) - numOf (tgField (T.attrs q) 1 2)) := by
      unfold hR tgField; rw [e]; rfl
    have hE : tgField ((glue host T m).attrs h) 0 0 = pyGet (host.attrs h) "element" (.str "*") := by
      unfold tgField; rw [e]; rfl
    constructor
    · rw [hE]
      have hne : Attrs.get (host.attrs h) "element" ≠ Val.none := by
        rw [hel]; intro e
        have := hqa.2.2.2
        rw [e] at this; exact Bool.noConfusion this
      rw [pyGet_of_get_ne_none _ _ _ hne, hel]
    · rw [hL', hR']; unfold hR hL; ring
  · intro h hh hpre
    unfold hR hL tgField
    rw [glue_tg_unmatched host T m hH h hh hpre]
    simp [defaultTg, tupGet, tupList]

/-- **C03 (c), in the form of the specification** — the labelled graph of changed bonds of the result
(end atoms labelled with element and hydrogen-count change, bonds with the amount by which their
order changes) is isomorphic to that of the template; the isomorphism is the match itself. -/
theorem glue_rc_iso (host T : LGraph) (m : Mapping) (hH : WFHost host) (hT : WFTemplate T)
    (hm : IsMono monoSel host (left T) m) (hr : RoundExact host T m) :
    ∃ m', IsIso chgSel (labelledChanges (glue host T m)) (labelledChanges T) m' :=
  glue_lc_iso host T m hH hT hm hr

/-- The three clauses as the verdicts `reactor.spec` computes on an output, for the model's own
output: (a) and (b) unconditionally (for a balanced template), (c) given the matching engine's
theorem `isoDecide_iff` (hypothesis `hengine`; see `glue_specC_of_engine`). -/
theorem glue_meets_spec
    (hengine : ∀ H P : LGraph, P.WF → (isoDecide chgSel H P = true ↔ ∃ m, IsIso chgSel H P m))
    (host T : LGraph) (m : Mapping) (hH : WFHost host) (hT : WFTemplate T)
    (hm : IsMono monoSel host (left T) m) (hr : RoundExact host T m)
    (hb : (imbalance T).1 = 0 ∧ (imbalance T).2.1 = 0) :
    normH (left (glue host T m)) = normH (hostProj host) ∧ specB (glue host T m) = true ∧
    specC (glue host T m) T = true :=
  ⟨glue_specA host T m hH hT hm, glue_balanced host T m hH hT hm hb,
   glue_specC_of_engine hengine host T m hH hT hm hr⟩

/-- **C03 (a)+(b)+(c) as the verdicts of `reactor.spec`, unconditionally on the engine**: the engine
hypothesis of `glue_meets_spec` is discharged by `SynKit.Match.isoDecide_iff`. -/
theorem glue_meets_spec_full (host T : LGraph) (m : Mapping) (hH : WFHost host) (hT : WFTemplate T)
    (hm : IsMono monoSel host (left T) m) (hr : RoundExact host T m)
    (hb : (imbalance T).1 = 0 ∧ (imbalance T).2.1 = 0) :
    normH (left (glue host T m)) = normH (hostProj host) ∧ specB (glue host T m) = true ∧
    specC (glue host T m) T = true :=
  glue_meets_spec (fun H P hP => isoDecide_iff chgSel H P hP) host T m hH hT hm hr hb

/-- **C03 for the implicit path (`_partial`)** — `C03.FullStatement` holds of the model's implicit
path: for a well-formed substrate and template, a hydrogen- and charge-balanced template and exact
rounding, every ITS glued along any list of matches drawn from the exhaustive enumeration (strategy
`all` uses all of them, `comp`/`bt` sub-lists) meets the three verdicts (a), (b), (c) that
`reactor.spec` evaluates.  Missing for the full statement: the explicit re-matching path
(`pattern_has_explicit_H`), which is covered only by the correspondence run — and for which the
pinned code does *not* meet (b) in general (see the F20-family probe in `harness/props/c03.py`) —
and the composition with `_explicit_h` (proved separately, under its pairing hypothesis, as
`explicitH_balance`); templates that are themselves unbalanced pass their imbalance on
(`glue_balance`, finding F10). -/
theorem fullStatement_implicit_partial :
    ∀ host T : LGraph, WFHost host → WFTemplate T →
      ((imbalance T).1 = 0 ∧ (imbalance T).2.1 = 0) →
      ∀ ms : List Mapping, (∀ m ∈ ms, m ∈ allMonos monoSel host (left T) ∧ RoundExact host T m) →
        ∀ its ∈ implicitResults host T ms,
          specA host its = true ∧ specB its = true ∧ specC its T = true := by
  intro host T hH hT hb ms hms its hits
  obtain ⟨m, hmem, rfl⟩ := List.mem_map.1 hits
  obtain ⟨hall, hr⟩ := hms m hmem
  have hm := (mem_allMonos monoSel host (left T) (left_wf T hT) m).1 hall
  have h3 := glue_meets_spec_full host T m hH hT hm hr hb
  exact ⟨glue_specA_verdict host T m hH hT hm, h3.2.1, h3.2.2⟩

/-- **Orientation.** Applying a template backwards is applying `invert T` forwards:
`_invert_template` swaps the two sides of the template (as `its_decompose` reads them). -/
theorem invert_swaps_sides (T : LGraph) (hT : NumericOrders T) :
    left (invert T) = right T ∧ right (invert T) = left T := by
  constructor
  · have h1 := invert_left_nodes T
    have h2 := invert_left_edges T hT
    cases hL : left (invert T) with
    | mk ns es => rw [hL] at h1 h2; simp only at h1 h2; rw [h1, h2]
  · have h1 := invert_right_nodes T
    have h2 := invert_right_edges T hT
    cases hL : right (invert T) with
    | mk ns es => rw [hL] at h1 h2; simp only at h1 h2; rw [h1, h2]

/-- `_invert_template` is an involution on what the reactor reads from a template (its two
sides). -/
theorem invert_involutive (T : LGraph) (hT : NumericOrders T) :
    left (invert (invert T)) = left T ∧ right (invert (invert T)) = right T := by
  have h1 := invert_swaps_sides (invert T) (invert_numeric T)
  have h2 := invert_swaps_sides T hT
  exact ⟨by rw [h1.1, h2.2], by rw [h1.2, h2.1]⟩

/-! ### Non-vacuity: a concrete substitution (amine + bromide → C–N bond, HBr), all hypotheses hold -/

/-- Substrate `C–Br . N` (ids 1, 2, 3; CH3, Br, NH2). -/
def exHost : LGraph :=
  { nodes := [(1, [("element", .str "C"), ("hcount", .num 6), ("charge", .num 0)]),
              (2, [("element", .str "Br"), ("hcount", .num 0), ("charge", .num 0)]),
              (3, [("element", .str "N"), ("hcount", .num 4), ("charge", .num 0)])]
    edges := [(1, 2, [("order", .num 2)])] }

/-- Template: N(10) loses a hydrogen and bonds to C(11); C(11)–Br(12) breaks; Br gains the hydrogen. -/
def exT : LGraph :=
  { nodes := [(10, [("typesGH", .tup [.tup [.str "N", .bool false, .num 2, .num 0, .tup []],
                                       .tup [.str "N", .bool false, .num 0, .num 0, .tup []]])]),
              (11, [("typesGH", .tup [.tup [.str "C", .bool false, .num 0, .num 0, .tup []],
                                       .tup [.str "C", .bool false, .num 0, .num 0, .tup []]])]),
              (12, [("typesGH", .tup [.tup [.str "Br", .bool false, .num 0, .num 0, .tup []],
                                       .tup [.str "Br", .bool false, .num 2, .num 0, .tup []]])])]
    edges := [(10, 11, [("order", .tup [.num 0, .num 2]), ("standard_order", .num (-2))]),
              (11, 12, [("order", .tup [.num 2, .num 0]), ("standard_order", .num 2)])] }

def exM : Mapping := [(10, 3), (11, 1), (12, 2)]

example : WFHost exHost := by decide
example : WFTemplate exT := by decide
example : RoundExact exHost exT exM := by decide
example : NumericOrders exT := by
  intro e he
  simp only [exT, List.mem_cons, List.mem_nil_iff, or_false] at he
  rcases he with rfl | rfl <;> decide

theorem exMono : IsMono monoSel exHost (left exT) exM := by
  refine ⟨by decide, by decide, ?_, ?_⟩
  · intro ph hph
    simp only [exM, List.mem_cons, List.mem_nil_iff, or_false] at hph
    rcases hph with rfl | rfl | rfl <;> decide
  · intro e he
    have : (left exT).edges = [(11, 12, [("order", Val.num 2)])] := by decide
    rw [this] at he
    simp only [List.mem_cons, List.mem_nil_iff, or_false] at he
    subst he
    exact ⟨1, 2, [("order", .num 2)], by decide, by decide, by decide, by decide⟩

/-- The example is not trivial: two bonds change, the template is balanced, the result is
balanced, its reactant side is the substrate and its changed-bond graph is isomorphic to the
template's — all by evaluation of the model. -/
example : (labelledChanges (glue exHost exT exM)).edges.length = 2 ∧ imbalance exT = (0, 0, true) ∧
    specA exHost (glue exHost exT exM) = true ∧ specB (glue exHost exT exM) = true ∧
    specC (glue exHost exT exM) exT = true := by decide

/-- The exhaustive enumeration finds exactly the example match, so the implicit path returns exactly
one ITS and `fullStatement_implicit_partial` is not vacuous. -/
example : implicitResults exHost exT (allMonos monoSel exHost (left exT)) = [glue exHost exT exM] := by decide

example : left (glue exHost exT exM) = hostProj exHost :=
  glue_left_unchanged exHost exT exM (by decide) (by decide) exMono

/-! ### `_explicit_h` -/

/-- **C03, `_explicit_h`** — it moves hydrogens and never creates or destroys them, *provided* every
atom that carries hydrogen-pair ids carries exactly as many as its hydrogen count changes (`hcons`)
and every pair component gives as many hydrogens as it takes (`hbal`) — which is what
`SynRule._strip_explicit_h` produces whenever no explicit hydrogen stays on its atom and no atom
both gives and receives one.  For every atom `n` of the input ITS, with `ms` the list of
(donor, receiver) migrations: the reactant-side count of `n` drops by exactly the number of new
hydrogen atoms bonded to `n` on the reactant side, the product-side count by the number bonded to
`n` on the product side; the only new atoms are those hydrogens.  Hence the reactant side is
unchanged up to making hydrogens explicit, and the hydrogen balance of the ITS is untouched. -/
theorem explicitH_balance (I I' : LGraph) (h : explicitH I = some I')
    (hw : ∀ n ∈ affected I, TgWF (I.attrs n))
    (hcons : ∀ n ∈ affected I, 2 * ((affected I).count n : Int) = |dOf I n|)
    (hbal : componentsBalanced I = true) :
    ∃ ms, migrations I = some ms ∧
      I'.ids = I.ids ++ (newHNodes (nextId I) ms).map (·.1) ∧
      ∀ n ∈ I.ids,
        hL (I'.attrs n) + 2 * cntSrc ms n = hL (I.attrs n) ∧
        hR (I'.attrs n) + 2 * cntDst ms n = hR (I.attrs n) :=
  explicitH_conserves I I' h hw hcons hbal

/-- Non-vacuity: the glued ITS of the example after `SynRule`-style pairing (N gives the hydrogen
that Br receives) satisfies the hypotheses, and one hydrogen atom is created. -/
def exPaired : LGraph :=
  { nodes := [(1, [("typesGH", .tup [.tup [.str "C", .bool false, .num 6, .num 0, .tup []],
                                      .tup [.str "C", .bool false, .num 6, .num 0, .tup []]])]),
              (2, [("typesGH", .tup [.tup [.str "Br", .bool false, .num 0, .num 0, .tup []],
                                      .tup [.str "Br", .bool false, .num 2, .num 0, .tup []]]),
                   ("h_pairs", .tup [.num 2])]),
              (3, [("typesGH", .tup [.tup [.str "N", .bool false, .num 4, .num 0, .tup []],
                                      .tup [.str "N", .bool false, .num 2, .num 0, .tup []]]),
                   ("h_pairs", .tup [.num 2])])]
    edges := [(1, 2, [("order", .tup [.num 2, .num 0])]), (3, 1, [("order", .tup [.num 0, .num 2])])] }

example : migrations exPaired = some [(3, 2)] ∧ componentsBalanced exPaired = true ∧ affected exPaired = [2, 3] ∧
    (explicitH exPaired).map (·.ids) = some [1, 2, 3, 4] := by decide

example : ∀ n ∈ affected exPaired, TgWF (exPaired.attrs n) ∧ 2 * ((affected exPaired).count n : Int) = |dOf exPaired n| := by
  have : affected exPaired = [2, 3] := by decide
  rw [this]
  intro n hn
  simp only [List.mem_cons, List.mem_nil_iff, or_false] at hn
  rcases hn with rfl | rfl
  · exact ⟨by unfold TgWF; decide, by decide⟩
  · exact ⟨by unfold TgWF; decide, by decide⟩

/-- The pairing hypothesis cannot be dropped (a defect of `_explicit_h` on templates outside the
corpus): an atom whose explicit hydrogen stays on it (a spectator hydrogen: pair id present, no
change of count) loses that hydrogen on the reactant side although no hydrogen atom is created. -/
def exSpectator : LGraph :=
  { nodes := [(1, [("typesGH", .tup [.tup [.str "N", .bool false, .num 2, .num 0, .tup []],
                                      .tup [.str "N", .bool false, .num 2, .num 0, .tup []]]),
                   ("h_pairs", .tup [.num 2])])]
    edges := [] }

theorem explicitH_spectator_witness :
    migrations exSpectator = some [] ∧
    (explicitH exSpectator).map (fun I' => (I'.ids, hL (I'.attrs 1), hR (I'.attrs 1))) = some ([1], 0, 2) ∧
    hL (exSpectator.attrs 1) = 2 := by decide

end SynKit.Reactor

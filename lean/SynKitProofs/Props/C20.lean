import SynKitModel.Petri
import SynKitProofs.PetriLemmas
import SynKitProofs.PetriLevel
import SynKitProofs.BipGraphViewsLemmas
import Mathlib.Data.Set.Card
/-!
# C20 — siphons, traps and pathway realizability match their Petri-net definitions

Property theorems only; helper lemmas live in `SynKitProofs/PetriLemmas.lean`.

Index sets are lists of species indices (positions in `_species_order`); a *set* of species is
represented canonically by the increasing list (`List.Sublist (List.range n)`), which is what
`itertools.combinations(range(n), k)` produces; minimality is stated against **every** index list.
-/
namespace SynKit.Petri

/-- **C20, `_minimal_sets`.** For candidates listed in ANY order (two candidates that are equal
as sets being equal as lists, which holds for `combinations`), the result is exactly the set of
inclusion-minimal candidates. -/
theorem minimalSets_spec (cands : List (List Nat))
    (hcanon : ∀ X ∈ cands, ∀ Y ∈ cands, X ⊆ Y → Y ⊆ X → X = Y) (X : List Nat) :
    X ∈ minimalSets cands ↔ X ∈ cands ∧ ∀ Y ∈ cands, Y ⊆ X → X ⊆ Y := by
  have inv := minInv_minimalSets cands
  constructor
  · exact inv.sound X
  · rintro ⟨hX, hmin⟩
    obtain ⟨T, hT, hTX⟩ := inv.cover X hX
    have hTc := (inv.sound T hT).1
    rw [hcanon X hX T hTc (hmin T hTc hTX) hTX]; exact hT

/-- **C20, the coded predicates are the defining ones.** `_is_siphon_indices` (repaired arcs) says:
non-empty, and every reaction that produces a member also consumes a member; `_is_trap_indices`
the mirror image. -/
theorem closure_predicates_spec (N : Net) (S : List Nat) :
    (isSiphon N S = true ↔ IsSiphon N S) ∧ (isTrap N S = true ↔ IsTrap N S) :=
  ⟨isSiphon_iff N S, isTrap_iff N S⟩

/-- **C20, siphons.** `find_siphons(crn, max_size)` reports an index set `X` exactly when `X` is a
non-empty set of species of the network that is a siphon, no non-empty proper subset of which is
a siphon, and (when `max_size` is given) has at most `max_size` members. -/
theorem siphons_spec (N : Net) (maxSize : Option Nat) (X : List Nat) :
    X ∈ findSiphonsIdx N maxSize ↔
      MinimalWrt (IsSiphon N) N.nSpecies X ∧ X.length ≤ maxSize.getD N.nSpecies :=
  mem_findIdx (isSiphon N) (IsSiphon N) N.nSpecies maxSize (isSiphon_iff N) (fun _ h => h.1)
    (IsSiphon_congr N) X

/-- **C20, traps.** Same statement for `find_traps`. -/
theorem traps_spec (N : Net) (maxSize : Option Nat) (X : List Nat) :
    X ∈ findTrapsIdx N maxSize ↔
      MinimalWrt (IsTrap N) N.nSpecies X ∧ X.length ≤ maxSize.getD N.nSpecies :=
  mem_findIdx (isTrap N) (IsTrap N) N.nSpecies maxSize (isTrap_iff N) (fun _ h => h.1)
    (IsTrap_congr N) X

/-- Without `max_size` the size clause is void: the reported sets are exactly the minimal siphons /
traps. -/
theorem siphons_traps_spec_unbounded (N : Net) (X : List Nat) :
    (X ∈ findSiphonsIdx N none ↔ MinimalWrt (IsSiphon N) N.nSpecies X) ∧
    (X ∈ findTrapsIdx N none ↔ MinimalWrt (IsTrap N) N.nSpecies X) := by
  have hlen : ∀ P, MinimalWrt P N.nSpecies X → X.length ≤ (none : Option Nat).getD N.nSpecies := by
    intro P h; simpa using h.1.length_le
  exact ⟨(siphons_spec N none X).trans ⟨fun h => h.1, fun h => ⟨h, hlen _ h⟩⟩,
    (traps_spec N none X).trans ⟨fun h => h.1, fun h => ⟨h, hlen _ h⟩⟩⟩

/-- The reported label sets are the labels of the reported index sets. -/
theorem findSiphons_labels (N : Net) (maxSize : Option Nat) :
    findSiphons N maxSize = (findSiphonsIdx N maxSize).map N.labelsOf ∧
    findTraps N maxSize = (findTrapsIdx N maxSize).map N.labelsOf := ⟨rfl, rfl⟩

/-- **C20, firing rule, enabledness.** A transition is enabled exactly when the marking covers
every input arc (`marking.get(p, 0) ≥ w`). -/
theorem enabled_spec {κ : Type} [DecidableEq κ] (t : Transition κ) (m : Marking κ) :
    enabled t m = true ↔ ∀ pw ∈ t.pre, pw.2 ≤ mget m pw.1 := enabled_iff t m

/-- **C20, firing rule, effect.** Firing changes every place by (products − reactants): the new
count is the old count minus the input weight plus the output weight (for dicts, `weightAt` is the
entry, `weightAt_of_mem`). -/
theorem fire_spec {κ : Type} [DecidableEq κ] (t : Transition κ) (m : Marking κ) (p : κ) :
    mget (fire t m) p = mget m p - weightAt t.pre p + weightAt t.post p := mget_fire t m p

/-- **C20, certificate.** Whenever `is_realizable` answers `(True, seq)`:
replayed on the extended net from `M0` every step of `seq` is enabled and the final marking is
`MT`; hence (edge ids being dict keys, reactant sides being dicts) `seq` fires every reaction `e`
exactly `flow(e)` times, no species count is negative after any prefix, and every species count
is 0 at the end. -/
theorem realizable_sound (P : Pathway) (hid : (P.edges.map (·.id)).Nodup)
    (hkeys : ∀ r ∈ P.edges, r.reactants.keys.Nodup) (maxStates maxDepth : Nat) (seq : List String)
    (h : isRealizable P maxStates maxDepth = .found seq) :
    validCertificate P seq = true ∧
    (∀ r ∈ P.edges, (seq.count r.id : Int) = P.flowOf r.id) ∧
    (∀ k m, runT (buildNet P) (toTuple (buildNet P).places (initialMarking P)) (seq.take k) = some m →
        ∀ v, 0 ≤ valT (buildNet P) m (Place.sp v)) ∧
    (∀ v, valT (buildNet P) (toTuple (buildNet P).places (targetMarking P)) (Place.sp v) = 0) :=
  have hv := isRealizable_sound P maxStates maxDepth seq h
  ⟨hv, validCertificate_counts P hid hkeys seq hv⟩

/-- The same count statement for ANY sequence that passes the certificate check the harness runs
on the implementation's own certificate (`spec.certificate`). -/
theorem certificate_check_sound (P : Pathway) (hid : (P.edges.map (·.id)).Nodup)
    (hkeys : ∀ r ∈ P.edges, r.reactants.keys.Nodup) (seq : List String)
    (h : validCertificate P seq = true) :
    (∀ r ∈ P.edges, (seq.count r.id : Int) = P.flowOf r.id) ∧
    (∀ k m, runT (buildNet P) (toTuple (buildNet P).places (initialMarking P)) (seq.take k) = some m →
        ∀ v, 0 ≤ valT (buildNet P) m (Place.sp v)) ∧
    (∀ v, valT (buildNet P) (toTuple (buildNet P).places (targetMarking P)) (Place.sp v) = 0) :=
  validCertificate_counts P hid hkeys seq h

/-- The modelled loop always terminates by itself (the fuel is never the reason for an answer). -/
theorem bfs_never_fuelOut (P : Pathway) (maxStates maxDepth : Nat) :
    isRealizable P maxStates maxDepth ≠ .fuelOut := isRealizable_ne_fuelOut P maxStates maxDepth

/-- **C20, completeness within bounds — PARTIAL.**  Proved: if `is_realizable` answers "not found"
and neither bound was touched during the search (the `states > max_states` break was not taken and
no queue entry was skipped because `len(seq) > max_depth` — the two ghost flags of the model's
`notFound`), then no firing sequence at all leads from `M0` to `MT` on the extended net, i.e. the
pathway has no ordering.  Contrapositive: a pathway that has an ordering is reported realizable
unless a bound was touched.
This theorem alone does not say when the bounds are NOT touched; that is the breadth-first level
invariant, proved below: `bfs_notFound_within_states` and the full clause
`bfs_complete_within_bounds` (DESIGN §5a reading). -/
theorem bfs_complete_partial (P : Pathway) (maxStates maxDepth : Nat)
    (h : isRealizable P maxStates maxDepth = .notFound false false) :
    ∀ seq : List String, validCertificate P seq = false :=
  isRealizable_exhausted P maxStates maxDepth h

/-- **C20, completeness within bounds — the level invariant.**  "Reachable" is over the extended
net (species, `__ext__`, `__target__` places), from `M0`, by firing sequences as the search fires
them (`Reach`, `startT`).  If the reachable markings all lie in a list `R` of at most `max_states`
markings (i.e. the number of distinct reachable markings is `≤ max_states`), then whenever
`is_realizable` answers "not found":
* the `states > max_states` break was NOT taken (first ghost flag is `false`), and
* no firing sequence of length `≤ max_depth + 1` leads from `M0` to `MT`.
The bound is `max_depth + 1`, not `max_depth`: the code expands every popped entry with
`len(seq) <= max_depth`, so certificates of length `max_depth + 1` are still found. -/
theorem bfs_notFound_within_states (P : Pathway) (maxStates maxDepth : Nat) (R : List Tuple)
    (hR : ∀ m, Reach (buildNet P) (startT P) m → m ∈ R) (hcard : R.length ≤ maxStates) (a b : Bool)
    (h : isRealizable P maxStates maxDepth = .notFound a b) :
    a = false ∧ ∀ seq : List String, seq.length ≤ maxDepth + 1 → validCertificate P seq = false :=
  isRealizable_notFound_level P maxStates maxDepth R hR hcard a b h

/-- **C20, last clause, in full (DESIGN §5a reading).**  If the pathway has an ordering within the
search bounds — a firing sequence `seq` that, replayed on the extended net from `M0`, is enabled at
every step and ends in `MT` (`validCertificate`; by `certificate_check_sound` it fires every
reaction `flow(e)` times, never goes negative and returns every species to 0), of length
`≤ max_depth + 1`, and the number of distinct markings reachable from `M0` is `≤ max_states` (they
all lie in a list `R` with `len(R) ≤ max_states`) — then `is_realizable(max_states, max_depth)`
answers `(True, cert)` and `cert` is itself a valid certificate.  A sequence of length
`≤ max_depth` is in particular of length `≤ max_depth + 1`, so the §5a reading is implied
(`bfs_complete_within_bounds_5a`).  (`P.edges ≠ []`: with no edges `build_petri_net_from_flow`
raises `RuntimeError` before any search; see `bfs_never_unrealizable_within_bounds`.) -/
theorem bfs_complete_within_bounds (P : Pathway) (hedges : P.edges.isEmpty = false)
    (maxStates maxDepth : Nat) (seq : List String) (hseq : validCertificate P seq = true)
    (hlen : seq.length ≤ maxDepth + 1) (R : List Tuple)
    (hR : ∀ m, Reach (buildNet P) (startT P) m → m ∈ R) (hcard : R.length ≤ maxStates) :
    ∃ cert : List String, isRealizable P maxStates maxDepth = .found cert ∧
      validCertificate P cert = true := by
  cases hres : isRealizable P maxStates maxDepth with
  | found cert => exact ⟨cert, rfl, isRealizable_sound P maxStates maxDepth cert hres⟩
  | notFound a b =>
    have := (isRealizable_notFound_level P maxStates maxDepth R hR hcard a b hres).2 seq hlen
    rw [hseq] at this; exact absurd this (by simp)
  | noEdges => exact absurd hres (isRealizable_ne_noEdges P maxStates maxDepth hedges)
  | fuelOut => exact absurd hres (isRealizable_ne_fuelOut P maxStates maxDepth)

/-- The clause exactly as read in DESIGN §5a: a firing sequence of length `≤ max_depth` exists and
the number of reachable markings is `≤ max_states` ⇒ the answer is `(True, cert)`. -/
theorem bfs_complete_within_bounds_5a (P : Pathway) (hedges : P.edges.isEmpty = false)
    (maxStates maxDepth : Nat) (seq : List String) (hseq : validCertificate P seq = true)
    (hlen : seq.length ≤ maxDepth) (R : List Tuple)
    (hR : ∀ m, Reach (buildNet P) (startT P) m → m ∈ R) (hcard : R.length ≤ maxStates) :
    ∃ cert : List String, isRealizable P maxStates maxDepth = .found cert ∧
      validCertificate P cert = true :=
  bfs_complete_within_bounds P hedges maxStates maxDepth seq hseq (Nat.le_succ_of_le hlen) R hR hcard

/-- The clause as worded ("no pathway that has such an ordering within the search bounds is
reported unrealizable"), for every input including the edgeless one: under the hypotheses of
`bfs_complete_within_bounds` the answer is never "not found". -/
theorem bfs_never_unrealizable_within_bounds (P : Pathway) (maxStates maxDepth : Nat)
    (seq : List String) (hseq : validCertificate P seq = true) (hlen : seq.length ≤ maxDepth + 1)
    (R : List Tuple) (hR : ∀ m, Reach (buildNet P) (startT P) m → m ∈ R)
    (hcard : R.length ≤ maxStates) (a b : Bool) :
    isRealizable P maxStates maxDepth ≠ .notFound a b := by
  intro hres
  have := (isRealizable_notFound_level P maxStates maxDepth R hR hcard a b hres).2 seq hlen
  rw [hseq] at this; exact absurd this (by simp)

/-- The same full clause with the number of reachable markings counted as the cardinality of the
set of reachable markings (finite, `Set.ncard ≤ max_states`). -/
theorem bfs_complete_within_bounds_card (P : Pathway) (hedges : P.edges.isEmpty = false)
    (maxStates maxDepth : Nat) (seq : List String) (hseq : validCertificate P seq = true)
    (hlen : seq.length ≤ maxDepth + 1)
    (hfin : {m | Reach (buildNet P) (startT P) m}.Finite)
    (hcard : {m | Reach (buildNet P) (startT P) m}.ncard ≤ maxStates) :
    ∃ cert : List String, isRealizable P maxStates maxDepth = .found cert ∧
      validCertificate P cert = true := by
  refine bfs_complete_within_bounds P hedges maxStates maxDepth seq hseq hlen hfin.toFinset.toList
    (fun m hm => ?_) ?_
  · simpa using hm
  · rw [Finset.length_toList, ← Set.ncard_eq_toFinset_card _ hfin]; exact hcard

/-! ### non-vacuity and the defect witness (evaluations are in `SynKitModel/Petri.lean`) -/

/-- `A ⇌ B, B → C`: the repaired predicates give siphon `{A,B}` and trap `{C}` … -/
example : findSiphons exF17 none = [["A", "B"]] ∧ findTraps exF17 none = [["C"]] := exF17_repaired
/-- … so `siphons_spec` is used with a true left-hand side on a non-trivial input. -/
example : MinimalWrt (IsSiphon exF17) 3 [0, 1] := ((siphons_traps_spec_unbounded exF17 [0, 1]).1).1 exF17_idx.1
example : MinimalWrt (IsTrap exF17) 3 [2] := ((siphons_traps_spec_unbounded exF17 [2]).2).1 exF17_idx.2
example : minimalSets [[0, 1, 2], [1], [0, 1], [2, 0]] = [[1], [2, 0]] := exMinimal

/-- Negation witness against the code as it was before fix 0003 (product arcs only): it reports no
siphon and every singleton as a trap on `exF17`; `[0, 1]` is a minimal siphon that is not reported. -/
example : minimalSets (candidates (isSiphonF17 exF17) 3 3) = [] ∧
    minimalSets (candidates (isTrapF17 exF17) 3 3) = [[0], [1], [2]] := exF17_unrepaired

/-- `∅ → A, A → B, B → ∅` with unit flow: realizable, certificate `r_1 r_2 r_3`; hypotheses of
`realizable_sound` hold on it. -/
example : (∀ r ∈ exPath.edges, ((["r_1", "r_2", "r_3"] : List String).count r.id : Int) = exPath.flowOf r.id) :=
  (realizable_sound exPath (by decide) (by decide) 1000 100 _ exPath_found).2.1
example : validCertificate exPath ["r_2", "r_1", "r_3"] = false := exPath_badOrder
/-- `bfs_complete_partial` has a satisfiable hypothesis: firing only `A → B` is conclusively impossible. -/
example : ∀ seq, validCertificate { exPath with flow := [("r_2", 1)] } seq = false :=
  bfs_complete_partial _ 1000 100 exPath_unrealizable

/-- Hypotheses of `bfs_complete_within_bounds` hold on `exPath` (reachable markings: `exPathReach`,
four of them, closed under firing by evaluation) with the TIGHT bounds
`max_states = 4` (four reachable markings) and `max_depth = 2` (the only ordering has length
`3 = max_depth + 1`), and the conclusion is the observed answer. -/
example : ∃ cert, isRealizable exPath 4 2 = .found cert ∧ validCertificate exPath cert = true :=
  bfs_complete_within_bounds exPath (by decide) 4 2 ["r_1", "r_2", "r_3"] (by decide) (by decide)
    exPathReach (reach_subset_of_closedUnderB _ _ _ exPathReach_closed) (by decide)
example : isRealizable exPath 4 2 = .found ["r_1", "r_2", "r_3"] := by decide
/-- One less in depth and the (only) ordering is out of the bounds: the search gives up, having
skipped an entry for depth — the bound `max_depth + 1` of the theorem is the one the code has. -/
example : isRealizable exPath 4 1 = .notFound false true := by decide
/-- `bfs_notFound_within_states` has satisfiable hypotheses with a "not found" answer. -/
example : ∀ seq : List String, seq.length ≤ 2 → validCertificate exPath seq = false :=
  (bfs_notFound_within_states exPath 4 1 exPathReach (reach_subset_of_closedUnderB _ _ _ exPathReach_closed)
    (by decide) false true (by decide)).2

end SynKit.Petri

/-! ## C20 on a bipartite NetworkX graph (the graph entry path of `find_siphons` / `find_traps`)

Model: `SynKitModel/BipGraphViews.lean` (on top of `SynKitModel/BipGraph.lean`); lemmas:
`SynKitProofs/BipGraphViewsLemmas.lean`. `analysisNet g = viewNet (netOfGraph g)` is the network the
graph describes, species sorted by label (the index sets of the predicates refer to that order),
reactions in `G.nodes` order. Hypothesis: `BipGraph.WF` (node ids distinct, species labels
distinct, coefficients non-negative) and nothing else. Non-negativity is needed: the code tests
`stoich > 0` arc by arc, the described network carries the SUM of parallel arcs. -/
namespace SynKit.BipGraph
open SynKit.Stoich SynKit.Petri

/-- **C20, graph input: `_is_siphon_indices` read off the graph is the closure predicate of the
described network.** For a well-formed bipartite graph of any of the four NetworkX classes, arcs
written in either direction, parallel arcs, `stoich` possibly missing, and every index set `S`. -/
theorem graphSiphonPred_eq (g : BipGraph) (wf : WF g) (S : List Nat) :
    graphSiphonPred g S = isSiphon (analysisNet g) S := graphSiphonPred_eq' g wf S

/-- **C20, graph input: `_is_trap_indices` likewise.** -/
theorem graphTrapPred_eq (g : BipGraph) (wf : WF g) (S : List Nat) :
    graphTrapPred g S = isTrap (analysisNet g) S := graphTrapPred_eq' g wf S

/-- **C20, graph input: `find_siphons` / `find_traps`.** The subset search over the graph
predicates returns the index sets (in the same order) and the label sets the network-level search
returns on the described network. -/
theorem graphFindSiphons_eq (g : BipGraph) (wf : WF g) (maxSize : Option Nat) :
    graphFindSiphonsIdx g maxSize = findSiphonsIdx (analysisNet g) maxSize ∧
    graphFindTrapsIdx g maxSize = findTrapsIdx (analysisNet g) maxSize ∧
    graphFindSiphons g maxSize = findSiphons (analysisNet g) maxSize ∧
    graphFindTraps g maxSize = findTraps (analysisNet g) maxSize := graphFind_eq' g wf maxSize

/-- **C20, graph input: `siphons_spec` / `traps_spec` transferred.** What `find_siphons(G, max_size)`
reports for a well-formed graph are exactly the index sets of the inclusion-minimal siphons of the
described network with at most `max_size` members; traps likewise; and the graph-level predicates
are the defining ones (`closure_predicates_spec`). -/
theorem graphSiphonsTraps_spec (g : BipGraph) (wf : WF g) (maxSize : Option Nat) (X : List Nat) :
    (X ∈ graphFindSiphonsIdx g maxSize ↔
      MinimalWrt (IsSiphon (analysisNet g)) (analysisNet g).nSpecies X ∧
        X.length ≤ maxSize.getD (analysisNet g).nSpecies) ∧
    (X ∈ graphFindTrapsIdx g maxSize ↔
      MinimalWrt (IsTrap (analysisNet g)) (analysisNet g).nSpecies X ∧
        X.length ≤ maxSize.getD (analysisNet g).nSpecies) ∧
    (graphSiphonPred g X = true ↔ IsSiphon (analysisNet g) X) ∧
    (graphTrapPred g X = true ↔ IsTrap (analysisNet g) X) := by
  obtain ⟨h1, h2, _, _⟩ := graphFindSiphons_eq g wf maxSize
  rw [h1, h2, graphSiphonPred_eq g wf, graphTrapPred_eq g wf]
  exact ⟨siphons_spec _ _ _, traps_spec _ _ _, (closure_predicates_spec _ _).1, (closure_predicates_spec _ _).2⟩

/-- **C20, graph input: direction of the arcs is irrelevant.** Hypotheses as for
`graphS_orientation_invariant` (C17) plus `IdsDistinct`; coefficients may have any sign. -/
theorem graphStructure_orientation_invariant (g g' : BipGraph) (hid : IdsDistinct g)
    (hn : g'.nodes = g.nodes) (hm : g'.multi = g.multi) (ha : Reoriented g.arcs g'.arcs)
    (hs : g.multi = true ∨ (ArcsSimple g ∧ ArcsSimple g')) :
    (∀ S, graphSiphonPred g' S = graphSiphonPred g S) ∧ (∀ S, graphTrapPred g' S = graphTrapPred g S) ∧
    (∀ ms, graphFindSiphons g' ms = graphFindSiphons g ms) ∧ (∀ ms, graphFindTraps g' ms = graphFindTraps g ms) :=
  structure_congr g g' hid (sameReading_orientation g g' hn hm ha hs)

/-- **C20, graph input: undirected = directed.** An undirected graph and the directed graph of
the same multiplicity class holding the same edges, each written in an arbitrary direction, have
the same siphon / trap predicates and the same reported families. -/
theorem graphStructure_undirected_eq_directed (g g' : BipGraph) (hid : IdsDistinct g)
    (hn : g'.nodes = g.nodes) (hd : g.directed = false) (hd' : g'.directed = true)
    (hm : g'.multi = g.multi) (ha : Reoriented g.arcs g'.arcs) (hs : g.multi = true ∨ ArcsSimple g) :
    (∀ S, graphSiphonPred g' S = graphSiphonPred g S) ∧ (∀ S, graphTrapPred g' S = graphTrapPred g S) ∧
    (∀ ms, graphFindSiphons g' ms = graphFindSiphons g ms) ∧ (∀ ms, graphFindTraps g' ms = graphFindTraps g ms) :=
  structure_congr g g' hid (sameReading_undirected g g' hn hd hd' hm ha hs)

/-- **C20, graph input: a missing `stoich` is 1** (and 1 > 0: the arc counts). -/
theorem graphStructure_missing_stoich (g g' : BipGraph) (hid : IdsDistinct g)
    (hn : g'.nodes = g.nodes) (hd : g'.directed = g.directed) (hm : g'.multi = g.multi)
    (ha : g'.arcs = g.arcs.map BArc.fillStoich) (hs : g.multi = true ∨ ArcsSimple g) :
    (∀ S, graphSiphonPred g' S = graphSiphonPred g S) ∧ (∀ S, graphTrapPred g' S = graphTrapPred g S) ∧
    (∀ ms, graphFindSiphons g' ms = graphFindSiphons g ms) ∧ (∀ ms, graphFindTraps g' ms = graphFindTraps g ms) :=
  structure_congr g g' hid (sameReading_fill g g' hn hd hm ha hs)

/-! ### Non-vacuity: `A ⇌ b, b → C` (the F17 network) written as a graph

Reaction nodes first and out of order, species not in label order (`b` has no label and sorts
after `C`); typing by `kind` or by the flag; three arcs have no `stoich`. -/

def c20Nodes : List BNode :=
  [⟨"r3", some "reaction", none, none⟩, ⟨"c", some "species", some 1, some "C"⟩,
   ⟨"r1", none, some 1, some "fwd"⟩, ⟨"b", none, some 0, none⟩, ⟨"r2", some "reaction", none, none⟩,
   ⟨"a", some "species", none, some "A"⟩]

def c20Arcs : List BArc :=
  [⟨"a", "r1", some "reactant", none⟩, ⟨"r1", "b", some "product", some 1⟩,
   ⟨"b", "r2", some "reactant", some 1⟩, ⟨"r2", "a", some "product", none⟩,
   ⟨"b", "r3", some "reactant", none⟩, ⟨"r3", "c", some "product", some 2⟩]

/-- the first, second and last arc written the other way round -/
def c20ArcsFlipped : List BArc :=
  [⟨"r1", "a", some "reactant", none⟩, ⟨"b", "r1", some "product", some 1⟩,
   ⟨"b", "r2", some "reactant", some 1⟩, ⟨"r2", "a", some "product", none⟩,
   ⟨"b", "r3", some "reactant", none⟩, ⟨"c", "r3", some "product", some 2⟩]

def c20Di : BipGraph := ⟨c20Nodes, c20Arcs, true, false⟩
def c20DiFlipped : BipGraph := ⟨c20Nodes, c20ArcsFlipped, true, false⟩
def c20Graph : BipGraph := ⟨c20Nodes, c20ArcsFlipped, false, false⟩
def c20Multi : BipGraph := ⟨c20Nodes, c20ArcsFlipped, false, true⟩

theorem c20Reoriented : Reoriented c20Arcs c20ArcsFlipped :=
  .flip _ (.flip _ (.keep _ (.keep _ (.keep _ (.flip _ .nil)))))

/-- (b): the hypothesis holds on all four spellings. -/
example : WF c20Di ∧ WF c20DiFlipped ∧ WF c20Graph ∧ WF c20Multi :=
  ⟨wf_of_wfCoreB _ (by decide), wf_of_wfCoreB _ (by decide), wf_of_wfCoreB _ (by decide),
    wf_of_wfCoreB _ (by decide)⟩

/-- (b): both sides are the expected values — species order `A, C, b`; `{A, b}` = `[0, 2]` is a
siphon and no trap, `{C}` = `[1]` a trap and no siphon; the families are those of `exF17`. -/
example : (analysisNet c20Graph).species = ["A", "C", "b"] ∧
    graphSiphonPred c20Graph [0, 2] = true ∧ isSiphon (analysisNet c20Graph) [0, 2] = true ∧
    graphTrapPred c20Graph [0, 2] = false ∧ isTrap (analysisNet c20Graph) [0, 2] = false ∧
    graphTrapPred c20Graph [1] = true ∧ graphSiphonPred c20Graph [1] = false ∧
    graphSiphonPred c20Graph [] = false ∧
    graphFindSiphons c20Graph none = [["A", "b"]] ∧ findSiphons (analysisNet c20Graph) none = [["A", "b"]] ∧
    graphFindTraps c20Graph none = [["C"]] ∧ findTraps (analysisNet c20Graph) none = [["C"]] ∧
    graphFindSiphons c20Di (some 1) = [] := by decide

/-- `graphSiphonsTraps_spec` is used with a true left-hand side. -/
example : MinimalWrt (IsSiphon (analysisNet c20Multi)) 3 [0, 2] :=
  ((graphSiphonsTraps_spec c20Multi (wf_of_wfCoreB _ (by decide)) none [0, 2]).1.1 (by decide)).1

/-- (c), orientation: hypotheses satisfiable on the `DiGraph`, both readings as expected. -/
example : IdsDistinct c20Di ∧ c20DiFlipped.nodes = c20Di.nodes ∧ Reoriented c20Di.arcs c20DiFlipped.arcs ∧
    ArcsSimple c20Di ∧ ArcsSimple c20DiFlipped ∧
    graphFindSiphons c20DiFlipped none = [["A", "b"]] ∧ graphFindSiphons c20Di none = [["A", "b"]] ∧
    graphFindTraps c20DiFlipped none = [["C"]] ∧ graphFindTraps c20Di none = [["C"]] :=
  ⟨by decide, rfl, c20Reoriented, by decide, by decide, by decide, by decide, by decide, by decide⟩

/-- (c), undirected = directed, and missing `stoich`: hypotheses hold, readings agree. -/
example : IdsDistinct c20Graph ∧ ArcsSimple c20Graph ∧ c20Graph.directed = false ∧
    graphFindTraps c20Multi none = graphFindTraps c20Di none ∧
    c20Multi.arcs.map BArc.fillStoich ≠ c20Multi.arcs ∧
    graphFindSiphons ⟨c20Nodes, c20Multi.arcs.map BArc.fillStoich, false, true⟩ none =
      graphFindSiphons c20Multi none := by decide

/-- Non-negativity of the coefficients is necessary for (b): two parallel product arcs `+1`, `−1`
from `r` to `a` — the code sees a positive product arc into `{a}`, the described network carries
the sum `0`. -/
example : graphSiphonPred ⟨[⟨"a", some "species", none, none⟩, ⟨"r", some "reaction", none, none⟩],
      [⟨"r", "a", some "product", some 1⟩, ⟨"r", "a", some "product", some (-1)⟩], true, true⟩ [0] = false ∧
    isSiphon (analysisNet ⟨[⟨"a", some "species", none, none⟩, ⟨"r", some "reaction", none, none⟩],
      [⟨"r", "a", some "product", some 1⟩, ⟨"r", "a", some "product", some (-1)⟩], true, true⟩) [0] = true := by
  decide

end SynKit.BipGraph

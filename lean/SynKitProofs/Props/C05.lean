import SynKitProofs.ReactorInvLemmas
/-!
# C05 — rule application depends on the chemistry only, not on how inputs are written

Property text: *the set of distinct reactions produced by rule application is unchanged when the
substrate SMILES is rewritten, when the template's atom-map numbers are permuted, and when the call
is repeated; the component-aware strategy returns a subset of the exhaustive strategy and the
fallback strategy returns the component-aware result whenever that is non-empty.*

Rewriting a SMILES / permuting atom maps renumbers the nodes of the substrate graph / the template
graph: `host.relabel f`, `T.relabel π` with `f`, `π` injective.  Repetition is trivial in a pure
model (`results` is a function).  Rule application is the pipeline of `SynKitModel/ReactorInv.lean`
over an abstract reactor `X` (search, prune, glue as parameters).

What is proved here, for all graphs and all injective renumberings:

* `allMonos_relabel_host`, `allMonos_relabel_pattern` — match sets of the exhaustive search
  correspond bijectively under relabelling (no hypothesis beyond injectivity);
* `results_invariant_unpruned` — un-pruned results are invariant for ANY equivariant glue step and
  any equivariant search (`GlueEquivariant`, `PatternEquivariant` are named hypotheses: they are
  statements about C03's glue model and are discharged there at integration);
* `comp_subset_all`, `bt_def`, `bt_subset_all` — strategy relations at the level of result lists;
* `prune_sound_of_aut`, `prune_preserves_results` — the repaired pruning (draft fix 0015: one
  representative per class of matches related by an automorphism of the rule) never changes the set
  of results, given that composing a match with a rule automorphism does not change what it glues
  to (`GlueAutInvariant`, again a statement about the glue model);
* `C05.statement_partial` — `C05.FullStatement X` for every reactor whose stages satisfy the named
  hypotheses.  Missing for the unconditional statement: the instantiation of `X` with the concrete
  glue / pattern-preparation model of C03 and the component-aware search of C06, i.e. proofs of
  `GlueEquivariant`, `PatternEquivariant`, `SearchEquivariant comp`, `GlueAutInvariant`.

The pruning as coded before fix 0015 (orbits and anchor of the left-hand pattern alone, ties broken
by node id) does NOT satisfy `PruneSound`; the implementation-level check `harness/props/c05.py`
exhibits the Suzuki witness (`regress/C05/`).
-/
namespace SynKit.ReactorInv
open SynKit SynKit.Match

variable {R : Type}

/-! ### Clause 1a: match sets under relabelling -/

/-- **C05 (engine level, host side).** `m` is a match into the renumbered host iff it is the
renumbering of a match into the host. -/
theorem allMonos_relabel_host (sel : Sel) (H P : LGraph) (f : Nat → Nat) (hf : Function.Injective f) (m : Mapping) :
    m ∈ allMonos sel (H.relabel f) P ↔ ∃ m₀ ∈ allMonos sel H P, m = relabelHost f m₀ := by
  rw [allMonos_relabel_host_list hf, List.mem_map]
  constructor
  · rintro ⟨m₀, h, rfl⟩; exact ⟨m₀, h, rfl⟩
  · rintro ⟨m₀, h, rfl⟩; exact ⟨m₀, h, rfl⟩

/-- **C05 (engine level, pattern side).** -/
theorem allMonos_relabel_pattern (sel : Sel) (H P : LGraph) (π : Nat → Nat) (hπ : Function.Injective π) (m : Mapping) :
    m ∈ allMonos sel H (P.relabel π) ↔ ∃ m₀ ∈ allMonos sel H P, m = relabelPat π m₀ := by
  rw [allMonos_relabel_pattern_list hπ, List.mem_map]
  constructor
  · rintro ⟨m₀, h, rfl⟩; exact ⟨m₀, h, rfl⟩
  · rintro ⟨m₀, h, rfl⟩; exact ⟨m₀, h, rfl⟩

/-- The correspondence is a bijection: relabelling a match by injective maps is injective. -/
theorem relabel_match_injective (f π : Nat → Nat) (hf : Function.Injective f) (hπ : Function.Injective π) :
    Function.Injective fun m : Mapping => relabelHost f (relabelPat π m) := by
  intro a b h
  simp only [relabelHost, relabelPat, List.map_map] at h
  induction a generalizing b with
  | nil => cases b with
    | nil => rfl
    | cons _ _ => cases h
  | cons x xs ih => cases b with
    | nil => cases h
    | cons y ys =>
      simp only [List.map_cons, List.cons.injEq, Function.comp, Prod.mk.injEq] at h
      obtain ⟨⟨h1, h2⟩, h3⟩ := h
      have : x = y := Prod.ext (hπ h1) (hf h2)
      rw [this, ih h3]

/-- Number of matches is a chemistry-only quantity. -/
theorem allMonos_relabel_length (sel : Sel) (H P : LGraph) (f π : Nat → Nat)
    (hf : Function.Injective f) (hπ : Function.Injective π) :
    (allMonos sel (H.relabel f) (P.relabel π)).length = (allMonos sel H P).length := by
  rw [allMonos_relabel_host_list hf, allMonos_relabel_pattern_list hπ, List.length_map, List.length_map]

/-! ### Clause 1b: results without pruning -/

/-- Pattern preparation commutes with renumbering the template (statement about `SynRule` /
`h_to_implicit`; discharged by C03's model). -/
def PatternEquivariant (X : Reactor R) : Prop :=
  ∀ (dir : Bool) (T : LGraph) (π : Nat → Nat), Function.Injective π →
    X.pattern dir (T.relabel π) = (X.pattern dir T).relabel π

/-- Gluing the renumbered match onto the renumbered host with the renumbered template gives the
same reactions (statement about `_glue_graph` … `_to_smarts`; discharged by C03's model). -/
def GlueEquivariant (X : Reactor R) : Prop :=
  ∀ (dir : Bool) (host T : LGraph) (f π : Nat → Nat) (m : Mapping), Function.Injective f → Function.Injective π →
    SetEqMod X.equiv (X.glue dir (host.relabel f) (T.relabel π) (relabelHost f (relabelPat π m))) (X.glue dir host T m)

/-- **C05 clause 1 without pruning.** For any equivariant search, pattern preparation and glue
step, gluing every raw match gives the same set of reactions whatever the numbering of substrate and
template. -/
theorem results_invariant_unpruned (X : Reactor R)
    (hpat : PatternEquivariant X) (hglue : GlueEquivariant X)
    (s : Strategy) (hs : SearchEquivariant (X.search s))
    (dir : Bool) (host T : LGraph) (f π : Nat → Nat) (hf : Function.Injective f) (hπ : Function.Injective π) :
    SetEqMod X.equiv (X.resultsUnpruned s dir (host.relabel f) (T.relabel π)) (X.resultsUnpruned s dir host T) := by
  unfold Reactor.resultsUnpruned resultsOf
  rw [hpat dir T π hπ]
  constructor
  · apply SubsetMod.flatMap
    intro m hm
    obtain ⟨m₀, hm₀, rfl⟩ := (hs host (X.pattern dir T) f π hf hπ m).1 hm
    exact ⟨m₀, hm₀, (hglue dir host T f π m₀ hf hπ).1⟩
  · apply SubsetMod.flatMap
    intro m₀ hm₀
    exact ⟨_, (hs host (X.pattern dir T) f π hf hπ _).2 ⟨m₀, hm₀, rfl⟩, (hglue dir host T f π m₀ hf hπ).2⟩

/-! ### Clause 2 and 3: strategies (over abstract match lists) -/

/-- **C05 clause 2.** If every component-aware match is an exhaustive match, every component-aware
result is an exhaustive result. -/
theorem comp_subset_all (glue : Mapping → List R) (comp all : List Mapping) (h : ∀ m ∈ comp, m ∈ all) :
    ∀ r ∈ resultsOf glue comp, r ∈ resultsOf glue all := by
  intro r hr
  obtain ⟨m, hm, hrm⟩ := List.mem_flatMap.1 hr
  exact List.mem_flatMap.2 ⟨m, h m hm, hrm⟩

/-- **C05 clause 3.** The fallback strategy is the component-aware one when that found something,
the exhaustive one otherwise. -/
theorem bt_def (glue : Mapping → List R) (comp all : List Mapping) :
    resultsOf glue (searchBt comp all) = if comp = [] then resultsOf glue all else resultsOf glue comp := by
  unfold searchBt
  cases comp <;> simp

theorem bt_subset_all (glue : Mapping → List R) (comp all : List Mapping) (h : ∀ m ∈ comp, m ∈ all) :
    ∀ r ∈ resultsOf glue (searchBt comp all), r ∈ resultsOf glue all := by
  rw [bt_def]
  split
  · exact fun r hr => hr
  · exact comp_subset_all glue comp all h

/-! ### Pruning (repaired, draft fix 0015) -/

/-- Composing a match with an automorphism of the rule does not change what it glues to
(C11's `prune_sound_of_aut` premise: a statement about the glue model). -/
def GlueAutInvariant (E : R → R → Prop) (glue : Mapping → List R) (keep : List Nat) (group : List Mapping) : Prop :=
  ∀ σ ∈ group, ∀ m k, composeOn keep m σ = some k → SetEqMod E (glue k) (glue m)

/-- **Pruning is sound (shape statement over the group action).** Two matches with the same
pruning key — i.e. with a common image under the listed automorphisms — glue to the same
reactions. No group axiom is needed for soundness. -/
theorem prune_sound_of_aut {E : R → R → Prop} (hE : Equivalence E) (glue : Mapping → List R)
    (keep : List Nat) (group : List Mapping) (hinv : GlueAutInvariant E glue keep group)
    (m₁ m₂ k : Mapping) (h₁ : pruneKey keep group m₁ = some k) (h₂ : pruneKey keep group m₂ = some k) :
    SetEqMod E (glue m₁) (glue m₂) := by
  obtain ⟨σ₁, hσ₁, e₁⟩ := pruneKey_mem_orbit keep group m₁ k h₁
  obtain ⟨σ₂, hσ₂, e₂⟩ := pruneKey_mem_orbit keep group m₂ k h₂
  exact SetEqMod.trans hE (SetEqMod.symm (hinv σ₁ hσ₁ m₁ k e₁)) (hinv σ₂ hσ₂ m₂ k e₂)

/-- **C11/C05 pruning clause for the repaired code.** Pruning never changes the set of distinct
reactions compared with gluing every raw match. -/
theorem prune_preserves_results {E : R → R → Prop} (hE : Equivalence E) (glue : Mapping → List R)
    (maxGroup : Nat) (keep : List Nat) (group : List Mapping) (hinv : GlueAutInvariant E glue keep group)
    (ms : List Mapping) :
    SetEqMod E (resultsOf glue (pruneByAut maxGroup keep group ms)) (resultsOf glue ms) := by
  constructor
  · apply SubsetMod.of_subset hE
    intro r hr
    obtain ⟨m, hm, hrm⟩ := List.mem_flatMap.1 hr
    exact List.mem_flatMap.2 ⟨m, (pruneByAut_sublist maxGroup keep group ms).subset hm, hrm⟩
  · apply SubsetMod.flatMap
    intro m hm
    rcases pruneByAut_covers maxGroup keep group ms m hm with h | ⟨k, m', hm', hk, hk'⟩
    · exact ⟨m, h, SubsetMod.refl hE _⟩
    · exact ⟨m', hm', (prune_sound_of_aut hE glue keep group hinv m m' k hk hk').1⟩

/-! #### Pruning specified rather than computed

How much a pruning removes is incidental; what the property needs is `PruneSpec`: the kept list is
a sub-list of the raw matches and every raw match is kept or *related* to a kept one (common image
under the rule automorphisms).  The implementation-level check evaluates `pruneSpecB` on what the
real pruning kept (`rinv.prune_spec`), so a pruning that removes less — or chooses other
representatives — stays silent, one that removes an unrelated match does not. -/

theorem relatedB_iff (keep : List Nat) (group : List Mapping) (m m' : Mapping) :
    relatedB keep group m m' = true ↔ Related keep group m m' := by
  unfold relatedB Related
  rw [List.any_eq_true]
  constructor
  · rintro ⟨σ₁, h₁, h⟩
    cases hk : composeOn keep m σ₁ with
    | none => rw [hk] at h; cases h
    | some k =>
      rw [hk] at h
      simp only [List.any_eq_true, decide_eq_true_eq] at h
      obtain ⟨σ₂, h₂, e⟩ := h
      exact ⟨σ₁, h₁, σ₂, h₂, k, hk, e⟩
  · rintro ⟨σ₁, h₁, σ₂, h₂, k, e₁, e₂⟩
    refine ⟨σ₁, h₁, ?_⟩
    rw [e₁]
    simp only [List.any_eq_true, decide_eq_true_eq]
    exact ⟨σ₂, h₂, e₂⟩

theorem pruneSpecB_iff (keep : List Nat) (group raw kept : List Mapping) :
    pruneSpecB keep group raw kept = true ↔ PruneSpec keep group raw kept := by
  unfold pruneSpecB PruneSpec
  rw [Bool.and_eq_true, List.isSublist_iff_sublist, List.all_eq_true]
  constructor
  · rintro ⟨h1, h2⟩
    refine ⟨h1, fun m hm => ?_⟩
    have := h2 m hm
    rw [Bool.or_eq_true, List.contains_iff_mem, List.any_eq_true] at this
    rcases this with h | ⟨m', hm', hr⟩
    · exact Or.inl h
    · exact Or.inr ⟨m', hm', (relatedB_iff _ _ _ _).1 hr⟩
  · rintro ⟨h1, h2⟩
    refine ⟨h1, fun m hm => ?_⟩
    rw [Bool.or_eq_true, List.contains_iff_mem, List.any_eq_true]
    rcases h2 m hm with h | ⟨m', hm', hr⟩
    · exact Or.inl h
    · exact Or.inr ⟨m', hm', (relatedB_iff _ _ _ _).2 hr⟩

/-- Related matches glue to the same reactions. -/
theorem related_glue {E : R → R → Prop} (hE : Equivalence E) (glue : Mapping → List R)
    (keep : List Nat) (group : List Mapping) (hinv : GlueAutInvariant E glue keep group)
    (m m' : Mapping) (h : Related keep group m m') : SetEqMod E (glue m) (glue m') := by
  obtain ⟨σ₁, h₁, σ₂, h₂, k, e₁, e₂⟩ := h
  exact SetEqMod.trans hE (SetEqMod.symm (hinv σ₁ h₁ m k e₁)) (hinv σ₂ h₂ m' k e₂)

/-- **Any pruning that meets `PruneSpec` is invisible in the result set.** -/
theorem pruneSpec_preserves_results {E : R → R → Prop} (hE : Equivalence E) (glue : Mapping → List R)
    (keep : List Nat) (group : List Mapping) (hinv : GlueAutInvariant E glue keep group)
    (raw kept : List Mapping) (h : PruneSpec keep group raw kept) :
    SetEqMod E (resultsOf glue kept) (resultsOf glue raw) := by
  constructor
  · apply SubsetMod.of_subset hE
    intro r hr
    obtain ⟨m, hm, hrm⟩ := List.mem_flatMap.1 hr
    exact List.mem_flatMap.2 ⟨m, h.1.subset hm, hrm⟩
  · apply SubsetMod.flatMap
    intro m hm
    rcases h.2 m hm with hk | ⟨m', hm', hr⟩
    · exact ⟨m, hk, SubsetMod.refl hE _⟩
    · exact ⟨m', hm', (related_glue hE glue keep group hinv m m' hr).1⟩

/-- The modelled (repaired) pruning meets the specification. -/
theorem pruneByAut_spec (maxGroup : Nat) (keep : List Nat) (group ms : List Mapping) :
    PruneSpec keep group ms (pruneByAut maxGroup keep group ms) := by
  refine ⟨pruneByAut_sublist maxGroup keep group ms, fun m hm => ?_⟩
  rcases pruneByAut_covers maxGroup keep group ms m hm with h | ⟨k, m', hm', hk, hk'⟩
  · exact Or.inl h
  · obtain ⟨σ₁, h₁, e₁⟩ := pruneKey_mem_orbit keep group m k hk
    obtain ⟨σ₂, h₂, e₂⟩ := pruneKey_mem_orbit keep group m' k hk'
    exact Or.inr ⟨m', hm', σ₁, h₁, σ₂, h₂, k, e₁, e₂⟩

/-- The pruning stage of a reactor is invisible in the result set. -/
def PruneSound (X : Reactor R) : Prop :=
  ∀ (dir : Bool) (host T : LGraph) (ms : List Mapping),
    SetEqMod X.equiv (resultsOf (X.glue dir host T) (X.prune dir T ms)) (resultsOf (X.glue dir host T) ms)

/-- A reactor that prunes with `pruneByAut` over any list of rule symmetries that leave the glue
result unchanged is `PruneSound`. -/
theorem pruneSound_of_aut (X : Reactor R) (hE : Equivalence X.equiv) (maxGroup : Nat)
    (keepN : Bool → LGraph → List Nat) (grp : Bool → LGraph → List Mapping)
    (hprune : ∀ dir T ms, X.prune dir T ms = pruneByAut maxGroup (keepN dir T) (grp dir T) ms)
    (hinv : ∀ dir host T, GlueAutInvariant X.equiv (X.glue dir host T) (keepN dir T) (grp dir T)) :
    PruneSound X := by
  intro dir host T ms
  rw [hprune]
  exact prune_preserves_results hE _ maxGroup _ _ (hinv dir host T) ms

/-! ### The full statement -/

/-- **C05 at full strength** for a reactor `X` (Appendix A of DESIGN.md; the third clause is the
property's own wording — "returns the component-aware result whenever that is non-empty" — plus the
fall-back when the component-aware *search* is empty; the draft's `if (results comp).isEmpty` would
ask more than the property does when matches exist but none renders).  Repetition of a call is
covered by `results` being a function. -/
def C05.FullStatement (X : Reactor R) : Prop :=
  ∀ (dir : Bool) (host T : LGraph),
    (∀ (s : Strategy) (f π : Nat → Nat), Function.Injective f → Function.Injective π →
      SetEqMod X.equiv (X.results s dir (host.relabel f) (T.relabel π)) (X.results s dir host T)) ∧
    SubsetMod X.equiv (X.results .comp dir host T) (X.results .all dir host T) ∧
    (X.results .comp dir host T ≠ [] → X.results .bt dir host T = X.results .comp dir host T) ∧
    (X.search .comp host (X.pattern dir T) = [] → X.results .bt dir host T = X.results .all dir host T)

/-- **C05, proved part.** The full statement holds for every reactor whose exhaustive search is
the proven enumerator, whose fallback search is `searchBt`, whose component-aware search returns
exhaustive matches and is equivariant (C06), whose pattern preparation and glue step are
equivariant (C03) and whose pruning is sound (`pruneSound_of_aut`, i.e. the repaired pruning).
Missing: the discharge of these hypotheses for the concrete stages (named in the module doc). -/
theorem C05.statement_partial (X : Reactor R) (hE : Equivalence X.equiv)
    (hall : ∀ H P, X.search .all H P = allMonos X.sel H P)
    (hbt : ∀ H P, X.search .bt H P = searchBt (X.search .comp H P) (X.search .all H P))
    (hcompSub : ∀ H P m, m ∈ X.search .comp H P → m ∈ X.search .all H P)
    (hcompEq : SearchEquivariant (X.search .comp))
    (hpat : PatternEquivariant X) (hglue : GlueEquivariant X) (hprune : PruneSound X) :
    C05.FullStatement X := by
  have hallEq : SearchEquivariant (X.search .all) := by
    have : X.search .all = allMonos X.sel := by funext H P; exact hall H P
    rw [this]; exact allMonos_searchEquivariant X.sel
  have hbtEq : SearchEquivariant (X.search .bt) := by
    have : X.search .bt = fun H P => searchBt (X.search .comp H P) (X.search .all H P) := by
      funext H P; exact hbt H P
    rw [this]; exact searchBt_equivariant hcompEq hallEq
  have hres : ∀ s dir host T, SetEqMod X.equiv (X.results s dir host T) (X.resultsUnpruned s dir host T) := by
    intro s dir host T
    exact hprune dir host T _
  intro dir host T
  refine ⟨?_, ?_, ?_, ?_⟩
  · intro s f π hf hπ
    have hs : SearchEquivariant (X.search s) := by cases s <;> assumption
    exact SetEqMod.trans hE (hres s dir _ _)
      (SetEqMod.trans hE (results_invariant_unpruned X hpat hglue s hs dir host T f π hf hπ)
        (SetEqMod.symm (hres s dir host T)))
  · refine SubsetMod.trans hE (hres .comp dir host T).1 (SubsetMod.trans hE ?_ (hres .all dir host T).2)
    apply SubsetMod.of_subset hE
    exact comp_subset_all _ _ _ (hcompSub host (X.pattern dir T))
  · intro hne
    have hc : X.search .comp host (X.pattern dir T) ≠ [] := by
      intro e
      apply hne
      have := (hprune dir host T (X.search .comp host (X.pattern dir T))).1
      unfold Reactor.results Reactor.kept
      rw [e] at this ⊢
      exact SubsetMod.nil_right (E := X.equiv) (by simpa [resultsOf] using this)
    unfold Reactor.results Reactor.kept
    rw [hbt]
    unfold searchBt
    cases h : X.search .comp host (X.pattern dir T) with
    | nil => exact absurd h hc
    | cons a rest => simp
  · intro he
    unfold Reactor.results Reactor.kept
    rw [hbt, he]
    simp [searchBt]

/-! ### Non-vacuity -/

section Examples

private def host3 : LGraph :=
  { nodes := [(1, [("element", .str "C"), ("hcount", .num 6)]), (2, [("element", .str "C"), ("hcount", .num 4)]),
              (3, [("element", .str "O"), ("hcount", .num 2)])],
    edges := [(1, 2, [("order", .num 2)]), (2, 3, [("order", .num 2)])] }

private def patCO : LGraph :=
  { nodes := [(10, [("element", .str "C"), ("hcount", .num 2)]), (11, [("element", .str "O")])],
    edges := [(10, 11, [("order", .num 2)])] }

private def selEO : Sel := { nodeKeys := ["element"], edgeKeys := ["order"] }

/-- The hypotheses of the relabelling theorems are satisfiable on a non-trivial input: the C–O
pattern has exactly one match in ethanol, and after renumbering host (+7) and pattern (+100) the
only match is its renumbering. -/
example : allMonos selEO host3 patCO = [[(10, 2), (11, 3)]] := by decide

example : allMonos selEO (host3.relabel (· + 7)) (patCO.relabel (· + 100)) = [[(110, 9), (111, 10)]] := by decide

example : relabelHost (· + 7) (relabelPat (· + 100) [(10, 2), (11, 3)]) = [(110, 9), (111, 10)] := by decide

/-- Pruning on a concrete symmetric situation: the pattern C–C (nodes 1,2) with the swap as a
rule automorphism; the two matches onto the same host bond are merged, the match onto another
bond is kept. -/
example : pruneByAut 5040 [1, 2] [[(1, 1), (2, 2)], [(1, 2), (2, 1)]]
    [[(1, 5), (2, 6)], [(1, 6), (2, 5)], [(1, 6), (2, 7)]] = [[(1, 5), (2, 6)], [(1, 6), (2, 7)]] := by decide

/-- … and with the identity as the only rule automorphism (the rule distinguishes its two atoms,
as the Suzuki rule does) nothing is merged: the behaviour whose absence was finding F11. -/
example : pruneByAut 5040 [1, 2] [[(1, 1), (2, 2)]]
    [[(1, 5), (2, 6)], [(1, 6), (2, 5)]] = [[(1, 5), (2, 6)], [(1, 6), (2, 5)]] := by decide

/-- `prune_preserves_results` applies to a concrete match list (with a glue step that renders every
match to the same reaction, trivially invariant under the swap): hypotheses satisfiable, conclusion
about a list that really shrinks (3 raw matches, 2 kept). -/
example : SetEqMod (· = ·)
    (resultsOf (fun _ : Mapping => [0]) (pruneByAut 5040 [1, 2] [[(1, 1), (2, 2)], [(1, 2), (2, 1)]]
      [[(1, 5), (2, 6)], [(1, 6), (2, 5)], [(1, 6), (2, 7)]]))
    (resultsOf (fun _ : Mapping => [0]) [[(1, 5), (2, 6)], [(1, 6), (2, 5)], [(1, 6), (2, 7)]]) :=
  prune_preserves_results ⟨fun _ => rfl, fun h => h.symm, fun h1 h2 => h1.trans h2⟩ _ 5040 [1, 2] _
    (fun _ _ _ _ _ => SetEqMod.refl ⟨fun _ => rfl, fun h => h.symm, fun h1 h2 => h1.trans h2⟩ _) _

/-- A concrete reactor satisfying every hypothesis of `C05.statement_partial` (each match
renders to the number of pattern nodes it covers, a renumbering-invariant quantity), so the theorem
is not vacuous. -/
private def toyX : Reactor Nat where
  sel := selEO
  pattern := fun _ T => T
  search := fun _ H P => allMonos selEO H P
  prune := fun _ _ ms => ms
  glue := fun _ _ _ m => [m.length]
  equiv := fun a b => a = b

example : C05.FullStatement toyX := by
  apply C05.statement_partial toyX ⟨fun _ => rfl, fun h => h.symm, fun h1 h2 => h1.trans h2⟩
  · intro H P; rfl
  · intro H P; simp [toyX, searchBt]
  · intro H P m h; exact h
  · exact allMonos_searchEquivariant selEO
  · intro dir T π _; rfl
  · intro dir host T f π m _ _
    simp only [toyX, relabelHost, relabelPat, List.length_map]
    exact SetEqMod.refl ⟨fun _ => rfl, fun h => h.symm, fun h1 h2 => h1.trans h2⟩ _
  · intro dir host T ms
    exact SetEqMod.refl ⟨fun _ => rfl, fun h => h.symm, fun h1 h2 => h1.trans h2⟩ _

end Examples

end SynKit.ReactorInv

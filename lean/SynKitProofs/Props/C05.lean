import SynKitProofs.ReactorInvLemmas
import SynKitProofs.ReactorLink
import SynKitProofs.SubgraphSearchEquiv
import SynKitProofs.Props.C06
/-!
# C05 — rule application depends on the chemistry only, not on how inputs are written

Property text: *the set of distinct reactions produced by rule application is unchanged when the
substrate SMILES is rewritten, when the template's atom-map numbers are permuted, and when the call
is repeated; the component-aware strategy returns a subset of the exhaustive strategy and the
fallback strategy returns the component-aware result whenever that is non-empty.*

Rewriting a SMILES / permuting atom maps renumbers the nodes of the substrate graph / the template
graph: `host.relabel f`, `T.relabel π` with `f`, `π` injective.  Repetition is trivial in a pure
model (`results` is a function).  Rule application is the pipeline of `SynKitModel/ReactorInv.lean`
over an abstract reactor `X` (search, prune, glue as parameters).

What is proved here, for all graphs and all injective renumberings:

* `allMonos_relabel_host`, `allMonos_relabel_pattern` — match sets of the exhaustive search
  correspond bijectively under relabelling (no hypothesis beyond injectivity);
* `results_invariant_unpruned` — un-pruned results are invariant for ANY equivariant glue step and
  any equivariant search (`GlueEquivariant`, `PatternEquivariant` are named hypotheses: they are
  statements about C03's glue model and are discharged there at integration);
* `comp_subset_all`, `bt_def`, `bt_subset_all` — strategy relations at the level of result lists;
* `prune_sound_of_aut`, `prune_preserves_results` — the repaired pruning (draft fix 0015: one
  representative per class of matches related by an automorphism of the rule) never changes the set
  of results, given that composing a match with a rule automorphism does not change what it glues
  to (`GlueAutInvariant`, again a statement about the glue model);
* `C05.statement_partial` — `C05.FullStatement X` for every reactor whose stages satisfy the named
  hypotheses.  Missing for the unconditional statement: the instantiation of `X` with the concrete
  glue / pattern-preparation model of C03 and the component-aware search of C06, i.e. proofs of
  `GlueEquivariant`, `PatternEquivariant`, `SearchEquivariant comp`, `GlueAutInvariant`;
* these are supplied in the last section of this file ("Instantiation with the concrete glue model"):
  `C05.statement_concrete` is `C05.FullStatement` for the modelled implicit path with no hypothesis.

The pruning as coded before fix 0015 (orbits and anchor of the left-hand pattern alone, ties broken
by node id) does NOT satisfy `PruneSound`; the implementation-level check `harness/props/c05.py`
exhibits the Suzuki witness (`regress/C05/`).
-/
namespace SynKit.ReactorInv
open SynKit SynKit.Match

variable {R : Type}

/-! ### Clause 1a: match sets under relabelling -/

/-- **C05 (engine level, host side).** `m` is a match into the renumbered host iff it is the
renumbering of a match into the host. -/
theorem allMonos_relabel_host (sel : Sel) (H P : LGraph) (f : Nat → Nat) (hf : Function.Injective f) (m : Mapping) :
    m ∈ allMonos sel (H.relabel f) P ↔ ∃ m₀ ∈ allMonos sel H P, m = relabelHost f m₀ := by
  rw [allMonos_relabel_host_list hf, List.mem_map]
  constructor
  · rintro ⟨m₀, h, rfl⟩; exact ⟨m₀, h, rfl⟩
  · rintro ⟨m₀, h, rfl⟩; exact ⟨m₀, h, rfl⟩

/-- **C05 (engine level, pattern side).** -/
theorem allMonos_relabel_pattern (sel : Sel) (H P : LGraph) (π : Nat → Nat) (hπ : Function.Injective π) (m : Mapping) :
    m ∈ allMonos sel H (P.relabel π) ↔ ∃ m₀ ∈ allMonos sel H P, m = relabelPat π m₀ := by
  rw [allMonos_relabel_pattern_list hπ, List.mem_map]
  constructor
  · rintro ⟨m₀, h, rfl⟩; exact ⟨m₀, h, rfl⟩
  · rintro ⟨m₀, h, rfl⟩; exact ⟨m₀, h, rfl⟩

/-- The correspondence is a bijection: relabelling a match by injective maps is injective. -/
theorem relabel_match_injective (f π : Nat → Nat) (hf : Function.Injective f) (hπ : Function.Injective π) :
    Function.Injective fun m : Mapping => relabelHost f (relabelPat π m) := by
  intro a b h
  simp only [relabelHost, relabelPat, List.map_map] at h
  induction a generalizing b with
  | nil => cases b with
    | nil => rfl
    | cons _ _ => cases h
  | cons x xs ih => cases b with
    | nil => cases h
    | cons y ys =>
      simp only [List.map_cons, List.cons.injEq, Function.comp, Prod.mk.injEq] at h
      obtain ⟨⟨h1, h2⟩, h3⟩ := h
      have : x = y := Prod.ext (hπ h1) (hf h2)
      rw [this, ih h3]

/-- Number of matches is a chemistry-only quantity. -/
theorem allMonos_relabel_length (sel : Sel) (H P : LGraph) (f π : Nat → Nat)
    (hf : Function.Injective f) (hπ : Function.Injective π) :
    (allMonos sel (H.relabel f) (P.relabel π)).length = (allMonos sel H P).length := by
  rw [allMonos_relabel_host_list hf, allMonos_relabel_pattern_list hπ, List.length_map, List.length_map]

/-! ### Clause 1b: results without pruning -/

/-- Pattern preparation commutes with renumbering the template (statement about `SynRule` /
`h_to_implicit`; discharged by C03's model). -/
def PatternEquivariant (X : Reactor R) : Prop :=
  ∀ (dir : Bool) (T : LGraph) (π : Nat → Nat), Function.Injective π →
    X.pattern dir (T.relabel π) = (X.pattern dir T).relabel π

/-- Gluing the renumbered match onto the renumbered host with the renumbered template gives the
same reactions (statement about `_glue_graph` … `_to_smarts`; discharged by C03's model). -/
def GlueEquivariant (X : Reactor R) : Prop :=
  ∀ (dir : Bool) (host T : LGraph) (f π : Nat → Nat) (m : Mapping), Function.Injective f → Function.Injective π →
    SetEqMod X.equiv (X.glue dir (host.relabel f) (T.relabel π) (relabelHost f (relabelPat π m))) (X.glue dir host T m)

/-- **C05 clause 1 without pruning.** For any equivariant search, pattern preparation and glue
step, gluing every raw match gives the same set of reactions whatever the numbering of substrate and
template. -/
theorem results_invariant_unpruned (X : Reactor R)
    (hpat : PatternEquivariant X) (hglue : GlueEquivariant X)
    (s : Strategy) (hs : SearchEquivariant (X.search s))
    (dir : Bool) (host T : LGraph) (f π : Nat → Nat) (hf : Function.Injective f) (hπ : Function.Injective π) :
    SetEqMod X.equiv (X.resultsUnpruned s dir (host.relabel f) (T.relabel π)) (X.resultsUnpruned s dir host T) := by
  unfold Reactor.resultsUnpruned resultsOf
  rw [hpat dir T π hπ]
  constructor
  · apply SubsetMod.flatMap
    intro m hm
    obtain ⟨m₀, hm₀, rfl⟩ := (hs host (X.pattern dir T) f π hf hπ m).1 hm
    exact ⟨m₀, hm₀, (hglue dir host T f π m₀ hf hπ).1⟩
  · apply SubsetMod.flatMap
    intro m₀ hm₀
    exact ⟨_, (hs host (X.pattern dir T) f π hf hπ _).2 ⟨m₀, hm₀, rfl⟩, (hglue dir host T f π m₀ hf hπ).2⟩

/-! ### Clause 2 and 3: strategies (over abstract match lists) -/

/-- **C05 clause 2.** If every component-aware match is an exhaustive match, every component-aware
result is an exhaustive result. -/
theorem comp_subset_all (glue : Mapping → List R) (comp all : List Mapping) (h : ∀ m ∈ comp, m ∈ all) :
    ∀ r ∈ resultsOf glue comp, r ∈ resultsOf glue all := by
  intro r hr
  obtain ⟨m, hm, hrm⟩ := List.mem_flatMap.1 hr
  exact List.mem_flatMap.2 ⟨m, h m hm, hrm⟩

/-- **C05 clause 3.** The fallback strategy is the component-aware one when that found something,
the exhaustive one otherwise. -/
theorem bt_def (glue : Mapping → List R) (comp all : List Mapping) :
    resultsOf glue (searchBt comp all) = if comp = [] then resultsOf glue all else resultsOf glue comp := by
  unfold searchBt
  cases comp <;> simp

theorem bt_subset_all (glue : Mapping → List R) (comp all : List Mapping) (h : ∀ m ∈ comp, m ∈ all) :
    ∀ r ∈ resultsOf glue (searchBt comp all), r ∈ resultsOf glue all := by
  rw [bt_def]
  split
  · exact fun r hr => hr
  · exact comp_subset_all glue comp all h

/-! ### Pruning (repaired, draft fix 0015) -/

/-- Composing a match with an automorphism of the rule does not change what it glues to
(C11's `prune_sound_of_aut` premise: a statement about the glue model). -/
def GlueAutInvariant (E : R → R → Prop) (glue : Mapping → List R) (keep : List Nat) (group : List Mapping) : Prop :=
  ∀ σ ∈ group, ∀ m k, composeOn keep m σ = some k → SetEqMod E (glue k) (glue m)

/-- **Pruning is sound (shape statement over the group action).** Two matches with the same
pruning key — i.e. with a common image under the listed automorphisms — glue to the same
reactions. No group axiom is needed for soundness. -/
theorem prune_sound_of_aut {E : R → R → Prop} (hE : Equivalence E) (glue : Mapping → List R)
    (keep : List Nat) (group : List Mapping) (hinv : GlueAutInvariant E glue keep group)
    (m₁ m₂ k : Mapping) (h₁ : pruneKey keep group m₁ = some k) (h₂ : pruneKey keep group m₂ = some k) :
    SetEqMod E (glue m₁) (glue m₂) := by
  obtain ⟨σ₁, hσ₁, e₁⟩ := pruneKey_mem_orbit keep group m₁ k h₁
  obtain ⟨σ₂, hσ₂, e₂⟩ := pruneKey_mem_orbit keep group m₂ k h₂
  exact SetEqMod.trans hE (SetEqMod.symm (hinv σ₁ hσ₁ m₁ k e₁)) (hinv σ₂ hσ₂ m₂ k e₂)

/-- **C11/C05 pruning clause for the repaired code.** Pruning never changes the set of distinct
reactions compared with gluing every raw match. -/
theorem prune_preserves_results {E : R → R → Prop} (hE : Equivalence E) (glue : Mapping → List R)
    (maxGroup : Nat) (keep : List Nat) (group : List Mapping) (hinv : GlueAutInvariant E glue keep group)
    (ms : List Mapping) :
    SetEqMod E (resultsOf glue (pruneByAut maxGroup keep group ms)) (resultsOf glue ms) := by
  constructor
  · apply SubsetMod.of_subset hE
    intro r hr
    obtain ⟨m, hm, hrm⟩ := List.mem_flatMap.1 hr
    exact List.mem_flatMap.2 ⟨m, (pruneByAut_sublist maxGroup keep group ms).subset hm, hrm⟩
  · apply SubsetMod.flatMap
    intro m hm
    rcases pruneByAut_covers maxGroup keep group ms m hm with h | ⟨k, m', hm', hk, hk'⟩
    · exact ⟨m, h, SubsetMod.refl hE _⟩
    · exact ⟨m', hm', (prune_sound_of_aut hE glue keep group hinv m m' k hk hk').1⟩

/-! #### Pruning specified rather than computed

How much a pruning removes is incidental; what the property needs is `PruneSpec`: the kept list is
a sub-list of the raw matches and every raw match is kept or *related* to a kept one (common image
under the rule automorphisms).  The implementation-level check evaluates `pruneSpecB` on what the
real pruning kept (`rinv.prune_spec`), so a pruning that removes less — or chooses other
representatives — stays silent, one that removes an unrelated match does not. -/

theorem relatedB_iff (keep : List Nat) (group : List Mapping) (m m' : Mapping) :
    relatedB keep group m m' = true ↔ Related keep group m m' := by
  unfold relatedB Related
  rw [List.any_eq_true]
  constructor
  · rintro ⟨σ₁, h₁, h⟩
    cases hk : composeOn keep m σ₁ with
    | none => rw [hk] at h; cases h
    | some k =>
      rw [hk] at h
      simp only [List.any_eq_true, decide_eq_true_eq] at h
      obtain ⟨σ₂, h₂, e⟩ := h
      exact ⟨σ₁, h₁, σ₂, h₂, k, hk, e⟩
  · rintro ⟨σ₁, h₁, σ₂, h₂, k, e₁, e₂⟩
    refine ⟨σ₁, h₁, ?_⟩
    rw [e₁]
    simp only [List.any_eq_true, decide_eq_true_eq]
    exact ⟨σ₂, h₂, e₂⟩

theorem pruneSpecB_iff (keep : List Nat) (group raw kept : List Mapping) :
    pruneSpecB keep group raw kept = true ↔ PruneSpec keep group raw kept := by
  unfold pruneSpecB PruneSpec
  rw [Bool.and_eq_true, List.isSublist_iff_sublist, List.all_eq_true]
  constructor
  · rintro ⟨h1, h2⟩
    refine ⟨h1, fun m hm => ?_⟩
    have := h2 m hm
    rw [Bool.or_eq_true, List.contains_iff_mem, List.any_eq_true] at this
    rcases this with h | ⟨m', hm', hr⟩
    · exact Or.inl h
    · exact Or.inr ⟨m', hm', (relatedB_iff _ _ _ _).1 hr⟩
  · rintro ⟨h1, h2⟩
    refine ⟨h1, fun m hm => ?_⟩
    rw [Bool.or_eq_true, List.contains_iff_mem, List.any_eq_true]
    rcases h2 m hm with h | ⟨m', hm', hr⟩
    · exact Or.inl h
    · exact Or.inr ⟨m', hm', (relatedB_iff _ _ _ _).2 hr⟩

/-- Related matches glue to the same reactions. -/
theorem related_glue {E : R → R → Prop} (hE : Equivalence E) (glue : Mapping → List R)
    (keep : List Nat) (group : List Mapping) (hinv : GlueAutInvariant E glue keep group)
    (m m' : Mapping) (h : Related keep group m m') : SetEqMod E (glue m) (glue m') := by
  obtain ⟨σ₁, h₁, σ₂, h₂, k, e₁, e₂⟩ := h
  exact SetEqMod.trans hE (SetEqMod.symm (hinv σ₁ h₁ m k e₁)) (hinv σ₂ h₂ m' k e₂)

/-- **Any pruning that meets `PruneSpec` is invisible in the result set.** -/
theorem pruneSpec_preserves_results {E : R → R → Prop} (hE : Equivalence E) (glue : Mapping → List R)
    (keep : List Nat) (group : List Mapping) (hinv : GlueAutInvariant E glue keep group)
    (raw kept : List Mapping) (h : PruneSpec keep group raw kept) :
    SetEqMod E (resultsOf glue kept) (resultsOf glue raw) := by
  constructor
  · apply SubsetMod.of_subset hE
    intro r hr
    obtain ⟨m, hm, hrm⟩ := List.mem_flatMap.1 hr
    exact List.mem_flatMap.2 ⟨m, h.1.subset hm, hrm⟩
  · apply SubsetMod.flatMap
    intro m hm
    rcases h.2 m hm with hk | ⟨m', hm', hr⟩
    · exact ⟨m, hk, SubsetMod.refl hE _⟩
    · exact ⟨m', hm', (related_glue hE glue keep group hinv m m' hr).1⟩

/-- The modelled (repaired) pruning meets the specification. -/
theorem pruneByAut_spec (maxGroup : Nat) (keep : List Nat) (group ms : List Mapping) :
    PruneSpec keep group ms (pruneByAut maxGroup keep group ms) := by
  refine ⟨pruneByAut_sublist maxGroup keep group ms, fun m hm => ?_⟩
  rcases pruneByAut_covers maxGroup keep group ms m hm with h | ⟨k, m', hm', hk, hk'⟩
  · exact Or.inl h
  · obtain ⟨σ₁, h₁, e₁⟩ := pruneKey_mem_orbit keep group m k hk
    obtain ⟨σ₂, h₂, e₂⟩ := pruneKey_mem_orbit keep group m' k hk'
    exact Or.inr ⟨m', hm', σ₁, h₁, σ₂, h₂, k, e₁, e₂⟩

/-- The pruning stage of a reactor is invisible in the result set. -/
def PruneSound (X : Reactor R) : Prop :=
  ∀ (dir : Bool) (host T : LGraph) (ms : List Mapping),
    SetEqMod X.equiv (resultsOf (X.glue dir host T) (X.prune dir T ms)) (resultsOf (X.glue dir host T) ms)

/-- A reactor that prunes with `pruneByAut` over any list of rule symmetries that leave the glue
result unchanged is `PruneSound`. -/
theorem pruneSound_of_aut (X : Reactor R) (hE : Equivalence X.equiv) (maxGroup : Nat)
    (keepN : Bool → LGraph → List Nat) (grp : Bool → LGraph → List Mapping)
    (hprune : ∀ dir T ms, X.prune dir T ms = pruneByAut maxGroup (keepN dir T) (grp dir T) ms)
    (hinv : ∀ dir host T, GlueAutInvariant X.equiv (X.glue dir host T) (keepN dir T) (grp dir T)) :
    PruneSound X := by
  intro dir host T ms
  rw [hprune]
  exact prune_preserves_results hE _ maxGroup _ _ (hinv dir host T) ms

/-! ### The full statement -/

/-- **C05 at full strength** for a reactor `X` (Appendix A of DESIGN.md; the third clause is the
property's own wording — "returns the component-aware result whenever that is non-empty" — plus the
fall-back when the component-aware *search* is empty; the draft's `if (results comp).isEmpty` would
ask more than the property does when matches exist but none renders).  Repetition of a call is
covered by `results` being a function. -/
def C05.FullStatement (X : Reactor R) : Prop :=
  ∀ (dir : Bool) (host T : LGraph),
    (∀ (s : Strategy) (f π : Nat → Nat), Function.Injective f → Function.Injective π →
      SetEqMod X.equiv (X.results s dir (host.relabel f) (T.relabel π)) (X.results s dir host T)) ∧
    SubsetMod X.equiv (X.results .comp dir host T) (X.results .all dir host T) ∧
    (X.results .comp dir host T ≠ [] → X.results .bt dir host T = X.results .comp dir host T) ∧
    (X.search .comp host (X.pattern dir T) = [] → X.results .bt dir host T = X.results .all dir host T)

/-- **C05, proved part.** The full statement holds for every reactor whose exhaustive search is
the proven enumerator, whose fallback search is `searchBt`, whose component-aware search returns
exhaustive matches and is equivariant (C06), whose pattern preparation and glue step are
equivariant (C03) and whose pruning is sound (`pruneSound_of_aut`, i.e. the repaired pruning).
Missing: the discharge of these hypotheses for the concrete stages (named in the module doc). -/
theorem C05.statement_partial (X : Reactor R) (hE : Equivalence X.equiv)
    (hall : ∀ H P, X.search .all H P = allMonos X.sel H P)
    (hbt : ∀ H P, X.search .bt H P = searchBt (X.search .comp H P) (X.search .all H P))
    (hcompSub : ∀ H P m, m ∈ X.search .comp H P → m ∈ X.search .all H P)
    (hcompEq : SearchEquivariant (X.search .comp))
    (hpat : PatternEquivariant X) (hglue : GlueEquivariant X) (hprune : PruneSound X) :
    C05.FullStatement X := by
  have hallEq : SearchEquivariant (X.search .all) := by
    have : X.search .all = allMonos X.sel := by funext H P; exact hall H P
    rw [this]; exact allMonos_searchEquivariant X.sel
  have hbtEq : SearchEquivariant (X.search .bt) := by
    have : X.search .bt = fun H P => searchBt (X.search .comp H P) (X.search .all H P) := by
      funext H P; exact hbt H P
    rw [this]; exact searchBt_equivariant hcompEq hallEq
  have hres : ∀ s dir host T, SetEqMod X.equiv (X.results s dir host T) (X.resultsUnpruned s dir host T) := by
    intro s dir host T
    exact hprune dir host T _
  intro dir host T
  refine ⟨?_, ?_, ?_, ?_⟩
  · intro s f π hf hπ
    have hs : SearchEquivariant (X.search s) := by cases s <;> assumption
    exact SetEqMod.trans hE (hres s dir _ _)
      (SetEqMod.trans hE (results_invariant_unpruned X hpat hglue s hs dir host T f π hf hπ)
        (SetEqMod.symm (hres s dir host T)))
  · refine SubsetMod.trans hE (hres .comp dir host T).1 (SubsetMod.trans hE ?_ (hres .all dir host T).2)
    apply SubsetMod.of_subset hE
    exact comp_subset_all _ _ _ (hcompSub host (X.pattern dir T))
  · intro hne
    have hc : X.search .comp host (X.pattern dir T) ≠ [] := by
      intro e
      apply hne
      have := (hprune dir host T (X.search .comp host (X.pattern dir T))).1
      unfold Reactor.results Reactor.kept
      rw [e] at this ⊢
      exact SubsetMod.nil_right (E := X.equiv) (by simpa [resultsOf] using this)
    unfold Reactor.results Reactor.kept
    rw [hbt]
    unfold searchBt
    cases h : X.search .comp host (X.pattern dir T) with
    | nil => exact absurd h hc
    | cons a rest => simp
  · intro he
    unfold Reactor.results Reactor.kept
    rw [hbt, he]
    simp [searchBt]

/-! ### Non-vacuity -/

section Examples

private def host3 : LGraph :=
  { nodes := [(1, [("element", .str "C"), ("hcount", .num 6)]), (2, [("element", .str "C"), ("hcount", .num 4)]),
              (3, [("element", .str "O"), ("hcount", .num 2)])],
    edges := [(1, 2, [("order", .num 2)]), (2, 3, [("order", .num 2)])] }

private def patCO : LGraph :=
  { nodes := [(10, [("element", .str "C"), ("hcount", .num 2)]), (11, [("element", .str "O")])],
    edges := [(10, 11, [("order", .num 2)])] }

private def selEO : Sel := { nodeKeys := ["element"], edgeKeys := ["order"] }

/-- The hypotheses of the relabelling theorems are satisfiable on a non-trivial input: the C–O
pattern has exactly one match in ethanol, and after renumbering host (+7) and pattern (+100) the
only match is its renumbering. -/
example : allMonos selEO host3 patCO = [[(10, 2), (11, 3)]] := by decide

example : allMonos selEO (host3.relabel (· + 7)) (patCO.relabel (· + 100)) = [[(110, 9), (111, 10)]] := by decide

example : relabelHost (· + 7) (relabelPat (· + 100) [(10, 2), (11, 3)]) = [(110, 9), (111, 10)] := by decide

/-- Pruning on a concrete symmetric situation: the pattern C–C (nodes 1,2) with the swap as a
rule automorphism; the two matches onto the same host bond are merged, the match onto another
bond is kept. -/
example : pruneByAut 5040 [1, 2] [[(1, 1), (2, 2)], [(1, 2), (2, 1)]]
    [[(1, 5), (2, 6)], [(1, 6), (2, 5)], [(1, 6), (2, 7)]] = [[(1, 5), (2, 6)], [(1, 6), (2, 7)]] := by decide

/-- … and with the identity as the only rule automorphism (the rule distinguishes its two atoms,
as the Suzuki rule does) nothing is merged: the behaviour whose absence was finding F11. -/
example : pruneByAut 5040 [1, 2] [[(1, 1), (2, 2)]]
    [[(1, 5), (2, 6)], [(1, 6), (2, 5)]] = [[(1, 5), (2, 6)], [(1, 6), (2, 5)]] := by decide

/-- `prune_preserves_results` applies to a concrete match list (with a glue step that renders every
match to the same reaction, trivially invariant under the swap): hypotheses satisfiable, conclusion
about a list that really shrinks (3 raw matches, 2 kept). -/
example : SetEqMod (· = ·)
    (resultsOf (fun _ : Mapping => [0]) (pruneByAut 5040 [1, 2] [[(1, 1), (2, 2)], [(1, 2), (2, 1)]]
      [[(1, 5), (2, 6)], [(1, 6), (2, 5)], [(1, 6), (2, 7)]]))
    (resultsOf (fun _ : Mapping => [0]) [[(1, 5), (2, 6)], [(1, 6), (2, 5)], [(1, 6), (2, 7)]]) :=
  prune_preserves_results ⟨fun _ => rfl, fun h => h.symm, fun h1 h2 => h1.trans h2⟩ _ 5040 [1, 2] _
    (fun _ _ _ _ _ => SetEqMod.refl ⟨fun _ => rfl, fun h => h.symm, fun h1 h2 => h1.trans h2⟩ _) _

/-- A concrete reactor satisfying every hypothesis of `C05.statement_partial` (each match
renders to the number of pattern nodes it covers, a renumbering-invariant quantity), so the theorem
is not vacuous. -/
private def toyX : Reactor Nat where
  sel := selEO
  pattern := fun _ T => T
  search := fun _ H P => allMonos selEO H P
  prune := fun _ _ ms => ms
  glue := fun _ _ _ m => [m.length]
  equiv := fun a b => a = b

example : C05.FullStatement toyX := by
  apply C05.statement_partial toyX ⟨fun _ => rfl, fun h => h.symm, fun h1 h2 => h1.trans h2⟩
  · intro H P; rfl
  · intro H P; simp [toyX, searchBt]
  · intro H P m h; exact h
  · exact allMonos_searchEquivariant selEO
  · intro dir T π _; rfl
  · intro dir host T f π m _ _
    simp only [toyX, relabelHost, relabelPat, List.length_map]
    exact SetEqMod.refl ⟨fun _ => rfl, fun h => h.symm, fun h1 h2 => h1.trans h2⟩ _
  · intro dir host T ms
    exact SetEqMod.refl ⟨fun _ => rfl, fun h => h.symm, fun h1 h2 => h1.trans h2⟩ _

end Examples

/-! ## Instantiation with the concrete glue model of C03 (`SynKitProofs/ReactorLink.lean`)

`ReactorLink.concrete maxGroup comp` is the modelled implicit path of `SynReactor` as an instance
of the abstract pipeline: pattern = reactant side of the (oriented) template, exhaustive search = the
proven enumerator on `monoSel`, pruning = the repaired `pruneByAut` over the automorphisms of the
rule, glue = `Reactor.glue` (rendering nothing outside the property's domain), results compared up
to `ItsEquiv` (isomorphism of ITS graphs on label pairs and order pairs).  The named hypotheses of
the abstract development are discharged for it:

* `C05.glue_relabel_concrete` — the glue step commutes with renumbering, as an equality of graphs;
* `C05.patternEquivariant_concrete`, `C05.glueEquivariant_concrete` — `PatternEquivariant`,
  `GlueEquivariant` hold of `concrete`;
* `C05.results_list_invariant_concrete` — exhaustive strategy, no pruning: the list of ITS graphs of
  the renumbered inputs is the renumbered list (order included);
* `C05.results_invariant_concrete` — `SetEqMod ItsEquiv` form, any equivariant component search;
* `C05.glueAutInvariant_concrete` — `GlueAutInvariant` restricted to matches (for an assignment
  list with a repeated key `get?` and `preimage` read different pairs and the unrestricted statement
  fails, so `prune_preserves_results` is re-proved in the restricted form
  `prune_preserves_results_on`);
* `C05.prune_preserves_results_concrete` — the repaired pruning never changes the set of reactions;
* `C05.statement_concrete_partial` — `C05.FullStatement (concrete maxGroup comp)` for every
  component-aware search `comp` that returns exhaustive matches and is equivariant;
* `compSearch_equivariant`, `C05.statement_concrete` — both hypotheses hold of the C06 model
  `findComp` (`SubgraphSearchEquiv.lean`), hence the full statement for the concrete reactor with no
  hypothesis left.
-/
section Concrete
open SynKit.Reactor SynKit.ReactorLink

/-- **C05, glue step (a).** `_glue_graph` commutes with renumbering substrate (`f`) and template (`π`):
an equality of graphs, no hypothesis beyond injectivity. -/
theorem C05.glue_relabel_concrete {f π : Nat → Nat} (hf : Function.Injective f) (hπ : Function.Injective π)
    (dir : Bool) (host T : LGraph) (m : Mapping) :
    glue (host.relabel f) (orient dir (T.relabel π)) (relabelHost f (relabelPat π m)) =
      (glue host (orient dir T) m).relabel f :=
  glue_orient_relabel hf hπ dir host T m

/-- **`PatternEquivariant` holds of the concrete reactor.** -/
theorem C05.patternEquivariant_concrete (maxGroup : Nat) (comp : LGraph → LGraph → List Mapping) :
    PatternEquivariant (concrete maxGroup comp) :=
  fun dir T π _ => concrete_pattern_relabel maxGroup comp dir T π

theorem setEqMod_map_relabel (l : List LGraph) (hl : ∀ r ∈ l, r.WF) (f : Nat → Nat) (hf : Function.Injective f) :
    SetEqMod ItsEquiv (l.map (·.relabel f)) l := by
  constructor
  · intro x hx
    obtain ⟨r, hr, rfl⟩ := List.mem_map.1 hx
    exact ⟨r, hr, itsEquiv_relabel r (hl r hr) f hf⟩
  · intro r hr
    exact ⟨r.relabel f, List.mem_map.2 ⟨r, hr, rfl⟩, itsEquiv_equivalence.symm (itsEquiv_relabel r (hl r hr) f hf)⟩

/-- **`GlueEquivariant` holds of the concrete reactor.** -/
theorem C05.glueEquivariant_concrete (maxGroup : Nat) (comp : LGraph → LGraph → List Mapping) :
    GlueEquivariant (concrete maxGroup comp) := by
  intro dir host T f π m hf hπ
  rw [concrete_glue_relabel maxGroup comp hf hπ]
  exact setEqMod_map_relabel _ (fun r hr => concrete_glue_wf maxGroup comp dir host T m r hr) f hf

/-- **C05 clause 1, concrete, exhaustive strategy, no pruning — list form.** The ITS graphs glued
along all matches for the renumbered substrate and template are the renumbered ITS graphs, in the
same order (no well-formedness hypothesis). -/
theorem C05.results_list_invariant_concrete {f π : Nat → Nat} (hf : Function.Injective f) (hπ : Function.Injective π)
    (dir : Bool) (host T : LGraph) :
    implicitResults (host.relabel f) (orient dir (T.relabel π))
        (allMonos monoSel (host.relabel f) (left (orient dir (T.relabel π)))) =
      (implicitResults host (orient dir T) (allMonos monoSel host (left (orient dir T)))).map (·.relabel f) := by
  unfold implicitResults
  rw [allMonos_left_orient_relabel hf hπ monoSel monoSel_no_atom_map, List.map_map, List.map_map]
  apply List.map_congr_left
  intro m _
  exact glue_orient_relabel hf hπ dir host T m

theorem concrete_searchEquivariant (maxGroup : Nat) (comp : LGraph → LGraph → List Mapping)
    (hc : SearchEquivariant comp) (s : Strategy) : SearchEquivariant ((concrete maxGroup comp).search s) := by
  cases s
  · exact allMonos_searchEquivariant monoSel
  · exact hc
  · exact searchBt_equivariant hc (allMonos_searchEquivariant monoSel)

/-- **C05 clause 1, concrete, no pruning.** Un-pruned results of the concrete implicit-path reactor
are invariant under renumbering substrate and template, for the exhaustive strategy and for any
equivariant component-aware search (and the fallback built from it). -/
theorem C05.results_invariant_concrete (maxGroup : Nat) (comp : LGraph → LGraph → List Mapping)
    (hc : SearchEquivariant comp) (s : Strategy) (dir : Bool) (host T : LGraph) (f π : Nat → Nat)
    (hf : Function.Injective f) (hπ : Function.Injective π) :
    SetEqMod ItsEquiv ((concrete maxGroup comp).resultsUnpruned s dir (host.relabel f) (T.relabel π))
      ((concrete maxGroup comp).resultsUnpruned s dir host T) :=
  results_invariant_unpruned (concrete maxGroup comp) (C05.patternEquivariant_concrete maxGroup comp)
    (C05.glueEquivariant_concrete maxGroup comp) s (concrete_searchEquivariant maxGroup comp hc s) dir host T f π hf hπ

/-- … in particular for the exhaustive strategy, unconditionally. -/
theorem C05.results_invariant_concrete_all (maxGroup : Nat) (comp : LGraph → LGraph → List Mapping)
    (dir : Bool) (host T : LGraph) (f π : Nat → Nat) (hf : Function.Injective f) (hπ : Function.Injective π) :
    SetEqMod ItsEquiv ((concrete maxGroup comp).resultsUnpruned .all dir (host.relabel f) (T.relabel π))
      ((concrete maxGroup comp).resultsUnpruned .all dir host T) :=
  results_invariant_unpruned (concrete maxGroup comp) (C05.patternEquivariant_concrete maxGroup comp)
    (C05.glueEquivariant_concrete maxGroup comp) .all (allMonos_searchEquivariant monoSel) dir host T f π hf hπ

/-! ### Pruning, concrete -/

/-- `prune_preserves_results` with the invariance of the glue step demanded of the raw matches only. -/
theorem prune_preserves_results_on {E : R → R → Prop} (hE : Equivalence E) (glue : Mapping → List R)
    (maxGroup : Nat) (keep : List Nat) (group : List Mapping) (ms : List Mapping)
    (hinv : ∀ σ ∈ group, ∀ m ∈ ms, ∀ k, composeOn keep m σ = some k → SetEqMod E (glue k) (glue m)) :
    SetEqMod E (resultsOf glue (pruneByAut maxGroup keep group ms)) (resultsOf glue ms) := by
  constructor
  · apply SubsetMod.of_subset hE
    intro r hr
    obtain ⟨m, hm, hrm⟩ := List.mem_flatMap.1 hr
    exact List.mem_flatMap.2 ⟨m, (pruneByAut_sublist maxGroup keep group ms).subset hm, hrm⟩
  · apply SubsetMod.flatMap
    intro m hm
    rcases pruneByAut_covers maxGroup keep group ms m hm with h | ⟨k, m', hm', hk, hk'⟩
    · exact ⟨m, h, SubsetMod.refl hE _⟩
    · obtain ⟨σ₁, hσ₁, e₁⟩ := pruneKey_mem_orbit keep group m k hk
      obtain ⟨σ₂, hσ₂, e₂⟩ := pruneKey_mem_orbit keep group m' k hk'
      have hm'' : m' ∈ ms := (pruneByAut_sublist maxGroup keep group ms).subset hm'
      exact ⟨m', hm', (SetEqMod.trans hE (SetEqMod.symm (hinv σ₁ hσ₁ m hm k e₁)) (hinv σ₂ hσ₂ m' hm'' k e₂)).1⟩

/-- **`GlueAutInvariant`, concrete (b).** Composing a match of the prepared pattern with an
automorphism of the rule (the oriented template with its before/after labels, compared on `itsSel`)
does not change the reaction it glues to: the two ITS graphs are isomorphic (`IsIso itsSel`, inside
`ItsEquiv`; the isomorphism is the identity on the substrate's atoms, `ReactorLink.glue_aut_iso`).
Restricted to matches of the prepared pattern. -/
theorem C05.glueAutInvariant_concrete (maxGroup : Nat) (comp : LGraph → LGraph → List Mapping)
    (dir : Bool) (host T : LGraph) (m σ k : Mapping)
    (hm : WFHost host → WFTemplate (orient dir T) → IsMono monoSel host (left (orient dir T)) m)
    (hσ : σ ∈ auts itsSel (orient dir T))
    (hk : composeOn (left (orient dir T)).ids m σ = some k) :
    SetEqMod ItsEquiv ((concrete maxGroup comp).glue dir host T k) ((concrete maxGroup comp).glue dir host T m) :=
  concrete_glue_aut maxGroup comp dir host T m σ k hm hσ hk

/-- **C05/C11 pruning clause, concrete.** For the modelled reactor with the repaired pruning, pruning a
list of matches never changes the set of reactions obtained (up to isomorphism of ITS graphs). -/
theorem C05.prune_preserves_results_concrete (maxGroup : Nat) (comp : LGraph → LGraph → List Mapping)
    (dir : Bool) (host T : LGraph) (ms : List Mapping)
    (hms : ∀ m ∈ ms, WFHost host → WFTemplate (orient dir T) → IsMono monoSel host (left (orient dir T)) m) :
    SetEqMod ItsEquiv
      (resultsOf ((concrete maxGroup comp).glue dir host T) ((concrete maxGroup comp).prune dir T ms))
      (resultsOf ((concrete maxGroup comp).glue dir host T) ms) :=
  prune_preserves_results_on itsEquiv_equivalence _ maxGroup _ _ ms
    (fun σ hσ m hm k hk => concrete_glue_aut maxGroup comp dir host T m σ k (hms m hm) hσ hk)

/-- The same in the vocabulary of C03: on the property's domain, the ITS graphs glued along the
pruned matches and along all given matches are the same up to isomorphism. -/
theorem C05.prune_preserves_implicitResults (maxGroup : Nat) (host T : LGraph) (ms : List Mapping)
    (hH : WFHost host) (hT : WFTemplate T) (hms : ∀ m ∈ ms, IsMono monoSel host (left T) m) :
    SetEqMod ItsEquiv (implicitResults host T (pruneByAut maxGroup (left T).ids (auts itsSel T) ms))
      (implicitResults host T ms) := by
  have key := C05.prune_preserves_results_concrete maxGroup (fun _ _ => []) false host T ms
    (fun m hm _ _ => hms m hm)
  have hr : ∀ l : List Mapping, (∀ m ∈ l, IsMono monoSel host (left T) m) →
      resultsOf ((concrete maxGroup (fun _ _ => [])).glue false host T) l = implicitResults host T l := by
    intro l hl
    unfold resultsOf implicitResults
    induction l with
    | nil => rfl
    | cons a rest ih =>
      rw [List.flatMap_cons, List.map_cons, ih (fun m hm => hl m (List.mem_cons_of_mem _ hm)),
        concrete_glue_of_mono maxGroup _ false host T a hH hT (hl a (List.mem_cons_self ..))]
      rfl
  rw [hr ms hms] at key
  have hsub : ∀ m ∈ pruneByAut maxGroup (left T).ids (auts itsSel T) ms, IsMono monoSel host (left T) m :=
    fun m hm => hms m ((pruneByAut_sublist _ _ _ ms).subset hm)
  have := hr _ hsub
  exact this ▸ key

/-- `C05.statement_partial` with the soundness of pruning demanded only of the match lists the
searches return (what the full statement uses). -/
theorem C05.statement_of_searchPrune_partial (X : Reactor R) (hE : Equivalence X.equiv)
    (hall : ∀ H P, X.search .all H P = allMonos X.sel H P)
    (hbt : ∀ H P, X.search .bt H P = searchBt (X.search .comp H P) (X.search .all H P))
    (hcompSub : ∀ H P m, m ∈ X.search .comp H P → m ∈ X.search .all H P)
    (hcompEq : SearchEquivariant (X.search .comp))
    (hpat : PatternEquivariant X) (hglue : GlueEquivariant X)
    (hres : ∀ s dir host T, SetEqMod X.equiv (X.results s dir host T) (X.resultsUnpruned s dir host T)) :
    C05.FullStatement X := by
  have hallEq : SearchEquivariant (X.search .all) := by
    have : X.search .all = allMonos X.sel := by funext H P; exact hall H P
    rw [this]; exact allMonos_searchEquivariant X.sel
  have hbtEq : SearchEquivariant (X.search .bt) := by
    have : X.search .bt = fun H P => searchBt (X.search .comp H P) (X.search .all H P) := by
      funext H P; exact hbt H P
    rw [this]; exact searchBt_equivariant hcompEq hallEq
  intro dir host T
  refine ⟨?_, ?_, ?_, ?_⟩
  · intro s f π hf hπ
    have hs : SearchEquivariant (X.search s) := by cases s <;> assumption
    exact SetEqMod.trans hE (hres s dir _ _)
      (SetEqMod.trans hE (results_invariant_unpruned X hpat hglue s hs dir host T f π hf hπ)
        (SetEqMod.symm (hres s dir host T)))
  · refine SubsetMod.trans hE (hres .comp dir host T).1 (SubsetMod.trans hE ?_ (hres .all dir host T).2)
    apply SubsetMod.of_subset hE
    exact comp_subset_all _ _ _ (hcompSub host (X.pattern dir T))
  · intro hne
    have hc : X.search .comp host (X.pattern dir T) ≠ [] := by
      intro e
      apply hne
      have := (hres .comp dir host T).1
      unfold Reactor.resultsUnpruned at this
      rw [e] at this
      exact SubsetMod.nil_right (E := X.equiv) (by simpa [resultsOf] using this)
    unfold Reactor.results Reactor.kept
    rw [hbt]
    unfold searchBt
    cases h : X.search .comp host (X.pattern dir T) with
    | nil => exact absurd h hc
    | cons a rest => simp
  · intro he
    unfold Reactor.results Reactor.kept
    rw [hbt, he]
    simp [searchBt]

/-- Every match the concrete reactor's searches return is a match of the prepared pattern. -/
theorem concrete_search_mono (maxGroup : Nat) (comp : LGraph → LGraph → List Mapping)
    (hcompSub : ∀ H P m, m ∈ comp H P → m ∈ allMonos monoSel H P)
    (s : Strategy) (dir : Bool) (host T : LGraph) (m : Mapping)
    (hm : m ∈ (concrete maxGroup comp).search s host ((concrete maxGroup comp).pattern dir T))
    (_hH : WFHost host) (hT : WFTemplate (orient dir T)) : IsMono monoSel host (left (orient dir T)) m := by
  have hall : m ∈ allMonos monoSel host (noMap (left (orient dir T))) := by
    cases s
    · exact hm
    · exact hcompSub _ _ m hm
    · have hm' : m ∈ searchBt (comp host (noMap (left (orient dir T)))) (allMonos monoSel host (noMap (left (orient dir T)))) := hm
      unfold searchBt at hm'
      split at hm'
      · exact hm'
      · exact hcompSub _ _ m hm'
  rw [allMonos_noMap monoSel monoSel_no_atom_map] at hall
  exact (mem_allMonos monoSel host _ (left_wf _ hT) m).1 hall

/-- **C05 for the concrete reactor (`_partial`)**: `C05.FullStatement` holds of the modelled
implicit path with the repaired pruning — invariance of the result set under renumbering substrate
and template for all three strategies, component-aware ⊆ exhaustive, the fallback rule — for every
component-aware search `comp` that returns exhaustive matches and is equivariant.  All hypotheses
about glue, pattern preparation, exhaustive search and pruning are discharged; the two on `comp` are
discharged for the C06 model in `C05.statement_concrete` below. -/
theorem C05.statement_concrete_partial (maxGroup : Nat) (comp : LGraph → LGraph → List Mapping)
    (hcompSub : ∀ H P m, m ∈ comp H P → m ∈ allMonos monoSel H P)
    (hcompEq : SearchEquivariant comp) :
    C05.FullStatement (concrete maxGroup comp) := by
  apply C05.statement_of_searchPrune_partial (concrete maxGroup comp) itsEquiv_equivalence
  · intro H P; rfl
  · intro H P; rfl
  · exact hcompSub
  · exact hcompEq
  · exact C05.patternEquivariant_concrete maxGroup comp
  · exact C05.glueEquivariant_concrete maxGroup comp
  · intro s dir host T
    exact C05.prune_preserves_results_concrete maxGroup comp dir host T _
      (fun m hm hH hT => concrete_search_mono maxGroup comp hcompSub s dir host T m hm hH hT)

/-- Non-vacuity of the hypotheses on `comp`: the exhaustive enumerator itself is an admissible
component search (every strategy then coincides with the exhaustive one), so the concrete full
statement has at least this unconditional instance. -/
theorem C05.statement_concrete_exhaustive (maxGroup : Nat) :
    C05.FullStatement (concrete maxGroup (allMonos monoSel)) :=
  C05.statement_concrete_partial maxGroup (allMonos monoSel) (fun _ _ _ h => h) (allMonos_searchEquivariant monoSel)

/-! ### The component-aware and fallback strategies of the C06 model

`compSearch` (the component-aware strategy as the reactor calls it: `findComp` of the C06 model on
`monoSel`, nothing on ill-formed graphs) is defined in `SynKitModel/ReactorConcrete.lean`. -/

/-- C06 soundness: component-aware matches are exhaustive matches. -/
theorem compSearch_sub (strict : Bool) (thr : Nat) (H P : LGraph) (m : Mapping)
    (hm : m ∈ compSearch strict thr H P) : m ∈ allMonos monoSel H P := by
  unfold compSearch at hm
  split at hm
  · rename_i hw
    exact SynKit.SubgraphSearch.comp_subset_all monoSel H P hw.1 hw.2 0 strict thr m hm
  · cases hm

/-- **`SearchEquivariant` for the component-aware strategy (c)**, from the list-level equivariance
`SubgraphSearch.findComp_relabel` of the C06 model. -/
theorem compSearch_equivariant (strict : Bool) (thr : Nat) : SearchEquivariant (compSearch strict thr) := by
  intro H P f π hf hπ m
  unfold compSearch
  by_cases hw : H.WF ∧ P.WF
  · rw [if_pos hw, if_pos ⟨(relabel_WF_iff H f hf).2 hw.1, (relabel_WF_iff P π hπ).2 hw.2⟩]
    exact SynKit.SubgraphSearch.findComp_searchEquivariant monoSel 0 strict thr H P f π hf hπ m
  · rw [if_neg hw, if_neg (fun h => hw ⟨(relabel_WF_iff H f hf).1 h.1, (relabel_WF_iff P π hπ).1 h.2⟩)]
    constructor
    · intro h; cases h
    · rintro ⟨m₀, h, _⟩; cases h

/-- The component-aware search of the concrete reactor sees the pattern exactly as `its_decompose`
builds it (the erased `atom_map` is not read). -/
theorem concrete_search_comp (maxGroup : Nat) (strict : Bool) (thr : Nat) (dir : Bool) (host T : LGraph) :
    (concrete maxGroup (compSearch strict thr)).search .comp host ((concrete maxGroup (compSearch strict thr)).pattern dir T) =
      compSearch strict thr host (left (orient dir T)) := by
  show compSearch strict thr host (noMap (left (orient dir T))) = _
  unfold compSearch
  rw [SynKit.SubgraphSearch.findComp_noMap monoSel monoSel_no_atom_map]
  by_cases hw : host.WF ∧ (left (orient dir T)).WF
  · rw [if_pos hw, if_pos ⟨hw.1, (noMap_WF_iff _).2 hw.2⟩]
  · rw [if_neg hw, if_neg (fun h => hw ⟨h.1, (noMap_WF_iff _).1 h.2⟩)]

/-- **C05 for the concrete reactor**: `C05.FullStatement` holds, without any hypothesis, of the
modelled implicit path of `SynReactor` — pattern preparation and glue step of the C03 model,
exhaustive search = the proven enumerator, component-aware search = `findComp` of the C06 model
(any `strict_cc_count`, any `threshold`), fallback = component-aware if non-empty else exhaustive,
pruning = the repaired `pruneByAut` over the automorphisms of the rule (any group-size bound), results
compared up to isomorphism of ITS graphs: the result set is invariant under renumbering substrate
and template for all three strategies, component-aware ⊆ exhaustive, and the fallback rule holds.
(Outside the model: the explicit-hydrogen re-matching path, `_explicit_h`, SMILES rendering; the
exhaustive strategy is taken without its threshold.) -/
theorem C05.statement_concrete (maxGroup : Nat) (strict : Bool) (thr : Nat) :
    C05.FullStatement (concrete maxGroup (compSearch strict thr)) :=
  C05.statement_concrete_partial maxGroup (compSearch strict thr) (compSearch_sub strict thr)
    (compSearch_equivariant strict thr)

/-- **The term the driver executes.** `reactor.results` (`Driver/Reactor.lean`) runs `theReactor max_group strict threshold`
(`SynKitModel/ReactorConcrete.lean`), which is `concrete max_group (compSearch strict threshold)` by definition: the
full statement holds of exactly the object that the end-to-end correspondence stream of `harness/props/c05.py`
compares with the real `SynReactor`. -/
theorem C05.statement_theReactor (maxGroup : Nat) (strict : Bool) (thr : Nat) :
    C05.FullStatement (theReactor maxGroup strict thr) :=
  C05.statement_concrete maxGroup strict thr

/-! ### Non-vacuity of the concrete instance -/

private def cHost : LGraph :=
  { nodes := [(1, [("element", .str "C"), ("hcount", .num 6), ("charge", .num 0)]),
              (2, [("element", .str "Br"), ("hcount", .num 0), ("charge", .num 0)]),
              (3, [("element", .str "N"), ("hcount", .num 4), ("charge", .num 0)])]
    edges := [(1, 2, [("order", .num 2)])] }

/-- N(10) loses a hydrogen and bonds to C(11); C(11)–Br(12) breaks; Br gains the hydrogen. -/
private def cT : LGraph :=
  { nodes := [(10, [("typesGH", .tup [.tup [.str "N", .bool false, .num 2, .num 0, .tup []],
                                       .tup [.str "N", .bool false, .num 0, .num 0, .tup []]])]),
              (11, [("typesGH", .tup [.tup [.str "C", .bool false, .num 0, .num 0, .tup []],
                                       .tup [.str "C", .bool false, .num 0, .num 0, .tup []]])]),
              (12, [("typesGH", .tup [.tup [.str "Br", .bool false, .num 0, .num 0, .tup []],
                                       .tup [.str "Br", .bool false, .num 2, .num 0, .tup []]])])]
    edges := [(10, 11, [("order", .tup [.num 0, .num 2]), ("standard_order", .num (-2))]),
              (11, 12, [("order", .tup [.num 2, .num 0]), ("standard_order", .num 2)])] }

/-- The concrete reactor really produces something on the property's domain (guards pass, one
match, one ITS) … -/
example : WFHost cHost ∧ WFTemplate cT ∧
    (concrete 5040 (allMonos monoSel)).results .all false cHost cT = [glue cHost cT [(10, 3), (11, 1), (12, 2)]] := by
  decide

/-- … and after renumbering substrate (+7) and template (+100) it produces the renumbered ITS: the
conclusion of `C05.results_list_invariant_concrete` / `C05.statement_concrete_partial` on a concrete
non-trivial input. -/
example : (concrete 5040 (allMonos monoSel)).results .all false (cHost.relabel (· + 7)) (cT.relabel (· + 100)) =
    [(glue cHost cT [(10, 3), (11, 1), (12, 2)]).relabel (· + 7)] := by decide

/-- The component-aware and the fallback strategy of the C06 model on the same input (two host
components, two pattern components): `C05.statement_concrete` is about a reactor that really
produces results under every strategy. -/
example : (concrete 5040 (compSearch false 5000)).results .comp false cHost cT = [glue cHost cT [(10, 3), (11, 1), (12, 2)]] ∧
    (concrete 5040 (compSearch false 5000)).results .bt false cHost cT = [glue cHost cT [(10, 3), (11, 1), (12, 2)]] := by
  decide

/-- The `atom_map` obstacle is real: pattern preparation does NOT commute with renumbering literally
(so `PatternEquivariant` fails for `pattern = left`), only up to `noMap`. -/
example : left (cT.relabel (· + 100)) ≠ (left cT).relabel (· + 100) ∧
    noMap (left (cT.relabel (· + 100))) = (noMap (left cT)).relabel (· + 100) := by decide

/-- A rule with a symmetry (Br–Br homolysis, the two atoms exchangeable): two matches, two rule
automorphisms, pruning keeps one match — `C05.prune_preserves_results_concrete` applies to a list
that really shrinks. -/
private def sHost : LGraph :=
  { nodes := [(1, [("element", .str "Br"), ("hcount", .num 0), ("charge", .num 0)]),
              (2, [("element", .str "Br"), ("hcount", .num 0), ("charge", .num 0)])]
    edges := [(1, 2, [("order", .num 2)])] }

private def sT : LGraph :=
  { nodes := [(10, [("typesGH", .tup [.tup [.str "Br", .bool false, .num 0, .num 0, .tup []],
                                       .tup [.str "Br", .bool false, .num 0, .num 0, .tup []]])]),
              (11, [("typesGH", .tup [.tup [.str "Br", .bool false, .num 0, .num 0, .tup []],
                                       .tup [.str "Br", .bool false, .num 0, .num 0, .tup []]])])]
    edges := [(10, 11, [("order", .tup [.num 2, .num 0]), ("standard_order", .num 2)])] }

example : WFHost sHost ∧ WFTemplate sT ∧ (auts itsSel sT).length = 2 ∧
    ((concrete 5040 (allMonos monoSel)).resultsUnpruned .all false sHost sT).length = 2 ∧
    ((concrete 5040 (allMonos monoSel)).results .all false sHost sT).length = 1 := by decide

end Concrete

end SynKit.ReactorInv

import SynKitModel.ITS
import SynKitProofs.ITSLemmasC01
/-!
# C01 — ITS construction and decomposition are mutually inverse, relabelling-equivariant, and
reversal swaps the (before, after) pairs

Property theorems only; helper lemmas live in `SynKitProofs/ITSLemmasC01.lean`.

Only the graph-level part of C01 is proved here (on the executable model `SynKitModel/ITS.lean` of
`ITSConstruction.construct` and `its_decompose`).  The RDKit-dependent part of C01 (ITS graph →
reaction SMILES and back) is *not* proved: it rests on the run-time correspondence between the
model and the implementation that the differential driver checks.
-/
namespace SynKit.ITS
open SynKit SynKit.ITS.C01L

/-- A molecule graph as `rsmi_to_graph` produces it: simple graph, every atom carries element,
aromatic, hcount, charge, and its atom_map equals its node id (numbers are in half-units, hence
`2 * id`); every bond has a positive numeric order. -/
def MolWF (G : LGraph) : Prop :=
  G.WF ∧
  (∀ p ∈ G.nodes, (∀ k ∈ ["element", "aromatic", "hcount", "charge"], (p.2.get? k).isSome = true) ∧
      p.2.get? "atom_map" = some (.num (2 * (p.1 : Int)))) ∧
  (∀ e ∈ G.edges, ∃ h : Int, 0 < h ∧ e.2.2.get? "order" = some (.num h))

/-- Both sides of the reaction have the same atoms. -/
def SameNodes (G H : LGraph) : Prop := ∀ n, n ∈ G.ids ↔ n ∈ H.ids

/-- `≈`: equality of the node→label and edge→order finite maps on
(element, aromatic, hcount, charge, atom_map), irrespective of list order. -/
def MolEq (A B : LGraph) : Prop :=
  (∀ n, n ∈ A.ids ↔ n ∈ B.ids) ∧
  (∀ n ∈ A.ids, ∀ k ∈ molKeys, (A.attrs n).get k = (B.attrs n).get k) ∧
  (∀ u v, (A.edge? u v).map (·.get "order") = (B.edge? u v).map (·.get "order"))

/-- A well-formed ITS graph (the domain on which `its_decompose` does not raise and
`construct ∘ decompose` can be the identity): simple graph; every node has a `typesGH` pair of
tuples with at least four entries each; every edge has an `order` pair of non-negative numbers,
not both zero, and their difference as `standard_order`. -/
def ITSWF (I : LGraph) : Prop :=
  I.WF ∧
  (∀ p ∈ I.nodes, ∃ g h : List Val,
    p.2.get? "typesGH" = some (.tup [.tup g, .tup h]) ∧ 4 ≤ g.length ∧ 4 ≤ h.length) ∧
  (∀ e ∈ I.edges, ∃ a b : Int,
    e.2.2.get? "order" = some (.tup [.num a, .num b]) ∧ 0 ≤ a ∧ 0 ≤ b ∧ ¬(a = 0 ∧ b = 0) ∧
      e.2.2.get? "standard_order" = some (.num (a - b)))

/-- Equality of ITS graphs as labelled graphs, irrespective of list order: same atoms; on every
atom the first four entries (element, aromatic, hcount, charge) of both halves of `typesGH` agree
(`its_decompose` drops the fifth entry `neighbors`, so it cannot be recovered); same bonds with
equal `order` and `standard_order`. -/
def ItsEq (A B : LGraph) : Prop :=
  (∀ n, n ∈ A.ids ↔ n ∈ B.ids) ∧
  (∀ n ∈ A.ids, ∀ i < 4,
    idx (idx ((A.attrs n).get "typesGH") 0) i = idx (idx ((B.attrs n).get "typesGH") 0) i ∧
    idx (idx ((A.attrs n).get "typesGH") 1) i = idx (idx ((B.attrs n).get "typesGH") 1) i) ∧
  (∀ u v, (A.edge? u v).map (fun a => (a.get "order", a.get "standard_order")) =
    (B.edge? u v).map (fun a => (a.get "order", a.get "standard_order")))

/-! ## Clause (1): nodes of the ITS graph -/

/-- **C01 (1a).** The atoms of the ITS graph are exactly the union of the atoms of `G` and `H`. -/
theorem construct_nodes (o : Opts) (G H : LGraph) (n : Nat) :
    n ∈ (construct o G H).ids ↔ n ∈ G.ids ∨ n ∈ H.ids := construct_mem_ids o G H n

/-- **C01 (1b).** No atom appears twice. -/
theorem construct_ids_nodup (o : Opts) (G H : LGraph) (hG : G.WF) (hH : H.WF) :
    (construct o G H).ids.Nodup := construct_nodup o G H hG.1 hH.1

/-- **C01 (1c).** Every atom of the ITS graph carries as `typesGH` the pair of the `G`-side and
`H`-side tuples (element, aromatic, hcount, charge, neighbors), with the defaults on a side that
lacks the atom.  (Holds without well-formedness hypotheses.) -/
theorem construct_typesGH (o : Opts) (G H : LGraph) (n : Nat) (h : n ∈ (construct o G H).ids) :
    ((construct o G H).attrs n).get "typesGH" = .tup [.tup (sideTuple G n), .tup (sideTuple H n)] := by
  rw [get_def, construct_typesGH' o G H n h]; rfl

/-! ## Clause (2): edges of the ITS graph -/

/-- **C01 (2a).** The bonds of the ITS graph are exactly the union of the bonds of `G` and `H`
(as unordered pairs), each carrying the (before, after) pair of orders — `0` for a side that
lacks the bond — and the standard order computed from them.  (Holds without well-formedness
hypotheses: the lookup predicate is symmetric.) -/
theorem construct_edges (o : Opts) (G H : LGraph) (u v : Nat) :
    (construct o G H).edge? u v =
      if G.hasEdge u v || H.hasEdge u v
      then some (itsEdgeAttrs o.ignoreArom (orderOf G u v) (orderOf H u v)) else none :=
  construct_edge? o G H u v

/-- **C01 (2b).** The `order` entry of an ITS bond is the (before, after) pair. -/
theorem construct_order (ia : Bool) (og oh : Val) :
    (itsEdgeAttrs ia og oh).get "order" = .tup [og, oh] := itsEdgeAttrs_order ia og oh

/-- **C01 (2c).** Without `ignore_aromaticity` the `standard_order` entry of an ITS bond with
numeric orders `a` (before) and `b` (after) is the difference `a - b`. -/
theorem construct_standard_order (o : Opts) (G H : LGraph) (u v : Nat) (a b : Int)
    (hia : o.ignoreArom = false) (ha : orderOf G u v = .num a) (hb : orderOf H u v = .num b) :
    (itsEdgeAttrs o.ignoreArom (orderOf G u v) (orderOf H u v)).get "standard_order" = .num (a - b) := by
  rw [itsEdgeAttrs_std, hia, ha, hb, standardOrder_num_false]

/-- **C01 (2d).** The ITS graph of two simple graphs is a simple graph: ids distinct, every bond
joins two distinct present atoms, no parallel bonds. -/
theorem construct_wf (o : Opts) (G H : LGraph) (hG : G.WF) (hH : H.WF) : (construct o G H).WF :=
  construct_wf' o G H hG hH

/-! ## Clause (3): decomposing a constructed ITS graph gives back the two sides -/

/-- **C01 (3).** For two molecule graphs on the same atoms, `its_decompose` of the constructed ITS
graph returns graphs equal to `G` and `H` as labelled graphs (`MolEq`: same atoms with the same
element, aromatic, hcount, charge, atom_map; same bonds with the same order). -/
theorem decompose_construct (o : Opts) (G H : LGraph) (hs : SameNodes G H) (hG : MolWF G)
    (hH : MolWF H) :
    MolEq (decompose (construct o G H)).1 G ∧ MolEq (decompose (construct o G H)).2 H :=
  ⟨decompose_side o G H G _ (decompose_construct_nodes1 o G H hG.1 hH.1)
      (decompose_construct_edges1 o G H)
      (fun n => ⟨fun h => h.elim id (hs n).2, Or.inl⟩) hG.2.1 hG.2.2 (fun _ _ => Or.inl),
    decompose_side o G H H _ (decompose_construct_nodes2 o G H hG.1 hH.1)
      (decompose_construct_edges2 o G H)
      (fun n => ⟨fun h => h.elim (hs n).1 id, Or.inr⟩) hH.2.1 hH.2.2 (fun _ _ => Or.inr)⟩

/-! ## Clause (4): constructing from a decomposed ITS graph gives the ITS graph back -/

/-- **C01 (4).** For a well-formed ITS graph `I`, `construct` (default options) applied to the two
graphs `its_decompose` returns is equal to `I` as a labelled graph (`ItsEq`; the `neighbors`
entry of `typesGH`, which `its_decompose` drops, is not compared). -/
theorem construct_decompose (I : LGraph) (hI : ITSWF I) :
    ItsEq (construct {} (decompose I).1 (decompose I).2) I :=
  construct_decompose' I hI.1 hI.2.1 hI.2.2

/-! ## Clause (5): relabelling -/

/-- **C01 (5).** The construction commutes with every injective renaming of the atoms, as a
literal equality of graphs (list order included). -/
theorem construct_relabel (o : Opts) (G H : LGraph) (π : Nat → Nat) (hπ : Function.Injective π) :
    construct o (G.relabel π) (H.relabel π) = (construct o G H).relabel π :=
  construct_relabel' hπ o G H

/-! ## Clause (6): reversal -/

/-- **C01 (6a).** The reversed reaction has the same atoms. -/
theorem construct_swap_nodes (o : Opts) (G H : LGraph) (n : Nat) :
    n ∈ (construct o H G).ids ↔ n ∈ (construct o G H).ids := by
  rw [construct_nodes, construct_nodes, Or.comm]

/-- **C01 (6b).** The reversed reaction has the swapped `typesGH` pair on every atom. -/
theorem construct_swap_typesGH (o : Opts) (G H : LGraph) (n : Nat) (h : n ∈ (construct o G H).ids) :
    ∃ g h', ((construct o G H).attrs n).get "typesGH" = .tup [g, h'] ∧
      ((construct o H G).attrs n).get "typesGH" = .tup [h', g] :=
  ⟨_, _, construct_typesGH o G H n h,
    construct_typesGH o H G n ((construct_swap_nodes o H G n).1 h)⟩

/-- **C01 (6c).** The reversed reaction has the same bonds, each with the swapped order pair. -/
theorem construct_swap_edges (o : Opts) (G H : LGraph) (u v : Nat) :
    (construct o H G).edge? u v =
      if G.hasEdge u v || H.hasEdge u v
      then some (itsEdgeAttrs o.ignoreArom (orderOf H u v) (orderOf G u v)) else none := by
  rw [construct_edges, Bool.or_comm]

/-- **C01 (6d).** Swapping numeric before/after orders negates the standard order. -/
theorem construct_swap_standard_order (ia : Bool) (a b : Int) :
    (itsEdgeAttrs ia (.num b) (.num a)).get "standard_order" =
      vneg ((itsEdgeAttrs ia (.num a) (.num b)).get "standard_order") := by
  rw [itsEdgeAttrs_std, itsEdgeAttrs_std, standardOrder_swap]

/-- **C01 (6e).** Summary for molecule graphs: the ITS graph of the reversed reaction has, on
every unordered pair, the swapped `order` pair and the negated `standard_order`. -/
theorem construct_swap (o : Opts) (G H : LGraph) (hG : MolWF G) (hH : MolWF H) (u v : Nat) :
    ((construct o H G).edge? u v).map (fun x => (x.get "order", x.get "standard_order")) =
      ((construct o G H).edge? u v).map
        (fun x => (vswap (x.get "order"), vneg (x.get "standard_order"))) :=
  construct_swap' o G H hG.2.2 hH.2.2 u v

/-! ## The collected graph-level statement -/

/-- The graph-level content of C01, clauses (1)–(6), at full strength. -/
def C01.GraphStatement : Prop :=
  (∀ (o : Opts) (G H : LGraph),
    -- (1) atoms: the union, without repetition, each with the pair of per-side tuples
    (∀ n, n ∈ (construct o G H).ids ↔ n ∈ G.ids ∨ n ∈ H.ids) ∧
    (G.WF → H.WF → (construct o G H).WF) ∧
    (∀ n ∈ (construct o G H).ids, ((construct o G H).attrs n).get "typesGH" =
      .tup [.tup (sideTuple G n), .tup (sideTuple H n)]) ∧
    -- (2) bonds: the union, each with the (before, after) pair and the difference
    (∀ u v, (construct o G H).edge? u v =
      if G.hasEdge u v || H.hasEdge u v
      then some (itsEdgeAttrs o.ignoreArom (orderOf G u v) (orderOf H u v)) else none) ∧
    (∀ og oh, (itsEdgeAttrs o.ignoreArom og oh).get "order" = .tup [og, oh]) ∧
    (o.ignoreArom = false → ∀ u v a b, orderOf G u v = .num a → orderOf H u v = .num b →
      (itsEdgeAttrs o.ignoreArom (orderOf G u v) (orderOf H u v)).get "standard_order" = .num (a - b)) ∧
    -- (3) decompose ∘ construct
    (SameNodes G H → MolWF G → MolWF H →
      MolEq (decompose (construct o G H)).1 G ∧ MolEq (decompose (construct o G H)).2 H) ∧
    -- (5) relabelling
    (∀ π : Nat → Nat, Function.Injective π →
      construct o (G.relabel π) (H.relabel π) = (construct o G H).relabel π) ∧
    -- (6) reversal
    (∀ n, n ∈ (construct o H G).ids ↔ n ∈ (construct o G H).ids) ∧
    (∀ n ∈ (construct o G H).ids, ∃ g h, ((construct o G H).attrs n).get "typesGH" = .tup [g, h] ∧
      ((construct o H G).attrs n).get "typesGH" = .tup [h, g]) ∧
    (MolWF G → MolWF H → ∀ u v,
      ((construct o H G).edge? u v).map (fun x => (x.get "order", x.get "standard_order")) =
        ((construct o G H).edge? u v).map
          (fun x => (vswap (x.get "order"), vneg (x.get "standard_order"))))) ∧
  -- (4) construct ∘ decompose
  (∀ I : LGraph, ITSWF I → ItsEq (construct {} (decompose I).1 (decompose I).2) I)

/-- **C01, graph-level part.** All of the clauses hold. -/
theorem C01.graphStatement_holds : C01.GraphStatement :=
  ⟨fun o G H =>
    ⟨construct_nodes o G H, construct_wf o G H, construct_typesGH o G H, construct_edges o G H,
      construct_order o.ignoreArom,
      fun hia u v a b ha hb => construct_standard_order o G H u v a b hia ha hb,
      decompose_construct o G H, construct_relabel o G H, construct_swap_nodes o G H,
      construct_swap_typesGH o G H, construct_swap o G H⟩,
   construct_decompose⟩

/-! ## Non-vacuity: a three-atom reaction, bond 1–2 broken and bond 2–3 formed -/

namespace C01Example

def atom (el : String) (n : Nat) : Nat × Attrs :=
  (n, [("element", .str el), ("aromatic", .bool false), ("hcount", .num 0), ("charge", .num 0),
       ("atom_map", .num (2 * (n : Int)))])

/-- `[C:1][O:2].[N:3]` -/
def G : LGraph := { nodes := [atom "C" 1, atom "O" 2, atom "N" 3], edges := [(1, 2, [("order", .num 2)])] }
/-- `[C:1].[O:2][N:3]` -/
def H : LGraph := { nodes := [atom "C" 1, atom "O" 2, atom "N" 3], edges := [(2, 3, [("order", .num 2)])] }

example : MolWF G :=
  ⟨by decide, by decide, fun e he => by
    simp only [G, List.mem_singleton] at he; subst he; exact ⟨2, by decide, rfl⟩⟩

example : MolWF H :=
  ⟨by decide, by decide, fun e he => by
    simp only [H, List.mem_singleton] at he; subst he; exact ⟨2, by decide, rfl⟩⟩

example : SameNodes G H := fun _ => Iff.rfl

/-- The ITS graph has the three atoms and the two bonds, with pairs (1, 0) and (0, 1) (in
half-units: 2 and 0) and standard orders +1 and −1. -/
example : (construct {} G H).ids = [1, 2, 3] := by decide

example : (construct {} G H).edges.map (fun e => (e.1, e.2.1, e.2.2.get "order", e.2.2.get "standard_order")) =
    [(1, 2, .tup [.num 2, .num 0], .num 2), (2, 3, .tup [.num 0, .num 2], .num (-2))] := by decide

example : ((construct {} G H).attrs 2).get "typesGH" =
    .tup [.tup [.str "O", .bool false, .num 0, .num 0, .tup [.str "", .str ""]],
          .tup [.str "O", .bool false, .num 0, .num 0, .tup [.str "", .str ""]]] := by decide

/-- Decomposition gives the two sides back. -/
example : decompose (construct {} G H) = (G, H) := by decide

/-- The constructed ITS graph is in the domain of clause (4). -/
example : ITSWF (construct {} G H) :=
  ⟨by decide,
   fun p hp => by
    simp only [construct_nodes_eq, List.mem_map] at hp
    obtain ⟨q, _, rfl⟩ := hp
    exact ⟨_, _, nodeAttrs_typesGH _ _ _ _ _, by simp [sideTuple, typesKeys], by simp [sideTuple, typesKeys]⟩,
   fun e he => by
    have h : (construct {} G H).edges =
        [(1, 2, itsEdgeAttrs false (.num 2) (.num 0)), (2, 3, itsEdgeAttrs false (.num 0) (.num 2))] := by
      decide
    rw [h] at he
    simp only [List.mem_cons, List.not_mem_nil, or_false] at he
    rcases he with rfl | rfl
    · exact ⟨2, 0, rfl, by decide, by decide, by decide, rfl⟩
    · exact ⟨0, 2, rfl, by decide, by decide, by decide, rfl⟩⟩

/-- Reversal on the example: swapped pairs, negated standard orders. -/
example : (construct {} H G).edges.map (fun e => (e.1, e.2.1, e.2.2.get "order", e.2.2.get "standard_order")) =
    [(2, 3, .tup [.num 2, .num 0], .num 2), (1, 2, .tup [.num 0, .num 2], .num (-2))] := by decide

/-- Relabelling on the example (`n ↦ n + 10`). -/
example : construct {} (G.relabel (· + 10)) (H.relabel (· + 10)) = (construct {} G H).relabel (· + 10) := by
  decide

/-- Unbalanced sides: an atom present only in the product gets the default tuple on the reactant side. -/
example : ((construct {} { nodes := [atom "C" 1] } { nodes := [atom "C" 1, atom "O" 2] }).attrs 2).get "typesGH" =
    .tup [.tup [.str "*", .bool false, .num 0, .num 0, .tup [.str "", .str ""]],
          .tup [.str "O", .bool false, .num 0, .num 0, .tup [.str "", .str ""]]] := by decide

end C01Example

end SynKit.ITS
